#!/usr/bin/env python3
"""Regenerates MANIFEST.json from checks/*.json (+ the static table below)."""
import json, os, glob
ROOT = os.path.dirname(os.path.abspath(__file__))
props = [json.loads(l) for l in open(os.path.join(ROOT, "properties.jsonl"))]
ids = [p["id"] for p in props]
ACCEPTED = set(l.strip() for l in open(os.path.join(ROOT, "accepted_checks.txt")) if l.strip() and not l.startswith("#"))
checks, na = [], []
for pid in ids:
    sp = os.path.join(ROOT, "checks", pid + ".json")
    if not os.path.exists(sp):
        na.append(dict(property_id=pid, reason="check not built yet in this session (planned, see DESIGN.md section 3); nothing is claimed for it"))
        continue
    s = json.load(open(sp))
    if pid not in ACCEPTED:
        na.append(dict(property_id=pid, reason="check under construction in this session (harness exists but has not yet been accepted after a full clean run); nothing is claimed for it yet"))
        continue
    if s.get("disabled"):
        na.append(dict(property_id=pid, reason=s["disabled"]))
        continue
    c = dict(property_id=pid,
             quick_cmd="python3 /verif/run_check.py %s --tier quick" % pid,
             thorough_cmd="python3 /verif/run_check.py %s --tier thorough" % pid,
             evidence_file="/verif/evidence/%s.json" % pid,
             replay_cmd_template="python3 /verif/run_check.py %s --replay {path}" % pid,
             engine=s.get("engine", "enum"),
             level_claimed=dict(category=s["level"], text=s["level_text"], design_ref=s.get("design_ref", "DESIGN.md section 3, " + pid)),
             level_note=s["level_note"],
             technique=s["technique"])
    checks.append(c)
m = dict(
    version=1,
    setup_cmd="python3 /verif/run_check.py --setup",
    hooks=dict(guard="AMGCL_VERIF",
               enable="harness translation units are compiled with -DAMGCL_VERIF -I/repo (header-only library: 'building /repo with hooks' = compiling the harness against the working tree); no source hook exists in /repo, extension points are template arguments, -fno-access-control and ABI shims",
               baseline_off_cmd="cmake --build /repo/_build -j16 && OMP_NUM_THREADS=4 ctest --test-dir /repo/_build -j4 --timeout 900",
               source_commits=[], add_only=True),
    engines=[
        dict(name="enum", path="/verif/engine/vf.hpp", serves_properties=ids, kind_free_text="bounded-exhaustive case enumeration: case gate with sharding and replay keys, counters, violation records, evidence writer (vf.hpp), dense references and CRS builders from bit masks (mk.hpp), driver run_check.py (build against /repo, shard, merge, replay twice, known-findings matching)"),
        dict(name="vsched", path="/verif/engine/vsched.cpp", serves_properties=["C09", "C11", "C12", "C08", "C07", "C06", "C03"], kind_free_text="deterministic ucontext fiber scheduler + prefix-replay DFS explorer: preemption bound, delay bound, state-hash pruning, deadlock detection, replay of choice lists"),
        dict(name="gomp_fiber", path="/verif/engine/gomp_fiber.cpp", serves_properties=["C09", "C08", "C07", "C06", "C03"], kind_free_text="libgomp ABI subset (GOMP_parallel/barrier/critical/single, omp_get_*) on vsched fibers; thread count and schedule are harness variables; gomp_pthread.cpp = same ABI on a pthread pool for the free-running ThreadSanitizer pass; pvec.hpp = proxy vector whose element accesses are scheduling points"),
        dict(name="minimpi", path="/verif/engine/minimpi/minimpi.cpp", serves_properties=["C11", "C12"], kind_free_text="in-process model of the MPI subset used by amgcl/mpi (ranks = fibers): FIFO matching, synchronising collectives, eager/late request completion and reduction order as explorer choices, deadlock diagnostics; validated against OpenMPI by C11 unit conf"),
        dict(name="heapfill", path="/verif/engine/heapfill.cpp", serves_properties=["C10", "C17", "C20"], kind_free_text="replacement global operator new/delete: fill pattern per fresh block, poison on delete, live-block ledger; forkrun.hpp = one case (or batch) per forked child so crashes are observed outcomes"),
    ],
    checks=checks,
    not_applicable=na,
    notes="Checks rebuild their harness against /repo's working tree on every invocation (header-only library). known_findings.json lists recorded/fixed genuine defects.")
json.dump(m, open(os.path.join(ROOT, "MANIFEST.json"), "w"), indent=1)
print("checks:", [c["property_id"] for c in checks], "na:", len(na))
