#!/usr/bin/env python3
"""Regenerates MANIFEST.json from checks/*.json (+ the static table below)."""
import json, os, glob
ROOT = os.path.dirname(os.path.abspath(__file__))
props = [json.loads(l) for l in open(os.path.join(ROOT, "properties.jsonl"))]
ids = [p["id"] for p in props]
ACCEPTED = set(l.strip() for l in open(os.path.join(ROOT, "accepted_checks.txt")) if l.strip() and not l.startswith("#"))
checks, na = [], []
for pid in ids:
    sp = os.path.join(ROOT, "checks", pid + ".json")
    if not os.path.exists(sp):
        na.append(dict(property_id=pid, reason="check not built yet in this session (planned, see DESIGN.md section 3); nothing is claimed for it"))
        continue
    s = json.load(open(sp))
    if pid not in ACCEPTED:
        na.append(dict(property_id=pid, reason="check under construction in this session (harness exists but has not yet been accepted after a full clean run); nothing is claimed for it yet"))
        continue
    if s.get("disabled"):
        na.append(dict(property_id=pid, reason=s["disabled"]))
        continue
    c = dict(property_id=pid,
             quick_cmd="python3 /verif/run_check.py %s --tier quick" % pid,
             thorough_cmd="python3 /verif/run_check.py %s --tier thorough" % pid,
             evidence_file="/verif/evidence/%s.json" % pid,
             replay_cmd_template="python3 /verif/run_check.py %s --replay {path}" % pid,
             engine=s.get("engine", "enum"),
             level_claimed=dict(category=s["level"], text=s["level_text"], design_ref=s.get("design_ref", "DESIGN.md section 3, " + pid)),
             level_note=s["level_note"],
             technique=s["technique"])
    checks.append(c)
m = dict(
    version=1,
    setup_cmd="python3 /verif/run_check.py --setup",
    hooks=dict(guard="AMGCL_VERIF",
               enable="harness translation units are compiled with -DAMGCL_VERIF -I/repo (header-only library: 'building /repo with hooks' = compiling the harness against the working tree); no source hook exists in /repo, extension points are template arguments, -fno-access-control and ABI shims",
               baseline_off_cmd="cmake --build /repo/_build -j16 && OMP_NUM_THREADS=4 ctest --test-dir /repo/_build -j4 --timeout 900",
               source_commits=[], add_only=True),
    engines=[
        dict(name="enum", path="/verif/engine/vf.hpp", serves_properties=ids, kind_free_text="bounded-exhaustive case enumeration with sharding, replay keys, evidence writer (vf.hpp, mk.hpp, run_check.py)"),
        dict(name="vsched", path="/verif/engine/vsched.cpp", serves_properties=["C09", "C11", "C12", "C08"], kind_free_text="deterministic ucontext fiber scheduler + prefix-replay DFS explorer with preemption bound and state-hash pruning"),
        dict(name="gomp_fiber", path="/verif/engine/gomp_fiber.cpp", serves_properties=["C09", "C08", "C07", "C06"], kind_free_text="libgomp ABI subset (GOMP_parallel/barrier/critical/single, omp_get_*) on vsched fibers; thread count is a harness variable"),
    ],
    checks=checks,
    not_applicable=na,
    notes="Checks rebuild their harness against /repo's working tree on every invocation (header-only library). known_findings.json lists recorded/fixed genuine defects.")
json.dump(m, open(os.path.join(ROOT, "MANIFEST.json"), "w"), indent=1)
print("checks:", [c["property_id"] for c in checks], "na:", len(na))
