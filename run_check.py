#!/usr/bin/env python3
"""run_check.py -- build and run one property check against /repo's working tree.

  run_check.py Cnn --tier quick|thorough     run the check, write evidence/Cnn.json
  run_check.py Cnn --replay <file>           re-run one recorded violating case
  run_check.py --setup                       compile the engine objects

Exit 0: property held on everything explored (known findings are printed as
KNOWN-FINDING lines).  Exit 1: at least one violation not listed in
known_findings.json; one line `VIOLATION property=<id> replay=<path>` each.
Exit 2: the check itself could not be built / run.
"""
import argparse, json, os, re, shutil, struct, subprocess, sys, time
from concurrent.futures import ThreadPoolExecutor

ROOT = os.path.dirname(os.path.abspath(__file__))
REPO = os.environ.get("VERIF_REPO", "/repo")
BUILD = os.environ.get("VERIF_BUILD") or os.path.join(ROOT, "build")   # override only for isolated scratch runs (tools/try_seed.sh)
REPLAY_DIR = os.path.join(os.environ["VERIF_BUILD"], "replay") if os.environ.get("VERIF_BUILD") else os.path.join(ROOT, "replay")
NPROC = int(os.environ.get("VERIF_NPROC", "16"))
CXX = os.environ.get("VERIF_CXX", "g++")

BASE_FLAGS = ["-std=c++17", "-DAMGCL_VERIF", "-I" + REPO, "-I" + os.path.join(ROOT, "engine"),
              "-I/usr/include/eigen3", "-w"]

ENGINES = {
    # name: (source, flags)
    "gomp_fiber":   ("engine/gomp_fiber.cpp",   ["-O2", "-g"]),
    "gomp_fiber_asan": ("engine/gomp_fiber.cpp", ["-O1", "-g", "-fsanitize=address", "-DVS_ASAN"]),
    "gomp_pthread": ("engine/gomp_pthread.cpp", ["-O2", "-g", "-pthread"]),
    "gomp_pthread_tsan": ("engine/gomp_pthread.cpp", ["-O1", "-g", "-pthread", "-fsanitize=thread"]),
    "minimpi":      ("engine/minimpi/minimpi.cpp", ["-O2", "-g"]),
    "heapfill":     ("engine/heapfill.cpp",     ["-O2", "-g"]),
    "heapfill_asan": ("engine/heapfill.cpp",    ["-O1", "-g", "-fsanitize=address,undefined", "-fno-sanitize-recover=undefined"]),
}


def sh(cmd, **kw):
    return subprocess.run(cmd, stdout=subprocess.PIPE, stderr=subprocess.STDOUT, text=True, **kw)


def build_engine(name):
    src, flags = ENGINES[name]
    srcp = os.path.join(ROOT, src)
    if not os.path.exists(srcp):
        return None
    os.makedirs(os.path.join(BUILD, "engine"), exist_ok=True)
    obj = os.path.join(BUILD, "engine", name + ".o")
    if os.path.exists(obj) and os.path.getmtime(obj) >= max(
            os.path.getmtime(srcp),
            *[os.path.getmtime(os.path.join(ROOT, "engine", f)) for f in os.listdir(os.path.join(ROOT, "engine")) if f.endswith(".hpp")] or [0]):
        return obj
    cmd = [CXX, "-std=c++17", "-I" + os.path.join(ROOT, "engine"), "-c", srcp, "-o", obj] + flags
    r = sh(cmd)
    if r.returncode != 0:
        print("ENGINE BUILD FAILED:", " ".join(cmd)); print(r.stdout); sys.exit(2)
    return obj


def setup():
    for name in ENGINES:
        build_engine(name)
    print("setup ok")
    return 0


def load_spec(pid):
    p = os.path.join(ROOT, "checks", pid + ".json")
    with open(p) as f:
        return json.load(f)


def load_known():
    p = os.path.join(ROOT, "known_findings.json")
    if not os.path.exists(p):
        return []
    with open(p) as f:
        return json.load(f).get("findings", [])


def compile_unit(pid, unit, bdir):
    """returns list of (cmd, objpath) compile jobs and the link command"""
    jobs = []
    objs = []
    flags = BASE_FLAGS + unit.get("cxxflags", ["-O1"])
    cxx = unit.get("cxx", CXX)
    for src in unit["sources"]:
        srcp = os.path.join(ROOT, "checks", src)
        obj = os.path.join(bdir, unit["name"] + "__" + os.path.basename(src).replace(".cpp", ".o"))
        defs = ["-D" + d for d in unit.get("defines", [])]
        jobs.append(([cxx] + flags + defs + ["-c", srcp, "-o", obj], obj))
        objs.append(obj)
    return jobs, objs


def link_unit(unit, objs, bdir):
    exe = os.path.join(bdir, unit["name"])
    cxx = unit.get("cxx", CXX)
    eng = []
    for e in unit.get("link", []):
        o = build_engine(e)
        if o is None:
            print("missing engine", e); sys.exit(2)
        eng.append(o)
    cmd = [cxx, "-o", exe] + objs + eng + unit.get("ldflags", [])
    r = sh(cmd)
    if r.returncode != 0:
        print("LINK FAILED:", " ".join(cmd)); print(r.stdout[-4000:]); sys.exit(2)
    return exe


def build(pid, spec, only_unit=None):
    bdir = os.path.join(BUILD, pid)
    shutil.rmtree(bdir, ignore_errors=True)
    os.makedirs(bdir)
    units = [u for u in spec["units"] if only_unit in (None, u["name"])]
    # optional generation step (e.g. tables extracted from the headers under test); {repo} and {bdir} are substituted
    for cmd in spec.get("pre_cmds", []):
        cmd = cmd.replace("{repo}", REPO).replace("{bdir}", bdir)
        r = subprocess.run(cmd, shell=True, cwd=ROOT, stdout=subprocess.PIPE, stderr=subprocess.STDOUT, text=True)
        if r.returncode != 0:
            print("PRE STEP FAILED:", cmd); print(r.stdout[-3000:]); sys.exit(2)
    alljobs = []
    per_unit = {}
    for u in units:
        jobs, objs = compile_unit(pid, u, bdir)
        per_unit[u["name"]] = objs
        alljobs += jobs
    t0 = time.time()
    with ThreadPoolExecutor(NPROC) as ex:
        res = list(ex.map(lambda j: (j, sh(j[0])), alljobs))
    for (cmd, obj), r in res:
        if r.returncode != 0:
            print("COMPILE FAILED:", " ".join(cmd)); print(r.stdout[-6000:]); sys.exit(2)
    exes = {}
    for u in units:
        exes[u["name"]] = link_unit(u, per_unit[u["name"]], bdir)
        for aux in u.get("aux", []):
            # auxiliary binary built next to the unit (e.g. the same rank body against the real MPI); path goes to env AUX_<NAME>
            out = os.path.join(bdir, aux["name"])
            srcs = [os.path.join(ROOT, "checks", x) for x in aux["sources"]]
            cmd = [aux.get("cxx", CXX)] + BASE_FLAGS + aux.get("cxxflags", ["-O1"]) + srcs + ["-o", out] + aux.get("ldflags", [])
            r = sh(cmd)
            if r.returncode != 0:
                print("AUX BUILD FAILED:", " ".join(cmd)); print(r.stdout[-4000:]); sys.exit(2)
            u.setdefault("env", {})["AUX_" + aux["name"].upper()] = out
    return exes, time.time() - t0


def unit_env(unit):
    env = dict(os.environ)
    env.setdefault("OMP_NUM_THREADS", "1")
    env["ASAN_OPTIONS"] = env.get("ASAN_OPTIONS", "detect_leaks=0:abort_on_error=0:allocator_may_return_null=1:detect_stack_use_after_return=0")
    env["UBSAN_OPTIONS"] = env.get("UBSAN_OPTIONS", "print_stacktrace=1:halt_on_error=1")
    for k, v in unit.get("env", {}).items():
        env[k] = v
    return env


def run_shards(pid, spec, exes, tier, deadline, seed):
    bdir = os.path.join(BUILD, pid)
    procs = []
    for u in spec["units"]:
        if tier not in u.get("tiers", ["quick", "thorough"]):
            continue
        n = int(u.get("shards", NPROC))
        for i in range(n):
            out = os.path.join(bdir, "%s.shard%d.json" % (u["name"], i))
            cmd = u.get("wrapper", []) + [exes[u["name"]], "--tier", tier, "--unit", u["name"], "--shard", str(i), str(n),
                                           "--out", out, "--deadline", str(deadline), "--seed", str(seed)] + u.get("args", [])
            procs.append((u, i, cmd, out))
    results = []

    def run(job):
        u, i, cmd, out = job
        t0 = time.time()
        try:
            r = subprocess.run(cmd, stdout=subprocess.PIPE, stderr=subprocess.STDOUT, text=True, errors="replace",
                               env=unit_env(u), timeout=deadline * 1.5 + 600, cwd=bdir)
            rc, log = r.returncode, r.stdout
        except subprocess.TimeoutExpired as e:
            rc, log = -999, "TIMEOUT after %.0f s\n%s" % (time.time() - t0, (e.stdout or "")[-2000:] if isinstance(e.stdout, str) else "")
        return (u, i, cmd, out, rc, log)

    with ThreadPoolExecutor(NPROC) as ex:
        results = list(ex.map(run, procs))
    return results


_KEYFILES = {}


def match_known(known, pid, v):
    for k in known:
        if k.get("property") != pid or k.get("status") != "known":
            continue
        if k.get("subcheck") is not None and k.get("subcheck") != v["sub"]:
            continue
        if k.get("subcheck_regex") is not None and not re.search(k["subcheck_regex"], v["sub"]):
            continue
        m = k.get("match", {})
        if "key" in m and m["key"] != v["key"]:
            continue
        if "key_regex" in m and not re.search(m["key_regex"], v["key"]):
            continue
        if "key_file" in m:
            ks = _KEYFILES.get(m["key_file"])
            if ks is None:
                with open(os.path.join(ROOT, m["key_file"])) as f:
                    ks = set(l.rstrip("\n") for l in f if l.strip() and not l.startswith("#"))
                _KEYFILES[m["key_file"]] = ks
            if v["key"] not in ks:
                continue
        if "detail_regex" in m and not re.search(m["detail_regex"], v["detail"]):
            continue
        return k
    return None


_replay_ctr = [0]


def replay_once(pid, spec, exes, unit_name, key):
    u = [x for x in spec["units"] if x["name"] == unit_name][0]
    _replay_ctr[0] += 1
    out = os.path.join(BUILD, pid, "replay.%d.%d.json" % (os.getpid(), _replay_ctr[0]))
    cmd = u.get("wrapper", []) + [exes[unit_name], "--tier", "thorough", "--unit", unit_name, "--replay-key", key, "--out", out] + u.get("args", [])
    try:
        r = subprocess.run(cmd, stdout=subprocess.PIPE, stderr=subprocess.STDOUT, text=True, errors="replace",
                           env=unit_env(u), timeout=1800, cwd=os.path.join(BUILD, pid))
    except subprocess.TimeoutExpired:
        return None, "replay timeout"
    try:
        with open(out) as f:
            j = json.load(f)
        return j, r.stdout
    except Exception:
        return {"violations_total": 1 if r.returncode not in (0,) else 0, "violations": [], "crashed": True, "rc": r.returncode}, r.stdout


def main():
    ap = argparse.ArgumentParser()
    ap.add_argument("pid", nargs="?")
    ap.add_argument("--tier", default=os.environ.get("VERIF_TIER", "quick"))
    ap.add_argument("--replay")
    ap.add_argument("--setup", action="store_true")
    ap.add_argument("--unit")
    ap.add_argument("--no-evidence", action="store_true")
    a = ap.parse_args()
    if a.setup:
        return setup()
    pid = a.pid
    spec = load_spec(pid)
    known = load_known()
    seed = int(os.environ.get("VERIF_SEED", "0") or 0)
    t_start = time.time()

    if a.replay:
        with open(a.replay) as f:
            rp = json.load(f)
        exes, _ = build(pid, spec, rp["unit"])
        j, log = replay_once(pid, spec, exes, rp["unit"], rp["key"])
        print(log[-3000:])
        if j and j.get("violations_total", 0) > 0:
            print("VIOLATION property=%s replay=%s" % (pid, a.replay))
            return 1
        print("replay: case did not violate the property")
        return 0

    tier = a.tier
    if tier == "quick":
        deadline = float(os.environ.get("VERIF_QUICK_DEADLINE_S", spec.get("quick_deadline_s", 1200)))
    else:
        deadline = float(os.environ.get("VERIF_DEADLINE_S", spec.get("thorough_deadline_s", 2700)))

    if a.unit:
        spec["units"] = [u for u in spec["units"] if u["name"] == a.unit]
    exes, build_s = build(pid, spec)
    results = run_shards(pid, spec, exes, tier, deadline, seed)

    agg = dict(evaluations=0, nontrivial=0, states=0, transitions=0, traces=0, cases_seen=0)
    counters, caps, spaces, samples = {}, [], [], []
    hashes, hashes_exact = set(), True
    viols = []
    deadline_hit = False
    unit_stats = {}
    for (u, i, cmd, out, rc, log) in results:
        j = None
        if os.path.exists(out):
            try:
                with open(out) as f:
                    j = json.load(f)
            except Exception as e:
                j = None
        if j is None or rc != 0:
            viols.append(dict(unit=u["name"], sub="harness-abnormal-exit", key="%s/shard%d/%d" % (u["name"], i, u.get("shards", NPROC)),
                              detail="exit code %s; output tail: %s" % (rc, log[-1500:]), norerun=True))
            if j is None:
                continue
        agg["evaluations"] += j["evaluations"]
        agg["states"] += j["states"]; agg["transitions"] += j["transitions"]; agg["traces"] += j["traces_validated"]
        agg["cases_seen"] = max(agg["cases_seen"], j["cases_seen"])
        us = unit_stats.setdefault(u["name"], dict(evaluations=0, wall_s=0.0))
        us["evaluations"] += j["evaluations"]; us["wall_s"] = max(us["wall_s"], j["wall_s"])
        deadline_hit |= j["deadline_hit"]
        for k, v in j["counters"].items():
            counters[u["name"] + "." + k] = counters.get(u["name"] + "." + k, 0) + v
        for c in j["caps"]:
            if c not in caps: caps.append(c)
        for c in j["spaces"]:
            if c not in spaces: spaces.append(c)
        if len(samples) < 8:
            for smp in j["samples"][:2]:
                samples.append(smp)
        nth = out + ".nth"
        if os.path.exists(nth) and hashes_exact:
            with open(nth, "rb") as f:
                b = f.read()
            hashes.update(struct.unpack("<%dQ" % (len(b) // 8), b))
            if len(hashes) > 6000000:
                hashes_exact = False
        elif j["distinct_nontrivial"] > 0:
            hashes_exact = False
        agg["nontrivial"] += j["distinct_nontrivial"]
        for v in j["violations"]:
            v = dict(v); v["unit"] = u["name"]; viols.append(v)
        extra = j["violations_total"] - len(j["violations"])
        if extra > 0:
            counters[u["name"] + ".violations_not_listed_individually"] = counters.get(u["name"] + ".violations_not_listed_individually", 0) + extra
    distinct = len(hashes) if hashes_exact else agg["nontrivial"]

    # classify violations
    os.makedirs(REPLAY_DIR, exist_ok=True)
    known_hit = {}
    unknown = []
    for v in viols:
        k = match_known(known, pid, v)
        if k is not None:
            known_hit.setdefault(k["id"], [k, 0])[1] += 1
        else:
            unknown.append(v)
    # confirm (replay twice) the first few unknown violations per subcheck
    confirmed = []
    seen_sub = {}
    for v in unknown:
        n = seen_sub.get(v["sub"], 0)
        seen_sub[v["sub"]] = n + 1
        if n >= 3 or len(confirmed) >= 24:
            continue
        confirmed.append(v)

    def confirm(v):
        if v.get("norerun"):
            return "not-rerun"
        ok = 0
        for _ in range(2):
            j, log = replay_once(pid, spec, exes, v["unit"], v["key"])
            if j and j.get("violations_total", 0) > 0:
                ok += 1
        return "reproduced-2/2" if ok == 2 else "reproduced-%d/2 (nondeterministic harness or environment!)" % ok

    with ThreadPoolExecutor(NPROC) as ex:
        for v, st in zip(confirmed, ex.map(confirm, confirmed)):
            v["replay_status"] = st
    nviol = len(unknown)
    for idx, v in enumerate(confirmed):
        path = os.path.join(REPLAY_DIR, "%s-%d.json" % (pid, idx))
        with open(path, "w") as f:
            json.dump(dict(property=pid, unit=v["unit"], subcheck=v["sub"], key=v["key"], detail=v["detail"],
                           replay_status=v["replay_status"], tier=tier), f, indent=1)
        print("  sub=%s key=%s :: %s [%s]" % (v["sub"], v["key"], v["detail"][:600], v["replay_status"]))
        print("VIOLATION property=%s replay=%s" % (pid, path))
    if nviol > len(confirmed):
        print("  (+%d further violating cases of the same sub-checks not written out)" % (nviol - len(confirmed)))
    for kid, (k, n) in known_hit.items():
        print("KNOWN-FINDING: property=%s %s [%s; %d matching case(s) in this run]" % (pid, k["what"], kid, n))

    wall = time.time() - t_start
    level = spec["level"]
    cov = dict(
        evaluations=agg["evaluations"],
        distinct_nontrivial=distinct,
        rule=spec["rule"] + (" [one gated case (= one evaluation) may contain several sub-cases whose non-trivial ones are hashed individually, hence distinct_nontrivial can exceed evaluations]" if distinct > agg["evaluations"] else "") + ("" if hashes_exact else " [distinct count: sum of per-shard distinct counts; shards partition the enumeration by case index]"),
        samples=samples[:8],
        exhaustive=(not deadline_hit) and not caps,
        spaces_completed=spaces if not deadline_hit else [],
        spaces_attempted=spaces,
        caps=caps,
        deadline_hit=deadline_hit,
        counters=counters,
        units=unit_stats,
        build_s=round(build_s, 1),
        known_findings_matched={kid: n for kid, (k, n) in known_hit.items()},
    )
    if level == "model_checking":
        cov["states"] = agg["states"]; cov["transitions"] = agg["transitions"]
        cov["traces_validated_against_impl"] = agg["traces"]
    ev = dict(property_id=pid, tier=tier, seed=seed, level=level, coverage=cov,
              assumptions=spec.get("assumptions", []), wall_s=round(wall, 2), violations=nviol)
    if not a.no_evidence and not a.unit:
        os.makedirs(os.path.join(ROOT, "evidence"), exist_ok=True)
        with open(os.path.join(ROOT, "evidence", pid + ".json"), "w") as f:
            json.dump(ev, f, indent=1)
    print("%s tier=%s evaluations=%d distinct_nontrivial=%d states=%d transitions=%d violations=%d known=%d build=%.0fs wall=%.0fs exhaustive=%s" % (
        pid, tier, agg["evaluations"], distinct, agg["states"], agg["transitions"], nviol, len(known_hit), build_s, wall, cov["exhaustive"]))
    return 1 if nviol else 0


if __name__ == "__main__":
    sys.exit(main())
