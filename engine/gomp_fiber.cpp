// gomp_fiber.cpp -- the subset of the libgomp ABI that amgcl object code references,
// implemented on the vsched fiber scheduler.  Linked INSTEAD of libgomp (objects are
// compiled with -fopenmp, the link line has no -fopenmp / -lgomp).
//
// Constructs supported (census of amgcl/**): parallel, static for (inlined by GCC via
// omp_get_num_threads/omp_get_thread_num), for nowait, barrier, critical (unnamed and
// named), single, atomic (inline).  Anything else aborts loudly.
#include "vsched.cpp"
#include <cstdio>
#include <map>

namespace {
struct Team {
    int n;
    int barrier_arrived = 0;
    long long barrier_epoch = 0;
    long long single_done = 0;
};
struct Lock { bool held = false; };
Lock g_unnamed;
std::map<void**, Lock> g_named;

// per-fiber: slot 0 = Team*, slot 1 = single counter (as integer)
// slot 2 = nesting depth of inline (team-of-one) regions entered by this team member
bool nested() { return vs::in_fiber() && vs::group_kind() == 0 && vs::fiber_local(2) != nullptr; }
Team *my_team() { return vs::in_fiber() && vs::group_kind() == 0 && !nested() ? (Team*)vs::fiber_local(0) : nullptr; }

void lock_enter(Lock &l) {
    vs::point(1);                      // "about to enter": who enters first is a scheduling decision
    while (l.held) {
        Lock *lp = &l;
        vs::block_until([lp]{ return !lp->held; });
    }
    l.held = true;
}
void lock_exit(Lock &l) {
    l.held = false;
    vs::point(2);
}
}

extern "C" {

int omp_get_max_threads(void) { return vs::cfg().max_threads; }
int omp_get_num_threads(void) { Team *t = my_team(); return t ? t->n : 1; }
int omp_get_thread_num(void)  { Team *t = my_team(); return t ? vs::fiber_index() : 0; }
int omp_get_num_procs(void)   { return vs::cfg().max_threads; }
int omp_in_parallel(void)     { return my_team() != nullptr; }
void omp_set_num_threads(int n) { vs::cfg().max_threads = n; }
double omp_get_wtime(void) { return 0.0; }
int omp_get_level(void) { return my_team() ? 1 : 0; }

void GOMP_parallel(void (*fn)(void *), void *data, unsigned num_threads, unsigned /*flags*/) {
    int n = num_threads ? (int)num_threads : vs::cfg().max_threads;
    if (vs::in_fiber() && vs::group_kind() == 0) {
        // nested region (e.g. idrs.hpp: copy_vector inside `omp single`): libgomp's default
        // (nesting disabled) runs it as a team of one on the encountering thread
        intptr_t d = (intptr_t)vs::fiber_local(2);
        vs::fiber_local(2) = (void*)(d + 1);
        struct Restore { intptr_t d; ~Restore() { vs::fiber_local(2) = (void*)d; } } r{d};
        fn(data);
        return;
    }
    if (n <= 1) { fn(data); return; }   // team of one: run inline (also from an MPI rank fiber)
    Team t; t.n = n;
    Team *tp = &t;
    vs::run_group(n, [fn, data, tp](int) {
        vs::fiber_local(0) = tp;
        vs::fiber_local(1) = nullptr;
        vs::point(0);                  // team start: every member begins at a scheduling point
        fn(data);
    }, 0);
}

void GOMP_barrier(void) {
    Team *t = my_team();
    if (!t || t->n == 1) return;
    long long epoch = t->barrier_epoch;
    if (++t->barrier_arrived == t->n) {
        t->barrier_arrived = 0;
        t->barrier_epoch++;
        vs::point(3);
        return;
    }
    vs::block_until([t, epoch]{ return t->barrier_epoch != epoch; });
}

void GOMP_critical_start(void) { lock_enter(g_unnamed); }
void GOMP_critical_end(void)   { lock_exit(g_unnamed); }
void GOMP_critical_name_start(void **p) { lock_enter(g_named[p]); }
void GOMP_critical_name_end(void **p)   { lock_exit(g_named[p]); }
void GOMP_atomic_start(void) { lock_enter(g_unnamed); }
void GOMP_atomic_end(void)   { lock_exit(g_unnamed); }

bool GOMP_single_start(void) {
    Team *t = my_team();
    if (!t || t->n == 1) return true;
    vs::point(4);
    long long mine = (long long)(intptr_t)vs::fiber_local(1);
    vs::fiber_local(1) = (void*)(intptr_t)(mine + 1);
    if (t->single_done == mine) { t->single_done++; return true; }
    return false;
}

} // extern "C"
