// heapfill.cpp -- replacement global operator new/delete ("prior heap contents" model).
// Every fresh block is filled with a pattern chosen by the harness before it is handed out
// and overwritten with the complement pattern when it is deleted, so code that reads memory
// it never wrote sees different bytes under different fill modes.  A ledger counts live
// blocks so that leaks of library-owned arrays are visible.  The functions are the
// replaceable allocation functions of the standard, so they coexist with ASan (which keeps
// its redzones/quarantine underneath, on malloc/free).
#include "heapfill.hpp"
#include <cstdlib>
#include <cstring>
#include <cstdint>
#include <new>

namespace hf {
static int      g_mode = 0;            // 0: 0x00, 1: 0xFF, 2: 0xAA, 3: LCG bytes
static uint64_t g_lcg = 88172645463325252ull;
static long long g_live_blocks = 0, g_live_bytes = 0, g_total_allocs = 0;
static bool g_poison_on_free = true;

void set_mode(int mode, uint64_t seed) { g_mode = mode; g_lcg = seed * 6364136223846793005ull + 1442695040888963407ull; }
long long live_blocks() { return g_live_blocks; }
long long live_bytes() { return g_live_bytes; }
long long total_allocs() { return g_total_allocs; }

static const size_t HDR = 32;   // keeps 32-byte alignment of the payload
struct Header { size_t size; uint64_t magic; void *base; uint64_t pad; };
static const uint64_t MAGIC = 0x48454150f111ull;

static inline void fill(void *p, size_t n, bool complement) {
    unsigned char *c = (unsigned char*)p;
    switch (g_mode) {
        case 0: std::memset(c, complement ? 0xFF : 0x00, n); break;
        case 1: std::memset(c, complement ? 0x00 : 0xFF, n); break;
        case 2: std::memset(c, complement ? 0x55 : 0xAA, n); break;
        default:
            for (size_t i = 0; i < n; ++i) { g_lcg = g_lcg * 6364136223846793005ull + 1442695040888963407ull; c[i] = (unsigned char)(g_lcg >> 56); }
    }
}

static void *alloc(size_t n, size_t align) {
    if (align < 16) align = 16;
    size_t extra = HDR > align ? HDR : align;
    void *base = nullptr;
    if (posix_memalign(&base, align, n + extra) != 0 || !base) throw std::bad_alloc();
    char *user = (char*)base + extra;
    Header *h = (Header*)(user - sizeof(Header));
    h->size = n; h->magic = MAGIC; h->base = base;
    fill(user, n, false);
    ++g_live_blocks; g_live_bytes += (long long)n; ++g_total_allocs;
    return user;
}
static void release(void *p) {
    if (!p) return;
    Header *h = (Header*)((char*)p - sizeof(Header));
    if (h->magic != MAGIC) { abort(); }   // delete of a pointer that did not come from operator new (or double delete)
    size_t n = h->size; void *base = h->base;
    h->magic = 0xdeadbeef;
    if (g_poison_on_free) fill(p, n, true);
    --g_live_blocks; g_live_bytes -= (long long)n;
    free(base);
}
} // namespace hf

void *operator new(size_t n) { return hf::alloc(n, 16); }
void *operator new[](size_t n) { return hf::alloc(n, 16); }
void *operator new(size_t n, const std::nothrow_t&) noexcept { try { return hf::alloc(n, 16); } catch (...) { return nullptr; } }
void *operator new[](size_t n, const std::nothrow_t&) noexcept { try { return hf::alloc(n, 16); } catch (...) { return nullptr; } }
void *operator new(size_t n, std::align_val_t a) { return hf::alloc(n, (size_t)a); }
void *operator new[](size_t n, std::align_val_t a) { return hf::alloc(n, (size_t)a); }
void operator delete(void *p) noexcept { hf::release(p); }
void operator delete[](void *p) noexcept { hf::release(p); }
void operator delete(void *p, size_t) noexcept { hf::release(p); }
void operator delete[](void *p, size_t) noexcept { hf::release(p); }
void operator delete(void *p, std::align_val_t) noexcept { hf::release(p); }
void operator delete[](void *p, std::align_val_t) noexcept { hf::release(p); }
void operator delete(void *p, size_t, std::align_val_t) noexcept { hf::release(p); }
void operator delete[](void *p, size_t, std::align_val_t) noexcept { hf::release(p); }
void operator delete(void *p, const std::nothrow_t&) noexcept { hf::release(p); }
void operator delete[](void *p, const std::nothrow_t&) noexcept { hf::release(p); }
