// minimpi.cpp -- in-process MPI subset on the vsched fiber scheduler (ranks = fibers).
// Link together with gomp_fiber.o (which contains the scheduler).
//
// Nondeterminism owned by the explorer:
//   * which rank runs next (every MPI call is a scheduling point, blocking calls block)
//   * completion mode of every nonblocking request (eager / late), see mpi.h
//   * reduction order (ascending / descending rank)
// Point-to-point matching follows the non-overtaking rule: per (comm, src, dst, tag) FIFO.
#include "mpi.h"
#include "../vsched.hpp"
#include <vector>
#include <deque>
#include <map>
#include <cstring>
#include <cstdio>
#include <cstdlib>
#include <algorithm>
#include <complex>
#include <memory>
#include <stdexcept>

namespace mm {
namespace {

Config C;
Stats  ST;

struct DType { size_t size; int base; size_t count; };     // base: one of the predefined scalar kinds
std::vector<DType> g_types;    // persistent across runs (amgcl caches derived types in function-local statics)

void init_types() {
    if (!g_types.empty()) return;
    g_types.resize(MPI__FIRST_DERIVED);
    auto set = [](int t, size_t sz) { g_types[t] = DType{sz, t, 1}; };
    set(MPI_CHAR, 1); set(MPI_INT, sizeof(int)); set(MPI_UNSIGNED, sizeof(unsigned)); set(MPI_LONG_LONG_INT, sizeof(long long));
    set(MPI_UNSIGNED_LONG_LONG, sizeof(unsigned long long)); set(MPI_FLOAT, sizeof(float)); set(MPI_DOUBLE, sizeof(double));
    set(MPI_LONG_DOUBLE, sizeof(long double)); set(MPI_LONG, sizeof(long)); set(MPI_UNSIGNED_LONG, sizeof(unsigned long)); set(MPI_BYTE, 1);
    g_types[MPI_CXX_FLOAT_COMPLEX] = DType{2 * sizeof(float), MPI_FLOAT, 2};
    g_types[MPI_CXX_DOUBLE_COMPLEX] = DType{2 * sizeof(double), MPI_DOUBLE, 2};
}
const DType &dt(MPI_Datatype t) {
    init_types();
    if (t <= 0 || (size_t)t >= g_types.size()) { fprintf(stderr, "minimpi: bad datatype %d\n", t); abort(); }
    return g_types[t];
}

struct Req {
    bool is_send = false, is_coll = false;
    int comm = 0, src = 0, dst = 0, tag = 0;        // src/dst are ranks in comm
    const void *sbuf = nullptr; void *rbuf = nullptr;
    size_t bytes = 0;                               // send: message size; recv: capacity
    bool late = false;
    bool matched = false, transferred = false, delivered = false, done = false;
    int peer = -1;                                  // matched request index
    std::vector<char> stage;                        // eager send copy / staged data for a late receive
    bool staged = false;
    long long coll_epoch = 0;
};

struct CollSlot { const void *sbuf; void *rbuf; int scount, rcount; MPI_Datatype stype, rtype; int a, b; };

struct Comm {
    std::vector<int> members;                       // world ranks, index = rank in comm
    std::vector<int> rank_of_world;                 // world rank -> rank in comm (-1 if not a member)
    int arrived = 0; long long epoch = 0;
    std::vector<CollSlot> slots;
    std::map<std::pair<std::pair<int,int>,int>, std::deque<int>> sendq, recvq;   // ((src,dst),tag) -> request ids
    bool freed = false;
};

struct World {
    int n = 0;
    std::vector<std::unique_ptr<Comm>> comms;       // index = handle
    std::vector<std::unique_ptr<Req>> reqs;
    bool active = false;
} W;

int my_world_rank() { return (int)(intptr_t)vs::fiber_local(3) - 1; }
std::vector<std::string> g_where;
void where(const std::string &w) { int r = my_world_rank(); if (r >= 0 && r < (int)g_where.size()) g_where[r] = w; }

Comm &comm(MPI_Comm c) {
    if (c <= 0 || (size_t)c >= W.comms.size() || !W.comms[c]) throw std::runtime_error("minimpi: invalid communicator handle " + std::to_string(c));
    return *W.comms[c];
}
int my_rank(Comm &cm) {
    int w = my_world_rank();
    if (w < 0 || w >= (int)cm.rank_of_world.size() || cm.rank_of_world[w] < 0) throw std::runtime_error("minimpi: calling rank is not a member of the communicator");
    return cm.rank_of_world[w];
}

int new_comm(const std::vector<int> &members) {
    auto cm = std::make_unique<Comm>();
    cm->members = members;
    cm->rank_of_world.assign(W.n, -1);
    for (size_t i = 0; i < members.size(); ++i) cm->rank_of_world[members[i]] = (int)i;
    cm->slots.resize(members.size());
    W.comms.push_back(std::move(cm));
    return (int)W.comms.size() - 1;
}

// ---- point to point -------------------------------------------------------------------
void do_transfer(Req &s, Req &r) {
    // move the message from the sender side to the receiver side (called once per matched pair)
    if (s.transferred) return;
    if (s.bytes > r.bytes) throw std::runtime_error("minimpi: message truncated (send " + std::to_string(s.bytes) + " bytes > receive capacity " + std::to_string(r.bytes) + ")");
    const char *src = s.staged ? s.stage.data() : (const char*)s.sbuf;
    if (r.late && !r.delivered) {
        r.stage.assign(src, src + s.bytes); r.staged = true;
    } else {
        if (s.bytes) std::memcpy(r.rbuf, src, s.bytes);
        r.delivered = true;
    }
    s.transferred = true; r.transferred = true;
    r.bytes = s.bytes;
    ST.bytes += (long long)s.bytes;
}
void deliver_late_recv(Req &r) {
    if (r.delivered) return;
    if (r.staged) {
        if (r.bytes && std::memcmp(r.rbuf, r.stage.data(), r.bytes) != 0) ST.late_changed_buffer++;
        if (r.bytes) std::memcpy(r.rbuf, r.stage.data(), r.bytes);
    }
    r.delivered = true;
}
void try_match(Comm &cm, int src, int dst, int tag) {
    auto key = std::make_pair(std::make_pair(src, dst), tag);
    auto &sq = cm.sendq[key]; auto &rq = cm.recvq[key];
    while (!sq.empty() && !rq.empty()) {
        int si = sq.front(), ri = rq.front(); sq.pop_front(); rq.pop_front();
        Req &s = *W.reqs[si], &r = *W.reqs[ri];
        s.matched = r.matched = true; s.peer = ri; r.peer = si;
        // eager data (already staged at Isend) moves as soon as the pair is matched
        if (s.staged) do_transfer(s, r);
    }
}

int post(bool is_send, const void *sbuf, void *rbuf, int count, MPI_Datatype type, int peer_rank, int tag, MPI_Comm c) {
    vs::point(20);
    Comm &cm = comm(c);
    int me = my_rank(cm);
    if (peer_rank < 0 || peer_rank >= (int)cm.members.size()) throw std::runtime_error("minimpi: peer rank out of range");
    auto rq = std::make_unique<Req>();
    Req &q = *rq;
    q.is_send = is_send; q.comm = c; q.tag = tag;
    q.bytes = (size_t)count * dt(type).size;
    int mode = is_send ? C.send_mode : C.recv_mode;
    if (C.explore_completion) { int ch = vs::choose(2); if (ch) mode = 1 - mode; }
    q.late = mode != 0;
    if (is_send) {
        q.src = me; q.dst = peer_rank; q.sbuf = sbuf;
        if (!q.late) { q.stage.assign((const char*)sbuf, (const char*)sbuf + q.bytes); q.staged = true; }
        else ST.late_sends++;
        ST.p2p_messages++;
    } else {
        q.src = peer_rank; q.dst = me; q.rbuf = rbuf;
        if (q.late) ST.late_recvs++;
    }
    W.reqs.push_back(std::move(rq));
    int id = (int)W.reqs.size() - 1;
    auto key = std::make_pair(std::make_pair(W.reqs[id]->src, W.reqs[id]->dst), tag);
    (is_send ? cm.sendq : cm.recvq)[key].push_back(id);
    try_match(cm, W.reqs[id]->src, W.reqs[id]->dst, tag);
    return id;
}

void wait_one(MPI_Request *req) {
    if (!req || *req == MPI_REQUEST_NULL) return;
    int id = *req;
    if (id < 0 || (size_t)id >= W.reqs.size()) throw std::runtime_error("minimpi: invalid request handle");
    Req *q = W.reqs[id].get();
    if (q->is_coll) {
        Comm &cm = comm(q->comm);
        long long ep = q->coll_epoch; Comm *cp = &cm;
        vs::block_until([cp, ep]{ return cp->epoch != ep; });
        q->done = true; *req = MPI_REQUEST_NULL; return;
    }
    where(std::string(q->is_send ? "Wait(send" : "Wait(recv") + (q->late ? ",late" : ",eager") + " comm=" + std::to_string(q->comm) + " src=" + std::to_string(q->src) + " dst=" + std::to_string(q->dst) + " tag=" + std::to_string(q->tag) + " bytes=" + std::to_string(q->bytes) + (q->matched ? " matched" : " unmatched") + ")");
    if (q->is_send) {
        if (q->late) {
            // rendezvous: completes only when matched; buffer is read now unless the receiver already pulled it
            vs::block_until([q]{ return q->matched; });
            Req &r = *W.reqs[q->peer];
            do_transfer(*q, r);
        } else {
            vs::point(21);
        }
    } else {
        vs::block_until([q]{ return q->matched; });
        Req &s = *W.reqs[q->peer];
        if (!s.transferred) do_transfer(s, *q);      // late sender has not reached its wait yet: pull now
        deliver_late_recv(*q);
    }
    q->done = true;
    *req = MPI_REQUEST_NULL;
}

// ---- collectives ----------------------------------------------------------------------
template <class T> void reduce_t(T *acc, const T *v, size_t n, MPI_Op op) {
    for (size_t i = 0; i < n; ++i) {
        switch (op) {
            case MPI_SUM: acc[i] = acc[i] + v[i]; break;
            case MPI_PROD: acc[i] = acc[i] * v[i]; break;
            case MPI_MIN: acc[i] = std::min(acc[i], v[i]); break;
            case MPI_MAX: acc[i] = std::max(acc[i], v[i]); break;
            default: fprintf(stderr, "minimpi: bad op\n"); abort();
        }
    }
}
void reduce_any(void *acc, const void *v, size_t count, MPI_Datatype type, MPI_Op op) {
    const DType &d = dt(type);
    size_t n = count * d.count;
    switch (d.base) {
        case MPI_CHAR: reduce_t((char*)acc, (const char*)v, n, op); break;
        case MPI_INT: reduce_t((int*)acc, (const int*)v, n, op); break;
        case MPI_UNSIGNED: reduce_t((unsigned*)acc, (const unsigned*)v, n, op); break;
        case MPI_LONG: reduce_t((long*)acc, (const long*)v, n, op); break;
        case MPI_UNSIGNED_LONG: reduce_t((unsigned long*)acc, (const unsigned long*)v, n, op); break;
        case MPI_LONG_LONG_INT: reduce_t((long long*)acc, (const long long*)v, n, op); break;
        case MPI_UNSIGNED_LONG_LONG: reduce_t((unsigned long long*)acc, (const unsigned long long*)v, n, op); break;
        case MPI_FLOAT: reduce_t((float*)acc, (const float*)v, n, op); break;
        case MPI_DOUBLE: reduce_t((double*)acc, (const double*)v, n, op); break;
        case MPI_LONG_DOUBLE: reduce_t((long double*)acc, (const long double*)v, n, op); break;
        default: fprintf(stderr, "minimpi: reduction on unsupported base type %d\n", d.base); abort();
    }
}

// generic rendezvous: every member deposits its arguments; the last one to arrive runs compute()
// (all others are blocked, so it may write to everybody's receive buffer), then all continue.
template <class Compute>
void collective(MPI_Comm c, const CollSlot &mine, Compute &&compute, MPI_Request *nonblocking = nullptr) {
    vs::point(30);
    Comm &cm = comm(c);
    int me = my_rank(cm);
    cm.slots[me] = mine;
    long long ep = cm.epoch;
    where("collective on comm " + std::to_string(c) + " (" + std::to_string(cm.arrived + 1) + "/" + std::to_string(cm.members.size()) + " arrived)");
    ST.collectives++;
    bool last = (++cm.arrived == (int)cm.members.size());
    if (last) {
        compute(cm);
        cm.arrived = 0;
        cm.epoch++;
    }
    if (nonblocking) {
        auto rq = std::make_unique<Req>(); rq->is_coll = true; rq->comm = c; rq->coll_epoch = ep;
        W.reqs.push_back(std::move(rq)); *nonblocking = (int)W.reqs.size() - 1;
        return;
    }
    if (!last) { Comm *cp = &cm; vs::block_until([cp, ep]{ return cp->epoch != ep; }); }
}

} // anon

Config& cfg() { return C; }
Stats& stats() { return ST; }
int world_rank() { return my_world_rank(); }
std::string where_all() { std::string s; for (size_t r = 0; r < g_where.size(); ++r) s += " [rank " + std::to_string(r) + ": " + g_where[r] + "]"; return s; }

void run(int nranks, const std::function<void(int)> &body) {
    init_types();
    W.comms.clear(); W.reqs.clear();
    W.n = nranks; W.active = true; g_where.assign(nranks, "(not in MPI)");
    W.comms.emplace_back(nullptr);                  // handle 0 = MPI_COMM_NULL
    std::vector<int> all(nranks); for (int i = 0; i < nranks; ++i) all[i] = i;
    new_comm(all);                                  // handle 1 = MPI_COMM_WORLD
    ST = Stats();
    struct Done { ~Done() { W.active = false; } } done;
    vs::run_group(nranks, [&](int r) {
        vs::fiber_local(3) = (void*)(intptr_t)(r + 1);
        vs::point(0);
        body(r);
    }, 1);
}

} // namespace mm

using namespace mm;

extern "C" {

int MPI_Init(int*, char***) { return 0; }
int MPI_Init_thread(int*, char***, int, int *provided) { if (provided) *provided = MPI_THREAD_MULTIPLE; return 0; }
int MPI_Finalize(void) { return 0; }
double MPI_Wtime(void) { return 0; }
int MPI_Abort(MPI_Comm, int code) { throw std::runtime_error("MPI_Abort(" + std::to_string(code) + ")"); }
int MPI_Get_processor_name(char *name, int *len) { std::strcpy(name, "fiber"); if (len) *len = 5; return 0; }

int MPI_Comm_rank(MPI_Comm c, int *rank) { *rank = my_rank(comm(c)); return 0; }
int MPI_Comm_size(MPI_Comm c, int *size) { *size = (int)comm(c).members.size(); return 0; }

int MPI_Type_contiguous(int count, MPI_Datatype oldtype, MPI_Datatype *newtype) {
    // no scheduling point here: amgcl calls this inside the initialiser of a function-local static
    DType o = dt(oldtype);
    g_types.push_back(DType{o.size * (size_t)count, o.base, o.count * (size_t)count});
    *newtype = (int)g_types.size() - 1;
    return 0;
}
int MPI_Type_commit(MPI_Datatype*) { return 0; }

int MPI_Isend(const void *buf, int count, MPI_Datatype type, int dest, int tag, MPI_Comm c, MPI_Request *req) { *req = post(true, buf, nullptr, count, type, dest, tag, c); return 0; }
int MPI_Irecv(void *buf, int count, MPI_Datatype type, int source, int tag, MPI_Comm c, MPI_Request *req) { *req = post(false, nullptr, buf, count, type, source, tag, c); return 0; }
int MPI_Wait(MPI_Request *req, MPI_Status*) { wait_one(req); return 0; }
int MPI_Waitall(int count, MPI_Request *reqs, MPI_Status*) { for (int i = 0; i < count; ++i) wait_one(&reqs[i]); return 0; }
int MPI_Send(const void *buf, int count, MPI_Datatype type, int dest, int tag, MPI_Comm c) { MPI_Request r = post(true, buf, nullptr, count, type, dest, tag, c); wait_one(&r); return 0; }
int MPI_Recv(void *buf, int count, MPI_Datatype type, int source, int tag, MPI_Comm c, MPI_Status*) { MPI_Request r = post(false, nullptr, buf, count, type, source, tag, c); wait_one(&r); return 0; }

int MPI_Barrier(MPI_Comm c) { collective(c, CollSlot{}, [](Comm&){}); return 0; }

int MPI_Bcast(void *buf, int count, MPI_Datatype type, int root, MPI_Comm c) {
    CollSlot s{}; s.rbuf = buf; s.rcount = count; s.rtype = type; s.a = root;
    collective(c, s, [&](Comm &cm) {
        size_t bytes = (size_t)count * dt(type).size;
        for (size_t r = 0; r < cm.members.size(); ++r) if ((int)r != root && bytes) std::memcpy(cm.slots[r].rbuf, cm.slots[root].rbuf, bytes);
    });
    return 0;
}

int MPI_Allreduce(const void *sendbuf, void *recvbuf, int count, MPI_Datatype type, MPI_Op op, MPI_Comm c) {
    CollSlot s{}; s.sbuf = sendbuf == MPI_IN_PLACE ? recvbuf : sendbuf; s.rbuf = recvbuf; s.scount = count; s.stype = type; s.a = op;
    collective(c, s, [&](Comm &cm) {
        size_t bytes = (size_t)count * dt(type).size;
        int n = (int)cm.members.size();
        std::vector<char> acc(bytes);
        int first = mm::cfg().reduce_reverse ? n - 1 : 0, step = mm::cfg().reduce_reverse ? -1 : 1;
        std::memcpy(acc.data(), cm.slots[first].sbuf, bytes);
        for (int r = first + step; r >= 0 && r < n; r += step) reduce_any(acc.data(), cm.slots[r].sbuf, count, type, op);
        for (int r = 0; r < n; ++r) if (bytes) std::memcpy(cm.slots[r].rbuf, acc.data(), bytes);
    });
    return 0;
}

int MPI_Exscan(const void *sendbuf, void *recvbuf, int count, MPI_Datatype type, MPI_Op op, MPI_Comm c) {
    CollSlot s{}; s.sbuf = sendbuf; s.rbuf = recvbuf; s.scount = count; s.stype = type;
    collective(c, s, [&](Comm &cm) {
        size_t bytes = (size_t)count * dt(type).size;
        int n = (int)cm.members.size();
        // copies of the contributions first (sendbuf and recvbuf of different ranks never alias, but be safe)
        std::vector<std::vector<char>> contrib(n);
        for (int r = 0; r < n; ++r) contrib[r].assign((const char*)cm.slots[r].sbuf, (const char*)cm.slots[r].sbuf + bytes);
        std::vector<char> acc;
        for (int r = 0; r < n; ++r) {
            if (r > 0) {
                if (acc.empty()) acc = contrib[0]; else reduce_any(acc.data(), contrib[r-1].data(), count, type, op);
                if (bytes) std::memcpy(cm.slots[r].rbuf, acc.data(), bytes);
            }
            // rank 0: recvbuf is left untouched (undefined by the standard)
        }
    });
    return 0;
}

int MPI_Allgather(const void *sendbuf, int sendcount, MPI_Datatype sendtype, void *recvbuf, int recvcount, MPI_Datatype recvtype, MPI_Comm c) {
    CollSlot s{}; s.sbuf = sendbuf; s.rbuf = recvbuf; s.scount = sendcount; s.stype = sendtype; s.rcount = recvcount; s.rtype = recvtype;
    collective(c, s, [&](Comm &cm) {
        int n = (int)cm.members.size();
        size_t sb = (size_t)sendcount * dt(sendtype).size, rb = (size_t)recvcount * dt(recvtype).size;
        if (sb != rb) throw std::runtime_error("minimpi: Allgather send/recv size mismatch");
        std::vector<std::vector<char>> contrib(n);
        for (int r = 0; r < n; ++r) contrib[r].assign((const char*)cm.slots[r].sbuf, (const char*)cm.slots[r].sbuf + sb);
        for (int r = 0; r < n; ++r) for (int q = 0; q < n; ++q) if (sb) std::memcpy((char*)cm.slots[r].rbuf + q * rb, contrib[q].data(), sb);
    });
    return 0;
}

int MPI_Gather(const void *sendbuf, int sendcount, MPI_Datatype sendtype, void *recvbuf, int recvcount, MPI_Datatype recvtype, int root, MPI_Comm c) {
    CollSlot s{}; s.sbuf = sendbuf; s.rbuf = recvbuf; s.scount = sendcount; s.stype = sendtype; s.rcount = recvcount; s.rtype = recvtype; s.a = root;
    collective(c, s, [&](Comm &cm) {
        int n = (int)cm.members.size();
        size_t sb = (size_t)sendcount * dt(sendtype).size;
        // recvcount/recvtype are significant at the root only
        const CollSlot &rt = cm.slots[root];
        size_t rb = (size_t)rt.rcount * dt(rt.rtype).size;
        if (sb > rb) throw std::runtime_error("minimpi: Gather message larger than the root's per-rank receive count");
        for (int q = 0; q < n; ++q) if (sb) std::memcpy((char*)rt.rbuf + q * rb, cm.slots[q].sbuf, sb);
    });
    return 0;
}

static void alltoall_compute(Comm &cm) {
    int n = (int)cm.members.size();
    std::vector<std::vector<char>> contrib(n);
    size_t sb = (size_t)cm.slots[0].scount * dt(cm.slots[0].stype).size;
    size_t rb = (size_t)cm.slots[0].rcount * dt(cm.slots[0].rtype).size;
    if (sb != rb) throw std::runtime_error("minimpi: Alltoall send/recv size mismatch");
    for (int r = 0; r < n; ++r) contrib[r].assign((const char*)cm.slots[r].sbuf, (const char*)cm.slots[r].sbuf + sb * n);
    for (int r = 0; r < n; ++r) for (int q = 0; q < n; ++q) if (sb) std::memcpy((char*)cm.slots[r].rbuf + q * rb, contrib[q].data() + r * sb, sb);
}
int MPI_Alltoall(const void *sendbuf, int sendcount, MPI_Datatype sendtype, void *recvbuf, int recvcount, MPI_Datatype recvtype, MPI_Comm c) {
    CollSlot s{}; s.sbuf = sendbuf; s.rbuf = recvbuf; s.scount = sendcount; s.stype = sendtype; s.rcount = recvcount; s.rtype = recvtype;
    collective(c, s, alltoall_compute);
    return 0;
}
int MPI_Ialltoall(const void *sendbuf, int sendcount, MPI_Datatype sendtype, void *recvbuf, int recvcount, MPI_Datatype recvtype, MPI_Comm c, MPI_Request *req) {
    CollSlot s{}; s.sbuf = sendbuf; s.rbuf = recvbuf; s.scount = sendcount; s.stype = sendtype; s.rcount = recvcount; s.rtype = recvtype;
    collective(c, s, alltoall_compute, req);
    return 0;
}

int MPI_Comm_split(MPI_Comm c, int color, int key, MPI_Comm *newcomm) {
    CollSlot s{}; s.a = color; s.b = key; s.rbuf = newcomm;
    collective(c, s, [&](Comm &cm) {
        int n = (int)cm.members.size();
        std::map<int, std::vector<std::pair<std::pair<int,int>,int>>> groups;   // color -> ((key, rank), world)
        for (int r = 0; r < n; ++r) {
            if (cm.slots[r].a == MPI_UNDEFINED) { *(MPI_Comm*)cm.slots[r].rbuf = MPI_COMM_NULL; continue; }
            groups[cm.slots[r].a].push_back({{cm.slots[r].b, r}, cm.members[r]});
        }
        // new_comm() may reallocate W.comms: collect the output pointers first
        std::vector<MPI_Comm*> outp(n);
        for (int r = 0; r < n; ++r) outp[r] = (MPI_Comm*)cm.slots[r].rbuf;
        std::vector<int> members_copy = cm.members;
        for (auto &g : groups) {
            std::sort(g.second.begin(), g.second.end());
            std::vector<int> mem; for (auto &e : g.second) mem.push_back(e.second);
            std::vector<int> ranks; for (auto &e : g.second) ranks.push_back(e.first.second);
            int h = new_comm(mem);
            for (int r : ranks) *outp[r] = h;
        }
    });
    return 0;
}
int MPI_Comm_free(MPI_Comm *c) { if (c && *c > 1) { /* handle stays allocated for the rest of the run */ *c = MPI_COMM_NULL; } return 0; }

} // extern "C"
