/* mpi.h -- in-process model of the MPI subset that amgcl/mpi uses.  Ranks are fibers of the
 * vsched scheduler inside one process; see minimpi.cpp.  This header is put first on the
 * include path of the MPI harness units (it shadows the system <mpi.h>).
 */
#ifndef VERIF_MINIMPI_H
#define VERIF_MINIMPI_H
#include <stddef.h>

#define MPI_VERSION 3
#define MPI_SUBVERSION 1

typedef int MPI_Comm;
typedef int MPI_Datatype;
typedef int MPI_Op;
typedef int MPI_Request;
typedef struct { int MPI_SOURCE, MPI_TAG, MPI_ERROR; } MPI_Status;

#define MPI_COMM_NULL   ((MPI_Comm)0)
#define MPI_COMM_WORLD  ((MPI_Comm)1)
#define MPI_REQUEST_NULL ((MPI_Request)-1)
#define MPI_STATUS_IGNORE   ((MPI_Status*)0)
#define MPI_STATUSES_IGNORE ((MPI_Status*)0)
#define MPI_UNDEFINED (-32766)
#define MPI_SUCCESS 0
#define MPI_MAX_PROCESSOR_NAME 64
#define MPI_THREAD_MULTIPLE 3
#define MPI_IN_PLACE ((void*)-1)

enum { MPI_DATATYPE_NULL = 0, MPI_CHAR = 1, MPI_INT, MPI_UNSIGNED, MPI_LONG_LONG_INT, MPI_UNSIGNED_LONG_LONG,
       MPI_FLOAT, MPI_DOUBLE, MPI_LONG_DOUBLE, MPI_CXX_FLOAT_COMPLEX, MPI_CXX_DOUBLE_COMPLEX, MPI_LONG, MPI_UNSIGNED_LONG,
       MPI_BYTE, MPI__FIRST_DERIVED };
#define MPI_LONG_LONG MPI_LONG_LONG_INT
enum { MPI_SUM = 1, MPI_PROD, MPI_MIN, MPI_MAX };

#ifdef __cplusplus
extern "C" {
#endif
int MPI_Init(int *argc, char ***argv);
int MPI_Init_thread(int *argc, char ***argv, int required, int *provided);
int MPI_Finalize(void);
int MPI_Comm_rank(MPI_Comm comm, int *rank);
int MPI_Comm_size(MPI_Comm comm, int *size);
int MPI_Comm_split(MPI_Comm comm, int color, int key, MPI_Comm *newcomm);
int MPI_Comm_free(MPI_Comm *comm);
int MPI_Type_contiguous(int count, MPI_Datatype oldtype, MPI_Datatype *newtype);
int MPI_Type_commit(MPI_Datatype *type);
int MPI_Isend(const void *buf, int count, MPI_Datatype type, int dest, int tag, MPI_Comm comm, MPI_Request *req);
int MPI_Irecv(void *buf, int count, MPI_Datatype type, int source, int tag, MPI_Comm comm, MPI_Request *req);
int MPI_Send(const void *buf, int count, MPI_Datatype type, int dest, int tag, MPI_Comm comm);
int MPI_Recv(void *buf, int count, MPI_Datatype type, int source, int tag, MPI_Comm comm, MPI_Status *status);
int MPI_Wait(MPI_Request *req, MPI_Status *status);
int MPI_Waitall(int count, MPI_Request *reqs, MPI_Status *statuses);
int MPI_Barrier(MPI_Comm comm);
int MPI_Bcast(void *buf, int count, MPI_Datatype type, int root, MPI_Comm comm);
int MPI_Allreduce(const void *sendbuf, void *recvbuf, int count, MPI_Datatype type, MPI_Op op, MPI_Comm comm);
int MPI_Exscan(const void *sendbuf, void *recvbuf, int count, MPI_Datatype type, MPI_Op op, MPI_Comm comm);
int MPI_Allgather(const void *sendbuf, int sendcount, MPI_Datatype sendtype, void *recvbuf, int recvcount, MPI_Datatype recvtype, MPI_Comm comm);
int MPI_Gather(const void *sendbuf, int sendcount, MPI_Datatype sendtype, void *recvbuf, int recvcount, MPI_Datatype recvtype, int root, MPI_Comm comm);
int MPI_Alltoall(const void *sendbuf, int sendcount, MPI_Datatype sendtype, void *recvbuf, int recvcount, MPI_Datatype recvtype, MPI_Comm comm);
int MPI_Ialltoall(const void *sendbuf, int sendcount, MPI_Datatype sendtype, void *recvbuf, int recvcount, MPI_Datatype recvtype, MPI_Comm comm, MPI_Request *req);
int MPI_Get_processor_name(char *name, int *len);
double MPI_Wtime(void);
int MPI_Abort(MPI_Comm comm, int code);
#ifdef __cplusplus
}

#include <functional>
#include <string>
namespace mm {
struct Config {
    int  send_mode = 0;          // 0: eager (send buffer copied at Isend, completes at once)  1: late/rendezvous (buffer read at the first of sender's or receiver's wait, send completes only when matched)
    int  recv_mode = 0;          // 0: eager (receive buffer filled as soon as data is available) 1: late (filled inside the receiver's Wait)
    bool explore_completion = false;   // per request: vs::choose(2) decides the mode (0 = the defaults above)
    bool reduce_reverse = false; // reduction order: descending rank instead of ascending
};
Config& cfg();
struct Stats { long long p2p_messages = 0, collectives = 0, late_sends = 0, late_recvs = 0, bytes = 0, late_changed_buffer = 0; };
Stats& stats();
// run body(rank) on nranks rank-fibers; returns when all ranks returned.  Exceptions thrown by a
// rank are rethrown (first one); vs::Deadlock is thrown when no rank can make progress.
void run(int nranks, const std::function<void(int)> &body);
int  world_rank();
std::string where_all();   // what every rank was last doing inside MPI (for deadlock reports)   // rank of the calling fiber in MPI_COMM_WORLD
}
#endif
#endif
