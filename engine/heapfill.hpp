#ifndef VERIF_HEAPFILL_HPP
#define VERIF_HEAPFILL_HPP
#include <cstdint>
namespace hf {
void set_mode(int mode, uint64_t seed = 1);   // 0: 0x00, 1: 0xFF, 2: 0xAA, 3: LCG(seed) bytes
long long live_blocks();
long long live_bytes();
long long total_allocs();
}
#endif
