// gomp_pthread.cpp -- the same libgomp ABI subset as gomp_fiber.cpp, on real pthreads.
// Used for the FREE-RUNNING passes: (a) ThreadSanitizer builds (libgomp itself is not
// TSan-instrumented and would produce false reports; pthread barriers/mutexes are
// understood by TSan), (b) sanity runs of harness bodies on real threads.
#include <pthread.h>
#include <atomic>
#include <vector>
#include <map>
#include <exception>
#include <cstdio>
#include <cstdlib>

namespace {
struct Team {
    int n;
    pthread_barrier_t bar;
    std::atomic<long> single_done{0};
};
thread_local Team *t_team = nullptr;
thread_local int t_tid = 0;
thread_local long t_single = 0;
thread_local int t_nest = 0;
int g_max_threads = []{ const char *e = getenv("OMP_NUM_THREADS"); int v = e ? atoi(e) : 1; return v > 0 ? v : 1; }();
pthread_mutex_t g_unnamed = PTHREAD_MUTEX_INITIALIZER;
pthread_mutex_t g_map_lock = PTHREAD_MUTEX_INITIALIZER;
std::map<void**, pthread_mutex_t*> g_named;

struct Start { Team *team; int tid; void (*fn)(void*); void *data; std::exception_ptr exc; };
void *thread_main(void *p) {
    Start *s = (Start*)p;
    t_team = s->team; t_tid = s->tid; t_single = 0;
    try { s->fn(s->data); } catch (...) { s->exc = std::current_exception(); }
    t_team = nullptr; t_tid = 0;
    return nullptr;
}
pthread_mutex_t *named(void **p) {
    pthread_mutex_lock(&g_map_lock);
    pthread_mutex_t *&m = g_named[p];
    if (!m) { m = new pthread_mutex_t; pthread_mutex_init(m, nullptr); }
    pthread_mutex_t *r = m;
    pthread_mutex_unlock(&g_map_lock);
    return r;
}
}

extern "C" {
int omp_get_max_threads(void) { return g_max_threads; }
int omp_get_num_threads(void) { return (t_team && !t_nest) ? t_team->n : 1; }
int omp_get_thread_num(void)  { return (t_team && !t_nest) ? t_tid : 0; }
int omp_get_num_procs(void)   { return g_max_threads; }
int omp_in_parallel(void)     { return t_team != nullptr; }
void omp_set_num_threads(int n) { g_max_threads = n > 0 ? n : 1; }
double omp_get_wtime(void) { return 0.0; }
int omp_get_level(void) { return t_team ? 1 : 0; }

// persistent worker pool: thread creation per region is far too slow under TSan
namespace {
struct Pool {
    pthread_mutex_t mu = PTHREAD_MUTEX_INITIALIZER;
    pthread_cond_t cv_job = PTHREAD_COND_INITIALIZER, cv_done = PTHREAD_COND_INITIALIZER;
    std::vector<pthread_t> th;          // workers 1..
    long gen = 0;                       // job generation
    int job_n = 0; int remaining = 0;
    std::vector<Start> *starts = nullptr;
};
Pool g_pool;
void *pool_worker(void *arg) {
    int id = (int)(long)arg;            // worker id >= 1
    long seen = 0;
    for (;;) {
        pthread_mutex_lock(&g_pool.mu);
        while (g_pool.gen == seen) pthread_cond_wait(&g_pool.cv_job, &g_pool.mu);
        seen = g_pool.gen;
        bool mine = id < g_pool.job_n;
        std::vector<Start> *st = g_pool.starts;
        pthread_mutex_unlock(&g_pool.mu);
        if (!mine) continue;
        thread_main(&(*st)[id]);
        pthread_mutex_lock(&g_pool.mu);
        if (--g_pool.remaining == 0) pthread_cond_signal(&g_pool.cv_done);
        pthread_mutex_unlock(&g_pool.mu);
    }
    return nullptr;
}
}

void GOMP_parallel(void (*fn)(void *), void *data, unsigned num_threads, unsigned) {
    int n = num_threads ? (int)num_threads : g_max_threads;
    if (t_team) { struct R { ~R() { --t_nest; } } r; ++t_nest; fn(data); return; }   // nested: team of one
    if (n <= 1) { fn(data); return; }
    Team team; team.n = n;
    pthread_barrier_init(&team.bar, nullptr, n);
    std::vector<Start> st(n);
    for (int i = 0; i < n; ++i) st[i] = Start{&team, i, fn, data, nullptr};
    pthread_mutex_lock(&g_pool.mu);
    while ((int)g_pool.th.size() < n - 1) {
        pthread_t t; long id = (long)g_pool.th.size() + 1;
        if (pthread_create(&t, nullptr, pool_worker, (void*)id) != 0) { perror("pthread_create"); abort(); }
        pthread_detach(t);
        g_pool.th.push_back(t);
    }
    g_pool.starts = &st; g_pool.job_n = n; g_pool.remaining = n - 1; g_pool.gen++;
    pthread_cond_broadcast(&g_pool.cv_job);
    pthread_mutex_unlock(&g_pool.mu);
    thread_main(&st[0]);
    pthread_mutex_lock(&g_pool.mu);
    while (g_pool.remaining > 0) pthread_cond_wait(&g_pool.cv_done, &g_pool.mu);
    pthread_mutex_unlock(&g_pool.mu);
    pthread_barrier_destroy(&team.bar);
    for (int i = 0; i < n; ++i) if (st[i].exc) std::rethrow_exception(st[i].exc);
}

void GOMP_barrier(void) { if (t_team && !t_nest && t_team->n > 1) pthread_barrier_wait(&t_team->bar); }
void GOMP_critical_start(void) { pthread_mutex_lock(&g_unnamed); }
void GOMP_critical_end(void)   { pthread_mutex_unlock(&g_unnamed); }
void GOMP_critical_name_start(void **p) { pthread_mutex_lock(named(p)); }
void GOMP_critical_name_end(void **p)   { pthread_mutex_unlock(named(p)); }
void GOMP_atomic_start(void) { pthread_mutex_lock(&g_unnamed); }
void GOMP_atomic_end(void)   { pthread_mutex_unlock(&g_unnamed); }

bool GOMP_single_start(void) {
    if (!t_team || t_nest || t_team->n == 1) return true;
    long mine = t_single++;
    long expect = mine;
    return t_team->single_done.compare_exchange_strong(expect, mine + 1);
}
}
