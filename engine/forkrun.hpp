// forkrun.hpp -- run one case in a forked child so that a crash / sanitizer abort /
// glibc heap abort is an observed OUTCOME of the case instead of the end of the check.
//
//   fr::Result r = fr::run([&](fr::Out &out){ ... out << "text the parent should see"; }, timeout_s);
//   r.kind : OK (child returned normally), EXC (C++ exception escaped fn; r.text = what()),
//            SIGNAL (r.code = signal number), EXIT (non-zero exit, e.g. sanitizer: r.code),
//            TIMEOUT
//   r.text : everything the child wrote to `out` (OK/EXC) ; r.err : tail of the child's stderr
#ifndef VERIF_FORKRUN_HPP
#define VERIF_FORKRUN_HPP
#include <string>
#include <sstream>
#include <functional>
#include <exception>
#include <unistd.h>
#include <sys/wait.h>
#include <sys/types.h>
#include <signal.h>
#include <poll.h>
#include <fcntl.h>
#include <cstring>
#include <cstdlib>
#include <chrono>

namespace fr {

enum Kind { OK = 0, EXC = 1, SIGNAL = 2, EXIT = 3, TIMEOUT = 4 };
typedef std::ostringstream Out;

struct Result {
    Kind kind = OK;
    int code = 0;
    std::string text, err;
    const char *kind_name() const { static const char *n[] = {"ok", "exception", "signal", "abnormal-exit", "timeout"}; return n[kind]; }
};

inline void write_all(int fd, const std::string &s) {
    size_t off = 0;
    while (off < s.size()) { ssize_t w = ::write(fd, s.data() + off, s.size() - off); if (w <= 0) break; off += (size_t)w; }
}

inline Result run(const std::function<void(Out&)> &fn, double timeout_s = 60.0) {
    int po[2], pe[2];
    if (pipe(po) != 0 || pipe(pe) != 0) { perror("pipe"); std::abort(); }
    fflush(stdout); fflush(stderr);
    pid_t pid = fork();
    if (pid < 0) { perror("fork"); std::abort(); }
    if (pid == 0) {
        close(po[0]); close(pe[0]);
        dup2(pe[1], 2); close(pe[1]);
        Out out;
        int rc = 0;
        std::string head = "K";
        try { fn(out); }
        catch (const std::exception &e) { head = "E"; out.str(""); out << e.what(); }
        catch (...) { head = "E"; out.str(""); out << "unknown exception"; }
        write_all(po[1], head + out.str());
        close(po[1]);
        _exit(rc);
    }
    close(po[1]); close(pe[1]);
    Result r;
    std::string so, se;
    struct pollfd fds[2] = {{po[0], POLLIN, 0}, {pe[0], POLLIN, 0}};
    bool open0 = true, open1 = true;
    auto t0 = std::chrono::steady_clock::now();
    char buf[65536];
    bool timed_out = false;
    while (open0 || open1) {
        double el = std::chrono::duration<double>(std::chrono::steady_clock::now() - t0).count();
        if (el > timeout_s) { timed_out = true; kill(pid, SIGKILL); break; }
        fds[0].fd = open0 ? po[0] : -1; fds[1].fd = open1 ? pe[0] : -1;
        int pr = poll(fds, 2, 200);
        if (pr <= 0) continue;
        if (open0 && (fds[0].revents & (POLLIN | POLLHUP))) { ssize_t n = read(po[0], buf, sizeof buf); if (n > 0) so.append(buf, n); else open0 = false; }
        if (open1 && (fds[1].revents & (POLLIN | POLLHUP))) { ssize_t n = read(pe[0], buf, sizeof buf); if (n > 0) { se.append(buf, n); if (se.size() > 200000) se.erase(0, se.size() - 100000); } else open1 = false; }
    }
    close(po[0]); close(pe[0]);
    int st = 0;
    waitpid(pid, &st, 0);
    r.err = se.size() > 3000 ? se.substr(0, 1800) + "\n...\n" + se.substr(se.size() - 1000) : se;
    if (timed_out) { r.kind = TIMEOUT; return r; }
    if (WIFSIGNALED(st)) { r.kind = SIGNAL; r.code = WTERMSIG(st); return r; }
    if (WIFEXITED(st) && WEXITSTATUS(st) != 0) { r.kind = EXIT; r.code = WEXITSTATUS(st); return r; }
    if (so.empty()) { r.kind = EXIT; r.code = -1; return r; }
    r.kind = so[0] == 'E' ? EXC : OK;
    r.text = so.substr(1);
    return r;
}

} // namespace fr
#endif
