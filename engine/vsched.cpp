// vsched.cpp -- see vsched.hpp
#include "vsched.hpp"
#include <ucontext.h>
#include <sys/mman.h>
#include <cstdlib>
#include <cstring>
#include <cstdio>
#include <memory>
#include <algorithm>
#include <exception>
#include <cxxabi.h>

#ifdef VS_ASAN
extern "C" {
void __sanitizer_start_switch_fiber(void **fake_stack_save, const void *bottom, size_t size);
void __sanitizer_finish_switch_fiber(void *fake_stack_save, const void **bottom_old, size_t *size_old);
}
#define ASAN_START(a,b,c) __sanitizer_start_switch_fiber(a,b,c)
#define ASAN_FINISH(a,b,c) __sanitizer_finish_switch_fiber(a,b,c)
#else
#define ASAN_START(a,b,c) ((void)0)
#define ASAN_FINISH(a,b,c) ((void)0)
#endif

namespace __cxxabiv1 { struct __cxa_eh_globals; extern "C" __cxa_eh_globals* __cxa_get_globals() noexcept; }

namespace vs {

namespace {

struct EhGlobals { void *caught; unsigned int uncaught; };

enum FState { RUNNABLE, BLOCKED, DONE };

struct Group;

struct Fiber {
    ucontext_t ctx;
    char *stack = nullptr;
    size_t stack_size = 0;
    FState st = RUNNABLE;
    std::function<bool()> ready;
    Group *group = nullptr;
    int index = 0, uid = 0;
    long long steps = 0;
    uint64_t local_hash = 0;
    std::exception_ptr exc;
    void *fake = nullptr;
    EhGlobals eh{nullptr, 0};
    void *slots[4] = {nullptr, nullptr, nullptr, nullptr};
    bool started = false;
};

struct Group {
    int n = 0, kind = 0, done = 0;
    const std::function<void(int)> *body = nullptr;
    std::vector<Fiber*> fibers;
    Fiber *parent = nullptr;
};

const size_t STACK_SIZE = 1u << 20;

struct Sched {
    ucontext_t root;
    Fiber *cur = nullptr;          // running fiber (nullptr: root context)
    Fiber *last = nullptr;         // fiber that ran most recently
    std::vector<Fiber*> live;      // all fibers of the execution not yet reclaimed, ascending uid
    std::vector<char*> stack_pool;
    int next_uid = 0;
    size_t pos = 0;                // next choice index
    bool looping = false;
    const void *root_bottom = nullptr; size_t root_size = 0;
    void *root_fake = nullptr;
    EhGlobals root_eh{nullptr, 0};
    bool aborting = false;
};

Sched G;
Config C;
Trace T;

char *get_stack() {
    if (!G.stack_pool.empty()) { char *s = G.stack_pool.back(); G.stack_pool.pop_back(); return s; }
    void *p = mmap(nullptr, STACK_SIZE, PROT_READ | PROT_WRITE, MAP_PRIVATE | MAP_ANONYMOUS | MAP_STACK, -1, 0);
    if (p == MAP_FAILED) { perror("mmap fiber stack"); std::abort(); }
    return (char*)p;
}
void put_stack(char *s) { G.stack_pool.push_back(s); }

EhGlobals *ehg() { return reinterpret_cast<EhGlobals*>(__cxxabiv1::__cxa_get_globals()); }

void trampoline();

void switch_to(Fiber *f) {          // root -> fiber
    G.cur = f; G.last = f;
    G.root_eh = *ehg(); *ehg() = f->eh;
    ASAN_START(&G.root_fake, f->stack, f->stack_size);
    swapcontext(&G.root, &f->ctx);
    ASAN_FINISH(G.root_fake, nullptr, nullptr);
    f->eh = *ehg(); *ehg() = G.root_eh;
    G.cur = nullptr;
}

void yield_to_root(bool dying = false) {   // fiber -> root
    Fiber *f = G.cur;
    ASAN_START(dying ? nullptr : &f->fake, G.root_bottom, G.root_size);
    swapcontext(&f->ctx, &G.root);
    ASAN_FINISH(f->fake, nullptr, nullptr);
}

void trampoline() {
    ASAN_FINISH(nullptr, &G.root_bottom, &G.root_size);
    Fiber *f = G.cur;
    try {
        (*f->group->body)(f->index);
    } catch (...) {
        f->exc = std::current_exception();
    }
    f->st = DONE;
    f->group->done++;
    yield_to_root(true);
    std::abort(); // never resumed
}

uint64_t mix(uint64_t h, uint64_t v) {
    h ^= v + 0x9e3779b97f4a7c15ULL + (h << 6) + (h >> 2);
    h *= 0xff51afd7ed558ccdULL; h ^= h >> 33;
    return h;
}

uint64_t sched_state_hash() {
    uint64_t h = 0x1234567;
    for (Fiber *f : G.live) {
        h = mix(h, (uint64_t)f->uid * 4 + (uint64_t)f->st);
        h = mix(h, (uint64_t)f->steps);
        h = mix(h, f->local_hash);
    }
    h = mix(h, G.last ? (uint64_t)G.last->uid + 1 : 0);
    return h ? h : 1;
}

int record_choice(int n, bool sched, bool cur_enabled) {
    int c = 0;
    if (G.pos < C.prefix.size()) {
        c = C.prefix[G.pos];
        if (c < 0 || c >= n) {
            G.aborting = true;
            throw Diverged("replay diverged: choice " + std::to_string(c) + " of " + std::to_string(n) + " at point " + std::to_string(G.pos));
        }
    }
    ChoicePoint p;
    p.n = n; p.chosen = c; p.sched = sched; p.cur_enabled = cur_enabled;
    p.state = 0;
    if (C.state_hash && G.pos >= C.prefix.size()) p.state = mix(C.state_hash(), sched_state_hash());
    T.points.push_back(p);
    ++G.pos;
    return c;
}

void reclaim() {
    for (Fiber *f : G.live) { put_stack(f->stack); delete f; }
    G.live.clear(); G.cur = nullptr; G.last = nullptr;
}

// runs in the root context
void loop_until(const std::function<bool()> &stop) {
    std::vector<Fiber*> en;
    while (!stop()) {
        en.clear();
        Fiber *curf = nullptr;
        for (Fiber *f : G.live) {
            bool e = f->st == RUNNABLE || (f->st == BLOCKED && f->ready && f->ready());
            if (!e) continue;
            if (f == G.last && C.default_policy != 2) curf = f; else en.push_back(f);
        }
        if (C.default_policy != 0) std::reverse(en.begin(), en.end());
        if (curf) en.insert(en.begin(), curf);
        if (en.empty()) {
            std::string s = "deadlock: no enabled fiber; blocked:";
            for (Fiber *f : G.live) if (f->st == BLOCKED) s += " " + std::to_string(f->uid) + "(idx " + std::to_string(f->index) + ")";
            G.aborting = true;
            reclaim();
            throw Deadlock(s);
        }
        if (++T.steps > C.step_cap) { G.aborting = true; reclaim(); throw StepCap("step cap hit"); }
        int c = 0;
        if (en.size() > 1) {
            try { c = record_choice((int)en.size(), true, curf != nullptr); }
            catch (...) { reclaim(); throw; }
        }
        Fiber *f = en[c];
        if (f->st == BLOCKED) { f->st = RUNNABLE; f->ready = nullptr; }
        f->steps++;
        switch_to(f);
    }
}

} // anon

Config& cfg() { return C; }
Trace& trace() { return T; }

void begin_execution() {
    T = Trace();
    G.pos = 0; G.next_uid = 0; G.aborting = false;
    if (!G.live.empty()) reclaim();
}

bool in_fiber() { return G.cur != nullptr; }
int fiber_index() { return G.cur ? G.cur->index : 0; }
int group_size() { return G.cur ? G.cur->group->n : 1; }
int group_kind() { return G.cur ? G.cur->group->kind : -1; }
int fiber_uid() { return G.cur ? G.cur->uid : -1; }
void* &fiber_local(int slot) { static void *rootslots[4] = {0,0,0,0}; return G.cur ? G.cur->slots[slot] : rootslots[slot]; }
void fiber_mix(uint64_t v) { if (G.cur) G.cur->local_hash = mix(G.cur->local_hash, v); }

void point(int) {
    if (!G.cur) return;
    yield_to_root();
}

void block_until(const std::function<bool()> &ready) {
    if (!G.cur) {
        if (!ready()) throw Deadlock("block_until in root context with unsatisfied condition");
        return;
    }
    if (ready()) { // still a scheduling point
        yield_to_root();
        return;
    }
    G.cur->st = BLOCKED;
    G.cur->ready = ready;
    yield_to_root();
}

int choose(int n) {
    if (n <= 1) return 0;
    return record_choice(n, false, false);
}

void run_group(int n, const std::function<void(int)> &body, int kind) {
    Group g;
    g.n = n; g.kind = kind; g.body = &body; g.parent = G.cur;
    for (int i = 0; i < n; ++i) {
        Fiber *f = new Fiber();
        f->stack = get_stack(); f->stack_size = STACK_SIZE;
        f->group = &g; f->index = i; f->uid = G.next_uid++;
        getcontext(&f->ctx);
        f->ctx.uc_stack.ss_sp = f->stack; f->ctx.uc_stack.ss_size = STACK_SIZE; f->ctx.uc_link = nullptr;
        makecontext(&f->ctx, (void(*)())trampoline, 0);
        g.fibers.push_back(f);
        G.live.push_back(f);
    }
    if (n > 1) { T.teams++; T.max_team = std::max(T.max_team, n); }
    if (G.cur) {
        Group *gp = &g;
        Fiber *me = G.cur;
        me->st = BLOCKED; me->ready = [gp]{ return gp->done == gp->n; };
        yield_to_root();
    } else {
        Group *gp = &g;
        loop_until([gp]{ return gp->done == gp->n; });
    }
    // reclaim this group's fibers
    std::exception_ptr exc;
    for (Fiber *f : g.fibers) {
        if (f->exc && !exc) exc = f->exc;
        auto it = std::find(G.live.begin(), G.live.end(), f);
        if (it != G.live.end()) G.live.erase(it);
        if (G.last == f) G.last = G.cur;
        put_stack(f->stack);
        delete f;
    }
    if (exc) {
        if (kind == 0 && n > 1) T.exception_escaped_region = true;
        std::rethrow_exception(exc);
    }
}

ExploreStats explore(const std::function<uint64_t()> &body, int bound, long long max_exec,
                     const std::function<void(const std::vector<int>&, uint64_t)> &on_exec, bool delay_bounded)
{
    ExploreStats st;
    struct Item { std::vector<int> prefix; };
    std::vector<Item> stack;
    stack.push_back(Item{});
    std::unordered_map<uint64_t, int> visited;
    std::vector<int> saved_prefix = C.prefix;
    while (!stack.empty()) {
        if (st.executions >= max_exec) { st.capped = true; break; }
        Item it = std::move(stack.back()); stack.pop_back();
        C.prefix = it.prefix;
        begin_execution();
        uint64_t obs = body();
        st.executions++;
        st.outcomes[obs]++;
        const std::vector<ChoicePoint> &P = T.points;
        std::vector<int> choices(P.size());
        for (size_t i = 0; i < P.size(); ++i) choices[i] = P[i].chosen;
        if (on_exec) on_exec(choices, obs);
        int cost = 0;
        for (size_t i = 0; i < it.prefix.size() && i < P.size(); ++i)
            if (P[i].chosen != 0 && (delay_bounded || !P[i].sched || P[i].cur_enabled)) cost++;
        for (size_t i = it.prefix.size(); i < P.size(); ++i) {
            const ChoicePoint &p = P[i];
            if (p.state) {
                auto v = visited.find(p.state);
                if (v != visited.end() && v->second <= cost) { st.pruned++; break; }
                visited[p.state] = cost;
            }
            st.states++;
            for (int alt = p.n - 1; alt >= 1; --alt) {
                int ac = cost + ((p.sched && !p.cur_enabled && !delay_bounded) ? 0 : 1);
                if (bound >= 0 && ac > bound) { st.bound_skipped++; continue; }
                Item nx; nx.prefix.assign(choices.begin(), choices.begin() + i); nx.prefix.push_back(alt);
                stack.push_back(std::move(nx));
                st.transitions++;
            }
        }
    }
    if (!st.capped) st.bound_completed = bound;
    C.prefix = saved_prefix;
    return st;
}

} // namespace vs
