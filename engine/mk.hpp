// mk.hpp -- tiny dense reference matrices, builders for amgcl CRS matrices from bit
// patterns, structural validation of CRS results.  Boring on purpose.
#ifndef VERIF_MK_HPP
#define VERIF_MK_HPP

#include <vector>
#include <string>
#include <sstream>
#include <complex>
#include <cstdint>
#include <algorithm>
#include <cstring>
#include <memory>
#include <amgcl/backend/builtin.hpp>
#include <amgcl/value_type/interface.hpp>
#include <amgcl/value_type/static_matrix.hpp>

namespace mk {

// Dense m x n array of values with a structural flag per entry (stored / not stored).
template <class V>
struct Dense {
    int m = 0, n = 0;
    std::vector<V> a;
    std::vector<char> s;
    Dense() {}
    Dense(int m, int n) : m(m), n(n), a((size_t)m * n, amgcl::math::zero<V>()), s((size_t)m * n, 0) {}
    V& operator()(int i, int j) { return a[(size_t)i * n + j]; }
    const V& operator()(int i, int j) const { return a[(size_t)i * n + j]; }
    char& st(int i, int j) { return s[(size_t)i * n + j]; }
    char st(int i, int j) const { return s[(size_t)i * n + j]; }
    int nnz() const { int c = 0; for (char x : s) c += x; return c; }
};

// bit (i*n + j) of mask set  <=>  entry (i,j) stored
inline bool bit(uint64_t mask, int k) { return (mask >> k) & 1u; }

template <class V, class ValFn>
Dense<V> from_mask(int m, int n, uint64_t mask, ValFn &&val) {
    Dense<V> D(m, n);
    for (int i = 0; i < m; ++i)
        for (int j = 0; j < n; ++j)
            if (bit(mask, i * n + j)) { D.st(i, j) = 1; D(i, j) = val(i, j); }
    return D;
}

// Build an amgcl crs from a dense description.  Column order inside each row is
// ascending unless `perm` (one permutation index per row, factoradic) is given.
template <class V, class C = ptrdiff_t, class P = C>
std::shared_ptr< amgcl::backend::crs<V, C, P> > to_crs(const Dense<V> &D) {
    auto A = std::make_shared< amgcl::backend::crs<V, C, P> >();
    A->set_size(D.m, D.n, true);
    for (int i = 0; i < D.m; ++i) { int w = 0; for (int j = 0; j < D.n; ++j) w += D.st(i, j); A->ptr[i + 1] = w; }
    A->set_nonzeros(A->scan_row_sizes());
    for (int i = 0; i < D.m; ++i) {
        P h = A->ptr[i];
        for (int j = 0; j < D.n; ++j) if (D.st(i, j)) { A->col[h] = j; A->val[h] = D(i, j); ++h; }
    }
    return A;
}

// permute the entries of every row in place with std::next_permutation-style index lists
template <class M>
void permute_row(M &A, int row, const std::vector<int> &order) {
    auto b = A.ptr[row];
    int w = (int)(A.ptr[row + 1] - b);
    std::vector<typename M::col_type> c(w);
    std::vector<typename M::val_type> v(w);
    for (int k = 0; k < w; ++k) { c[k] = A.col[b + order[k]]; v[k] = A.val[b + order[k]]; }
    for (int k = 0; k < w; ++k) { A.col[b + k] = c[k]; A.val[b + k] = v[k]; }
}

// Structural validation + conversion back to dense.  Returns "" when fine.
template <class M, class V>
std::string from_crs(const M &A, Dense<V> &D, bool require_sorted, bool allow_dups = false) {
    std::ostringstream e;
    D = Dense<V>((int)A.nrows, (int)A.ncols);
    if (A.nrows == 0) return "";
    if (!A.ptr) return "null ptr array";
    if (A.ptr[0] != 0) { e << "ptr[0]=" << A.ptr[0]; return e.str(); }
    for (size_t i = 0; i < A.nrows; ++i) {
        if (A.ptr[i + 1] < A.ptr[i]) { e << "ptr not monotone at row " << i; return e.str(); }
    }
    if ((size_t)A.ptr[A.nrows] != A.nnz) { e << "nnz=" << A.nnz << " but ptr[n]=" << A.ptr[A.nrows]; return e.str(); }
    for (size_t i = 0; i < A.nrows; ++i) {
        long long prev = -1;
        for (auto j = A.ptr[i]; j < A.ptr[i + 1]; ++j) {
            long long c = (long long)A.col[j];
            if (c < 0 || c >= (long long)A.ncols) { e << "column " << c << " out of range in row " << i; return e.str(); }
            if (require_sorted && c <= prev) { e << "row " << i << " not strictly sorted"; return e.str(); }
            prev = c;
            if (D.st((int)i, (int)c)) {
                if (!allow_dups) { e << "duplicate column " << c << " in row " << i; return e.str(); }
                D((int)i, (int)c) += A.val[j];
            } else {
                D.st((int)i, (int)c) = 1;
                D((int)i, (int)c) = A.val[j];
            }
        }
    }
    return "";
}

template <class V> inline bool veq(const V &a, const V &b) { return a == b; }
template <class T, int N, int M> inline bool veq(const amgcl::static_matrix<T,N,M> &a, const amgcl::static_matrix<T,N,M> &b) {
    for (int i = 0; i < N * M; ++i) if (!(a(i) == b(i))) return false;
    return true;
}

template <class V>
bool same(const Dense<V> &X, const Dense<V> &Y, std::string &why) {
    std::ostringstream e;
    if (X.m != Y.m || X.n != Y.n) { e << "shape " << X.m << "x" << X.n << " vs " << Y.m << "x" << Y.n; why = e.str(); return false; }
    for (int i = 0; i < X.m; ++i) for (int j = 0; j < X.n; ++j) {
        if (X.st(i, j) != Y.st(i, j)) { e << "entry (" << i << "," << j << ") stored=" << (int)X.st(i, j) << " expected stored=" << (int)Y.st(i, j); why = e.str(); return false; }
        if (X.st(i, j) && std::memcmp(&X(i, j), &Y(i, j), sizeof(V)) != 0 && !veq(X(i, j), Y(i, j))) {
            e << "value at (" << i << "," << j << ") differs"; why = e.str(); return false;
        }
    }
    return true;
}

template <class V>
std::string show(const Dense<V> &D) {
    std::ostringstream o;
    o << D.m << "x" << D.n << "[";
    for (int i = 0; i < D.m; ++i) {
        o << (i ? ";" : "");
        for (int j = 0; j < D.n; ++j) { o << (j ? " " : ""); if (D.st(i, j)) o << D(i, j); else o << "."; }
    }
    o << "]";
    return o.str();
}

// next factoradic-free helper: iterate all permutations of 0..w-1
inline bool next_perm(std::vector<int> &p) { return std::next_permutation(p.begin(), p.end()); }

} // namespace mk
#endif
