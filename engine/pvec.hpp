// pvec.hpp -- instrumented vector passed as template argument to amgcl kernels that are
// templates on the vector type (gauss_seidel::parallel_sweep::sweep, ilu_solve::sptr_solve::solve).
// Every element read / write is a scheduling point of the fiber scheduler; values read are
// mixed into the reading fiber's local-history hash (so that the explorer's state hash also
// covers what a fiber keeps in its registers / locals).
#ifndef VERIF_PVEC_HPP
#define VERIF_PVEC_HPP
#include <vector>
#include <cstring>
#include <cstdint>
#include "vsched.hpp"

namespace pv {

struct Access { int fiber, index; bool write; long long epoch; };

template <class T>
struct Vec {
    std::vector<T> *v;
    std::vector<Access> *log = nullptr;
    explicit Vec(std::vector<T> &vv) : v(&vv) {}
    size_t size() const { return v->size(); }

    struct Ref {
        const Vec *p; size_t i;
        operator T() const {
            vs::point(10);
            T val = (*p->v)[i];
            uint64_t bits = 0; std::memcpy(&bits, &val, sizeof(T) < 8 ? sizeof(T) : 8);
            vs::fiber_mix(bits * 31 + i);
            if (p->log) p->log->push_back({vs::fiber_index(), (int)i, false, 0});
            return val;
        }
        Ref& operator=(const T &val) {
            vs::point(11);
            (*p->v)[i] = val;
            if (p->log) p->log->push_back({vs::fiber_index(), (int)i, true, 0});
            return *this;
        }
        Ref& operator=(const Ref &o) { return *this = (T)o; }
        Ref& operator-=(const T &val) { T cur = (T)*this; return *this = cur - val; }
        Ref& operator+=(const T &val) { T cur = (T)*this; return *this = cur + val; }
    };
    Ref operator[](size_t i) { return Ref{this, i}; }
    T operator[](size_t i) const { return (T)Ref{this, i}; }
};

} // namespace pv

namespace amgcl { namespace backend {
template <class V, class Enable> struct value_type;
template <class T> struct value_type< pv::Vec<T>, void > { typedef T type; };
}}
#endif
