// vsched.hpp -- deterministic fiber scheduler + prefix-replay explorer.
//
// Logical threads (OpenMP team members, MPI ranks) are ucontext fibers inside one
// OS thread.  Exactly one runs at a time; it runs until it calls vs::point() or
// vs::block_until().  The only nondeterminism of an execution is the sequence of
// answers given at choice points (which enabled fiber continues, or the value of
// an explicit vs::choose(n)).  An execution is described completely by its choice
// list, so it can be replayed.
#ifndef VERIF_VSCHED_HPP
#define VERIF_VSCHED_HPP

#include <vector>
#include <functional>
#include <cstdint>
#include <string>
#include <stdexcept>
#include <unordered_map>

namespace vs {

struct Deadlock : std::runtime_error { Deadlock(const std::string &s) : std::runtime_error(s) {} };
struct Diverged : std::runtime_error { Diverged(const std::string &s) : std::runtime_error(s) {} };
struct StepCap  : std::runtime_error { StepCap(const std::string &s) : std::runtime_error(s) {} };

struct ChoicePoint {
    int  n;            // number of alternatives
    int  chosen;       // the one taken
    bool sched;        // true: scheduling choice; false: explicit environment choice
    bool cur_enabled;  // (sched) the running fiber was still runnable => alternatives > 0 are preemptions
    uint64_t state;    // hash of (harness state, scheduler state) at this point, 0 if no hash function
};

// ---- configuration of the next execution -------------------------------------------
struct Config {
    int  max_threads = 1;            // what omp_get_max_threads() reports / default team size
    std::vector<int> prefix;         // choices to replay; afterwards choice 0 ("default")
    int  default_policy = 0;         // 0: keep running current, else lowest id; 1: highest id first ("reverse")
    long long step_cap = 2000000;    // horizon: max scheduling points per execution
    std::function<uint64_t()> state_hash;   // optional: hash of harness-visible shared state
    bool fine_points = true;         // honour vs::point() calls from proxies
};
Config& cfg();

// ---- trace of the last execution ----------------------------------------------------
struct Trace {
    std::vector<ChoicePoint> points;
    long long steps = 0;             // scheduling points passed (also those without alternative)
    int  teams = 0;                  // parallel regions with > 1 fiber
    int  max_team = 0;
    bool exception_escaped_region = false;
};
Trace& trace();
void begin_execution();              // reset trace, position in prefix

// ---- used by runtimes built on top (gomp shim, mini-MPI) -----------------------------
// Run n fibers executing body(i); returns when all have finished.  May be called from
// the root context or from inside a fiber (nested group: caller blocks meanwhile).
void run_group(int n, const std::function<void(int)> &body, int kind /*0=omp team,1=mpi ranks*/);
void point(int kind = 0);                               // scheduling point (yield)
void block_until(const std::function<bool()> &ready);   // blocks the calling fiber
int  choose(int n);                                     // explicit environment choice (0 = default)
bool in_fiber();
int  fiber_index();        // index inside its group (omp thread num / mpi rank), 0 outside
int  group_size();         // size of current group, 1 outside
int  group_kind();         // kind of the innermost group the caller runs in, -1 outside
int  fiber_uid();          // unique id within the execution, -1 outside
void* &fiber_local(int slot);   // small per-fiber storage for runtimes (slots 0..3)
void fiber_mix(uint64_t v);     // mix a value into the calling fiber's local-history hash (proxies call this on reads)

// ---- explorer ------------------------------------------------------------------------
struct ExploreStats {
    long long executions = 0, states = 0, transitions = 0, pruned = 0, bound_skipped = 0;
    int  bound_completed = -1;
    bool capped = false;
    std::unordered_map<uint64_t, long long> outcomes;   // observation hash -> count
};

// body(): runs ONE execution of the scenario under the currently installed Config
// (the explorer sets cfg().prefix and calls begin_execution()) and returns an
// observation hash.  on_exec is called after each execution with the choice list.
// preemption_bound < 0: unbounded (only terminates thanks to state pruning / finite space).
ExploreStats explore(const std::function<uint64_t()> &body,
                     int preemption_bound, long long max_executions,
                     const std::function<void(const std::vector<int>&, uint64_t)> &on_exec = nullptr,
                     bool delay_bounded = false);
// delay_bounded = true: EVERY non-default choice costs one unit of the bound (also the choice of who
// continues when the running fiber blocked), i.e. the bound limits the number of departures from the
// default deterministic schedule ("delay bounding"); the number of executions is then polynomial.

} // namespace vs
#endif
