// vf.hpp -- case bookkeeping shared by every check harness.
//
// A harness enumerates a finite space of cases.  For every case it calls
//     if (!vf::take([&]{ return key-string; })) continue;
// (shard filter in normal mode, key filter in replay mode), runs the real amgcl
// code, compares with its reference model and reports through vf::fail().
// At the end vf::finish() writes one JSON object that run_check.py merges into
// /verif/evidence/<id>.json.
#ifndef VERIF_VF_HPP
#define VERIF_VF_HPP

#include <string>
#include <vector>
#include <map>
#include <unordered_set>
#include <sstream>
#include <fstream>
#include <iostream>
#include <iomanip>
#include <cstdint>
#include <cstdlib>
#include <cstring>
#include <chrono>
#include <functional>

namespace vf {

struct Violation { std::string sub, key, detail; };

struct State {
    std::string prop, tier = "quick", out, unit;
    int shard = 0, nshards = 1;
    long long idx = 0;            // running case index (all shards see the same sequence)
    bool replay = false;
    std::string replay_key;
    long long seed = 0;
    long long evals = 0;
    std::unordered_set<uint64_t> nontrivial;
    bool nontrivial_saturated = false;
    std::map<std::string, long long> counters;
    std::vector<std::string> samples;       // already JSON encoded
    std::vector<Violation> viol;
    std::map<std::string, long long> viol_per_sub;
    long long viol_total = 0;
    double t0 = 0, deadline_s = 1e30;
    bool deadline_hit = false;
    std::vector<std::string> caps;           // free text: what was capped
    std::vector<std::string> spaces;         // free text: finite spaces completed
    long long states = 0, transitions = 0, traces_validated = 0;
};

inline State& S() { static State s; return s; }

inline double now() {
    using namespace std::chrono;
    return duration<double>(steady_clock::now().time_since_epoch()).count();
}

inline std::string jesc(const std::string &s) {
    std::ostringstream o;
    o << '"';
    for (unsigned char c : s) {
        switch (c) {
            case '"': o << "\\\""; break;
            case '\\': o << "\\\\"; break;
            case '\n': o << "\\n"; break;
            case '\t': o << "\\t"; break;
            case '\r': o << "\\r"; break;
            default:
                if (c < 0x20 || c >= 0x7f) { o << "\\u" << std::hex << std::setw(4) << std::setfill('0') << (int)c << std::dec; }
                else o << c;
        }
    }
    o << '"';
    return o.str();
}

inline void init(int argc, char **argv, const char *prop) {
    State &s = S();
    s.prop = prop;
    s.t0 = now();
    for (int i = 1; i < argc; ++i) {
        std::string a = argv[i];
        auto next = [&]() -> std::string { if (i + 1 >= argc) { std::cerr << "missing value for " << a << "\n"; std::exit(2); } return argv[++i]; };
        if (a == "--tier") s.tier = next();
        else if (a == "--shard") { s.shard = std::atoi(next().c_str()); s.nshards = std::atoi(next().c_str()); }
        else if (a == "--out") s.out = next();
        else if (a == "--unit") s.unit = next();
        else if (a == "--replay-key") { s.replay = true; s.replay_key = next(); }
        else if (a == "--deadline") s.deadline_s = std::atof(next().c_str());
        else if (a == "--seed") s.seed = std::atoll(next().c_str());
        else { std::cerr << "unknown argument " << a << "\n"; std::exit(2); }
    }
}

inline bool quick()    { return S().tier != "thorough"; }
inline bool thorough() { return S().tier == "thorough"; }
inline bool replaying(){ return S().replay; }

// true once the global deadline passed; enumeration loops test it between cases
inline bool expired() {
    State &s = S();
    if (s.deadline_hit) return true;
    if ((s.idx & 0xff) == 0 && now() - s.t0 > s.deadline_s) { s.deadline_hit = true; }
    return s.deadline_hit;
}

// Section gate: keys of all cases inside a section start with "<tag>|".  In replay mode
// sections that cannot contain the replayed key are skipped entirely.
inline bool section(const std::string &tag) {
    State &s = S();
    if (!s.replay) return true;
    return s.replay_key.compare(0, tag.size() + 1, tag + "|") == 0;
}

// Case gate.  key is only evaluated when replaying.
template <class KeyFn>
inline bool take(KeyFn &&key) {
    State &s = S();
    long long i = s.idx++;
    if (s.replay) {
        if (key() != s.replay_key) return false;
    } else {
        if (expired()) return false;
        if (i % s.nshards != s.shard) return false;
    }
    ++s.evals;
    return true;
}

// A cheaper gate for "groups" of cases: the group index decides the shard, the
// cases inside are all run by that shard.  In replay mode every group is entered.
inline bool take_group() {
    State &s = S();
    long long i = s.idx++;
    if (s.replay) return true;
    if (expired()) return false;
    return i % s.nshards == s.shard;
}
// inside a group
template <class KeyFn>
inline bool take_in_group(KeyFn &&key) {
    State &s = S();
    if (s.replay && key() != s.replay_key) return false;
    ++s.evals;
    return true;
}

inline uint64_t hmix(uint64_t h, uint64_t v) {
    h ^= v + 0x9e3779b97f4a7c15ULL + (h << 6) + (h >> 2);
    h *= 0xff51afd7ed558ccdULL; h ^= h >> 33;
    return h;
}
inline uint64_t hstr(const std::string &s) {
    uint64_t h = 1469598103934665603ULL;
    for (unsigned char c : s) { h ^= c; h *= 1099511628211ULL; }
    return h;
}
inline uint64_t hbytes(const void *p, size_t n, uint64_t h = 1469598103934665603ULL) {
    const unsigned char *c = (const unsigned char*)p;
    for (size_t i = 0; i < n; ++i) { h ^= c[i]; h *= 1099511628211ULL; }
    return h;
}

// record that the case with canonical hash h is non-trivial by the check's rule
inline void nontrivial(uint64_t h) {
    State &s = S();
    if (s.nontrivial.size() >= 4000000) { s.nontrivial_saturated = true; return; }
    s.nontrivial.insert(h);
}
inline void count(const std::string &name, long long n = 1) { S().counters[name] += n; }

inline void sample(const std::string &json_value) {
    State &s = S();
    if (s.samples.size() < 6) s.samples.push_back(json_value);
}
inline void sample_str(const std::string &text) { sample(jesc(text)); }

inline void fail(const std::string &sub, const std::string &key, const std::string &detail) {
    State &s = S();
    ++s.viol_total;
    long long &n = s.viol_per_sub[sub];
    ++n;
    if (n <= 40) s.viol.push_back({sub, key, detail});
    if (s.replay) std::cerr << "REPRODUCED sub=" << sub << " key=" << key << " :: " << detail << "\n";
}

inline void cap(const std::string &what)   { S().caps.push_back(what); }
inline void space(const std::string &what) { S().spaces.push_back(what); }

inline int finish() {
    State &s = S();
    std::ostringstream o;
    o << "{\n";
    o << " \"property\": " << jesc(s.prop) << ",\n";
    o << " \"unit\": " << jesc(s.unit) << ",\n";
    o << " \"tier\": " << jesc(s.tier) << ",\n";
    o << " \"shard\": " << s.shard << ", \"nshards\": " << s.nshards << ",\n";
    o << " \"replay\": " << (s.replay ? "true" : "false") << ",\n";
    o << " \"cases_seen\": " << s.idx << ",\n";
    o << " \"evaluations\": " << s.evals << ",\n";
    o << " \"distinct_nontrivial\": " << s.nontrivial.size() << ",\n";
    o << " \"nontrivial_saturated\": " << (s.nontrivial_saturated ? "true" : "false") << ",\n";
    o << " \"states\": " << s.states << ", \"transitions\": " << s.transitions
      << ", \"traces_validated\": " << s.traces_validated << ",\n";
    o << " \"deadline_hit\": " << (s.deadline_hit ? "true" : "false") << ",\n";
    o << " \"wall_s\": " << (now() - s.t0) << ",\n";
    o << " \"counters\": {";
    { bool f = true; for (auto &kv : s.counters) { o << (f ? "" : ", ") << jesc(kv.first) << ": " << kv.second; f = false; } }
    o << "},\n";
    o << " \"caps\": [";
    { bool f = true; for (auto &c : s.caps) { o << (f ? "" : ", ") << jesc(c); f = false; } }
    o << "],\n";
    o << " \"spaces\": [";
    { bool f = true; for (auto &c : s.spaces) { o << (f ? "" : ", ") << jesc(c); f = false; } }
    o << "],\n";
    o << " \"samples\": [";
    { bool f = true; for (auto &c : s.samples) { o << (f ? "" : ", ") << c; f = false; } }
    o << "],\n";
    o << " \"violations_total\": " << s.viol_total << ",\n";
    o << " \"violations_per_sub\": {";
    { bool f = true; for (auto &kv : s.viol_per_sub) { o << (f ? "" : ", ") << jesc(kv.first) << ": " << kv.second; f = false; } }
    o << "},\n";
    o << " \"violations\": [";
    { bool f = true; for (auto &v : s.viol) {
        o << (f ? "" : ",") << "\n  {\"sub\": " << jesc(v.sub) << ", \"key\": " << jesc(v.key) << ", \"detail\": " << jesc(v.detail) << "}";
        f = false; } }
    o << "]\n}\n";
    if (s.out.empty()) std::cout << o.str();
    else { std::ofstream f(s.out); f << o.str(); }
    // hash dump for an exact cross-shard union (only when small)
    if (!s.out.empty() && !s.nontrivial_saturated && s.nontrivial.size() <= 300000) {
        std::ofstream f(s.out + ".nth", std::ios::binary);
        for (uint64_t h : s.nontrivial) f.write((const char*)&h, 8);
    }
    if (s.replay) return s.viol_total ? 1 : 0;
    return 0;
}

// small helper for keys / details
struct KS {
    std::ostringstream o;
    template <class T> KS& operator<<(const T &v) { o << v; return *this; }
    operator std::string() const { return o.str(); }
    std::string str() const { return o.str(); }
};

} // namespace vf
#endif
