// C06 unit "exact" -- every relaxation instantiated with value_type = exact rationals
// (boost cpp_rational): sweeps, ILU identities and the level-scheduled parallel solves are
// compared with the dense definitions by ==.
#include "C06_common.hpp"
#include <amgcl/relaxation/damped_jacobi.hpp>
#include <amgcl/relaxation/gauss_seidel.hpp>
#include <amgcl/relaxation/spai0.hpp>
#include <amgcl/relaxation/chebyshev.hpp>
#include <amgcl/relaxation/ilu0.hpp>
#include <amgcl/relaxation/iluk.hpp>
#include <amgcl/relaxation/ilup.hpp>
#include <amgcl/relaxation/ilut.hpp>
#include <amgcl/relaxation/as_preconditioner.hpp>

using namespace c06;
using namespace amgcl;
typedef backend::builtin<Q> B;
typedef B::matrix Mx;
typedef backend::numa_vector<Q> Vec;

struct Case {
    std::string key; int n; int rule; IMat A; QM Aq, Ainv; std::shared_ptr<Mx> Ac;
    std::vector<std::pair<QV, QV>> tests;   // (f, x)
    std::string at() const { return vf::KS() << "rule=" << rule << " A=" << show(A); }
};

static void make_tests(Case &c) {
    int n = c.n;
    QV z(n, Q(0));
    c.tests.push_back({z, z});
    for (int j = 0; j < n; ++j) { QV e = z; e[j] = 1; c.tests.push_back({e, z}); c.tests.push_back({z, e}); }
    QV g(n), h(n), xs(n);
    for (int i = 0; i < n; ++i) { g[i] = (i & 1) ? -(i + 2) : (i + 1); h[i] = Q(3 - 2 * i, i + 2); xs[i] = (i & 1) ? 2 : -(i + 1); }
    c.tests.push_back({g, h});
    c.tests.push_back({c.Aq * xs, xs});        // exact solution: must be a fixed point
}

template <class R> static QV run_sweep(const R &r, const Mx &A, const QV &f, const QV &x, int mode) {
    size_t n = f.size();
    Vec F(n), X(n), T(n);
    for (size_t i = 0; i < n; ++i) { F[i] = f[i]; X[i] = x[i]; T[i] = Q(7, 3); }
    if (mode == 0) r.apply_pre(A, F, X, T); else if (mode == 1) r.apply_post(A, F, X, T); else r.apply(A, F, X);
    QV out(n); for (size_t i = 0; i < n; ++i) out[i] = X[i];
    return out;
}

// pre/post sweeps against x + W (f - A x); exact.
// full: all 2n+3 test pairs in both modes.  reduced: the n unit right-hand sides (they determine W), the generic
// pair (affinity, dependence on x) and the exact solution as pre-sweeps, the generic pair as post-sweep.
template <class R> static bool check_sweeps(const Case &c, const std::string &sub, const std::string &variant, const R &r, const QM &Wpre, const QM &Wpost, bool full = true) {
    const size_t nt = c.tests.size();
    for (int mode = 0; mode < 2; ++mode) {
        const QM &W = mode ? Wpost : Wpre;
        for (size_t t = 0; t < nt; ++t) {
            bool unit_f = (t >= 1 && t + 2 < nt && (t & 1)), generic = (t + 2 == nt), last = (t + 1 == nt);
            if (!full && !(mode == 0 ? (unit_f || generic || last) : generic)) continue;
            auto &fx = c.tests[t];
            QV got = run_sweep(r, *c.Ac, fx.first, fx.second, mode);
            QV want = fx.second + W * (fx.first - c.Aq * fx.second);
            if (got != want) {
                std::string what = last ? ".fixed_point" : (mode ? ".post" : ".pre");
                vf::fail(sub + what, c.key, vf::KS() << variant << " f=" << show(fx.first) << " x=" << show(fx.second) << " sweep gives " << show(got) << " definition gives " << show(want) << " " << c.at());
                return false;
            }
        }
    }
    return true;
}

static QM lower_part(const QM &A, bool with_diag, bool upper) {
    QM T(A.n, A.n);
    for (int i = 0; i < A.n; ++i) for (int j = 0; j < A.n; ++j) if ((upper ? j > i : j < i) || (with_diag && i == j)) T(i, j) = A(i, j);
    return T;
}

// ---- Jacobi, Gauss-Seidel, SPAI-0 --------------------------------------------------------------------
static void check_simple(const Case &c) {
    const int n = c.n;
    QM Dinv(n, n); for (int i = 0; i < n; ++i) Dinv(i, i) = Q(1) / c.Aq(i, i);
    for (double w : {0.5, 0.72, 1.0}) {
        relaxation::damped_jacobi<B>::params p; p.damping = Q(w);
        relaxation::damped_jacobi<B> r(*c.Ac, p, B::params());
        QM W = scaled(Dinv, Q(w));
        check_sweeps(c, "jacobi", vf::KS() << "damping=" << w, r, W, W);
    }
    QM Wf, Wb;
    inverse(lower_part(c.Aq, true, false), Wf);
    inverse(lower_part(c.Aq, true, true), Wb);
    for (int nt : {1, 4, 5, 8}) {
        with_threads(nt, [&] {
            relaxation::gauss_seidel<B> r(*c.Ac, relaxation::gauss_seidel<B>::params(), B::params());
            std::string sub = nt == 1 ? "gauss_seidel.serial" : "gauss_seidel.parallel";
            check_sweeps(c, sub, vf::KS() << "threads=" << nt, r, Wf, Wb, nt == 1 || nt == 5);
            // apply(): forward then backward sweep from zero
            QV f = c.tests[c.tests.size() - 2].first;
            QV x1 = Wf * f, want = x1 + Wb * (f - c.Aq * x1);
            QV got = run_sweep(r, *c.Ac, f, QV(n, Q(5)), 2);
            if (got != want) vf::fail(sub + ".apply", c.key, vf::KS() << "threads=" << nt << " got " << show(got) << " want " << show(want) << " " << c.at());
            if (nt > 1) { if (vs::trace().teams > 0) vf::count("gs_parallel_path_runs"); else vf::fail("gauss_seidel.parallel.path_not_taken", c.key, "no team was created"); }
            return 0;
        });
    }
    {   // SPAI-0: diagonal M minimising ||I - M A||_F row by row: (a_i . a_i) m_i = a_i . e_i
        QM W(n, n);
        for (int i = 0; i < n; ++i) { Q s = 0; for (int j = 0; j < n; ++j) s += c.Aq(i, j) * c.Aq(i, j); W(i, i) = c.Aq(i, i) / s; }
        relaxation::spai0<B> r(*c.Ac, relaxation::spai0<B>::params(), B::params());
        for (int i = 0; i < n; ++i) if ((*r.M)[i] != W(i, i)) { vf::fail("spai0.least_squares", c.key, vf::KS() << "m_" << i << " = " << (*r.M)[i] << " minimiser " << W(i, i) << " " << c.at()); break; }
        check_sweeps(c, "spai0", "", r, W, W);
    }
}

// ---- Chebyshev -------------------------------------------------------------------------------------
static void check_chebyshev(const Case &c) {
    const int n = c.n;
    struct V { float lower, higher; };
    const V vars[] = {{1.0f / 30, 1.0f}, {0.25f, 1.25f}};
    for (int scale = 0; scale < 2; ++scale) {
        QM Bm = c.Aq;
        Q hi = 0;
        for (int i = 0; i < n; ++i) {
            Q s = 0; for (int j = 0; j < n; ++j) s += qabs(c.Aq(i, j));
            if (scale) { s *= qabs(Q(1) / c.Aq(i, i)); for (int j = 0; j < n; ++j) Bm(i, j) = c.Aq(i, j) / c.Aq(i, i); }
            if (s > hi) hi = s;                                     // Gershgorin
        }
        for (int vi = 0; vi < 2; ++vi) {
            if (vi == 1 && c.n > 3) continue;
            Q H = hi * Q(vars[vi].higher), Lo = hi * Q(vars[vi].lower);
            Q d = (H + Lo) / 2, cc = (H - Lo) / 2;
            QM Z = scaled(scaled(QM::eye(n), d) - Bm, Q(1) / cc);
            Q theta = d / cc;
            QM Tm = QM::eye(n), Tc = Z; Q tm = 1, tc = theta;       // T_0, T_1
            for (unsigned deg = 1; deg <= 5; ++deg) {
                if (deg > 1) { QM Tn = scaled(Z * Tc, Q(2)) - Tm; Tm = Tc; Tc = Tn; Q tn = 2 * theta * tc - tm; tm = tc; tc = tn; }
                QM E = scaled(Tc, Q(1) / tc);                       // error propagation of the degree-deg Chebyshev polynomial on [lo, hi]
                QM W = (QM::eye(n) - E) * c.Ainv;                   // x' = x + (I - E) A^-1 (f - A x)
                relaxation::chebyshev<B>::params p; p.degree = deg; p.lower = vars[vi].lower; p.higher = vars[vi].higher; p.scale = scale; p.power_iters = 0;
                relaxation::chebyshev<B> r(*c.Ac, p, B::params());
                std::string variant = vf::KS() << "degree=" << deg << " scale=" << scale << " lower=" << vars[vi].lower << " higher=" << vars[vi].higher << " gershgorin_hi=" << hi;
                if (!check_sweeps(c, "chebyshev", variant, r, W, W, deg == 2 && vi == 0)) return;
                QV f = c.tests[c.tests.size() - 2].first;
                QV got = run_sweep(r, *c.Ac, f, QV(n, Q(5)), 2), want = W * f;
                if (got != want) { vf::fail("chebyshev.apply", c.key, variant + " " + c.at()); return; }
                vf::count("chebyshev_objects");
            }
        }
    }
}

// ---- ILU family ---------------------------------------------------------------------------------------
struct Factors { QM Lt, Ut; Pat pat; bool ok = false; std::string err; };   // Lt = I + L, Ut = D^-1 + U

template <class ILU> static Factors read_factors(const ILU &r, int n) {
    Factors F; F.Lt = QM::eye(n); F.Ut = QM(n, n); F.pat.assign(n * n, 0);
    auto &s = *r.ilu;
    if (!s.L || !s.U || !s.D) { F.err = "serial factors not available"; return F; }
    const Mx &L = *s.L, &Um = *s.U;
    for (int i = 0; i < n; ++i) {
        for (auto j = L.ptr[i]; j < L.ptr[i + 1]; ++j) { int cj = (int)L.col[j]; if (cj >= i || cj < 0) { F.err = "L is not strictly lower triangular"; return F; } if (F.pat[i * n + cj]) { F.err = "duplicate entry in L"; return F; } F.pat[i * n + cj] = 1; F.Lt(i, cj) = L.val[j]; }
        for (auto j = Um.ptr[i]; j < Um.ptr[i + 1]; ++j) { int cj = (int)Um.col[j]; if (cj <= i || cj >= n) { F.err = "U is not strictly upper triangular"; return F; } if (F.pat[i * n + cj]) { F.err = "duplicate entry in U"; return F; } F.pat[i * n + cj] = 1; F.Ut(i, cj) = Um.val[j]; }
        if ((*s.D)[i] == 0) { F.err = "zero stored inverse pivot"; return F; }
        F.pat[i * n + i] = 1; F.Ut(i, i) = Q(1) / (*s.D)[i];
    }
    F.ok = true;
    return F;
}

template <class ILU> static void set_serial(typename ILU::params &p, bool serial) { p.solve.serial = serial; }

// admitted: pattern the factorisation may fill; identity (LU)_ij == a_ij on it, nothing stored outside it;
// exact inverse when the complete elimination fits.
template <class ILU>
static void check_ilu(const Case &c, const std::string &name, typename ILU::params prm, const Pat *admitted, const std::string &variant, bool parallel_too, bool expect_exact_if_fits) {
    const int n = c.n;
    Pat fill = full_fill(pattern_of(c.A), n);
    std::string at = variant + " " + c.at();
    Factors F;
    QM W;
    bool built = with_threads(1, [&] {
        set_serial<ILU>(prm, true);
        try {
            ILU r(*c.Ac, prm, B::params());
            F = read_factors(r, n);
            if (!F.ok) { vf::fail(name + ".factors_malformed", c.key, F.err + " " + at); return false; }
            QM LU = F.Lt * F.Ut;
            if (admitted) {
                if (!subset(F.pat, *admitted)) { vf::fail(name + ".entry_outside_admitted_pattern", c.key, vf::KS() << "L=" << show(F.Lt) << " U=" << show(F.Ut) << " " << at); return false; }
                for (int i = 0; i < n; ++i) for (int j = 0; j < n; ++j) if ((*admitted)[i * n + j] && LU(i, j) != c.Aq(i, j)) {
                    vf::fail(name + ".identity_on_pattern", c.key, vf::KS() << "(LU)(" << i << "," << j << ") = " << LU(i, j) << " but a = " << c.Aq(i, j) << " L=" << show(F.Lt) << " U=" << show(F.Ut) << " " << at); return false; }
                vf::count("ilu_identity_checked");
            }
            bool fits = admitted ? subset(fill, *admitted) : false;
            if (expect_exact_if_fits && fits) {
                if (LU.a != c.Aq.a) { vf::fail(name + ".exact_when_no_fill_dropped", c.key, vf::KS() << "LU=" << show(LU) << " " << at); return false; }
                vf::count("ilu_exact_inverse_cases");
            }
            QM LUinv; if (!inverse(LU, LUinv)) { vf::fail(name + ".singular_factors", c.key, at); return false; }
            W = scaled(LUinv, prm.damping);
            if (!check_sweeps(c, name + ".serial", variant, r, W, W, false)) return false;
            QV f = c.tests[c.tests.size() - 2].first;
            if (run_sweep(r, *c.Ac, f, QV(n, Q(5)), 2) != LUinv * f) { vf::fail(name + ".serial.apply", c.key, at); return false; }
            if (expect_exact_if_fits && fits && LUinv.a != c.Ainv.a) { vf::fail(name + ".exact_inverse", c.key, at); return false; }
        } catch (const std::exception &e) { vf::fail(name + ".unexpected_exception", c.key, std::string(e.what()) + " " + at); return false; }
        return true;
    });
    if (!built || !parallel_too) return;
    for (int nt : {4, 5, 8}) {
        with_threads(nt, [&] {
            set_serial<ILU>(prm, false);
            try {
                ILU r(*c.Ac, prm, B::params());
                if (!check_sweeps(c, name + ".parallel", vf::KS() << variant << " threads=" << nt, r, W, W, false)) return 0;
                if (vs::trace().teams > 0) vf::count("ilu_parallel_path_runs"); else vf::fail(name + ".parallel.path_not_taken", c.key, "no team was created");
            } catch (const std::exception &e) { vf::fail(name + ".parallel.unexpected_exception", c.key, std::string(e.what()) + " " + at); }
            return 0;
        });
    }
}

static void check_ilus(const Case &c) {
    const int n = c.n;
    Pat P0 = pattern_of(c.A);
    Pat fill = full_fill(P0, n);
    for (double damp : {1.0, 0.5}) {
        relaxation::ilu0<B>::params p; p.damping = Q(damp);
        check_ilu< relaxation::ilu0<B> >(c, "ilu0", p, &P0, vf::KS() << "damping=" << damp, damp == 1.0, true);
    }
    for (int k = 0; k <= n; ++k) {
        relaxation::iluk<B>::params p; p.k = k;
        Pat Pk = iluk_pattern(P0, n, k);
        if (k >= n && !subset(fill, Pk)) vf::fail("harness.symbolic_reference", c.key, "level-n pattern does not contain the complete fill");
        check_ilu< relaxation::iluk<B> >(c, "iluk", p, &Pk, vf::KS() << "k=" << k, k == 0 || k == 1 || k == n, true);
    }
    for (int k = 0; k <= 3; ++k) {
        relaxation::ilup<B>::params p; p.k = k;
        Pat Pk = ilup_pattern(P0, n, k);
        // ilup keeps its ilu0 in a private member 'base'; read_factors needs r.ilu -> small adaptor below
        struct Adaptor : relaxation::ilup<B> {
            std::shared_ptr< relaxation::detail::ilu_solve<B> > ilu;
            Adaptor(const Mx &A, const relaxation::ilup<B>::params &p, const B::params &bp) : relaxation::ilup<B>(A, p, bp) { ilu = this->base->ilu; }
        };
        check_ilu<Adaptor>(c, "ilup", p, &Pk, vf::KS() << "k=" << k, k == 1, true);
    }
    {   // ILUT(p = n, tau = 0): nothing is dropped by value; a row keeps at most p * (its own L / U count) entries.
        bool diag_only_row = false;
        for (int i = 0; i < n; ++i) { int w = 0; for (int j = 0; j < n; ++j) w += (j != i && c.A.st(i, j)); if (!w) diag_only_row = true; }
        if (diag_only_row) { vf::count("ilut_rational_skipped_diagonal_only_row"); }   // tau / 0 is evaluated: not representable in rationals
        else {
            relaxation::ilut<B>::params p; p.p = Q(n); p.tau = Q(0);
            // admitted = complete fill restricted by the per-row budgets; exact iff no row exceeds its budget
            bool fits = true;
            for (int i = 0; i < n && fits; ++i) {
                int lenL = 0, lenU = 0, fl = 0, fu = 0;
                for (int j = 0; j < n; ++j) { if (j < i) { lenL += c.A.st(i, j); fl += fill[i * n + j]; } if (j > i) { lenU += c.A.st(i, j); fu += fill[i * n + j]; } }
                if (fl > lenL * n || fu > lenU * n) fits = false;
            }
            if (fits) check_ilu< relaxation::ilut<B> >(c, "ilut", p, &fill, vf::KS() << "p=" << n << " tau=0", true, true);
            else { vf::count("ilut_cases_where_the_fill_budget_drops_entries"); check_ilu< relaxation::ilut<B> >(c, "ilut", p, nullptr, vf::KS() << "p=" << n << " tau=0 (budget drops fill)", false, false); }
        }
    }
}

// as_preconditioner<Backend, Relax>::apply(f, x) is one application of the smoother from a zero guess
template <template <class> class Relax> static void check_as_prec(const Case &c, const char *name, const QM &Wapply) {
    typedef relaxation::as_preconditioner<B, Relax> P;
    P p(*c.Ac, typename P::params(), B::params());
    const QV &f = c.tests[c.tests.size() - 2].first;
    Vec F(c.n), X(c.n);
    for (int i = 0; i < c.n; ++i) { F[i] = f[i]; X[i] = Q(9); }
    p.apply(F, X);
    QV got(c.n); for (int i = 0; i < c.n; ++i) got[i] = X[i];
    QV want = Wapply * f;
    if (got != want) vf::fail(std::string("as_preconditioner.") + name, c.key, vf::KS() << "got " << show(got) << " want " << show(want) << " " << c.at());
}
static void check_as_preconditioner(const Case &c) {
    const int n = c.n;
    QM Dinv(n, n), S0(n, n), Wf, Wb;
    for (int i = 0; i < n; ++i) { Dinv(i, i) = Q(1) / c.Aq(i, i); Q s = 0; for (int j = 0; j < n; ++j) s += c.Aq(i, j) * c.Aq(i, j); S0(i, i) = c.Aq(i, i) / s; }
    inverse(lower_part(c.Aq, true, false), Wf); inverse(lower_part(c.Aq, true, true), Wb);
    check_as_prec<relaxation::damped_jacobi>(c, "damped_jacobi", Dinv);                       // apply() is the undamped D^-1
    check_as_prec<relaxation::spai0>(c, "spai0", S0);
    check_as_prec<relaxation::gauss_seidel>(c, "gauss_seidel", Wf + Wb * (QM::eye(n) - c.Aq * Wf));   // forward then backward sweep from zero
    if (full_fill(pattern_of(c.A), n) == pattern_of(c.A)) { check_as_prec<relaxation::ilu0>(c, "ilu0_exact", c.Ainv); vf::count("as_preconditioner_exact_ilu0_cases"); }
}

static void run_case(const std::string &key, int n, uint64_t mask) {
    for (int rule = 0; rule < 3; ++rule) {
        Case c{key, n, rule, make_imat(n, mask, rule)};
        c.Aq = to_qm(c.A);
        if (!inverse(c.Aq, c.Ainv)) { vf::fail("harness.singular_matrix", key, c.at()); continue; }
        c.Ac = to_crs<Q>(c.A, [](int, int, int v) { return Q(v); });
        make_tests(c);
        check_simple(c);
        check_chebyshev(c);
        check_ilus(c);
        check_as_preconditioner(c);
        if (mask) vf::nontrivial(vf::hstr(vf::KS() << key << "|" << rule));
        vf::count("matrices");
    }
}

int main(int argc, char **argv) {
    vf::init(argc, argv, "C06");
    vf::sample_str("rule 1, n=4, mask 0xb5a: A = " + show(make_imat(4, 0xb5a, 1)));
    vf::sample_str("rule 2, n=4, mask 0x3c7: A = " + show(make_imat(4, 0x3c7, 2)));
    if (vf::section("q")) {
        for (int n = 1; n <= 4; ++n) {
            for (uint64_t mask = 0; mask < (1ull << (n * (n - 1))); ++mask) {
                std::string key;
                if (!vf::take([&]{ return key = (vf::KS() << "q|" << n << "|" << mask).str(); })) continue;
                if (key.empty()) key = vf::KS() << "q|" << n << "|" << mask;
                run_case(key, n, mask);
            }
            vf::space(vf::KS() << "exact rational instantiation: all 2^" << n * (n - 1) << " off-diagonal patterns with full diagonal, n=" << n << ", x 3 value rules x {jacobi w in {0.5,0.72,1}; gauss_seidel serial + parallel(4,5,8); spai0; chebyshev degree 1..5 x scale x 2 bound settings; ilu0; iluk k=0..n; ilup k=0..3; ilut(n,0); parallel solves with 4,5,8 threads}");
        }
        if (vf::thorough()) {
            const int n = 5, maxoff = 6;
            for (uint64_t mask = 0; mask < (1ull << 20); ++mask) {
                if (popc(mask) > maxoff) continue;
                std::string key;
                if (!vf::take([&]{ return key = (vf::KS() << "q|" << n << "|" << mask).str(); })) continue;
                if (key.empty()) key = vf::KS() << "q|" << n << "|" << mask;
                run_case(key, n, mask);
            }
            vf::space(vf::KS() << "exact rational instantiation: all n=5 patterns with full diagonal and at most " << maxoff << " off-diagonal entries x 3 value rules x the same smoother list");
        }
    }
    if (vf::section("qk") && !vf::thorough()) {
        // quick tier only (the thorough tier runs the complete list on these patterns above): ILU(k), k = 1..3, factor identities on
        // all 5x5 patterns with at most 5 off-diagonal entries -- the smallest inputs on which one row receives two fill contributions of
        // different level for the same position
        const int n = 5, maxoff = 5;
        for (uint64_t mask = 0; mask < (1ull << 20); ++mask) {
            if (popc(mask) > maxoff) continue;
            std::string key;
            if (!vf::take([&]{ return key = (vf::KS() << "qk|" << n << "|" << mask).str(); })) continue;
            if (key.empty()) key = vf::KS() << "qk|" << n << "|" << mask;
            for (int rule = 0; rule < 3; rule += 2) {
                Case c{key, n, rule, make_imat(n, mask, rule)};
                c.Aq = to_qm(c.A);
                if (!inverse(c.Aq, c.Ainv)) { vf::fail("harness.singular_matrix", key, c.at()); continue; }
                c.Ac = to_crs<Q>(c.A, [](int, int, int v) { return Q(v); });
                make_tests(c);
                Pat P0 = pattern_of(c.A);
                for (int k = 1; k <= 3; ++k) {
                    relaxation::iluk<B>::params p; p.k = k;
                    Pat Pk = iluk_pattern(P0, n, k);
                    check_ilu< relaxation::iluk<B> >(c, "iluk", p, &Pk, vf::KS() << "k=" << k, false, true);
                }
                vf::nontrivial(vf::hstr(vf::KS() << key << "|" << rule));
            }
        }
        vf::space("exact rational ILU(k), k=1..3: all n=5 patterns with full diagonal and at most 5 off-diagonal entries x value rules {0,2}");
    }
    if (vf::section("qk6")) {
        // ILU(k), k >= 2, on 6x6 patterns: the smallest size on which a fill position is reached first through a longer and then
        // through a shorter path AND a further fill depends on which level was recorded for it (0<1<2<3 pivots, row 4, column 5).
        // all patterns with full diagonal and at most 6 off-diagonal entries
        const int n = 6, maxoff = 6;
        for (uint64_t mask = 0; mask < (1ull << 30); ++mask) {
            if (popc(mask) > maxoff) { mask |= mask - 1; continue; }       // skip ahead: every mask up to the next carry has at least as many bits
            std::string key;
            if (!vf::take([&]{ return key = (vf::KS() << "qk6|" << n << "|" << mask).str(); })) continue;
            if (key.empty()) key = vf::KS() << "qk6|" << n << "|" << mask;
            for (int rule = 0; rule < (vf::thorough() ? 3 : 1); rule += 2) {
                Case c{key, n, rule, make_imat(n, mask, rule)};
                c.Aq = to_qm(c.A);
                if (!inverse(c.Aq, c.Ainv)) { vf::fail("harness.singular_matrix", key, c.at()); continue; }
                c.Ac = to_crs<Q>(c.A, [](int, int, int v) { return Q(v); });
                make_tests(c);
                Pat P0 = pattern_of(c.A);
                Pat P1 = iluk_pattern(P0, n, 1), P2 = iluk_pattern(P0, n, 2);
                if (P2 == P1) { vf::count("qk6_no_level2_fill_skipped"); continue; }      // nothing that k = 1 (covered elsewhere) does not see
                for (int k = 2; k <= (vf::thorough() ? 3 : 2); ++k) {
                    relaxation::iluk<B>::params p; p.k = k;
                    Pat Pk = iluk_pattern(P0, n, k);
                    check_ilu< relaxation::iluk<B> >(c, "iluk", p, &Pk, vf::KS() << "k=" << k, false, true);
                }
                vf::nontrivial(vf::hstr(vf::KS() << key << "|" << rule));
            }
        }
        vf::space("exact rational ILU(k), k=2 (thorough: 2..3, value rules {0,2}): all n=6 patterns with full diagonal and at most 6 off-diagonal entries that have level-2 fill");
    }
    return vf::finish();
}
