// C15 unit "solvers": the 8 iterative solvers as live objects (one object, many calls).
// Preconditioners are stateless amgcl classes (identity, ILU(0) as preconditioner) so that
// the only state that can leak lives in the solver object.
//   -DC15_COMPLEX  : value type std::complex<double>
#include "C15_state.hpp"
#include <amgcl/preconditioner/dummy.hpp>
#include <amgcl/relaxation/as_preconditioner.hpp>
#include <amgcl/relaxation/ilu0.hpp>

using namespace c15;
#ifdef C15_COMPLEX
typedef Cx V;
static const char *VT = "complex";
#else
typedef double V;
static const char *VT = "double";
#endif
typedef amgcl::backend::builtin<V> Backend;
typedef amgcl::backend::crs<V> Crs;

struct Problem {
    Sys<V> A0, A1, A2, Ash, Aempty, Azero, Ahuge;
    std::shared_ptr<Crs> a0, a1, a2, ash, aempty, azero, ahuge;
    std::vector<V> f[F_KINDS], x0[F_KINDS][X_KINDS];
    bool exact_ok[F_KINDS];
    uint64_t h0, h1, h2, hs, he, hz;
    std::string name;
    Problem(const std::string &name, double pe) : name(name) {
        double cs = std::is_same<V, Cx>::value ? 0.5 : 0.0;
        A0 = grid<V>(4, 3, pe, 1.0, cs, name);
        A1 = grid<V>(4, 3, pe * 0.5, 1.75, cs, name + "_perturbed");
        A2 = grid<V>(12, 1, pe, 1.0, cs, name + "_chain");
        Ash = shift_matrix<V>(12);
        Aempty = empty_row_matrix(A0); Azero = zero_values(A0);
        a0 = std::make_shared<Crs>(A0.tie()); a1 = std::make_shared<Crs>(A1.tie()); a2 = std::make_shared<Crs>(A2.tie());
        ash = std::make_shared<Crs>(Ash.tie()); aempty = std::make_shared<Crs>(Aempty.tie()); azero = std::make_shared<Crs>(Azero.tie());
        // A0 with one coefficient of the largest finite magnitude: products overflow, inner products become Inf/NaN half way through a solve
        Ahuge = A0; Ahuge.val[Ahuge.val.size() / 2] = V(std::numeric_limits<double>::max()); ahuge = std::make_shared<Crs>(Ahuge.tie());
        auto hc = [](const Crs &A) { Hs h; h.crs(A); return h.h; };
        h0 = hc(*a0); h1 = hc(*a1); h2 = hc(*a2); hs = hc(*ash); he = hc(*aempty); hz = hc(*azero);
        int n = (int)A0.n;
        for (int k = 0; k < F_KINDS; ++k) {
            f[k] = rhs<V>(k, n);
            bool finite = (k != F_NAN && k != F_HUGE);
            x0[k][X_ZERO] = std::vector<V>(n, V());
            x0[k][X_EXACT] = dense_solve(A0, finite ? f[k] : f[F_GEN]);
            x0[k][X_RAMP] = ramp<V>(n);
            exact_ok[k] = false;
            if (finite && k != F_ZERO) {
                long double r = true_residual(A0, f[k], x0[k][X_EXACT]), nf = norm_ld(f[k]);
                exact_ok[k] = r <= 1e-3L * 1e-8L * nf;       // a factor 1000 inside the tolerance 1e-8 used by every configuration
            }
        }
    }
    bool matrices_intact(std::string &which) const {
        auto hc = [](const Crs &A) { Hs h; h.crs(A); return h.h; };
        if (hc(*a0) != h0) { which = "A0"; return false; }
        if (hc(*a1) != h1) { which = "A1"; return false; }
        if (hc(*a2) != h2) { which = "A2"; return false; }
        if (hc(*ash) != hs) { which = "Ashift"; return false; }
        if (hc(*aempty) != he) { which = "Aemptyrow"; return false; }
        if (hc(*azero) != hz) { which = "Azero"; return false; }
        return true;
    }
};

// a preconditioner that fails after a given number of applications: "earlier calls that threw" in the middle of a solve
template <class P>
struct ThrowAfter {
    typedef typename P::backend_type backend_type;
    const P &p; mutable int left;
    ThrowAfter(const P &p, int n) : p(p), left(n) {}
    template <class V1, class V2> void apply(const V1 &r, V2 &&x) const {
        if (--left < 0) throw std::runtime_error("injected preconditioner failure");
        p.apply(r, x);
    }
    auto system_matrix() const -> decltype(p.system_matrix()) { return p.system_matrix(); }
};

template <class Solver, class Precond>
struct SolverKind {
    typedef Solver Obj;
    typedef typename Solver::params SP;
    const Problem &pb; SP prm; std::string nm, cfg;
    std::shared_ptr<Precond> P;
    uint64_t hP;
    bool eq, zero_rule, guess_rule, left;
    std::vector<Op<Obj>> op;

    SolverKind(const Problem &pb, const SP &prm, const std::string &nm, const std::string &cfg, bool eq, bool zero_rule, bool guess_rule, bool left)
        : pb(pb), prm(prm), nm(nm), cfg(cfg), eq(eq), zero_rule(zero_rule), guess_rule(guess_rule), left(left)
    {
        P = std::make_shared<Precond>(pb.A0.tie());
        { Hs h; h.crs(P->system_matrix()); hP = h.h; }
        build_ops();
    }
    std::unique_ptr<Obj> make() { return std::unique_ptr<Obj>(new Solver(pb.A0.n, prm)); }
    const std::vector<Op<Obj>>& ops() const { return op; }
    uint64_t state_key(const Obj &s) const { Hs h; hstate(h, s); return h.h; }
    std::string name() const { return nm; }
    RefPolicy policy() const { return REF_LAST_MUTATOR; }
    bool equality() const { return eq; }
    int probe() const { return -1; }

    // is x0 already good enough, measured the way the solver measures it?
    bool guess_converged(int fk) const {
        if (!pb.exact_ok[fk]) return false;
        if (!left) return true;
        NV<V> f(pb.f[fk]), x(pb.x0[fk][X_EXACT]), r(pb.A0.n), pr(pb.A0.n);
        amgcl::backend::residual(f, *pb.a0, x, r);
        P->apply(r, pr);
        double nr = std::sqrt(std::abs(amgcl::backend::inner_product(pr, pr))), nf = std::sqrt(std::abs(amgcl::backend::inner_product(f, f)));
        return nr <= 1e-3 * 1e-8 * nf;
    }

    Outcome solve(Solver &S, const Crs *Aalt, const std::vector<V> &f, const std::vector<V> &x0, bool zero_rhs, bool conv_guess) const {
        return solve_p(S, *P, Aalt, f, x0, zero_rhs, conv_guess);
    }
    template <class PP>
    Outcome solve_p(Solver &S, const PP &PPobj, const Crs *Aalt, const std::vector<V> &f, const std::vector<V> &x0, bool zero_rhs, bool conv_guess) const {
        Outcome o;
        NV<V> rhs(f), x(x0);
        size_t it = 0; double res = 0;
        try {
            if (Aalt) std::tie(it, res) = S(*Aalt, PPobj, rhs, x);
            else      std::tie(it, res) = S(PPobj, rhs, x);
        } catch (const std::exception &e) { o.status = 1; o.what = e.what(); }
        o.iters = it; o.put(&res, 1); o.put(&x[0], x.size());
        if (!same_bytes(rhs, f)) o.notes.push_back({"rhs_modified", "the right-hand side vector was written to"});
        std::string which;
        if (!pb.matrices_intact(which)) o.notes.push_back({"matrix_modified", "matrix " + which + " was written to"});
        { Hs h; h.crs(P->system_matrix()); if (h.h != hP) o.notes.push_back({"matrix_modified", "the preconditioner's system matrix was written to"}); }
        if (!o.status && zero_rhs && zero_rule) {
            if (it != 0 || !all_zero(x)) o.notes.push_back({"zero_rhs", vf::KS() << "zero right-hand side returned iters=" << it << " and x " << (all_zero(x) ? "= 0" : "!= 0")});
            else vf::count("zero_rhs_checked");
        }
        if (conv_guess && guess_rule) {
            if (o.status || it != 0 || !same_bytes(x, x0)) o.notes.push_back({"converged_guess", vf::KS() << "initial guess within 1e-3*tol: " << (o.status ? "threw " + o.what : std::string()) << " iters=" << it << ", x " << (same_bytes(x, x0) ? "unchanged" : "changed")});
            else vf::count("converged_guess_checked");
        }
        if (o.status) vf::count("calls_that_threw");
        else if (!(res == res) || std::isinf(res)) vf::count("calls_with_nonfinite_residual");
        else if (it >= (size_t)prm.maxiter) vf::count("calls_hitting_maxiter");
        return o;
    }

    void build_ops() {
        for (int fk = 0; fk < F_KINDS; ++fk) for (int xk = 0; xk < X_KINDS; ++xk) {
            Op<Obj> o; o.name = std::string("solve(") + fname(fk) + "," + xname(xk) + ")";
            bool z = (fk == F_ZERO), cg = (xk == X_EXACT && guess_converged(fk));
            o.run = [this, fk, xk, z, cg](Obj &S) { return solve(S, nullptr, pb.f[fk], pb.x0[fk][xk], z, cg); };
            op.push_back(o);
        }
        auto alt = [&](const char *nm, const std::shared_ptr<Crs> &A, int fk, int xk) {
            Op<Obj> o; o.name = std::string("solve(") + nm + "," + fname(fk) + "," + xname(xk) + ")";
            const Crs *a = A.get();
            o.run = [this, a, fk, xk](Obj &S) { return solve(S, a, pb.f[fk], pb.x0[fk][xk], fk == F_ZERO, false); };
            op.push_back(o);
        };
        // solves whose preconditioner throws after N applications (N = 2: first cycle; 9, 19: after restarts / several iterations)
        for (int N : {2, 9, 19}) {
            Op<Obj> o; o.name = std::string("solve_with_precond_failing_after_") + std::to_string(N) + "(gen2,ramp)";
            o.run = [this, N](Obj &S) { ThrowAfter<Precond> T(*P, N); return solve_p(S, T, nullptr, pb.f[F_GEN2], pb.x0[F_GEN2][X_RAMP], false, false); };
            op.push_back(o);
        }
        alt("A1", pb.a1, F_GEN, X_ZERO); alt("A1", pb.a1, F_GEN, X_RAMP); alt("A2", pb.a2, F_GEN2, X_ZERO);
        alt("Ashift", pb.ash, F_E1, X_ZERO); alt("Ashift", pb.ash, F_GEN, X_RAMP); alt("Aemptyrow", pb.aempty, F_GEN, X_ZERO); alt("Azero", pb.azero, F_GEN, X_ZERO);
        alt("Ahuge", pb.ahuge, F_GEN, X_ZERO);
    }
};

// LGMRES with always_reset = false: the documented exception.  Judged only for "no exception"
// and "the reported residual is the residual of the returned x" (recomputed with the same
// backend operations, so the comparison is exact).
template <class Precond>
struct LgmresNoReset : SolverKind<amgcl::solver::lgmres<Backend>, Precond> {
    typedef SolverKind<amgcl::solver::lgmres<Backend>, Precond> Base;
    typedef amgcl::solver::lgmres<Backend> Solver;
    LgmresNoReset(const Problem &pb, const typename Solver::params &prm, const std::string &cfg, bool left)
        : Base(pb, prm, "lgmres_noreset", cfg, false, true, true, left)
    {
        this->op.clear(); build();      // every call is wrapped with the truthfulness check
    }
    Outcome tsolve(Solver &S, const Crs *Aalt, int fk, int xk) const {
        const Problem &pb = this->pb;
        Outcome o;
        NV<V> rhs(pb.f[fk]), x(pb.x0[fk][xk]);
        size_t it = 0; double res = 0;
        const Crs &A = Aalt ? *Aalt : *pb.a0;
        try { std::tie(it, res) = S(A, *this->P, rhs, x); }
        catch (const std::exception &e) { o.status = 1; o.what = e.what(); o.notes.push_back({"exception", std::string("threw ") + e.what()}); }
        o.iters = it; o.put(&res, 1); o.put(&x[0], x.size());
        if (!same_bytes(rhs, pb.f[fk])) o.notes.push_back({"rhs_modified", "the right-hand side vector was written to"});
        if (!o.status && fk != F_ZERO) {
            NV<V> r(pb.A0.n), t(pb.A0.n);
            double nr;
            if (this->left) { amgcl::backend::residual(rhs, A, x, t); this->P->apply(t, r); } else amgcl::backend::residual(rhs, A, x, r);
            nr = std::abs(std::sqrt(amgcl::backend::inner_product(r, r)));
            double nf = std::abs(std::sqrt(amgcl::backend::inner_product(rhs, rhs)));
            double want = nr / nf;
            if (std::memcmp(&want, &res, 8) != 0 && !((want != want) && (res != res)))
                o.notes.push_back({"truthful_residual", vf::KS() << "reported residual " << res << " but the returned x has " << want});
            else vf::count((res == res) ? "noreset_truthful_checked" : "noreset_nan_result");
            // for information: a fresh object on the same call
            if (!(res == res)) {
                Solver F(pb.A0.n, this->prm); NV<V> xf(pb.x0[fk][xk]); size_t itf; double rf;
                std::tie(itf, rf) = F(A, *this->P, rhs, xf);
                if (rf == rf) vf::count("noreset_nan_where_fresh_object_is_finite");
            }
        }
        return o;
    }
    void build() {
        for (int fk = 0; fk < F_KINDS; ++fk) for (int xk = 0; xk < X_KINDS; ++xk) {
            Op<Solver> o; o.name = std::string("solve(") + fname(fk) + "," + xname(xk) + ")";
            o.run = [this, fk, xk](Solver &S) { return tsolve(S, nullptr, fk, xk); };
            this->op.push_back(o);
        }
        const Problem &pb = this->pb;
        auto alt = [&](const char *nm, const std::shared_ptr<Crs> &A, int fk, int xk) {
            Op<Solver> o; o.name = std::string("solve(") + nm + "," + fname(fk) + "," + xname(xk) + ")";
            const Crs *a = A.get();
            o.run = [this, a, fk, xk](Solver &S) { return tsolve(S, a, fk, xk); };
            this->op.push_back(o);
        };
        alt("A1", pb.a1, F_GEN, X_ZERO); alt("A1", pb.a1, F_GEN, X_RAMP); alt("A2", pb.a2, F_GEN2, X_ZERO);
        alt("Ashift", pb.ash, F_E1, X_ZERO); alt("Ashift", pb.ash, F_GEN, X_RAMP); alt("Azero", pb.azero, F_GEN, X_ZERO);
    }
};

typedef amgcl::preconditioner::dummy<Backend> PDummy;
typedef amgcl::relaxation::as_preconditioner<Backend, amgcl::relaxation::ilu0> PIlu;

template <class Kind>
static void run_kind(Kind &K, const std::string &cfg, int quick_depth, int thorough_depth) {
    std::vector<int> ds = vf::replaying() ? std::vector<int>{1, 2, 3, 4, 5, 6} : std::vector<int>{vf::thorough() ? thorough_depth : quick_depth};
    for (int d : ds) {
        std::string key = vf::KS() << "bfs|" << VT << "|" << K.name() << "|" << cfg << "|d" << d;
        if (!vf::take([&]{ return key; })) continue;
        ExploreStats st = explore(K, key, d);
        vf::count("bfs_runs_with_alphabet_of_" + std::to_string(K.ops().size()) + "_calls." + K.name());
        vf::count("states_" + K.name(), st.states);
        vf::count("transitions_" + K.name(), st.transitions);
    }
}

template <class Solver, class PC>
static void solver_cfg(const Problem &pb, const char *pcn, const std::string &nm, const std::string &cfg, typename Solver::params prm, bool left, int qd, int td, bool guess_rule = true) {
    prm.maxiter = 30; prm.tol = 1e-8;
    SolverKind<Solver, PC> K(pb, prm, nm, pb.name + "/" + pcn + "/" + cfg, true, true, guess_rule, left);
    run_kind(K, pb.name + "/" + pcn + "/" + cfg, qd, td);
}

template <class PC>
static void all_solvers(const Problem &pb, const char *pcn) {
    namespace s = amgcl::solver;
    namespace side = amgcl::preconditioner::side;
    const int Q = 3, T = 4;
    { s::cg<Backend>::params p; solver_cfg<s::cg<Backend>, PC>(pb, pcn, "cg", "default", p, false, Q, 4); }
    { s::richardson<Backend>::params p; solver_cfg<s::richardson<Backend>, PC>(pb, pcn, "richardson", "damping1", p, false, Q, 4);
      p.damping = 0.5; solver_cfg<s::richardson<Backend>, PC>(pb, pcn, "richardson", "damping0.5", p, false, Q, T); }
    for (int l = 0; l < 2; ++l) {
        s::bicgstab<Backend>::params p; p.pside = l ? side::left : side::right;
        solver_cfg<s::bicgstab<Backend>, PC>(pb, pcn, "bicgstab", l ? "left" : "right", p, l, Q, l ? T : 4);
    }
    { s::bicgstab<Backend>::params p; p.check_after = true; solver_cfg<s::bicgstab<Backend>, PC>(pb, pcn, "bicgstab", "right,check_after", p, false, Q, T, /*guess rule excluded as documented*/false); }
    for (int l = 0; l < 2; ++l) {
        s::bicgstabl<Backend>::params p; p.pside = l ? side::left : side::right; p.L = 2;
        solver_cfg<s::bicgstabl<Backend>, PC>(pb, pcn, "bicgstabl", l ? "L2,left" : "L2,right", p, l, Q, l ? T : 4);
    }
    { s::bicgstabl<Backend>::params p; p.L = 1; solver_cfg<s::bicgstabl<Backend>, PC>(pb, pcn, "bicgstabl", "L1,right", p, false, Q, T); }
    { s::bicgstabl<Backend>::params p; p.L = 3; p.convex = false; solver_cfg<s::bicgstabl<Backend>, PC>(pb, pcn, "bicgstabl", "L3,nonconvex,right", p, false, Q, T); }
    { s::bicgstabl<Backend>::params p; p.L = 2; p.delta = 0.1; solver_cfg<s::bicgstabl<Backend>, PC>(pb, pcn, "bicgstabl", "L2,delta0.1,right", p, false, Q, T); }
    for (int l = 0; l < 2; ++l) {
        s::gmres<Backend>::params p; p.pside = l ? side::left : side::right; p.M = 4;
        solver_cfg<s::gmres<Backend>, PC>(pb, pcn, "gmres", l ? "M4,left" : "M4,right", p, l, Q, l ? T : 4);
    }
    { s::gmres<Backend>::params p; p.M = 30; solver_cfg<s::gmres<Backend>, PC>(pb, pcn, "gmres", "M30,right", p, false, Q, T); }
    { s::fgmres<Backend>::params p; p.M = 4; solver_cfg<s::fgmres<Backend>, PC>(pb, pcn, "fgmres", "M4", p, false, Q, 4);
      p.M = 30; solver_cfg<s::fgmres<Backend>, PC>(pb, pcn, "fgmres", "M30", p, false, Q, T); }
    for (int l = 0; l < 2; ++l) {
        s::lgmres<Backend>::params p; p.pside = l ? side::left : side::right; p.M = 4; p.K = 2; p.always_reset = true;
        solver_cfg<s::lgmres<Backend>, PC>(pb, pcn, "lgmres", l ? "M4,K2,left" : "M4,K2,right", p, l, Q, l ? T : 4);
    }
    { s::lgmres<Backend>::params p; p.M = 30; p.K = 3; solver_cfg<s::lgmres<Backend>, PC>(pb, pcn, "lgmres", "M30,K3,right", p, false, Q, T); }
    { s::lgmres<Backend>::params p; p.M = 2; p.K = 1; solver_cfg<s::lgmres<Backend>, PC>(pb, pcn, "lgmres", "M2,K1,right", p, false, Q, T); }
    for (int l = 0; l < 2; ++l) {
        s::lgmres<Backend>::params p; p.pside = l ? side::left : side::right; p.M = 4; p.K = 2; p.always_reset = false; p.maxiter = 30; p.tol = 1e-8;
        LgmresNoReset<PC> K(pb, p, pb.name + "/" + pcn + (l ? "/M4,K2,left" : "/M4,K2,right"), l);
        run_kind(K, pb.name + "/" + pcn + (l ? "/M4,K2,left" : "/M4,K2,right"), Q, T);
    }
    { s::idrs<Backend>::params p; solver_cfg<s::idrs<Backend>, PC>(pb, pcn, "idrs", "s4", p, false, Q, 4); }
    { s::idrs<Backend>::params p; p.s = 2; p.smoothing = true; solver_cfg<s::idrs<Backend>, PC>(pb, pcn, "idrs", "s2,smoothing", p, false, Q, T); }
    { s::idrs<Backend>::params p; p.s = 3; p.replacement = true; solver_cfg<s::idrs<Backend>, PC>(pb, pcn, "idrs", "s3,replacement", p, false, Q, T); }
    { s::idrs<Backend>::params p; p.s = 4; p.omega = 0; solver_cfg<s::idrs<Backend>, PC>(pb, pcn, "idrs", "s4,omega0", p, false, Q, T); }
}

int main(int argc, char **argv) {
    vf::init(argc, argv, "C15");
    if (vf::section("bfs")) {
        Problem spd("spd4x3", 0.0), ns("convdiff4x3", 1.5);
        vf::sample_str(std::string("alphabet of a solver kind: solve(f,x0) for f in {gen,gen2,zero,nan,e1,huge} x x0 in {0,exact,ramp}; solve(A',f,x0) for A' in {A1 perturbed coefficients, A2 chain pattern, cyclic shift matrix, A0 with row 0 emptied}; value type ") + VT);
        vf::sample_str("base system convdiff4x3 = upwind convection-diffusion on a 4x3 grid (n=12), rhs gen = [1,-1.875,3.25,...], tol=1e-8, maxiter=30");
        all_solvers<PDummy>(spd, "identity");
        all_solvers<PIlu>(spd, "ilu0");
        all_solvers<PDummy>(ns, "identity");
        all_solvers<PIlu>(ns, "ilu0");
        vf::space(std::string("all call histories up to the tier depth over the solver alphabet for every listed solver configuration x {identity, ILU0} x {spd4x3, convdiff4x3}, value type ") + VT);
    }
    return vf::finish();
}
