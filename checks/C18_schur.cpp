// C18 unit "schur": schur_pressure_correction with exact inner solvers over the rationals.
// value_type = Q (boost cpp_rational) all the way through the real amgcl code, so that
//   type 1, exact Schur operator :  apply(f) == K^{-1} f            (exact equality)
//   type 2                       :  apply(f) == solution of [[Kuu,Kup],[0,S]] [u;p] = f
//   approx_schur                 :  the documented formula with S^ = Kpp - Kpu D Kup
// are compared with == against an independent dense evaluation.
#include "C18_common.hpp"
#include <amgcl/preconditioner/schur_pressure_correction.hpp>
#include "forkrun.hpp"

using namespace c18;
typedef amgcl::backend::builtin<Q> Backend;
typedef ExactSolver<Backend, 0> USolver;
typedef ExactSolver<Backend, 1> PSolver;
typedef amgcl::preconditioner::schur_pressure_correction<USolver, PSolver> SPC;
typedef amgcl::backend::numa_vector<Q> NV;

struct Cfg { int type, adj; bool simplec, approx; };
static std::string cfgs(const Cfg &c) { return vf::KS() << "t" << c.type << "a" << c.adj << "s" << (int)c.simplec << "x" << (int)c.approx; }
static std::vector<Cfg> all_cfgs() {
    std::vector<Cfg> v;
    for (int t = 1; t <= 2; ++t) for (int a = 0; a < 3; ++a) for (int s = 0; s < 2; ++s) for (int x = 0; x < 2; ++x) v.push_back({t, a, (bool)s, (bool)x});
    return v;
}
static Q absq(const Q &x) { return x < 0 ? Q(-x) : x; }

struct Blocks {
    int n, nu, np; std::vector<int> ui, pi, idx;
    mk::Dense<Q> Kuu, Kup, Kpu, Kpp;
    Blocks(const mk::Dense<Q> &K, const std::vector<char> &pm) : n(K.m) {
        idx.resize(n);
        for (int i = 0; i < n; ++i) { if (pm[i]) { idx[i] = (int)pi.size(); pi.push_back(i); } else { idx[i] = (int)ui.size(); ui.push_back(i); } }
        nu = (int)ui.size(); np = (int)pi.size();
        Kuu = mk::Dense<Q>(nu, nu); Kup = mk::Dense<Q>(nu, np); Kpu = mk::Dense<Q>(np, nu); Kpp = mk::Dense<Q>(np, np);
        for (int i = 0; i < n; ++i) for (int j = 0; j < n; ++j) if (K.st(i, j)) {
            mk::Dense<Q> &B = pm[i] ? (pm[j] ? Kpp : Kpu) : (pm[j] ? Kup : Kuu);
            B.st(idx[i], idx[j]) = 1; B(idx[i], idx[j]) = K(i, j);
        }
    }
};
static Mat<Q> vals(const mk::Dense<Q> &D) { Mat<Q> M(D.m, D.n); for (int i = 0; i < D.m; ++i) for (int j = 0; j < D.n; ++j) if (D.st(i, j)) M(i, j) = D(i, j); return M; }

// one (matrix, mask, configuration) case.  Returns a reason when the case is outside the preconditions.
static const char* schur_case(const mk::Dense<Q> &K, const std::vector<char> &pm, const Cfg &c, const std::string &key, const SPC::params *given = nullptr) {
    const int n = K.m;
    Blocks B(K, pm);
    if (B.nu == 0 || B.np == 0) return "empty_block";
    Mat<Q> Kuu = vals(B.Kuu), Kup = vals(B.Kup), Kpu = vals(B.Kpu), Kpp = vals(B.Kpp), Kuui;
    if (!inverse(Kuu, Kuui)) return "Kuu_singular";
    // D: the diagonal approximation of Kuu^-1 the code builds in every configuration
    std::vector<Q> D(B.nu);
    for (int i = 0; i < B.nu; ++i) {
        if (c.simplec) { Q s = 0; for (int j = 0; j < B.nu; ++j) if (B.Kuu.st(i, j)) s += absq(B.Kuu(i, j)); if (s == 0) return "Kuu_row_sum_zero"; D[i] = 1 / s; }
        else {
            if (!B.Kuu.st(i, i)) { if (c.adj != 0 || c.approx) return "Kuu_diagonal_not_stored"; D[i] = 0; }
            else D[i] = (B.Kuu(i, i) == 0) ? Q(1) : Q(1 / B.Kuu(i, i));
        }
    }
    Mat<Q> Dm(B.nu, B.nu); for (int i = 0; i < B.nu; ++i) Dm(i, i) = D[i];
    Mat<Q> X = c.approx ? Dm : Kuui;
    Mat<Q> S = sub(Kpp, mul(Kpu, mul(X, Kup))), Si;
    if (!inverse(S, Si)) return "S_singular";

    auto A = mk::to_crs<Q>(K);
    SPC::params prm; if (given) prm = *given;
    prm.type = c.type; prm.adjust_p = c.adj; prm.simplec_dia = c.simplec; prm.approx_schur = c.approx;
    if (!given) prm.pmask = pm;
    std::string ctx;
    { std::string ms; for (char ch : pm) ms += ch ? '1' : '0'; ctx = vf::KS() << "K=" << mk::show(K) << " pmask=" << ms << " type=" << c.type << " adjust_p=" << c.adj << " simplec_dia=" << c.simplec << " approx_schur=" << c.approx; }
    std::unique_ptr<SPC> P;
    try { P.reset(new SPC(*A, prm)); }
    catch (const std::exception &e) { vf::fail("schur.construct", key, ctx + " : constructor threw " + e.what()); return nullptr; }

    // ---- sub-blocks
    {
        mk::Dense<Q> g; std::string why, err;
        err = mk::from_crs(*P->U->A, g, false); if (!err.empty() || !mk::same(g, B.Kuu, why)) vf::fail("schur.blocks.Kuu", key, ctx + " : " + err + why + " got " + mk::show(g));
        err = mk::from_crs(*P->Kup, g, false);  if (!err.empty() || !mk::same(g, B.Kup, why)) vf::fail("schur.blocks.Kup", key, ctx + " : " + err + why + " got " + mk::show(g));
        err = mk::from_crs(*P->Kpu, g, false);  if (!err.empty() || !mk::same(g, B.Kpu, why)) vf::fail("schur.blocks.Kpu", key, ctx + " : " + err + why + " got " + mk::show(g));
        err = mk::from_crs(*P->P->A, g, false);
        if (!err.empty()) vf::fail("schur.blocks.Kpp", key, ctx + " : " + err);
        else if (c.adj == 0) {
            if (!mk::same(g, B.Kpp, why)) vf::fail("schur.blocks.Kpp", key, ctx + " : " + why + " got " + mk::show(g));
            // reassemble
            mk::Dense<Q> R(n, n);
            mk::Dense<Q> uu, up, pu; mk::from_crs(*P->U->A, uu, false); mk::from_crs(*P->Kup, up, false); mk::from_crs(*P->Kpu, pu, false);
            for (int i = 0; i < n; ++i) for (int j = 0; j < n; ++j) {
                const mk::Dense<Q> &b = pm[i] ? (pm[j] ? g : pu) : (pm[j] ? up : uu);
                if (b.st(B.idx[i], B.idx[j])) { R.st(i, j) = 1; R(i, j) = b(B.idx[i], B.idx[j]); }
            }
            if (!mk::same(R, K, why)) vf::fail("schur.blocks.reassemble", key, ctx + " : " + why); else vf::count("reassembled");
        } else {
            // matrix handed to the pressure preconditioner: documented adjustment
            Mat<Q> corr = mul(Kpu, mul(Dm, Kup)), want = Kpp, got = vals(g);
            bool row_ok_all = true;
            for (int i = 0; i < B.np; ++i) for (int j = 0; j < B.np; ++j) {
                if (c.adj == 1) { if (i == j) want(i, j) -= corr(i, j); } else want(i, j) -= corr(i, j);
            }
            for (int i = 0; i < B.np; ++i) {
                // adjust_p = 1 can only be realised on rows whose diagonal entry is stored; other rows are judged by the operator check below
                if (c.adj == 1 && !B.Kpp.st(i, i)) { vf::count("adjust_p1_rows_without_stored_diagonal"); continue; }
                for (int j = 0; j < B.np; ++j) if (!(got(i, j) == want(i, j))) row_ok_all = false;
            }
            if (!row_ok_all) vf::fail("schur.adjust_p.matrix", key, ctx + " : pressure preconditioner got " + show(got) + " expected " + show(want));
            else vf::count("adjusted_pressure_matrix_checked");
        }
    }
    // ---- action on unit vectors and one generic vector
    Mat<Q> Kd = vals(K), Ki; bool Kinv = inverse(Kd, Ki);
    bool first = true;
    for (int t = 0; t <= n; ++t) {
        std::vector<Q> f(n, Q(0));
        if (t < n) f[t] = 1; else { std::vector<Q> g(n); for (int i = 0; i < n; ++i) g[i] = Q((i % 2 ? -1 : 1) * (i + 2)) / Q(1 + i % 3); f = mulv(Kd, g); }
        NV rhs(f), x(n);
        for (int i = 0; i < n; ++i) x[i] = Q(777);
        try { P->apply(rhs, x); }
        catch (const Singular &e) { vf::fail("schur.operator", key, ctx + " : the matrix-free Schur operator given to the pressure solver is singular although S is not; probed " + show(P->P->probed) + " dense S " + show(S)); return nullptr; }
        catch (const std::exception &e) { vf::fail("schur.apply_threw", key, ctx + std::string(" : ") + e.what()); return nullptr; }
        if (first) {
            first = false;
            if (!same(P->P->probed, S)) { vf::fail("schur.operator", key, ctx + " : matrix-free Schur operator (probed with unit vectors) " + show(P->P->probed) + " != " + (c.approx ? "Kpp - Kpu D Kup " : "Kpp - Kpu Kuu^-1 Kup ") + show(S)); }
            else vf::count("schur_operator_checked");
            if (!P->P->op_mismatch.empty()) vf::fail("schur.operator.coefficients", key, ctx + " : matrix-free Schur operator with general coefficients: " + P->P->op_mismatch + " ; S (probed with alpha=1, beta=0) = " + show(P->P->probed));
            else if (P->P->op_checks) vf::count("schur_operator_general_coefficients_checked");
        }
        // reference
        std::vector<Q> fu(B.nu), fp(B.np), u, p, want(n);
        for (int i = 0; i < B.nu; ++i) fu[i] = f[B.ui[i]]; for (int i = 0; i < B.np; ++i) fp[i] = f[B.pi[i]];
        if (c.type == 1) {
            std::vector<Q> u1 = mulv(Kuui, fu), t1 = mulv(Kpu, u1), rp(B.np);
            for (int i = 0; i < B.np; ++i) rp[i] = fp[i] - t1[i];
            p = mulv(Si, rp);
        } else p = mulv(Si, fp);
        { std::vector<Q> t2 = mulv(Kup, p), ru(B.nu); for (int i = 0; i < B.nu; ++i) ru[i] = fu[i] - t2[i]; u = mulv(Kuui, ru); }
        for (int i = 0; i < B.nu; ++i) want[B.ui[i]] = u[i]; for (int i = 0; i < B.np; ++i) want[B.pi[i]] = p[i];
        std::vector<Q> got(n); for (int i = 0; i < n; ++i) got[i] = x[i];
        std::string fdesc = t < n ? (vf::KS() << "e_" << t).str() : std::string("K*g");
        if (got != want) {
            vf::fail(c.type == 1 ? (c.approx ? "schur.type1.formula" : "schur.type1.formula_exact_S") : "schur.type2.formula", key, ctx + " f=" + fdesc + " : got " + showv(got) + " want " + showv(want));
        }
        if (c.type == 1 && !c.approx) {
            if (!Kinv) { vf::count("K_singular_but_blocks_regular"); }
            else {
                std::vector<Q> xi = mulv(Ki, f);
                if (got != xi) vf::fail("schur.type1.exact_inverse", key, ctx + " f=" + fdesc + " : apply(f) = " + showv(got) + " but K^-1 f = " + showv(xi));
                else vf::count("exact_inverse_checked");
            }
        }
        if (c.type == 2 && !c.approx) {
            // independent formulation: dense solve of the block upper triangular system in the original numbering
            Mat<Q> T(n, n);
            for (int i = 0; i < B.nu; ++i) { for (int j = 0; j < B.nu; ++j) T(B.ui[i], B.ui[j]) = Kuu(i, j); for (int j = 0; j < B.np; ++j) T(B.ui[i], B.pi[j]) = Kup(i, j); }
            for (int i = 0; i < B.np; ++i) for (int j = 0; j < B.np; ++j) T(B.pi[i], B.pi[j]) = S(i, j);
            std::vector<Q> xt;
            if (solvev(T, f, xt)) { if (got != xt) vf::fail("schur.type2.block_triangular", key, ctx + " f=" + fdesc + " : got " + showv(got) + " want " + showv(xt)); else vf::count("block_triangular_checked"); }
        }
    }
    vf::count(std::string("cases_type") + std::to_string(c.type) + (c.approx ? "_approx" : "_exactS"));
    if (P->U->direct_calls == 0 || P->P->matrixfree_calls == 0) vf::fail("schur.inner_solvers_not_used", key, ctx);
    return "";
}

// position coded values; strictly dominant stored diagonal
static mk::Dense<Q> pattern_matrix(int n, uint64_t mask) {
    static const int OFF[6] = {1, -1, 2, -2, 3, -1};
    mk::Dense<Q> K(n, n);
    for (int i = 0; i < n; ++i) {
        int rs = 0;
        for (int j = 0; j < n; ++j) if (i != j && mk::bit(mask, i * n + j)) { int v = OFF[(2 * i + 3 * j) % 6]; K.st(i, j) = 1; K(i, j) = v; rs += std::abs(v); }
        if (mk::bit(mask, i * n + i)) { K.st(i, i) = 1; K(i, i) = 2 * rs + 1 + i; }
    }
    return K;
}
static std::vector<char> mask_of(int n, unsigned m) { std::vector<char> pm(n); for (int i = 0; i < n; ++i) pm[i] = (m >> i) & 1; return pm; }

static void count_skip(const char *r) { if (r && *r) vf::count(std::string("skipped.") + r); }

static void run_patterns(int n, const std::vector<uint64_t> &patterns, const char *what) {
    auto cf = all_cfgs();
    for (uint64_t pat : patterns) {
        if (!vf::take_group()) continue;
        mk::Dense<Q> K = pattern_matrix(n, pat);
        for (unsigned m = 1; m + 1 < (1u << n); ++m) for (size_t ci = 0; ci < cf.size(); ++ci) {
            auto keyf = [&]{ return std::string(vf::KS() << "sp|" << n << "|" << pat << "|" << m << "|" << cfgs(cf[ci])); };
            if (!vf::take_in_group(keyf)) continue;
            std::string key = keyf();
            const char *r = schur_case(K, mask_of(n, m), cf[ci], key);
            count_skip(r);
            if (r && !*r) { vf::nontrivial(vf::hstr(key)); }
        }
    }
    vf::space(vf::KS() << "schur: " << what << " x all " << ((1u << n) - 2) << " pressure masks x type{1,2} x adjust_p{0,1,2} x simplec_dia x approx_schur");
}

// structured families for n = 5, 6 (and the Kpp-without-diagonal variants, which depend on the mask)
static mk::Dense<Q> family(int n, int fam, const std::vector<char> &pm, int dvar) {
    uint64_t pat = 0;
    for (int i = 0; i < n; ++i) for (int j = 0; j < n; ++j) {
        bool on = false;
        switch (fam) {
            case 0: on = true; break;                                   // dense
            case 1: on = std::abs(i - j) <= 1; break;                   // tridiagonal
            case 2: on = (i == j) || i == 0 || j == 0 || i == n - 1; break;   // arrow + last row
            case 3: on = (i == j) || (pm[i] != pm[j]); break;           // saddle: only diagonal and the couplings between the two fields
            case 4: on = (j >= i) || (i == j + 2); break;               // upper triangular + one sub-diagonal
        }
        if (i == j) {
            if (dvar == 1 && pm[i]) on = false;                          // no stored diagonal in the pressure block
            if (dvar == 2 && pm[i]) { bool firstp = true; for (int k = 0; k < i; ++k) if (pm[k]) firstp = false; if (firstp) on = false; }   // only the first pressure row lacks it
            if (dvar == 3 && !pm[i] && i % 2 == 0) on = false;           // some velocity rows lack it
        }
        if (on) pat |= 1ull << (i * n + j);
    }
    return pattern_matrix(n, pat);
}

static void run_families(int n) {
    auto cf = all_cfgs();
    for (int fam = 0; fam < 5; ++fam) for (int dvar = 0; dvar < 4; ++dvar) for (unsigned m = 1; m + 1 < (1u << n); ++m) {
        if (!vf::take_group()) continue;
        auto pm = mask_of(n, m);
        mk::Dense<Q> K = family(n, fam, pm, dvar);
        for (size_t ci = 0; ci < cf.size(); ++ci) {
            auto keyf = [&]{ return std::string(vf::KS() << "sf|" << n << "|" << fam << "|" << dvar << "|" << m << "|" << cfgs(cf[ci])); };
            if (!vf::take_in_group(keyf)) continue;
            std::string key = keyf();
            const char *r = schur_case(K, pm, cf[ci], key);
            count_skip(r);
            if (r && !*r) { vf::nontrivial(vf::hstr(key)); if (dvar == 1 || dvar == 2) vf::count("cases_with_pressure_rows_without_stored_diagonal"); }
        }
    }
    vf::space(vf::KS() << "schur: 5 structured families x 4 diagonal-storage variants, n=" << n << ", x all " << ((1u << n) - 2) << " pressure masks x 24 configurations");
}

// Stokes-like / two-phase grids with the mask given by a pattern string through the property tree
static mk::Dense<Q> stokes_like(int nu, int np, bool interleaved, bool pdiag) {
    int n = nu + np; mk::Dense<Q> K(n, n);
    auto U = [&](int i) { return interleaved ? (i / 2) * 3 + (i % 2) : i; };      // nu = 2*np when interleaved: (u,u,p) per cell
    auto Pp = [&](int p) { return interleaved ? p * 3 + 2 : nu + p; };
    auto set = [&](int i, int j, int v) { K.st(i, j) = 1; K(i, j) = v; };
    for (int i = 0; i < nu; ++i) { set(U(i), U(i), 6 + i % 3); if (i) set(U(i), U(i - 1), -1); if (i + 1 < nu) set(U(i), U(i + 1), -2); }
    for (int p = 0; p < np; ++p) {
        int a = (2 * p) % nu, b = (2 * p + 1) % nu;
        set(Pp(p), U(a), -1); set(Pp(p), U(b), 1); set(U(a), Pp(p), -1); set(U(b), Pp(p), 1);
        if (pdiag) set(Pp(p), Pp(p), -1 - p % 2);
        if (p) set(Pp(p), Pp(p - 1), 1);
    }
    return K;
}

static void run_pattern_strings() {
    auto cf = all_cfgs();
    struct PS { std::string s; int n; };
    std::vector<PS> list;
    for (int n : {6, 9, 12}) {
        for (int s = 1; s <= 4; ++s) for (int k = 0; k < s && k < 10; ++k) list.push_back({(vf::KS() << "%" << k << ":" << s).str(), n});
        for (int m = 0; m <= n; m += (n > 6 ? 3 : 1)) { list.push_back({(vf::KS() << "<" << m).str(), n}); list.push_back({(vf::KS() << ">" << m).str(), n}); }
    }
    list.push_back({"%2:12", 12}); list.push_back({"%9:10", 12});
    for (const PS &ps : list) {
        std::string key = vf::KS() << "ss|" << ps.n << "|" << ps.s;
        if (!vf::take([&]{ return key; })) continue;
        int n = ps.n;
        // expected mask from the documented meaning
        std::vector<char> want(n, 0);
        if (ps.s[0] == '%') { int k = std::atoi(ps.s.c_str() + 1); int st = std::atoi(ps.s.c_str() + ps.s.find(':') + 1); for (int i = k; i < n; i += st) want[i] = 1; }
        else if (ps.s[0] == '<') { int m = std::atoi(ps.s.c_str() + 1); for (int i = 0; i < std::min(m, n); ++i) want[i] = 1; }
        else { int m = std::atoi(ps.s.c_str() + 1); for (int i = m; i < n; ++i) want[i] = 1; }
        boost::property_tree::ptree pt; pt.put("pmask_size", n); pt.put("pmask_pattern", ps.s);
        std::unique_ptr<SPC::params> prm;
        try { prm.reset(new SPC::params(pt)); } catch (const std::exception &e) { vf::fail("schur.pattern_string.params_threw", key, ps.s + ": " + e.what()); continue; }
        if (prm->pmask != want) { std::string a, b; for (char c : prm->pmask) a += c ? '1' : '0'; for (char c : want) b += c ? '1' : '0'; vf::fail("schur.pattern_string.mask", key, "pattern '" + ps.s + "' on " + std::to_string(n) + " unknowns gave " + a + " expected " + b); continue; }
        vf::count("pattern_strings_checked");
        int np = 0; for (char c : want) np += c;
        if (np == 0 || np == n) { vf::count("pattern_strings_with_empty_block"); continue; }
        // a matrix for this mask: tridiagonal-plus-coupling family with the mask driven saddle structure
        for (int dvar : {0, 1}) {
            mk::Dense<Q> K = family(n, 3, want, dvar);
            for (int i = 0; i + 1 < n; ++i) { if (!K.st(i, i + 1)) { K.st(i, i + 1) = 1; K(i, i + 1) = -1; } }
            for (const Cfg &c : cf) { const char *r = schur_case(K, want, c, key, prm.get()); count_skip(r); if (r && !*r) vf::nontrivial(vf::hstr(key + cfgs(c) + std::to_string(dvar))); }
        }
    }
    vf::space("schur: pattern strings %k:s (s<=4,k<s), <m, >m on 6, 9, 12 unknowns through the property-tree constructor, each x 2 diagonal variants x 24 configurations");
    // Stokes-like and two-phase style grids
    struct G { const char *name; int nu, np; bool inter, pdiag; std::string pat; };
    for (const G &g : std::vector<G>{{"stokes_8+4_contiguous", 8, 4, false, true, ">8"}, {"stokes_8+4_contiguous_nopdiag", 8, 4, false, false, ">8"},
                                     {"stokes_8+4_interleaved", 8, 4, true, true, "%2:3"}, {"stokes_8+4_interleaved_nopdiag", 8, 4, true, false, "%2:3"},
                                     {"twophase_6x2", 6, 6, false, true, "<0"}}) {
        std::string key = vf::KS() << "sg|" << g.name;
        if (!vf::take([&]{ return key; })) continue;
        mk::Dense<Q> K; std::string pat = g.pat; int n;
        if (std::string(g.name) == "twophase_6x2") {
            // 6 cells x (pressure, saturation): interleaved, pressure first
            n = 12; K = mk::Dense<Q>(n, n);
            for (int c = 0; c < 6; ++c) for (int d = -1; d <= 1; ++d) { int e = c + d; if (e < 0 || e >= 6) continue;
                for (int a = 0; a < 2; ++a) for (int b = 0; b < 2; ++b) { int v = (d == 0) ? (a == b ? 9 + c : (a ? 2 : -1)) : (a == b ? -2 + a : (a ? 1 : 0)); if (v) { K.st(2 * c + a, 2 * e + b) = 1; K(2 * c + a, 2 * e + b) = v; } } }
            pat = "%0:2";
        } else { n = g.nu + g.np; K = stokes_like(g.nu, g.np, g.inter, g.pdiag); }
        boost::property_tree::ptree pt; pt.put("pmask_size", n); pt.put("pmask_pattern", pat);
        SPC::params prm(pt);
        for (const Cfg &c : cf) { const char *r = schur_case(K, prm.pmask, c, key, &prm); count_skip(r); if (r && !*r) vf::nontrivial(vf::hstr(key + cfgs(c))); }
    }
    vf::space("schur: Stokes-like 8+4 systems (contiguous '>8' and interleaved '%2:3', with and without stored pressure diagonal) and a two-phase 6x2 system ('%0:2') x 24 configurations");
}

// '%k:s' with a start index of two digits: the documented form is '%n:m'
static void run_multidigit() {
    for (const char *ps : {"%10:2", "%10:12", "%11:3"}) {
        std::string key = vf::KS() << "sm|12|" << ps;
        if (!vf::take([&]{ return key; })) continue;
        std::string pss = ps;
        fr::Result r = fr::run([pss](fr::Out &out) {
            boost::property_tree::ptree pt; pt.put("pmask_size", 12); pt.put("pmask_pattern", pss);
            SPC::params prm(pt);
            for (char c : prm.pmask) out << (c ? '1' : '0');
        }, 5.0);
        std::vector<char> want(12, 0); { int k = std::atoi(ps + 1); int st = std::atoi(std::strchr(ps, ':') + 1); for (int i = k; i < 12; i += st) want[i] = 1; }
        std::string w; for (char c : want) w += c ? '1' : '0';
        if (r.kind == fr::TIMEOUT) vf::fail("schur.pattern_string.two_digit_start", key, std::string("pattern '") + ps + "' on 12 unknowns: the parameter constructor does not terminate (killed after 5 s); expected mask " + w);
        else if (r.kind != fr::OK) vf::fail("schur.pattern_string.two_digit_start", key, std::string("pattern '") + ps + "': " + r.kind_name() + " " + r.text);
        else if (r.text != w) vf::fail("schur.pattern_string.two_digit_start", key, std::string("pattern '") + ps + "' on 12 unknowns gave " + r.text + " expected " + w);
        else vf::count("two_digit_start_patterns_ok");
    }
}

int main(int argc, char **argv) {
    vf::init(argc, argv, "C18");
    vf::sample_str("schur case: K = " + mk::show(pattern_matrix(3, 0x1ff)) + " pmask=010 type=1 adjust_p=1 simplec_dia=1 approx_schur=0, value type = rationals, inner solvers = exact Gauss-Jordan");
    if (vf::section("sp")) {
        { std::vector<uint64_t> p; for (uint64_t m = 0; m < 16; ++m) p.push_back(m); run_patterns(2, p, "all 16 sparsity patterns of 2x2 matrices"); }
        { std::vector<uint64_t> p; for (uint64_t m = 0; m < 512; ++m) p.push_back(m); run_patterns(3, p, "all 512 sparsity patterns of 3x3 matrices"); }
        {
            // n = 4: diagonal-storage variants {all stored, exactly one missing} x off-diagonal patterns (quick: symmetric ones, thorough: all 4096)
            std::vector<uint64_t> p;
            for (uint64_t off = 0; off < 4096; ++off) {
                uint64_t pat = 0; int b = 0; bool sym = true; bool e[4][4] = {};
                for (int i = 0; i < 4; ++i) for (int j = 0; j < 4; ++j) if (i != j) { e[i][j] = mk::bit(off, b); if (e[i][j]) pat |= 1ull << (i * 4 + j); ++b; }
                for (int i = 0; i < 4; ++i) for (int j = 0; j < 4; ++j) if (e[i][j] != e[j][i]) sym = false;
                if (!sym && !vf::thorough() && !vf::replaying()) continue;
                for (int miss = -1; miss < 4; ++miss) { uint64_t q = pat; for (int i = 0; i < 4; ++i) if (i != miss) q |= 1ull << (i * 5); p.push_back(q); }
            }
            run_patterns(4, p, vf::thorough() ? "all 4096 off-diagonal patterns of 4x4 matrices x {full diagonal, one diagonal entry not stored}" : "the 64 symmetric off-diagonal patterns of 4x4 matrices x {full diagonal, one diagonal entry not stored}");
        }
    }
    if (vf::section("sf")) { run_families(5); run_families(6); }
    if (vf::section("ss") || vf::section("sg")) run_pattern_strings();
    if (vf::section("sm")) run_multidigit();
    return vf::finish();
}
