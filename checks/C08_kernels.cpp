// C08 -- sparse matrix kernels equal their dense definitions.
// Exhaustive over small pattern spaces with position-coded small-integer values, so the
// dense definition is evaluated exactly and the oracle is ==.
#include <complex>
#include <cstring>
#include <amgcl/backend/builtin.hpp>
#include <amgcl/value_type/static_matrix.hpp>
#include <amgcl/value_type/complex.hpp>
#include <amgcl/adapter/crs_tuple.hpp>
#include <Eigen/Dense>
#include "vf.hpp"
#include "mk.hpp"
#include "vsched.hpp"

using namespace amgcl;
typedef backend::crs<double, ptrdiff_t, ptrdiff_t> Crs;
typedef std::complex<double> Cx;
typedef static_matrix<double, 2, 2> B2;

static inline double ival(int i, int j, int salt) {
    int v = 1 + (3 * i + 5 * j + salt) % 4;
    return ((i + 2 * j + salt) & 1) ? -v : v;
}
static inline Cx cval(int i, int j, int salt) { return Cx(ival(i, j, salt), ival(j, i, salt + 1)); }
static inline B2 bval(int i, int j, int salt) {
    B2 b; b(0,0) = ival(i, j, salt); b(0,1) = ival(i, j, salt + 1); b(1,0) = ival(j, i, salt + 2); b(1,1) = ival(i + 1, j, salt + 3); return b;
}

template <class F> static auto with_threads(int nt, F &&f) -> decltype(f()) {
    int old = vs::cfg().max_threads;
    vs::cfg().max_threads = nt;
    vs::cfg().prefix.clear();
    vs::begin_execution();
    struct R { int o; ~R() { vs::cfg().max_threads = o; } } r{old};
    return f();
}

template <class V>
static mk::Dense<V> dense_product(const mk::Dense<V> &A, const mk::Dense<V> &B) {
    mk::Dense<V> C(A.m, B.n);
    for (int i = 0; i < A.m; ++i)
        for (int k = 0; k < A.n; ++k) if (A.st(i, k))
            for (int j = 0; j < B.n; ++j) if (B.st(k, j)) {
                if (!C.st(i, j)) { C.st(i, j) = 1; C(i, j) = A(i, k) * B(k, j); }
                else C(i, j) += A(i, k) * B(k, j);
            }
    return C;
}

static std::string pkey(const char *what, int m, int k, int n, uint64_t ma, uint64_t mb, int extra = 0) {
    return vf::KS() << what << "|" << m << "x" << k << "x" << n << "|" << ma << "|" << mb << "|" << extra;
}

// ---------------------------------------------------------------------------------------------
template <class V, class ValA, class ValB>
static void product_case(const char *tag, int m, int k, int n, uint64_t ma, uint64_t mb, ValA va, ValB vb, bool fiber_dispatch) {
    auto DA = mk::from_mask<V>(m, k, ma, va);
    auto DB = mk::from_mask<V>(k, n, mb, vb);
    auto A = mk::to_crs<V>(DA);
    auto B = mk::to_crs<V>(DB);
    auto ref = dense_product(DA, DB);
    std::string key = pkey(tag, m, k, n, ma, mb);
    if (ref.nnz() > 0 && DA.nnz() > 1) vf::nontrivial(vf::hstr(key));
    auto check = [&](const char *alg, backend::crs<V, ptrdiff_t, ptrdiff_t> &C, bool sorted) {
        mk::Dense<V> got; std::string why;
        std::string err = mk::from_crs(C, got, sorted);
        if (!err.empty()) { vf::fail(std::string("product.") + alg + ".wellformed", key, err + " A=" + mk::show(DA) + " B=" + mk::show(DB)); return; }
        if (!mk::same(got, ref, why)) vf::fail(std::string("product.") + alg + ".value", key, why + " A=" + mk::show(DA) + " B=" + mk::show(DB) + " got=" + mk::show(got) + " want=" + mk::show(ref));
    };
    { backend::crs<V, ptrdiff_t, ptrdiff_t> C; backend::spgemm_saad(*A, *B, C, true);  check("saad_sorted", C, true); }
    { backend::crs<V, ptrdiff_t, ptrdiff_t> C; backend::spgemm_saad(*A, *B, C, false); check("saad_unsorted", C, false); }
    { backend::crs<V, ptrdiff_t, ptrdiff_t> C; backend::spgemm_rmerge(*A, *B, C);      check("rmerge", C, true); }
    if (fiber_dispatch) {
        for (int nt : {2, 3, 16, 17}) {
            auto C = with_threads(nt, [&]{ return backend::product(*A, *B, true); });
            check(nt > 16 ? "dispatch_nt17" : (nt == 16 ? "dispatch_nt16" : "dispatch_small_team"), *C, true);
            if (vs::trace().teams > 0) vf::count(nt > 16 ? "rmerge_under_team_of_17" : "saad_under_team");
        }
    }
}

static void run_products() {
    // shapes: all (m,k,n) in 0..3 ; thorough adds triples with one dimension 4
    std::vector<std::array<int,3>> shapes;
    int lim = 3;
    for (int m = 0; m <= lim; ++m) for (int k = 0; k <= lim; ++k) for (int n = 0; n <= lim; ++n) shapes.push_back({m, k, n});
    if (vf::thorough()) { shapes.push_back({3,4,3}); shapes.push_back({4,3,4}); shapes.push_back({4,4,2}); shapes.push_back({2,4,4}); }
    for (auto s : shapes) {
        int m = s[0], k = s[1], n = s[2];
        uint64_t na = 1ull << (m * k), nb = 1ull << (k * n);
        bool fiber = (m == 3 && k == 3 && n == 3) || (m == 2 && k == 3 && n == 2);
        for (uint64_t ma = 0; ma < na; ++ma) {
            if (!vf::take_group()) continue;
            for (uint64_t mb = 0; mb < nb; ++mb) {
                if (!vf::take_in_group([&]{ return pkey("prod", m, k, n, ma, mb); })) continue;
                // fiber dispatch on a 1/8 slice of the 3x3x3 space in quick tier, everywhere in thorough
                bool fd = fiber && (vf::thorough() || ((ma * 2654435761u + mb) % 8 == 0) || vf::replaying());
                product_case<double>("prod", m, k, n, ma, mb,
                    [](int i, int j){ return ival(i, j, 0); }, [](int i, int j){ return ival(i, j, 1); }, fd);
            }
        }
        vf::space(vf::KS() << "product: all pattern pairs " << m << "x" << k << " * " << k << "x" << n);
    }
    // explicitly STORED zeros in the left factor (a matrix whose pattern is kept while some couplings became exactly zero): the
    // result keeps the structural entries (the symbolic pass reads only the pattern) and their values are the dense sums; two
    // rules for which stored entries of A are zero
    for (auto s : std::vector<std::array<int,3>>{{3, 3, 3}, {2, 3, 3}}) {
        int m = s[0], k = s[1], n = s[2];
        uint64_t na = 1ull << (m * k), nb = 1ull << (k * n);
        for (uint64_t ma = 0; ma < na; ++ma) {
            if (!vf::take_group()) continue;
            for (uint64_t mb = 0; mb < nb; ++mb) for (int zr = 0; zr < 2; ++zr) {
                if (!vf::take_in_group([&]{ return pkey(zr ? "prodz1" : "prodz0", m, k, n, ma, mb); })) continue;
                product_case<double>(zr ? "prodz1" : "prodz0", m, k, n, ma, mb,
                    [zr](int i, int j){ bool z = zr ? ((i + j) % 2 == 1) : ((i + 2 * j) % 3 == 0); return z ? 0.0 : ival(i, j, 0); }, [](int i, int j){ return ival(i, j, 1); }, false);
            }
        }
        vf::space(vf::KS() << "product with stored zeros in A: all pattern pairs " << m << "x" << k << " * " << k << "x" << n << " x 2 zero rules");
    }
    // complex / block values on all 2x2*2x2 and 2x3*3x2 pairs (adjoint is not involved, but value arithmetic is)
    for (auto s : std::vector<std::array<int,3>>{{2,2,2},{2,3,2},{3,2,3}}) {
        int m = s[0], k = s[1], n = s[2];
        for (uint64_t ma = 0; ma < (1ull << (m*k)); ++ma) {
            if (!vf::take_group()) continue;
            for (uint64_t mb = 0; mb < (1ull << (k*n)); ++mb) {
                if (vf::take_in_group([&]{ return pkey("prodc", m, k, n, ma, mb); }))
                    product_case<Cx>("prodc", m, k, n, ma, mb, [](int i, int j){ return cval(i, j, 0); }, [](int i, int j){ return cval(i, j, 1); }, false);
                if (vf::take_in_group([&]{ return pkey("prodb", m, k, n, ma, mb); }))
                    product_case<B2>("prodb", m, k, n, ma, mb, [](int i, int j){ return bval(i, j, 0); }, [](int i, int j){ return bval(i, j, 1); }, false);
            }
        }
        vf::space(vf::KS() << "product complex/2x2-block: all pattern pairs " << m << "x" << k << " * " << k << "x" << n);
    }
    // row-length family: A = 1 x k full row (k = 0..7), B = all k x 3 patterns  -> every branch of prod_row / prod_row_width
    int kmax = vf::thorough() ? 7 : 6;
    for (int k = 0; k <= kmax; ++k) {
        uint64_t ma = (1ull << k) - 1;
        for (uint64_t mb = 0; mb < (1ull << (3 * k)); ++mb) {
            if (!vf::take([&]{ return pkey("prodrow", 1, k, 3, ma, mb); })) continue;
            product_case<double>("prodrow", 1, k, 3, ma, mb, [](int i, int j){ return ival(i, j, 2); }, [](int i, int j){ return ival(i, j, 3); }, false);
            vf::count("prod_row_width_" + std::to_string(k));
        }
        vf::space(vf::KS() << "product: full 1x" << k << " row times all " << k << "x3 patterns");
    }
    // unsorted inputs for the marker algorithm (permitted there): all row permutations of 2x3 * 3x2 patterns
    for (uint64_t ma = 0; ma < 64; ++ma) for (uint64_t mb = 0; mb < 64; ++mb) {
        if (!vf::take([&]{ return pkey("produns", 2, 3, 2, ma, mb); })) continue;
        auto DA = mk::from_mask<double>(2, 3, ma, [](int i, int j){ return ival(i, j, 0); });
        auto DB = mk::from_mask<double>(3, 2, mb, [](int i, int j){ return ival(i, j, 1); });
        auto ref = dense_product(DA, DB);
        auto A0 = mk::to_crs<double>(DA);
        // reverse every row of A and B
        auto A = mk::to_crs<double>(DA); auto B = mk::to_crs<double>(DB);
        for (int r = 0; r < 2; ++r) { int w = A->ptr[r+1] - A->ptr[r]; std::vector<int> o(w); for (int q = 0; q < w; ++q) o[q] = w - 1 - q; mk::permute_row(*A, r, o); }
        for (int r = 0; r < 3; ++r) { int w = B->ptr[r+1] - B->ptr[r]; std::vector<int> o(w); for (int q = 0; q < w; ++q) o[q] = w - 1 - q; mk::permute_row(*B, r, o); }
        for (int sort = 0; sort < 2; ++sort) {
            Crs C; backend::spgemm_saad(*A, *B, C, sort);
            mk::Dense<double> got; std::string why;
            std::string err = mk::from_crs(C, got, sort);
            std::string key = pkey("produns", 2, 3, 2, ma, mb);
            if (!err.empty()) vf::fail("product.saad_unsorted_input.wellformed", key, err);
            else if (!mk::same(got, ref, why)) vf::fail("product.saad_unsorted_input.value", key, why);
        }
    }
}

// ---------------------------------------------------------------------------------------------
template <class V, class ValFn>
static void transpose_case(const char *tag, int m, int n, uint64_t mask, ValFn vfn, bool reversed_rows = false) {
    auto D = mk::from_mask<V>(m, n, mask, vfn);
    auto A = mk::to_crs<V>(D);
    if (reversed_rows) {    // the counting transpose does not need sorted input rows; its output is sorted all the same
        bool changed = false;
        for (int r = 0; r < m; ++r) { int w = A->ptr[r+1] - A->ptr[r]; std::vector<int> o(w); for (int q = 0; q < w; ++q) o[q] = w - 1 - q; if (w > 1) changed = true; mk::permute_row(*A, r, o); }
        if (!changed) return;
        vf::count("transpose_reversed_rows_cases");
    }
    auto T = backend::transpose(*A);
    mk::Dense<V> ref(n, m);
    for (int i = 0; i < m; ++i) for (int j = 0; j < n; ++j) if (D.st(i, j)) { ref.st(j, i) = 1; ref(j, i) = math::adjoint(D(i, j)); }
    mk::Dense<V> got; std::string why;
    std::string key = pkey("tr", m, n, 0, mask, 0);
    std::string err = mk::from_crs(*T, got, true);
    if (D.nnz() > 1) vf::nontrivial(vf::hstr(key + tag));
    if (!err.empty()) vf::fail(std::string("transpose.wellformed.") + tag, key, err + " A=" + mk::show(D));
    else if (!mk::same(got, ref, why)) vf::fail(std::string("transpose.value.") + tag, key, why + " A=" + mk::show(D) + " got=" + mk::show(got));
}

static void run_transpose() {
    for (int m = 0; m <= 4; ++m) for (int n = 0; n <= 4; ++n) {
        for (uint64_t mask = 0; mask < (1ull << (m * n)); ++mask) {
            if (!vf::take([&]{ return pkey("tr", m, n, 0, mask, 0); })) continue;
            transpose_case<double>("real", m, n, mask, [](int i, int j){ return ival(i, j, 0); });
            transpose_case<double>("real.reversed_rows", m, n, mask, [](int i, int j){ return ival(i, j, 0); }, true);
            if (m * n <= 12) {
                transpose_case<Cx>("complex", m, n, mask, [](int i, int j){ return cval(i, j, 0); });
                transpose_case<B2>("block2", m, n, mask, [](int i, int j){ return bval(i, j, 0); });
            }
        }
        vf::space(vf::KS() << "transpose: all patterns " << m << "x" << n);
    }
}

// ---------------------------------------------------------------------------------------------
static void run_sort_rows() {
    // all 3x3 patterns x all permutations inside every row; 4x4: all patterns, every permutation of one row at a time
    for (uint64_t mask = 0; mask < 512; ++mask) {
        if (!vf::take([&]{ return pkey("sort3", 3, 3, 0, mask, 0); })) continue;
        auto D = mk::from_mask<double>(3, 3, mask, [](int i, int j){ return ival(i, j, 0); });
        std::vector<std::vector<int>> perm(3);
        auto A0 = mk::to_crs<double>(D);
        for (int r = 0; r < 3; ++r) { int w = A0->ptr[r+1] - A0->ptr[r]; perm[r].resize(w); for (int q = 0; q < w; ++q) perm[r][q] = q; }
        long nperm = 0;
        do { do { do {
            auto A = mk::to_crs<double>(D);
            for (int r = 0; r < 3; ++r) mk::permute_row(*A, r, perm[r]);
            backend::sort_rows(*A);
            mk::Dense<double> got; std::string why;
            std::string err = mk::from_crs(*A, got, true);
            if (!err.empty()) vf::fail("sort_rows.wellformed", pkey("sort3", 3, 3, 0, mask, 0), err);
            else if (!mk::same(got, D, why)) vf::fail("sort_rows.value", pkey("sort3", 3, 3, 0, mask, 0), why);
            ++nperm;
        } while (mk::next_perm(perm[2])); } while (mk::next_perm(perm[1])); } while (mk::next_perm(perm[0]));
        vf::count("sort_rows_permutations", nperm);
        if (nperm > 1) vf::nontrivial(vf::hstr(pkey("sort3", 3, 3, 0, mask, 0)));
    }
    vf::space("sort_rows: all 3x3 patterns x all permutations inside every row");
    for (uint64_t mask = 0; mask < 65536; ++mask) {
        if (!vf::take([&]{ return pkey("sort4", 4, 4, 0, mask, 0); })) continue;
        auto D = mk::from_mask<double>(4, 4, mask, [](int i, int j){ return ival(i, j, 0); });
        for (int r = 0; r < 4; ++r) {
            auto A0 = mk::to_crs<double>(D);
            int w = A0->ptr[r+1] - A0->ptr[r];
            std::vector<int> p(w); for (int q = 0; q < w; ++q) p[q] = q;
            while (mk::next_perm(p)) {
                auto A = mk::to_crs<double>(D);
                mk::permute_row(*A, r, p);
                backend::sort_rows(*A);
                mk::Dense<double> got; std::string why;
                std::string err = mk::from_crs(*A, got, true);
                if (!err.empty()) vf::fail("sort_rows.wellformed", pkey("sort4", 4, 4, 0, mask, 0), err);
                else if (!mk::same(got, D, why)) vf::fail("sort_rows.value", pkey("sort4", 4, 4, 0, mask, 0), why);
            }
        }
    }
    vf::space("sort_rows: all 4x4 patterns x all permutations of one row at a time");
}

// ---------------------------------------------------------------------------------------------
static void run_sum() {
    const double coef[4] = {0, 1, -1, 2};
    for (int m = 0; m <= 3; ++m) for (int n = 0; n <= 3; ++n) {
        if ((m == 0) != (n == 0) && m + n > 1) continue;
        for (uint64_t ma = 0; ma < (1ull << (m*n)); ++ma) for (uint64_t mb = 0; mb < (1ull << (m*n)); ++mb) {
            if (!vf::take([&]{ return pkey("sum", m, n, 0, ma, mb); })) continue;
            auto DA = mk::from_mask<double>(m, n, ma, [](int i, int j){ return ival(i, j, 0); });
            auto DB = mk::from_mask<double>(m, n, mb, [](int i, int j){ return ival(i, j, 1); });
            auto A = mk::to_crs<double>(DA); auto B = mk::to_crs<double>(DB);
            if (ma && mb) vf::nontrivial(vf::hstr(pkey("sum", m, n, 0, ma, mb)));
            for (int ia = 0; ia < 4; ++ia) for (int ib = 0; ib < 4; ++ib) for (int sort = 0; sort < 2; ++sort) {
                double al = coef[ia], be = coef[ib];
                mk::Dense<double> ref(m, n);
                for (int i = 0; i < m; ++i) for (int j = 0; j < n; ++j) {
                    if (DA.st(i,j) || DB.st(i,j)) { ref.st(i,j) = 1; ref(i,j) = (DA.st(i,j) ? al * DA(i,j) : 0.0) + (DB.st(i,j) ? be * DB(i,j) : 0.0); }
                }
                auto Cm = backend::sum(al, *A, be, *B, (bool)sort);
                mk::Dense<double> got; std::string why;
                std::string key = pkey("sum", m, n, 0, ma, mb, ia * 8 + ib * 2 + sort);
                std::string err = mk::from_crs(*Cm, got, sort);
                if (!err.empty()) vf::fail("sum.wellformed", pkey("sum", m, n, 0, ma, mb), err + " coef " + std::to_string(al) + "," + std::to_string(be));
                else if (!mk::same(got, ref, why)) vf::fail("sum.value", pkey("sum", m, n, 0, ma, mb), why + " coef " + std::to_string(al) + "," + std::to_string(be) + " A=" + mk::show(DA) + " B=" + mk::show(DB) + " got=" + mk::show(got));
            }
        }
        vf::space(vf::KS() << "sum: all pattern pairs " << m << "x" << n << " x coefficients {0,1,-1,2}^2 x sort flag");
    }
}

// ---------------------------------------------------------------------------------------------
static void run_scale_diag() {
    const double dy[6] = {1, -2, 4, 0.5, -0.25, 8};
    for (uint64_t mask = 0; mask < 65536; ++mask) {
        if (!vf::take([&]{ return pkey("scdiag", 4, 4, 0, mask, 0); })) continue;
        auto val = [&](int i, int j){ return dy[(2*i + 3*j) % 6]; };
        auto D = mk::from_mask<double>(4, 4, mask, val);
        std::string key = pkey("scdiag", 4, 4, 0, mask, 0);
        if (D.nnz() > 1) vf::nontrivial(vf::hstr(key));
        for (double s : {2.0, -0.5, 0.0}) {
            auto A = mk::to_crs<double>(D);
            backend::scale(*A, s);
            mk::Dense<double> got, ref = D; std::string why;
            for (auto &x : ref.a) x *= s;
            std::string err = mk::from_crs(*A, got, true);
            if (!err.empty()) vf::fail("scale.wellformed", key, err);
            else if (!mk::same(got, ref, why)) vf::fail("scale.value", key, why);
        }
        // diagonal only defined when every row stores its diagonal (otherwise the entry is left unwritten)
        bool full = true; for (int i = 0; i < 4; ++i) full &= D.st(i, i);
        if (full) {
            auto A = mk::to_crs<double>(D);
            auto d = backend::diagonal(*A, false);
            auto di = backend::diagonal(*A, true);
            for (int i = 0; i < 4; ++i) {
                if ((*d)[i] != D(i,i)) vf::fail("diagonal.value", key, vf::KS() << "row " << i);
                if ((*di)[i] != 1.0 / D(i,i)) vf::fail("diagonal.inverse", key, vf::KS() << "row " << i);
            }
            vf::count("diagonal_cases");
            // rows stored in another order (permitted: diagonal() looks for the diagonal entry anywhere in the row).
            // Variant 1 reverses every row, variant 2 rotates it by one; the values depend on the pattern and the variant,
            // so an entry that is left unwritten cannot pass by inheriting the bytes of the previous case's result.
            for (int variant = 1; variant <= 2; ++variant) {
                auto val2 = [&](int i, int j){ return dy[(2*i + 3*j + mask + variant) % 6]; };
                auto D2 = mk::from_mask<double>(4, 4, mask, val2);
                auto A2 = mk::to_crs<double>(D2);
                bool changed = false;
                for (int r = 0; r < 4; ++r) {
                    int w = A2->ptr[r+1] - A2->ptr[r]; std::vector<int> o(w);
                    for (int q = 0; q < w; ++q) o[q] = variant == 1 ? w - 1 - q : (q + 1) % w;
                    if (w > 1) changed = true;
                    mk::permute_row(*A2, r, o);
                }
                if (!changed) continue;
                auto d2 = backend::diagonal(*A2, false);
                auto di2 = backend::diagonal(*A2, true);
                for (int i = 0; i < 4; ++i) {
                    if ((*d2)[i] != D2(i,i)) vf::fail("diagonal.unsorted_rows.value", key, vf::KS() << "row " << i << " order=" << (variant == 1 ? "reversed" : "rotated") << " got=" << (*d2)[i] << " want=" << D2(i,i));
                    if ((*di2)[i] != 1.0 / D2(i,i)) vf::fail("diagonal.unsorted_rows.inverse", key, vf::KS() << "row " << i << " order=" << (variant == 1 ? "reversed" : "rotated") << " got=" << (*di2)[i] << " want=" << 1.0 / D2(i,i));
                }
                vf::count("diagonal_unsorted_cases");
            }
        }
    }
    vf::space("scale/diagonal: all 4x4 patterns with dyadic values; diagonal also with every row reversed / rotated by one");
    // complex / block diagonal inversion: 2x2 patterns with full diagonal
    for (uint64_t mask = 0; mask < 16; ++mask) {
        if (!(mk::bit(mask, 0) && mk::bit(mask, 3))) continue;
        if (!vf::take([&]{ return pkey("diagc", 2, 2, 0, mask, 0); })) continue;
        auto Dc = mk::from_mask<Cx>(2, 2, mask, [](int i, int j){ return Cx(1 + i, 1 + j); });   // (1+i)(..): inverse of a+bi with a^2+b^2 power of two
        Dc(0,0) = Cx(1, 1); Dc(1,1) = Cx(2, -2);
        auto A = mk::to_crs<Cx>(Dc);
        auto di = backend::diagonal(*A, true);
        if ((*di)[0] != Cx(0.5, -0.5) || (*di)[1] != Cx(0.25, 0.25)) vf::fail("diagonal.inverse.complex", pkey("diagc", 2, 2, 0, mask, 0), "complex inverse wrong");
        // zero diagonal value -> identity (documented convention of diagonal(invert))
        auto Dz = mk::from_mask<double>(2, 2, mask, [](int i, int j){ return i == j ? (i ? 0.0 : 4.0) : 1.0; });
        auto Az = mk::to_crs<double>(Dz);
        auto dz = backend::diagonal(*Az, true);
        if ((*dz)[0] != 0.25 || (*dz)[1] != 1.0) vf::fail("diagonal.inverse.zero", pkey("diagc", 2, 2, 0, mask, 0), "zero diagonal not mapped to identity");
    }
}

// ---------------------------------------------------------------------------------------------
// pointwise_matrix: entry (I,J) present iff some entry of block (I,J) is stored; value = max norm.
static void pointwise_case(const char *tag, int m, int n, int bs, uint64_t mask) {
    std::string key = pkey(tag, m, n, bs, mask, 0);
    auto D = mk::from_mask<double>(m, n, mask, [](int i, int j){ return (double)((1 + i * 7 + j * 3) % 11 + 1) * (((i + j) & 1) ? -1 : 1); });
    auto A = mk::to_crs<double>(D);
    int mp = m / bs, np = n / bs;
    mk::Dense<double> ref(mp, np);
    bool multi = false;
    for (int i = 0; i < m; ++i) for (int j = 0; j < n; ++j) if (D.st(i, j)) {
        int I = i / bs, J = j / bs;
        double v = std::abs(D(i, j));
        if (!ref.st(I, J)) { ref.st(I, J) = 1; ref(I, J) = v; } else { ref(I, J) = std::max(ref(I, J), v); multi = true; }
    }
    if (ref.nnz() > 1) vf::nontrivial(vf::hstr(key));
    auto P = backend::pointwise_matrix(*A, bs);
    mk::Dense<double> got; std::string why;
    std::string err = mk::from_crs(*P, got, true);
    if (!err.empty()) vf::fail("pointwise_matrix.wellformed", key, err + " A=" + mk::show(D));
    else if (!mk::same(got, ref, why)) vf::fail("pointwise_matrix.value", key, why + " A=" + mk::show(D) + " got=" + mk::show(got) + " want=" + mk::show(ref));
}

static void run_pointwise() {
    for (uint64_t mask = 0; mask < 65536; ++mask) {
        if (!vf::take([&]{ return pkey("pw", 4, 4, 2, mask, 0); })) continue;
        pointwise_case("pw", 4, 4, 2, mask);
    }
    vf::space("pointwise_matrix: all 4x4 patterns, block 2");
    for (uint64_t mask = 0; mask < 4096; ++mask) {
        if (vf::take([&]{ return pkey("pw", 2, 6, 2, mask, 0); })) pointwise_case("pw", 2, 6, 2, mask);
        if (vf::take([&]{ return pkey("pw", 6, 2, 2, mask, 0); })) pointwise_case("pw", 6, 2, 2, mask);
        if (mask < 512 && vf::take([&]{ return pkey("pw", 3, 3, 3, mask, 0); })) pointwise_case("pw", 3, 3, 3, mask);
        if (mask < 512 && vf::take([&]{ return pkey("pw", 3, 3, 1, mask, 0); })) pointwise_case("pw", 3, 3, 1, mask);
    }
    vf::space("pointwise_matrix: all 2x6, 6x2 patterns block 2; all 3x3 patterns block 3 and block 1");
    int bits = vf::thorough() ? 24 : 18;
    // 4x6 block 2: thorough = all 2^24 patterns, quick = the 2^18 patterns confined to the first three rows.. use row-major bits
    for (uint64_t mask = 0; mask < (1ull << bits); ++mask) {
        if (!vf::take([&]{ return pkey("pw", 4, 6, 2, mask, 0); })) continue;
        pointwise_case("pw", 4, 6, 2, mask);
    }
    vf::space(vf::KS() << "pointwise_matrix: 4x6 patterns with the first " << bits << " row-major positions free, block 2");
    // block-valued matrix with block_size 1: entry = Frobenius norm of the block
    for (uint64_t mask = 0; mask < 512; ++mask) {
        if (!vf::take([&]{ return pkey("pwb", 3, 3, 1, mask, 0); })) continue;
        auto D = mk::from_mask<B2>(3, 3, mask, [](int i, int j){ B2 b; b(0,0) = 3 * (1 + i); b(0,1) = 0; b(1,0) = 0; b(1,1) = 4 * (1 + i); return b; });
        auto A = mk::to_crs<B2>(D);
        auto P = backend::pointwise_matrix(*A, 1);
        mk::Dense<double> got;
        std::string err = mk::from_crs(*P, got, true);
        std::string key = pkey("pwb", 3, 3, 1, mask, 0);
        if (!err.empty()) { vf::fail("pointwise_matrix.block_value.wellformed", key, err); continue; }
        for (int i = 0; i < 3; ++i) for (int j = 0; j < 3; ++j) {
            if (got.st(i,j) != D.st(i,j)) vf::fail("pointwise_matrix.block_value.pattern", key, "pattern");
            else if (D.st(i,j) && got(i,j) != 5.0 * (1 + i)) vf::fail("pointwise_matrix.block_value.value", key, vf::KS() << "norm " << got(i,j));
        }
    }
}

// ---------------------------------------------------------------------------------------------
template <class C, class P>
static void convert_case(uint64_t mask, int m, int n) {
    auto D = mk::from_mask<double>(m, n, mask, [](int i, int j){ return ival(i, j, 0); });
    auto A = mk::to_crs<double>(D);
    std::string key = pkey("conv", m, n, 0, mask, 0);
    std::string ty = vf::KS() << (std::is_signed<C>::value ? "s" : "u") << sizeof(C) * 8 << "_" << sizeof(P) * 8;
    std::vector<P> ptr(A->ptr, A->ptr + m + 1);
    std::vector<C> col(A->col, A->col + A->nnz);
    std::vector<double> val(A->val, A->val + A->nnz);
    auto chk = [&](const char *sub, const backend::crs<double, C, P> &X) {
        mk::Dense<double> got; std::string why;
        std::string err = mk::from_crs(X, got, true);
        if (!err.empty()) vf::fail(std::string("convert.") + sub + ".wellformed." + ty, key, err);
        else if (!mk::same(got, D, why)) vf::fail(std::string("convert.") + sub + ".value." + ty, key, why);
    };
    backend::crs<double, C, P> X1(m, n, ptr, col, val);             chk("ranges", X1);
    backend::crs<double, C, P> X2(*A);                              chk("from_other_index_type", X2);
    backend::crs<double, C, P> X3(X1);                              chk("copy", X3);
    backend::crs<double, C, P> X4; X4 = X1;                         chk("assign", X4);
    backend::crs<double, C, P> X5(std::move(X3));                   chk("move", X5);
    if (X3.ptr || X3.nnz) vf::fail("convert.move.source_not_emptied", key, "moved-from matrix still owns data");
    backend::crs<double, C, P> X6; X6 = std::move(X4);              chk("move_assign", X6);
    auto t = std::make_tuple((size_t)m, ptr, col, val);
    if (m == n) { backend::crs<double, C, P> X7(t);                 chk("from_tuple", X7); }
    if (D.nnz() > 1) vf::nontrivial(vf::hstr(key + ty));
}

static void run_convert() {
    for (int m = 0; m <= 3; ++m) for (int n = 0; n <= 3; ++n)
        for (uint64_t mask = 0; mask < (1ull << (m*n)); ++mask) {
            if (!vf::take([&]{ return pkey("conv", m, n, 0, mask, 0); })) continue;
            convert_case<int, int>(mask, m, n);
            convert_case<long, long>(mask, m, n);
            convert_case<unsigned, unsigned>(mask, m, n);
            convert_case<size_t, size_t>(mask, m, n);
            convert_case<ptrdiff_t, ptrdiff_t>(mask, m, n);
            convert_case<int, ptrdiff_t>(mask, m, n);
        }
    vf::space("crs constructors: all patterns up to 3x3 x index types {int,long,unsigned,size_t,ptrdiff_t,int/ptrdiff_t}");
}

// ---------------------------------------------------------------------------------------------
static void run_spectral() {
    // all 3x3 patterns with full diagonal (64) x value rules; Gershgorin == max row sum (scaled or not),
    // >= dense spectral radius; power estimate <= sigma_max (1 + 1e-12)
    const double vals[3][9] = {
        {4,-1,-1, -1,4,-1, -1,-1,4},
        {2,1,-3, 0.5,1,2, -1,4,8},
        {1,2,3, 4,5,6, 7,8,10}};
    for (uint64_t off = 0; off < 64; ++off) for (int rule = 0; rule < 3; ++rule) {
        uint64_t mask = 0; int b = 0;
        for (int i = 0; i < 3; ++i) for (int j = 0; j < 3; ++j) { if (i == j) mask |= 1ull << (i*3+j); else { if (mk::bit(off, b)) mask |= 1ull << (i*3+j); ++b; } }
        if (!vf::take([&]{ return pkey("spec", 3, 3, rule, mask, 0); })) continue;
        std::string key = pkey("spec", 3, 3, rule, mask, 0);
        auto D = mk::from_mask<double>(3, 3, mask, [&](int i, int j){ return vals[rule][i*3+j]; });
        auto A = mk::to_crs<double>(D);
        vf::nontrivial(vf::hstr(key));
        for (int scaled = 0; scaled < 2; ++scaled) {
            Eigen::Matrix3d M = Eigen::Matrix3d::Zero();
            double g = 0;
            for (int i = 0; i < 3; ++i) {
                double s = 0; for (int j = 0; j < 3; ++j) { s += std::abs(D(i,j)); M(i,j) = scaled ? D(i,j) / D(i,i) : D(i,j); }
                if (scaled) s *= std::abs(1.0 / D(i,i));
                g = std::max(g, s);
            }
            for (int nt : {1, 2, 3, 5}) {
                double r = with_threads(nt, [&]{ return scaled ? backend::spectral_radius<true>(*A, 0) : backend::spectral_radius<false>(*A, 0); });
                if (r != g) vf::fail("gershgorin.value", key, vf::KS() << "scaled=" << scaled << " nt=" << nt << " got " << r << " want " << g);
            }
            {   // the same rows stored in reverse order: the bound is a row sum (exact for these values), so the order cannot matter
                auto Ar = mk::to_crs<double>(D);
                for (int rr = 0; rr < 3; ++rr) { int w = Ar->ptr[rr+1] - Ar->ptr[rr]; std::vector<int> o(w); for (int q = 0; q < w; ++q) o[q] = w - 1 - q; mk::permute_row(*Ar, rr, o); }
                for (int nt : {1, 3}) {
                    double r = with_threads(nt, [&]{ return scaled ? backend::spectral_radius<true>(*Ar, 0) : backend::spectral_radius<false>(*Ar, 0); });
                    if (r != g) vf::fail("gershgorin.value.reversed_rows", key, vf::KS() << "scaled=" << scaled << " nt=" << nt << " got " << r << " want " << g);
                }
                vf::count("gershgorin_reversed_rows_cases");
            }
            Eigen::EigenSolver<Eigen::Matrix3d> es(M, false);
            double rho = 0; for (int i = 0; i < 3; ++i) rho = std::max(rho, std::abs(es.eigenvalues()[i]));
            if (g < rho * (1 - 1e-12)) vf::fail("gershgorin.upper_bound", key, vf::KS() << "bound " << g << " < rho " << rho);
            Eigen::JacobiSVD<Eigen::Matrix3d> svd(M);
            double smax = svd.singularValues()[0];
            for (int it : {1, 2, 5, 20}) for (int nt : {1, 2, 3, 5}) {
                double r = with_threads(nt, [&]{ return scaled ? backend::spectral_radius<true>(*A, it) : backend::spectral_radius<false>(*A, it); });
                if (!(r <= smax * (1 + 1e-12))) vf::fail("power.le_sigma_max", key, vf::KS() << "scaled=" << scaled << " iters=" << it << " nt=" << nt << " estimate " << r << " sigma_max " << smax);
            }
        }
    }
    vf::space("spectral radius: all 3x3 patterns with full diagonal x 3 value rules x scaled/unscaled x threads {1,2,3,5}");
}

int main(int argc, char **argv) {
    vf::init(argc, argv, "C08");
    vf::sample_str("product case: A = " + mk::show(mk::from_mask<double>(3,3,0x1ab,[](int i,int j){return ival(i,j,0);})) + "  B = " + mk::show(mk::from_mask<double>(3,3,0x0f3,[](int i,int j){return ival(i,j,1);})));
    vf::sample_str("pointwise_matrix case: block 2, A = " + mk::show(mk::from_mask<double>(4,4,0x9a5b,[](int i,int j){return (double)((1 + i * 7 + j * 3) % 11 + 1);})));
    if (vf::section("pw") || vf::section("pwb")) run_pointwise();
    if (vf::section("tr")) run_transpose();
    if (vf::section("sort3") || vf::section("sort4")) run_sort_rows();
    if (vf::section("scdiag") || vf::section("diagc")) run_scale_diag();
    if (vf::section("conv")) run_convert();
    if (vf::section("spec")) run_spectral();
    if (vf::section("sum")) run_sum();
    if (vf::section("prod") || vf::section("prodz") || vf::section("prodz0") || vf::section("prodz1") || vf::section("prodc") || vf::section("prodb") || vf::section("prodrow") || vf::section("produns")) run_products();
    return vf::finish();
}
