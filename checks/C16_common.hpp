// C16_common.hpp -- exact value types for the C16 harness units.
//   Q   : boost::multiprecision rational (expression templates off)
//   QC  : Gaussian rational (complex with rational parts), 30 lines, exact
// and the amgcl::math trait specialisations they need to be used as amgcl value types.
#ifndef VERIF_C16_COMMON_HPP
#define VERIF_C16_COMMON_HPP

#include <vector>
#include <string>
#include <sstream>
#include <complex>
#include <boost/multiprecision/cpp_int.hpp>
#include <amgcl/value_type/interface.hpp>
#include <amgcl/value_type/static_matrix.hpp>
#include <amgcl/value_type/complex.hpp>
#include "vf.hpp"

namespace c16 {

typedef boost::multiprecision::number<boost::multiprecision::cpp_rational_backend, boost::multiprecision::et_off> Q;

struct QC {
    Q re, im;
    QC() : re(0), im(0) {}
    QC(int r) : re(r), im(0) {}
    QC(const Q &r) : re(r), im(0) {}
    QC(const Q &r, const Q &i) : re(r), im(i) {}
    QC& operator+=(const QC &o) { re += o.re; im += o.im; return *this; }
    QC& operator-=(const QC &o) { re -= o.re; im -= o.im; return *this; }
    QC& operator*=(const QC &o) { Q r = re * o.re - im * o.im, i = re * o.im + im * o.re; re = r; im = i; return *this; }
    friend QC operator+(QC a, const QC &b) { return a += b; }
    friend QC operator-(QC a, const QC &b) { return a -= b; }
    friend QC operator*(QC a, const QC &b) { return a *= b; }
    friend QC operator-(const QC &a) { return QC(-a.re, -a.im); }
    friend QC operator/(const QC &a, const QC &b) { Q d = b.re * b.re + b.im * b.im; return QC((a.re * b.re + a.im * b.im) / d, (a.im * b.re - a.re * b.im) / d); }
    friend bool operator==(const QC &a, const QC &b) { return a.re == b.re && a.im == b.im; }
    friend bool operator!=(const QC &a, const QC &b) { return !(a == b); }
    friend std::ostream& operator<<(std::ostream &o, const QC &a) { o << a.re; if (a.im != 0) o << (a.im < 0 ? "" : "+") << a.im << "i"; return o; }
};
inline QC conj(const QC &a) { return QC(a.re, -a.im); }

} // namespace c16

namespace amgcl { namespace math {
template <> struct norm_impl<c16::Q> { static c16::Q get(const c16::Q &x) { return x < 0 ? c16::Q(-x) : x; } };
template <> struct adjoint_impl<c16::QC> { typedef c16::QC return_type; static c16::QC get(const c16::QC &x) { return c16::conj(x); } };
template <> struct scalar_of<c16::QC> { typedef c16::Q type; };
template <> struct inner_product_impl<c16::QC> { typedef c16::QC return_type; static c16::QC get(const c16::QC &x, const c16::QC &y) { return x * c16::conj(y); } };
} }

namespace c16 {

// small dense matrix of any value type, row major
template <class V> struct Mat {
    int m = 0, n = 0; std::vector<V> a;
    Mat() {}
    Mat(int m, int n) : m(m), n(n), a((size_t)m * n, V(0)) {}
    V& operator()(int i, int j) { return a[(size_t)i * n + j]; }
    const V& operator()(int i, int j) const { return a[(size_t)i * n + j]; }
};
template <class V> inline bool is0(const V &x) { return x == V(0); }

template <class V> Mat<V> mul(const Mat<V> &A, const Mat<V> &B) {
    Mat<V> C(A.m, B.n);
    for (int i = 0; i < A.m; ++i) for (int k = 0; k < A.n; ++k) { if (is0(A(i, k))) continue; for (int j = 0; j < B.n; ++j) C(i, j) += A(i, k) * B(k, j); }
    return C;
}
template <class V> bool same(const Mat<V> &A, const Mat<V> &B) { if (A.m != B.m || A.n != B.n) return false; for (size_t i = 0; i < A.a.size(); ++i) if (!(A.a[i] == B.a[i])) return false; return true; }
template <class V> std::string show(const Mat<V> &A) {
    std::ostringstream o; o << "[";
    for (int i = 0; i < A.m; ++i) { if (i) o << "; "; for (int j = 0; j < A.n; ++j) o << (j ? " " : "") << A(i, j); }
    o << "]"; return o.str();
}

// Gauss-Jordan with row pivoting (first non-zero) on a field V.  Solves A X = B; returns false if A is singular.
template <class V> bool gj_solve(Mat<V> A, Mat<V> B, Mat<V> &X) {
    int n = A.m;
    for (int c = 0; c < n; ++c) {
        int p = -1; for (int r = c; r < n; ++r) if (!is0(A(r, c))) { p = r; break; }
        if (p < 0) return false;
        if (p != c) { for (int j = 0; j < n; ++j) std::swap(A(p, j), A(c, j)); for (int j = 0; j < B.n; ++j) std::swap(B(p, j), B(c, j)); }
        V d = V(1) / A(c, c);
        for (int j = 0; j < n; ++j) A(c, j) = A(c, j) * d;
        for (int j = 0; j < B.n; ++j) B(c, j) = B(c, j) * d;
        for (int r = 0; r < n; ++r) if (r != c && !is0(A(r, c))) {
            V f = A(r, c);
            for (int j = 0; j < n; ++j) A(r, j) -= f * A(c, j);
            for (int j = 0; j < B.n; ++j) B(r, j) -= f * B(c, j);
        }
    }
    X = B; return true;
}
template <class V> V det(Mat<V> A) {
    int n = A.m; V d = V(1);
    for (int c = 0; c < n; ++c) {
        int p = -1; for (int r = c; r < n; ++r) if (!is0(A(r, c))) { p = r; break; }
        if (p < 0) return V(0);
        if (p != c) { for (int j = 0; j < n; ++j) std::swap(A(p, j), A(c, j)); d = V(0) - d; }
        d = d * A(c, c);
        for (int r = c + 1; r < n; ++r) if (!is0(A(r, c))) { V f = A(r, c) / A(c, c); for (int j = c; j < n; ++j) A(r, j) -= f * A(c, j); }
    }
    return d;
}

} // namespace c16
#endif
