// C14_common.hpp -- shared by the C14 harness units and the run-time compiled probe program.
//
//  * defines AMGCL_PARAM_UNKNOWN (the unknown-parameter hook of amgcl/util.hpp) to record keys,
//  * maps every parameter structure id of C14_table.inc (generated from the source by
//    C14_scan.py) that can be instantiated here to a concrete C++ type  C14_T_<id>,
//  * expands the table into one visitor function per structure:
//        fields_<id>(T &prm, V &v)        any T that has the listed members
//        c14_fields(C14_T_<id> &prm, V&)  overload on the concrete mapped type (used to descend into children)
//    The visitor V receives value/child/pointer/vector/key calls with a generic accessor lambda.
#ifndef VERIF_C14_COMMON_HPP
#define VERIF_C14_COMMON_HPP

#include <string>
#include <vector>
#include <set>
#include <iostream>
#include <sstream>
#include <limits>
#include <type_traits>
#include <cstring>

namespace c14 {
inline std::vector<std::string>& unknown_log() { static std::vector<std::string> v; return v; }
inline void unknown_hook(const std::string &name) { unknown_log().push_back(name); }
}
#define AMGCL_PARAM_UNKNOWN(name) ::c14::unknown_hook(name)

#include <boost/property_tree/ptree.hpp>
#include <amgcl/util.hpp>
#include <amgcl/backend/builtin.hpp>
#include <amgcl/backend/block_crs.hpp>
#include <amgcl/adapter/crs_tuple.hpp>
#include <amgcl/amg.hpp>
#include <amgcl/make_solver.hpp>
#include <amgcl/deflated_solver.hpp>
#include <amgcl/coarsening/runtime.hpp>
#include <amgcl/coarsening/plain_aggregates.hpp>
#include <amgcl/coarsening/pointwise_aggregates.hpp>
#include <amgcl/relaxation/runtime.hpp>
#include <amgcl/relaxation/as_preconditioner.hpp>
#include <amgcl/solver/runtime.hpp>
#include <amgcl/preconditioner/runtime.hpp>
#include <amgcl/preconditioner/cpr.hpp>
#include <amgcl/preconditioner/cpr_drs.hpp>
#include <amgcl/preconditioner/schur_pressure_correction.hpp>

#ifdef C14_WITH_MPI
#  include <amgcl/mpi/amg.hpp>
#  include <amgcl/mpi/make_solver.hpp>
#  include <amgcl/mpi/cpr.hpp>
#  include <amgcl/mpi/schur_pressure_correction.hpp>
#  include <amgcl/mpi/subdomain_deflation.hpp>
#  include <amgcl/mpi/coarsening/runtime.hpp>
#  include <amgcl/mpi/relaxation/runtime.hpp>
#  include <amgcl/mpi/direct_solver/runtime.hpp>
#  include <amgcl/mpi/partition/runtime.hpp>
#  include <amgcl/mpi/solver/runtime.hpp>
#  include <amgcl/mpi/preconditioner.hpp>
#  include <amgcl/mpi/solver/cg.hpp>
#  include <amgcl/mpi/relaxation/spai0.hpp>
#  include <amgcl/mpi/relaxation/as_preconditioner.hpp>
#  include <amgcl/mpi/direct_solver/skyline_lu.hpp>
#  include <amgcl/mpi/partition/merge.hpp>
#  include <amgcl/mpi/coarsening/aggregation.hpp>
#  include <amgcl/mpi/coarsening/smoothed_aggregation.hpp>
#  include <amgcl/mpi/coarsening/pmis.hpp>
#endif

namespace c14 {

typedef boost::property_tree::ptree ptree;
typedef amgcl::backend::builtin<double> B;

// a backend that is not `builtin`, only to name the primary template of relaxation::detail::ilu_solve
struct OtherBackend {
    typedef double value_type;
    typedef ptrdiff_t col_type;
    typedef ptrdiff_t ptr_type;
    typedef amgcl::detail::empty_params params;
    typedef amgcl::backend::crs<double> matrix;
    typedef amgcl::backend::numa_vector<double> vector;
    typedef amgcl::backend::numa_vector<double> matrix_diagonal;
};

typedef amgcl::amg<B, amgcl::coarsening::smoothed_aggregation, amgcl::relaxation::spai0> AMG;
typedef amgcl::solver::cg<B> CG;
typedef amgcl::make_solver<AMG, CG> MS;
typedef amgcl::relaxation::as_preconditioner<B, amgcl::relaxation::damped_jacobi> RP;

} // namespace c14

// ---- id -> C++ type ------------------------------------------------------------------------
#define C14_HAVE_amg
typedef c14::AMG::params C14_T_amg;
#define C14_HAVE_backend_block_crs
typedef amgcl::backend::block_crs<double>::params C14_T_backend_block_crs;
#define C14_HAVE_coarsening_aggregation
typedef amgcl::coarsening::aggregation<c14::B>::params C14_T_coarsening_aggregation;
#define C14_HAVE_coarsening_plain_aggregates
typedef amgcl::coarsening::plain_aggregates::params C14_T_coarsening_plain_aggregates;
#define C14_HAVE_coarsening_pointwise_aggregates
typedef amgcl::coarsening::pointwise_aggregates::params C14_T_coarsening_pointwise_aggregates;
#define C14_HAVE_coarsening_ruge_stuben
typedef amgcl::coarsening::ruge_stuben<c14::B>::params C14_T_coarsening_ruge_stuben;
#define C14_HAVE_coarsening_smoothed_aggr_emin
typedef amgcl::coarsening::smoothed_aggr_emin<c14::B>::params C14_T_coarsening_smoothed_aggr_emin;
#define C14_HAVE_coarsening_smoothed_aggregation
typedef amgcl::coarsening::smoothed_aggregation<c14::B>::params C14_T_coarsening_smoothed_aggregation;
#define C14_HAVE_coarsening_tentative_prolongation_nullspace_params
typedef amgcl::coarsening::nullspace_params C14_T_coarsening_tentative_prolongation_nullspace_params;
#define C14_HAVE_deflated_solver
typedef amgcl::deflated_solver<c14::AMG, c14::CG>::params C14_T_deflated_solver;
#define C14_HAVE_make_solver
typedef c14::MS::params C14_T_make_solver;
#define C14_HAVE_preconditioner_cpr
typedef amgcl::preconditioner::cpr<c14::AMG, c14::RP>::params C14_T_preconditioner_cpr;
#define C14_HAVE_preconditioner_cpr_drs
typedef amgcl::preconditioner::cpr_drs<c14::AMG, c14::RP>::params C14_T_preconditioner_cpr_drs;
#define C14_HAVE_preconditioner_schur_pressure_correction
typedef amgcl::preconditioner::schur_pressure_correction<c14::MS, c14::MS>::params C14_T_preconditioner_schur_pressure_correction;
#define C14_HAVE_relaxation_chebyshev
typedef amgcl::relaxation::chebyshev<c14::B>::params C14_T_relaxation_chebyshev;
#define C14_HAVE_relaxation_damped_jacobi
typedef amgcl::relaxation::damped_jacobi<c14::B>::params C14_T_relaxation_damped_jacobi;
#define C14_HAVE_relaxation_detail_ilu_solve
typedef amgcl::relaxation::detail::ilu_solve<c14::OtherBackend>::params C14_T_relaxation_detail_ilu_solve;
#define C14_HAVE_relaxation_detail_ilu_solve_2
typedef amgcl::relaxation::detail::ilu_solve<c14::B>::params C14_T_relaxation_detail_ilu_solve_2;
#define C14_HAVE_relaxation_gauss_seidel
typedef amgcl::relaxation::gauss_seidel<c14::B>::params C14_T_relaxation_gauss_seidel;
#define C14_HAVE_relaxation_ilu0
typedef amgcl::relaxation::ilu0<c14::B>::params C14_T_relaxation_ilu0;
#define C14_HAVE_relaxation_iluk
typedef amgcl::relaxation::iluk<c14::B>::params C14_T_relaxation_iluk;
#define C14_HAVE_relaxation_ilup
typedef amgcl::relaxation::ilup<c14::B>::params C14_T_relaxation_ilup;
#define C14_HAVE_relaxation_ilut
typedef amgcl::relaxation::ilut<c14::B>::params C14_T_relaxation_ilut;
#define C14_HAVE_solver_bicgstab
typedef amgcl::solver::bicgstab<c14::B>::params C14_T_solver_bicgstab;
#define C14_HAVE_solver_bicgstabl
typedef amgcl::solver::bicgstabl<c14::B>::params C14_T_solver_bicgstabl;
#define C14_HAVE_solver_cg
typedef amgcl::solver::cg<c14::B>::params C14_T_solver_cg;
#define C14_HAVE_solver_fgmres
typedef amgcl::solver::fgmres<c14::B>::params C14_T_solver_fgmres;
#define C14_HAVE_solver_gmres
typedef amgcl::solver::gmres<c14::B>::params C14_T_solver_gmres;
#define C14_HAVE_solver_idrs
typedef amgcl::solver::idrs<c14::B>::params C14_T_solver_idrs;
#define C14_HAVE_solver_lgmres
typedef amgcl::solver::lgmres<c14::B>::params C14_T_solver_lgmres;
#define C14_HAVE_solver_richardson
typedef amgcl::solver::richardson<c14::B>::params C14_T_solver_richardson;
#define C14_HAVE_util_empty_params
typedef amgcl::detail::empty_params C14_T_util_empty_params;

#define C14_HAVE_ENUM_coarsening_runtime
#define C14_HAVE_ENUM_preconditioner_runtime
#define C14_HAVE_ENUM_relaxation_runtime
#define C14_HAVE_ENUM_solver_precond_side
#define C14_HAVE_ENUM_solver_runtime

#ifdef C14_WITH_MPI
namespace c14 {
typedef amgcl::mpi::amg<B,
        amgcl::mpi::coarsening::smoothed_aggregation<B>,
        amgcl::mpi::relaxation::spai0<B>,
        amgcl::mpi::direct::skyline_lu<double>,
        amgcl::mpi::partition::merge<B> > MPI_AMG;
typedef amgcl::mpi::make_solver<MPI_AMG, amgcl::mpi::solver::cg<B> > MPI_MS;
typedef amgcl::mpi::relaxation::as_preconditioner<amgcl::mpi::relaxation::spai0<B> > MPI_RP;
}
#define C14_HAVE_mpi_amg
typedef c14::MPI_AMG::params C14_T_mpi_amg;
#define C14_HAVE_mpi_coarsening_aggregation
typedef amgcl::mpi::coarsening::aggregation<c14::B>::params C14_T_mpi_coarsening_aggregation;
#define C14_HAVE_mpi_coarsening_pmis
typedef amgcl::mpi::coarsening::pmis<c14::B>::params C14_T_mpi_coarsening_pmis;
#define C14_HAVE_mpi_coarsening_smoothed_aggregation
typedef amgcl::mpi::coarsening::smoothed_aggregation<c14::B>::params C14_T_mpi_coarsening_smoothed_aggregation;
#define C14_HAVE_mpi_cpr
typedef amgcl::mpi::cpr<c14::MPI_AMG, c14::MPI_RP>::params C14_T_mpi_cpr;
#define C14_HAVE_mpi_make_solver
typedef c14::MPI_MS::params C14_T_mpi_make_solver;
#define C14_HAVE_mpi_partition_merge
typedef amgcl::mpi::partition::merge<c14::B>::params C14_T_mpi_partition_merge;
#define C14_HAVE_mpi_schur_pressure_correction
typedef amgcl::mpi::schur_pressure_correction<c14::MPI_MS, c14::MPI_MS>::params C14_T_mpi_schur_pressure_correction;
#define C14_HAVE_mpi_subdomain_deflation
typedef amgcl::mpi::subdomain_deflation<c14::MPI_AMG, amgcl::mpi::solver::cg<c14::B>, amgcl::mpi::direct::skyline_lu<double> >::params C14_T_mpi_subdomain_deflation;
#define C14_HAVE_ENUM_mpi_coarsening_runtime
#define C14_HAVE_ENUM_mpi_preconditioner
#endif

namespace c14 {

// Structures of the table that cannot be instantiated in this environment, with the reason.
// Anything unmapped that is not listed here is reported by the harness (table.unmapped_struct).
inline const char *not_instantiable(const std::string &id) {
    static const struct { const char *id, *why; } L[] = {
        {"backend_cuda", "needs the CUDA toolkit headers (cusparse.h)"},
        {"backend_hpx", "needs HPX"},
        {"backend_mkl", "needs Intel MKL headers"},
        {"backend_vexcl_vexcl_params", "needs VexCL / OpenCL"},
        {"relaxation_cusparse_ilu0", "needs the CUDA toolkit headers"},
        {"mpi_direct_solver_pastix", "needs PaStiX"},
        {"mpi_partition_parmetis", "needs ParMETIS"},
        {"mpi_partition_ptscotch", "needs PT-Scotch"},
        {"mpi_partition_runtime", "enumerators are conditional on AMGCL_HAVE_SCOTCH / AMGCL_HAVE_PARMETIS (not installed)"},
        {"mpi_direct_solver_runtime", "enumerators are conditional on AMGCL_HAVE_EIGEN / AMGCL_HAVE_PASTIX (PaStiX not installed)"},
#ifndef C14_WITH_MPI
        {"mpi_amg", "amgcl/mpi/*.hpp include <mpi.h>; covered by the unit params_mpi (built against the installed MPI headers)"},
        {"mpi_coarsening_aggregation", "see mpi_amg"}, {"mpi_coarsening_pmis", "see mpi_amg"},
        {"mpi_coarsening_smoothed_aggregation", "see mpi_amg"}, {"mpi_cpr", "see mpi_amg"},
        {"mpi_make_solver", "see mpi_amg"}, {"mpi_partition_merge", "see mpi_amg"},
        {"mpi_schur_pressure_correction", "see mpi_amg"}, {"mpi_subdomain_deflation", "see mpi_amg"},
        {"mpi_coarsening_runtime", "see mpi_amg"},
        {"mpi_preconditioner", "see mpi_amg"},
#endif
    };
    for (auto &e : L) if (id == e.id) return e.why;
    return nullptr;
}

struct Meta {
    const char *sid, *name, *type, *imp, *exp, *chk;
    bool imp_is(const char *s) const { return std::strcmp(imp, s) == 0; }
    bool exp_is(const char *s) const { return std::strcmp(exp, s) == 0; }
    bool imported() const { return !imp_is("none"); }
    bool exported() const { return !exp_is("none"); }
};

// children that are property trees (run-time wrappers) have no typed fields
template <class V> inline void c14_fields(ptree &, V &) {}

} // namespace c14

// ---- expand the table into visitor functions -------------------------------------------------
#define C14_STRUCT(id, file, sname, encl, base, hasctor, hasget) \
    namespace c14 { template <class T_, class V_> inline void fields_##id(T_ &prm_, V_ &v_) { (void)prm_;
#define C14_VALUE(id, name, type, imp, exp, chk)   v_.value  ([](auto &q) -> decltype(auto) { return (q.name); }, ::c14::Meta{#id, #name, type, #imp, #exp, #chk});
#define C14_CHILD(id, name, type, imp, exp, chk)   v_.child  ([](auto &q) -> decltype(auto) { return (q.name); }, ::c14::Meta{#id, #name, type, #imp, #exp, #chk});
#define C14_POINTER(id, name, type, imp, exp, chk) v_.pointer([](auto &q) -> decltype(auto) { return (q.name); }, ::c14::Meta{#id, #name, type, #imp, #exp, #chk});
#define C14_VECTOR(id, name, type, imp, exp, chk)  v_.vector ([](auto &q) -> decltype(auto) { return (q.name); }, ::c14::Meta{#id, #name, type, #imp, #exp, #chk});
#define C14_KEY(id, name, type, imp, exp, chk)     v_.key(::c14::Meta{#id, #name, type, #imp, #exp, #chk});
#define C14_UNPARSED(id, text)                     v_.unparsed(#id, text);
#define C14_STRUCT_END(id) } \
    template <class V_> inline void c14_fields(C14_T_##id &prm_, V_ &v_) { fields_##id(prm_, v_); } }
#define C14_UNMAPPED(id, file)
#define C14_ENUM(id, file, type) \
    namespace c14 { inline const std::vector<std::pair<type, std::string>>& enum_items(type) { \
        static const std::vector<std::pair<type, std::string>> v = {
#define C14_ENUMERATOR(id, value, name) {value, #name},
#define C14_ENUM_END(id) }; return v; } }
#define C14_ENUM_UNMAPPED(id, file)
#include "C14_table.inc"
#undef C14_STRUCT
#undef C14_VALUE
#undef C14_CHILD
#undef C14_POINTER
#undef C14_VECTOR
#undef C14_KEY
#undef C14_UNPARSED
#undef C14_STRUCT_END
#undef C14_UNMAPPED
#undef C14_ENUM
#undef C14_ENUMERATOR
#undef C14_ENUM_END
#undef C14_ENUM_UNMAPPED

#ifdef C14_WITH_MPI
namespace c14 {
// the MPI solvers are the serial classes with another inner product: same member list, another C++ type
template <class V_> inline void c14_fields(amgcl::solver::cg<B, amgcl::mpi::inner_product>::params &p, V_ &v) { fields_solver_cg(p, v); }
}
#endif

namespace c14 {

// ---- non-default values per C++ type ---------------------------------------------------------
// `extra` (thorough tier): boundary values in addition to the two regular ones.
template <class T, class Enable = void> struct Values;

template <> struct Values<bool> {
    static std::vector<bool> get(bool d, const std::string &, bool) { return {!d}; }
};
template <class T>
struct Values<T, typename std::enable_if<std::is_integral<T>::value && !std::is_same<T, bool>::value>::type> {
    static std::vector<T> get(T d, const std::string &name, bool extra) {
        std::vector<T> v;
        if (d > (T)1000 || d < (T)0) v = {(T)3, (T)7}; else v = {(T)(d + 1), (T)(d + 2)};
        if (extra) {
            v.push_back(std::numeric_limits<T>::max() - (d == std::numeric_limits<T>::max() ? 1 : 0));
            if (name != "max_levels" && d != 0) v.push_back((T)0);
            if (std::is_signed<T>::value) v.push_back((T)-5);
        }
        return v;
    }
};
template <class T>
struct Values<T, typename std::enable_if<std::is_floating_point<T>::value>::type> {
    static std::vector<T> get(T d, const std::string &, bool extra) {
        std::vector<T> v = {(T)0.3, (T)(1.0 / 3000.0)};
        if (extra) {
            v.push_back(std::numeric_limits<T>::max());
            v.push_back(std::numeric_limits<T>::min());
            v.push_back((T)1 + std::numeric_limits<T>::epsilon());
            v.push_back((T)-0.7);
        }
        for (auto &x : v) if (x == d) x = (T)0.7;
        return v;
    }
};
template <class T>
struct Values<T, typename std::enable_if<std::is_enum<T>::value>::type> {
    static std::vector<T> get(T d, const std::string &, bool) {
        std::vector<T> v;
        for (auto &e : enum_items(T())) if (e.first != d) v.push_back(e.first);
        return v;
    }
};

template <class T> inline std::string show(const T &v) {
    ptree p; p.put("v", v); return p.get<std::string>("v");
}

template <class T> inline bool same_bits(const T &a, const T &b) { return std::memcmp(&a, &b, sizeof(T)) == 0; }
inline bool same_bits(bool a, bool b) { return a == b; }

// all leaves "path=value" of a tree (children in stored order)
inline void leaves(const ptree &p, const std::string &path, std::vector<std::pair<std::string, std::string>> &out) {
    if (p.empty()) { out.push_back({path, p.data()}); return; }
    if (!p.data().empty()) out.push_back({path + "<data>", p.data()});
    for (auto &kv : p) leaves(kv.second, path.empty() ? kv.first : path + "." + kv.first, out);
}
inline std::string dump(const ptree &p) {
    std::vector<std::pair<std::string, std::string>> l; if (!p.empty() || !p.data().empty()) leaves(p, "", l);
    std::string s = "{";
    for (auto &kv : l) s += kv.first + "=" + kv.second + " ";
    return s + "}";
}

} // namespace c14
#endif
