// C19_batch.hpp -- run a list of items in forked children (engine/forkrun.hpp), many items per
// fork, and still attribute every crash and every sanitizer report to exactly one item.
//
// The child runs the items one after the other.  Before an item it appends a start record
// (item index, current size of its private stderr file) to a result file, after the item a
// result record.  Its fd 2 is redirected to the stderr file, so everything ASan/UBSan print
// while the item runs is found between two offsets.  If the child dies (signal, sanitizer
// abort, timeout), the parent reads the result file: every item with a result record keeps
// its outcome, the item with a start record but no result record is the one that crashed, and
// the remaining items are run in a fresh child.  Forks needed = 1 + number of crashing items.
#ifndef VERIF_C19_BATCH_HPP
#define VERIF_C19_BATCH_HPP
#include <string>
#include <vector>
#include <functional>
#include <fstream>
#include <cstdio>
#include <cstdint>
#include <map>
#include <sys/stat.h>
#include "forkrun.hpp"

namespace bt {

struct Outcome {
    enum Kind { OK, EXC, CRASH } kind = OK;
    std::string text;      // OK: what the item returned; EXC: what()
    std::string san;       // sanitizer output produced while the item ran (UBSan recoverable reports; ASan report on CRASH)
    std::string crash;     // CRASH: "signal 11" / "abnormal-exit 1" / "timeout"
};

struct Item {
    std::string key;
    std::function<std::string()> fn;
};

struct Runner {
    std::string dir;           // private scratch directory of this process
    long forks = 0, crashes = 0;

    explicit Runner(const std::string &base) {
        mkdir(base.c_str(), 0777);
        dir = base + "/w." + std::to_string((long)getpid());
        mkdir(dir.c_str(), 0777);
    }
    ~Runner() {
        std::string cmd = "rm -rf '" + dir + "'";
        if (std::system(cmd.c_str())) {}
    }
    std::string path(const std::string &name) const { return dir + "/" + name; }

    static std::string slurp(const std::string &p, size_t from = 0) {
        std::ifstream f(p, std::ios::binary);
        if (!f) return "";
        f.seekg(0, std::ios::end); size_t n = (size_t)f.tellg();
        if (from >= n) return "";
        f.seekg(from); std::string s(n - from, '\0'); f.read(&s[0], n - from); return s;
    }

    static void put32(int fd, uint32_t v) { fr::write_all(fd, std::string((const char*)&v, 4)); }
    static void puts(int fd, const std::string &s) { put32(fd, (uint32_t)s.size()); fr::write_all(fd, s); }

    // run all items; handler(i, outcome) is called once per item, in order
    void run(const std::vector<Item> &items, const std::function<void(size_t, const Outcome&)> &handler, double timeout_s = 180.0) {
        size_t first = 0;
        const std::string resf = path("res"), errf = path("err");
        while (first < items.size()) {
            ::unlink(resf.c_str()); ::unlink(errf.c_str());
            ++forks;
            fr::Result r = fr::run([&](fr::Out &) {
                int efd = ::open(errf.c_str(), O_RDWR | O_CREAT | O_TRUNC, 0666);
                int rfd = ::open(resf.c_str(), O_WRONLY | O_CREAT | O_TRUNC, 0666);
                if (efd < 0 || rfd < 0) _exit(97);
                dup2(efd, 2);
                for (size_t i = first; i < items.size(); ++i) {
                    off_t e0 = lseek(efd, 0, SEEK_END);
                    fr::write_all(rfd, "S"); put32(rfd, (uint32_t)i); put32(rfd, (uint32_t)e0);
                    char kind = 'K'; std::string text;
                    try { text = items[i].fn(); }
                    catch (const std::exception &e) { kind = 'E'; text = e.what(); }
                    catch (...) { kind = 'E'; text = "non-std exception"; }
                    off_t e1 = lseek(efd, 0, SEEK_END);
                    std::string san;
                    if (e1 > e0) { san.resize((size_t)(e1 - e0)); if (pread(efd, &san[0], san.size(), e0) < 0) san = "?"; }
                    fr::write_all(rfd, std::string("R") + kind); puts(rfd, text); puts(rfd, san);
                }
                ::close(rfd);
            }, timeout_s);
            // parse the result file
            std::string res = slurp(resf);
            size_t p = 0, done = first; bool started = false; uint32_t eoff = 0;
            auto get32 = [&](uint32_t &v) { if (p + 4 > res.size()) return false; std::memcpy(&v, res.data() + p, 4); p += 4; return true; };
            while (p < res.size()) {
                if (res[p] == 'S') { ++p; uint32_t idx; if (!get32(idx) || !get32(eoff)) break; started = true; }
                else if (res[p] == 'R') {
                    size_t save = p;
                    if (p + 2 > res.size()) break;
                    char kind = res[p + 1]; p += 2;
                    uint32_t tl, sl; std::string text, san;
                    if (!get32(tl) || p + tl > res.size()) { p = save; break; }
                    text = res.substr(p, tl); p += tl;
                    if (!get32(sl) || p + sl > res.size()) { p = save; break; }
                    san = res.substr(p, sl); p += sl;
                    Outcome o; o.kind = kind == 'E' ? Outcome::EXC : Outcome::OK; o.text = text; o.san = san;
                    handler(done, o);
                    ++done; started = false;
                } else break;
            }
            if (done >= items.size()) break;
            // item `done` did not complete: crashed (or the child could not even start it)
            Outcome o; o.kind = Outcome::CRASH;
            o.crash = std::string(r.kind_name()) + (r.kind == fr::SIGNAL || r.kind == fr::EXIT ? " " + std::to_string(r.code) : "");
            if (r.kind == fr::OK || r.kind == fr::EXC) o.crash = "child ended without finishing the item: " + r.text;
            o.san = slurp(errf, started ? eoff : 0);
            if (o.san.size() > 6000) o.san = o.san.substr(0, 6000);
            ++crashes;
            handler(done, o);
            first = done + 1;
        }
    }
};

// The children run with symbolize=0 (symbolizing ~15 000 ASan reports in-process costs 0.2 s each);
// the parent resolves the raw "(module+0xoff)" frames of a report with addr2line, cached per stack.
inline std::string first_amgcl_frame(const std::string &s) {
    // already symbolized?
    size_t p = 0;
    while ((p = s.find("/amgcl/", p)) != std::string::npos) {
        size_t e = s.find_first_of(" \n)", p);
        std::string f = s.substr(p + 1, e == std::string::npos ? std::string::npos : e - p - 1);   // amgcl/io/mm.hpp:233
        if (f.find(".hpp:") != std::string::npos) { size_t c = f.find(':', f.find(".hpp:") + 5); return c == std::string::npos ? f : f.substr(0, c); }
        p += 7;
    }
    static std::string exe;
    if (exe.empty()) { char b[4096]; ssize_t n = readlink("/proc/self/exe", b, sizeof b - 1); exe = n > 0 ? std::string(b, n) : "?"; }
    // collect the offsets of the first 8 frames of the first stack that lie in our executable
    std::string offs; int nfr = 0;
    p = 0;
    while (nfr < 14 && (p = s.find("    #", p)) != std::string::npos) {
        size_t eol = s.find('\n', p); std::string line = s.substr(p, eol == std::string::npos ? std::string::npos : eol - p);
        p += 5;
        int fno = std::atoi(line.c_str() + 5);
        if (fno < nfr) break;                       // a second stack ("allocated by") starts
        size_t m = line.find("(" + exe + "+0x");
        ++nfr;
        if (m == std::string::npos) continue;
        size_t b = m + exe.size() + 2, e = line.find(')', b);
        unsigned long long off = std::strtoull(line.substr(b, e - b).c_str(), nullptr, 16);
        if (fno > 0 && off > 0) --off;              // return address -> call instruction
        char buf[32]; std::snprintf(buf, sizeof buf, " 0x%llx", off); offs += buf;
    }
    if (offs.empty()) return "";
    static std::map<std::string, std::string> cache;
    auto it = cache.find(offs);
    if (it != cache.end()) return it->second;
    std::string cmd = "addr2line -i -e '" + exe + "'" + offs + " 2>/dev/null", out, loc;
    if (FILE *f = popen(cmd.c_str(), "r")) { char b[4096]; size_t n; while ((n = fread(b, 1, sizeof b, f)) > 0) out.append(b, n); pclose(f); }
    size_t q = 0;
    while ((q = out.find("/amgcl/", q)) != std::string::npos) {
        size_t e = out.find_first_of(" \n", q);
        std::string f = out.substr(q + 1, e == std::string::npos ? std::string::npos : e - q - 1);
        if (f.find(".hpp:") != std::string::npos) { loc = f; break; }
        q += 7;
    }
    cache[offs] = loc;
    return loc;
}

// Short signature of a sanitizer report: error kind; *where = first frame inside amgcl (file:line).
inline std::string san_signature(const std::string &s, std::string *where = nullptr) {
    std::string kind;
    size_t a = s.find("ERROR: AddressSanitizer: ");
    size_t from = 0;
    if (a != std::string::npos) {
        size_t b = a + 25, e = s.find_first_of(" \n", b);
        kind = "asan." + s.substr(b, e - b);
        from = a;
    } else {
        size_t u = s.find("runtime error: ");
        if (u != std::string::npos) {
            size_t e = s.find('\n', u);
            std::string msg = s.substr(u + 15, e == std::string::npos ? std::string::npos : e - u - 15);
            std::string k; int words = 0;
            for (char c : msg) { if (c == ' ') { if (++words == 3) break; k += '_'; } else if (isalnum((unsigned char)c)) k += c; }
            kind = "ubsan." + k;
            from = s.rfind('\n', u); from = from == std::string::npos ? 0 : from + 1;
        } else if (s.find("AddressSanitizer") != std::string::npos) kind = "asan.other";
    }
    if (where) *where = first_amgcl_frame(s.substr(from));
    return kind;
}

inline std::string file_of(const std::string &loc) {     // amgcl/io/mm.hpp:233 -> mm.hpp
    size_t c = loc.find(':'); std::string f = loc.substr(0, c);
    size_t s = f.rfind('/'); return s == std::string::npos ? f : f.substr(s + 1);
}

} // namespace bt
#endif
