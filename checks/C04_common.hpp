// C04_common.hpp -- enumerators, value rules and reference laws shared by the C04 units.
#ifndef VERIF_C04_COMMON_HPP
#define VERIF_C04_COMMON_HPP

#include <vector>
#include <string>
#include <cmath>
#include <cstdint>
#include <amgcl/backend/builtin.hpp>
#include <amgcl/coarsening/plain_aggregates.hpp>
#include <amgcl/coarsening/pointwise_aggregates.hpp>
#include <amgcl/coarsening/tentative_prolongation.hpp>
#include "vf.hpp"
#include "mk.hpp"

namespace c04 {

using namespace amgcl;
typedef backend::crs<double, ptrdiff_t, ptrdiff_t> Crs;
typedef mk::Dense<double> Dn;

static const double U = 1.1102230246251565e-16;   // unit roundoff of double, 2^-53

inline int popc(uint64_t m) { return __builtin_popcountll(m); }

// ---- patterns --------------------------------------------------------------------------------
// undirected: bit e(i,j) = j*(j-1)/2 + i for i < j.   directed: bit i*(n-1) + (j < i ? j : j-1) for i != j.
inline int ubits(int n) { return n * (n - 1) / 2; }
inline int dbits(int n) { return n * (n - 1); }
inline bool uedge(uint64_t m, int i, int j) { if (i == j) return false; if (i > j) std::swap(i, j); return (m >> (j * (j - 1) / 2 + i)) & 1; }
inline bool dedge(uint64_t m, int n, int i, int j) { if (i == j) return false; return (m >> (i * (n - 1) + (j < i ? j : j - 1))) & 1; }

// ---- value rules -----------------------------------------------------------------------------
// All values are small integers or dyadic rationals, diagonals are stored and positive.
// rule 0: M-matrix, off-diagonals -1, diagonal = -(sum of off-diagonals)  (1 for an empty row)
// rule 1: signs taken from the pattern (rows with only positive off-diagonals occur), weights 1,2
// rule 2: strong/weak mix: off-diagonals -1 or -1/128
// The diagonal makes the row sum zero whenever that gives a positive diagonal, otherwise it is the
// sum of the absolute values (1 for an empty row).
inline double offval(int rule, bool directed, int i, int j, uint64_t mask) {
    int a = directed ? (3 * i + 5 * j) : (i * j + i + j);
    switch (rule) {
        case 0: return -1.0;
        case 1: { double w = 1 + ((directed ? (i + 2 * j) : (i + j)) % 2); return ((a + popc(mask)) % 3 == 0) ? w : -w; }
        default: return (a % 3 == 0) ? -1.0 / 128 : -1.0;
    }
}

inline Dn make_matrix(int n, uint64_t mask, bool directed, int rule) {
    Dn D(n, n);
    for (int i = 0; i < n; ++i) {
        double s = 0, sa = 0;
        for (int j = 0; j < n; ++j) {
            bool e = directed ? dedge(mask, n, i, j) : uedge(mask, i, j);
            if (!e) continue;
            double v = offval(rule, directed, i, j, mask);
            D.st(i, j) = 1; D(i, j) = v; s += v; sa += std::abs(v);
        }
        D.st(i, i) = 1;
        D(i, i) = (s < 0) ? -s : (sa > 0 ? sa : 1.0);
    }
    return D;
}

inline bool zero_row_sum(const Dn &D, int i) {
    double s = 0; for (int j = 0; j < D.n; ++j) if (D.st(i, j)) s += D(i, j);   // exact: dyadic values
    return s == 0;
}
inline bool is_symmetric(const Dn &D) {
    for (int i = 0; i < D.m; ++i) for (int j = 0; j < D.n; ++j) {
        if (D.st(i, j) != D.st(j, i)) return false;
        if (D.st(i, j) && D(i, j) != D(j, i)) return false;
    }
    return true;
}

// A (x) I_b : only the diagonal of every block is stored
inline Dn kron_identity(const Dn &A, int b) {
    Dn K(A.m * b, A.n * b);
    for (int I = 0; I < A.m; ++I) for (int J = 0; J < A.n; ++J) if (A.st(I, J))
        for (int k = 0; k < b; ++k) { K.st(I * b + k, J * b + k) = 1; K(I * b + k, J * b + k) = A(I, J); }
    return K;
}

// Blocks with structurally incomplete entries: block (I,J) = a_IJ * T_IJ, max |t| = 1 attained,
// scalar diagonal of K always stored.  The pointwise reduction of K is therefore |A| on the pattern of A.
inline Dn kron_incomplete(const Dn &A, int b) {
    Dn K(A.m * b, A.n * b);
    for (int I = 0; I < A.m; ++I) for (int J = 0; J < A.n; ++J) if (A.st(I, J)) {
        for (int k = 0; k < b; ++k) for (int l = 0; l < b; ++l) {
            bool st; double t;
            if (I == J) {
                if (k == l) { st = true; t = 1; }
                else { st = ((I + k + 2 * l) % 2 == 0); t = ((k + l) & 1) ? 0.5 : -0.25; }
            } else {
                int k0 = (I + J) % b, l0 = (I + 2 * J) % b;
                if (k == k0 && l == l0) { st = true; t = ((I + J) & 1) ? 1 : -1; }
                else { st = ((I + 2 * J + k + l) % 3 != 0); t = ((k + 2 * l) & 1) ? 0.5 : -0.25; }
            }
            if (st) { K.st(I * b + k, J * b + l) = 1; K(I * b + k, J * b + l) = A(I, J) * t; }
        }
    }
    return K;
}

// ---- running the real aggregation --------------------------------------------------------------
struct Aggr {
    bool empty_level = false;
    size_t count = 0;
    std::vector<char> S;
    std::vector<ptrdiff_t> id;
};

inline Aggr run_pointwise(const Crs &A, float eps, unsigned b, unsigned min_aggregate) {
    Aggr r;
    coarsening::pointwise_aggregates::params p; p.eps_strong = eps; p.block_size = b;
    try {
        coarsening::pointwise_aggregates a(A, p, min_aggregate);
        r.count = a.count; r.S = a.strong_connection; r.id = a.id;
    } catch (const error::empty_level &) { r.empty_level = true; }
    return r;
}
inline Aggr run_plain(const Crs &A, float eps) {
    Aggr r;
    coarsening::plain_aggregates::params p; p.eps_strong = eps;
    try {
        coarsening::plain_aggregates a(A, p);
        r.count = a.count; r.S = a.strong_connection; r.id = a.id;
    } catch (const error::empty_level &) { r.empty_level = true; }
    return r;
}

inline std::string show_ids(const std::vector<ptrdiff_t> &id) {
    vf::KS k; k << "["; for (size_t i = 0; i < id.size(); ++i) k << (i ? " " : "") << id[i]; k << "]"; return k;
}
inline std::string show_flags(const Crs &A, const std::vector<char> &S) {
    vf::KS k; k << "{";
    for (size_t i = 0; i < A.nrows; ++i) for (auto j = A.ptr[i]; j < A.ptr[i + 1]; ++j) if (j < (ptrdiff_t)S.size() && S[j]) k << "(" << i << "," << A.col[j] << ")";
    k << "}"; return k;
}

// Partition laws on the public members.  Node = b consecutive unknowns.  A node "has a strong
// neighbour" when any of its unknowns carries a strong flag on an entry leading to another node.
// Returns "" or the broken law.  removed_ok: nodes with a strong neighbour may be unaggregated
// (only when small aggregates were removed on request, min_aggregate > 1).
inline std::string partition_laws(const Crs &A, const Aggr &g, int b, bool removed_ok, int *n_isolated = nullptr) {
    const int N = (int)A.nrows, n = N / b;
    if ((int)g.id.size() != N) return "id has wrong length";
    if (g.S.size() != A.nnz) return "strong_connection has wrong length";
    if (g.count % b) return "count is not a multiple of block_size";
    std::vector<int> used(g.count, 0);
    int iso = 0;
    for (int I = 0; I < n; ++I) {
        bool strong = false;
        for (int k = 0; k < b; ++k) { int r = I * b + k;
            for (auto j = A.ptr[r]; j < A.ptr[r + 1]; ++j) if (g.S[j] && A.col[j] / b != I) strong = true; }
        ptrdiff_t q = g.id[I * b];
        if (q >= 0 && q % b) return vf::KS() << "first unknown of node " << I << " has id " << q << " which is not a multiple of block_size";
        for (int k = 0; k < b; ++k) {
            ptrdiff_t v = g.id[I * b + k];
            if (q >= 0 && v != q + k) return vf::KS() << "unknowns of node " << I << " do not travel together: ids " << q << " and " << v << " (unknown " << k << ")";
            if (q < 0 && v >= 0) return vf::KS() << "unknowns of node " << I << " do not travel together: ids " << q << " and " << v;
            if (v >= (ptrdiff_t)g.count) return vf::KS() << "id " << v << " >= count " << g.count;
            if (v >= 0) used[v] = 1;
        }
        if (strong && q < 0 && !removed_ok) return vf::KS() << "node " << I << " has a strong neighbour but belongs to no aggregate (id " << q << ")";
        if (!strong && q >= 0) return vf::KS() << "node " << I << " has no strong neighbour but was put into aggregate " << q;
        if (!strong) ++iso;
    }
    for (size_t a = 0; a < g.count; ++a) if (!used[a]) return vf::KS() << "aggregate " << a << " of " << g.count << " is empty (ids not contiguous)";
    if (n_isolated) *n_isolated = iso;
    return "";
}

} // namespace c04
#endif
