// C18 unit "deflated": deflated_solver (A-DEF2).
//  exact part (value type = rationals, harness inner classes):
//     E == (Z^T A Z)^-1,  project(b,x) == x + Z E Z^T (b - A x)  and  Z^T (b - A project(b,x)) == 0,
//     apply(f) == P f + Z E Z^T (f - A P f),  solve with an exact inner preconditioner == A^-1 b
//  floating point part (double, real amgcl Krylov solvers, harness Jacobi preconditioner):
//     a solve that reports convergence returns the solution of the ORIGINAL system.
#include "C18_common.hpp"
#include <Eigen/Dense>
#include <amgcl/adapter/crs_tuple.hpp>
#include <amgcl/deflated_solver.hpp>
#include <amgcl/solver/cg.hpp>
#include <amgcl/solver/bicgstab.hpp>
#include <amgcl/solver/bicgstabl.hpp>
#include <amgcl/solver/gmres.hpp>
#include <amgcl/solver/fgmres.hpp>
#include <amgcl/solver/lgmres.hpp>
#include <amgcl/solver/idrs.hpp>

using namespace c18;

// harness Jacobi preconditioner (records the matrix)
template <class Backend>
class DiagPrecond {
    public:
        typedef Backend backend_type;
        typedef typename Backend::value_type value_type;
        typedef typename Backend::matrix matrix;
        typedef typename Backend::vector vector;
        typedef typename Backend::params backend_params;
        typedef typename amgcl::backend::builtin<value_type>::matrix build_matrix;
        typedef AnyParams params;
        std::shared_ptr<build_matrix> A; std::vector<value_type> di;
        template <class Matrix> DiagPrecond(const Matrix &M, const params& = params(), const backend_params& = backend_params()) : A(std::make_shared<build_matrix>(M)) {
            di.assign(A->nrows, value_type(1));
            for (size_t i = 0; i < A->nrows; ++i) for (auto a = A->row_begin(i); a; ++a) if ((size_t)a.col() == i) di[i] = value_type(1) / a.value();
        }
        template <class Vec1, class Vec2> void apply(const Vec1 &rhs, Vec2 &&x) const { for (size_t i = 0; i < di.size(); ++i) x[i] = di[i] * rhs[i]; }
        const matrix& system_matrix() const { return *A; }
        std::shared_ptr<matrix> system_matrix_ptr() const { return A; }
        size_t bytes() const { return 0; }
        friend std::ostream& operator<<(std::ostream &os, const DiagPrecond&) { return os << "harness Jacobi"; }
};

// harness "iterative solver": one preconditioned correction step  x += P (rhs - A x)
template <class Backend>
class OneStep {
    public:
        typedef Backend backend_type;
        typedef typename Backend::value_type value_type;
        typedef typename Backend::vector vector;
        typedef typename Backend::params backend_params;
        typedef typename amgcl::math::scalar_of<value_type>::type scalar_type;
        typedef AnyParams params;
        size_t n;
        OneStep(size_t n, const params& = params(), const backend_params& = backend_params()) : n(n) {}
        template <class Matrix, class Precond, class Vec1, class Vec2>
        std::tuple<size_t, scalar_type> operator()(const Matrix &A, const Precond &P, const Vec1 &rhs, Vec2 &&x) const {
            vector r(n), s(n);
            amgcl::backend::residual(rhs, A, x, r);
            P.apply(r, s);
            for (size_t i = 0; i < n; ++i) x[i] += s[i];
            return std::make_tuple((size_t)1, scalar_type(0));
        }
        template <class Precond, class Vec1, class Vec2>
        std::tuple<size_t, scalar_type> operator()(const Precond &P, const Vec1 &rhs, Vec2 &&x) const { return (*this)(P.system_matrix(), P, rhs, x); }
        size_t bytes() const { return 0; }
        friend std::ostream& operator<<(std::ostream &os, const OneStep&) { return os << "harness one-step solver"; }
};

// ------------------------------------------------------------------------------------------
// systems (small integers) and deflation spaces
template <class V> static mk::Dense<V> system_matrix(int n, int kind) {
    mk::Dense<V> K(n, n);
    auto set = [&](int i, int j, int v) { if (i >= 0 && j >= 0 && i < n && j < n) { K.st(i, j) = 1; K(i, j) = V(v); } };
    for (int i = 0; i < n; ++i) switch (kind) {
        case 0: set(i, i, 4 + i % 2); set(i, i - 1, -1); set(i, i + 1, -1); break;                              // SPD tridiagonal
        case 1: set(i, i, 5 + i % 3); set(i, i - 1, -2); set(i, i + 1, -1); set(i, i + 3, 1); break;            // nonsymmetric banded
        case 2: set(i, i, 6); set(i, i - 1, -1); set(i, i + 1, -1); set(i, i - 2, -1); set(i, i + 2, -1); break; // SPD pentadiagonal
        case 3: set(i, i, 3 + i); set(i, (i + 1) % n, -1); set(i, (i + n - 1) % n, 2); set(i, 0, i ? 1 : 3 + i); break;  // cyclic nonsymmetric with a dense column
    }
    return K;
}
static const char *sysname(int k) { static const char *n[] = {"spd_tridiagonal", "nonsym_banded", "spd_pentadiagonal", "cyclic_dense_column"}; return n[k]; }

// all compositions of n into k positive parts -> subdomain indicator vectors; vkind 1 multiplies by a ramp inside each subdomain
static void compositions(int n, int k, std::vector<std::vector<int>> &out, std::vector<int> cur = {}) {
    int used = 0; for (int c : cur) used += c;
    if ((int)cur.size() == k - 1) { if (n - used >= 1) { cur.push_back(n - used); out.push_back(cur); } return; }
    for (int c = 1; used + c + (k - (int)cur.size() - 1) <= n; ++c) { auto nx = cur; nx.push_back(c); compositions(n, k, out, nx); }
}
template <class V> static std::vector<V> zvectors(int n, const std::vector<int> &parts, int vkind) {
    int k = (int)parts.size(); std::vector<V> Z((size_t)k * n, V(0));
    int off = 0;
    for (int j = 0; j < k; ++j) { for (int i = 0; i < parts[j]; ++i) Z[(size_t)j * n + off + i] = V(vkind ? 1 + i : 1); off += parts[j]; }
    return Z;
}

// ------------------------------------------------------------------------------------------
typedef amgcl::backend::builtin<Q> QB;

static void exact_case(int n, int kind, const std::vector<int> &parts, int vkind, const std::string &key) {
    typedef amgcl::backend::numa_vector<Q> NV;
    mk::Dense<Q> K = system_matrix<Q>(n, kind); auto A = mk::to_crs<Q>(K);
    int k = (int)parts.size();
    std::vector<Q> Zv = zvectors<Q>(n, parts, vkind);
    Mat<Q> Kd(n, n); for (int i = 0; i < n; ++i) for (int j = 0; j < n; ++j) if (K.st(i, j)) Kd(i, j) = K(i, j);
    Mat<Q> Z(n, k), Zt(k, n); for (int j = 0; j < k; ++j) for (int i = 0; i < n; ++i) { Z(i, j) = Zv[(size_t)j * n + i]; Zt(j, i) = Z(i, j); }
    Mat<Q> Ein, E; Ein = mul(Zt, mul(Kd, Z));
    std::string ctx = vf::KS() << "A=" << sysname(kind) << " n=" << n << " subdomains=" << [&]{ std::string s; for (int p : parts) s += std::to_string(p) + " "; return s; }() << (vkind ? "ramp vectors" : "indicator vectors");
    if (!inverse(Ein, E)) { vf::count("skipped.ZtAZ_singular"); return; }
    Mat<Q> Ki; if (!inverse(Kd, Ki)) { vf::count("skipped.A_singular"); return; }
    Mat<Q> ZEZt = mul(Z, mul(E, Zt));

    // (1) Jacobi inner preconditioner: E, project, apply
    {
        typedef amgcl::deflated_solver<DiagPrecond<QB>, OneStep<QB>> DS;
        DS::params prm; prm.nvec = k; prm.vec = Zv.data();
        DS S(*A, prm);
        Mat<Q> Egot(k, k); for (int i = 0; i < k; ++i) for (int j = 0; j < k; ++j) Egot(i, j) = S.E[i * k + j];
        if (!same(Egot, E)) vf::fail("deflated.E", key, ctx + " : stored E = " + show(Egot) + " but (Z^T A Z)^-1 = " + show(E)); else vf::count("E_checked");
        std::vector<Q> b(n); for (int i = 0; i < n; ++i) b[i] = Q((i % 2 ? -1 : 1) * (2 + i % 4));
        for (int xk = 0; xk < 3; ++xk) {
            std::vector<Q> x0(n); for (int i = 0; i < n; ++i) x0[i] = xk == 0 ? Q(0) : (xk == 1 ? Q(i + 1) / Q(n) : Q(i % 3 - 1));
            NV rhs(b), x(x0);
            S.project(rhs, x);
            std::vector<Q> got(n), Ax = mulv(Kd, x0), r(n); for (int i = 0; i < n; ++i) { got[i] = x[i]; r[i] = b[i] - Ax[i]; }
            std::vector<Q> corr = mulv(ZEZt, r), want(n); for (int i = 0; i < n; ++i) want[i] = x0[i] + corr[i];
            if (got != want) vf::fail("deflated.project.formula", key, ctx + (vf::KS() << " x0 #" << xk << " : got " << showv(got) << " want " << showv(want)).str());
            std::vector<Q> Ax2 = mulv(Kd, got), r2(n); for (int i = 0; i < n; ++i) r2[i] = b[i] - Ax2[i];
            std::vector<Q> zr = mulv(Zt, r2); bool orth = true; for (auto &v : zr) if (!(v == 0)) orth = false;
            if (!orth) vf::fail("deflated.project.orthogonal", key, ctx + (vf::KS() << " x0 #" << xk << " : Z^T (b - A x) = " << showv(zr)).str()); else vf::count("projection_orthogonality_checked");
        }
        for (int t = 0; t <= n; ++t) {
            std::vector<Q> f(n, Q(0)); if (t < n) f[t] = 1; else f = b;
            NV rhs(f), x(n); for (int i = 0; i < n; ++i) x[i] = Q(55);
            S.apply(rhs, x);
            std::vector<Q> Pf(n); for (int i = 0; i < n; ++i) Pf[i] = f[i] / Kd(i, i);
            std::vector<Q> APf = mulv(Kd, Pf), r(n); for (int i = 0; i < n; ++i) r[i] = f[i] - APf[i];
            std::vector<Q> corr = mulv(ZEZt, r), want(n), got(n); for (int i = 0; i < n; ++i) { want[i] = Pf[i] + corr[i]; got[i] = x[i]; }
            if (got != want) vf::fail("deflated.apply.formula", key, ctx + (vf::KS() << " f #" << t << " : got " << showv(got) << " want " << showv(want)).str()); else vf::count("apply_formula_checked");
        }
        // deflation vectors given to the object are not modified
        if (Zv != zvectors<Q>(n, parts, vkind)) vf::fail("deflated.vectors_modified", key, ctx);
    }
    // (2) exact inner preconditioner + one correction step: the solution of the original system
    {
        typedef amgcl::deflated_solver<ExactSolver<QB, 5>, OneStep<QB>> DS;
        DS::params prm; prm.nvec = k; prm.vec = Zv.data();
        DS S(*A, prm);
        std::vector<Q> b(n); for (int i = 0; i < n; ++i) b[i] = Q(1 + (i * 5) % 7) / Q(1 + i % 2);
        for (int xk = 0; xk < 2; ++xk) {
            std::vector<Q> x0(n); for (int i = 0; i < n; ++i) x0[i] = xk ? Q(i - 2) : Q(0);
            NV rhs(b), x(x0);
            size_t it; Q res; std::tie(it, res) = S(rhs, x);
            std::vector<Q> got(n), want = mulv(Ki, b); for (int i = 0; i < n; ++i) got[i] = x[i];
            if (got != want) vf::fail("deflated.solve.exact_preconditioner", key, ctx + " : got " + showv(got) + " want A^-1 b = " + showv(want)); else vf::count("exact_solution_checked");
        }
    }
    vf::nontrivial(vf::hstr(key));
}

// ------------------------------------------------------------------------------------------
typedef amgcl::backend::builtin<double> DB;

template <class Solver>
static void krylov_case(const char *sname, int n, int kind, const std::vector<int> &parts, int vkind, const std::string &key, typename Solver::params sp) {
    typedef amgcl::backend::numa_vector<double> NV;
    mk::Dense<double> K = system_matrix<double>(n, kind); auto A = mk::to_crs<double>(K);
    int k = (int)parts.size();
    std::vector<double> Zv = zvectors<double>(n, parts, vkind);
    typedef amgcl::deflated_solver<DiagPrecond<DB>, Solver> DS;
    typename DS::params prm; prm.nvec = k; prm.vec = Zv.data(); prm.solver = sp; prm.solver.tol = 1e-10; prm.solver.maxiter = 300;
    DS S(*A, prm);
    typedef Eigen::Matrix<long double, Eigen::Dynamic, Eigen::Dynamic> LM; typedef Eigen::Matrix<long double, Eigen::Dynamic, 1> LV;
    LM Ad = LM::Zero(n, n); for (int i = 0; i < n; ++i) for (int j = 0; j < n; ++j) if (K.st(i, j)) Ad(i, j) = K(i, j);
    Eigen::MatrixXd Ae = Ad.cast<double>(); Eigen::JacobiSVD<Eigen::MatrixXd> svd(Ae);
    double smax = svd.singularValues()(0), smin = svd.singularValues()(n - 1), kappa = smax / smin;
    std::string ctx = vf::KS() << sname << " A=" << sysname(kind) << " n=" << n << " nvec=" << k << (vkind ? " ramp vectors" : " indicator vectors");
    for (int xk = 0; xk < 2; ++xk) {
        std::vector<double> b(n), x0(n); for (int i = 0; i < n; ++i) { b[i] = (i % 2 ? -1.0 : 1.0) * (2 + i % 4); x0[i] = xk ? (double)(i + 1) / n : 0.0; }
        NV rhs(b), x(x0);
        size_t it; double res;
        try { std::tie(it, res) = S(rhs, x); } catch (const std::exception &e) { vf::count(std::string("krylov_threw.") + sname); continue; }
        if (!(res <= 1e-10)) { vf::count(std::string("krylov_not_converged.") + sname); continue; }
        LV bl(n), xl(n); for (int i = 0; i < n; ++i) { bl(i) = b[i]; xl(i) = x[i]; }
        long double rt = (bl - Ad * xl).norm() / bl.norm();
        // reported residuals of recurrence based methods drift from the true one by at most ~ u * iters * (|A||x| + |b|) / |b|
        long double u = 1.1e-16L, drift = 50.0L * n * u * (it + 1) * (smax * xl.norm() + bl.norm()) / bl.norm();
        if (rt > 1e-10L + drift) vf::fail(std::string("deflated.krylov.true_residual.") + sname, key, ctx + (vf::KS() << " x0 #" << xk << " : reported " << res << " after " << it << " iterations but |b - A x|/|b| = " << (double)rt << " (allowed " << (double)(1e-10L + drift) << ")").str());
        else vf::count(std::string("krylov_checked.") + sname);
        LV xs = Ad.fullPivLu().solve(bl);
        long double fe = (xl - xs).norm() / xs.norm();
        if (fe > kappa * (rt + 1e-17L * kappa)) vf::fail(std::string("deflated.krylov.solution.") + sname, key, ctx + (vf::KS() << " : |x - A^-1 b|/|A^-1 b| = " << (double)fe << " > kappa * residual = " << (double)(kappa * rt)).str());
        for (int i = 0; i < n; ++i) if (rhs[i] != b[i]) { vf::fail("deflated.krylov.rhs_modified", key, ctx); break; }
    }
}

int main(int argc, char **argv) {
    vf::init(argc, argv, "C18");
    vf::sample_str("deflated case: A = tridiag(-1, 4|5, -1) n=8, subdomains 3+2+3 (indicator vectors), exact arithmetic over the rationals");
    std::vector<int> ns = (vf::thorough() || vf::replaying()) ? std::vector<int>{6, 7, 8, 9} : std::vector<int>{6, 8};
    if (vf::section("dx")) {
        for (int n : ns) for (int kind = 0; kind < 4; ++kind) for (int k = 1; k <= 5; ++k) {
            std::vector<std::vector<int>> comps; compositions(n, k, comps);
            for (size_t ci = 0; ci < comps.size(); ++ci) for (int vk = 0; vk < 2; ++vk) {
                std::string key = vf::KS() << "dx|" << n << "|" << kind << "|" << k << "|" << ci << "|" << vk;
                if (!vf::take([&]{ return key; })) continue;
                exact_case(n, kind, comps[ci], vk, key);
            }
        }
        vf::space("deflated (exact): 4 systems x n in the tier list x every partition of the unknowns into 1..5 contiguous subdomains x {indicator, ramp} deflation vectors");
    }
    if (vf::section("dk")) {
        namespace s = amgcl::solver;
        for (int n : {8, 12}) for (int kind = 0; kind < 4; ++kind) for (int k = 1; k <= 5; ++k) {
            std::vector<std::vector<int>> comps; compositions(n, k, comps);
            // balanced and the two most unbalanced partitions
            std::vector<size_t> pick = {0, comps.size() / 2, comps.size() - 1};
            for (size_t pi = 0; pi < pick.size(); ++pi) for (int vk = 0; vk < 2; ++vk) {
                if (pi && pick[pi] == pick[pi - 1]) continue;
                std::string key = vf::KS() << "dk|" << n << "|" << kind << "|" << k << "|" << pick[pi] << "|" << vk;
                if (!vf::take([&]{ return key; })) continue;
                const auto &parts = comps[pick[pi]];
                if (kind == 0 || kind == 2) krylov_case<s::cg<DB>>("cg", n, kind, parts, vk, key, s::cg<DB>::params());
                krylov_case<s::bicgstab<DB>>("bicgstab", n, kind, parts, vk, key, s::bicgstab<DB>::params());
                krylov_case<s::bicgstabl<DB>>("bicgstabl", n, kind, parts, vk, key, s::bicgstabl<DB>::params());
                { s::gmres<DB>::params p; p.M = 5; krylov_case<s::gmres<DB>>("gmres", n, kind, parts, vk, key, p); }
                { s::fgmres<DB>::params p; p.M = 5; krylov_case<s::fgmres<DB>>("fgmres", n, kind, parts, vk, key, p); }
                { s::lgmres<DB>::params p; p.M = 5; p.K = 2; krylov_case<s::lgmres<DB>>("lgmres", n, kind, parts, vk, key, p); }
                krylov_case<s::idrs<DB>>("idrs", n, kind, parts, vk, key, s::idrs<DB>::params());
                vf::nontrivial(vf::hstr(key));
            }
        }
        vf::space("deflated (double, 7 amgcl Krylov solvers + harness Jacobi): 4 systems x n in {8,12} x 1..5 subdomains (3 partitions each) x 2 vector kinds x 2 initial guesses");
    }
    return vf::finish();
}
