// C15_common.hpp -- breadth-first exploration of call histories on one live object.
//
// A "kind" describes one amgcl object type with one fixed configuration:
//     make()        a freshly constructed object
//     ops()         the finite alphabet of calls (queries: solve/apply/cycle; mutators: rebuild/partial_update)
//     state_key(o)  canonical hash of every mutable member (read with -fno-access-control)
// The explorer enumerates all histories h of length <= depth over the alphabet (breadth first,
// histories whose state key was already seen are merged, i.e. not expanded again) and for
// every transition h.c compares the outcome of c on the live object (fresh + h replayed)
// with the outcome of c on a reference object that never saw the queries of h.
//
// Everything is deterministic: systems, right-hand sides and guesses are explicit formulas.
#ifndef VERIF_C15_COMMON_HPP
#define VERIF_C15_COMMON_HPP

#include <vector>
#include <string>
#include <complex>
#include <memory>
#include <functional>
#include <unordered_map>
#include <map>
#include <tuple>
#include <cstring>
#include <cmath>
#include <limits>
#include <Eigen/Dense>

#include <amgcl/backend/builtin.hpp>
#include <amgcl/value_type/interface.hpp>
#include <amgcl/value_type/complex.hpp>
#include <amgcl/value_type/static_matrix.hpp>
#include <amgcl/adapter/crs_tuple.hpp>
#include <amgcl/util.hpp>
#include "vf.hpp"

namespace c15 {

typedef std::complex<double> Cx;

template <class V> struct mkval;
template <> struct mkval<double> { static double get(double re, double) { return re; } };
template <> struct mkval<Cx>     { static Cx get(double re, double im) { return Cx(re, im); } };

// ------------------------------------------------------------------------------------------
// systems: plain CRS arrays owned by the harness (the "user's matrix")
template <class V>
struct Sys {
    ptrdiff_t n = 0;
    std::vector<ptrdiff_t> ptr, col;
    std::vector<V> val;
    std::string name;
    std::tuple<ptrdiff_t, const std::vector<ptrdiff_t>&, const std::vector<ptrdiff_t>&, const std::vector<V>&> tie() const {
        return std::tuple<ptrdiff_t, const std::vector<ptrdiff_t>&, const std::vector<ptrdiff_t>&, const std::vector<V>&>(n, ptr, col, val);
    }
    uint64_t hash() const {
        uint64_t h = vf::hbytes(&n, sizeof n);
        h = vf::hbytes(ptr.data(), ptr.size() * sizeof(ptrdiff_t), h);
        h = vf::hbytes(col.data(), col.size() * sizeof(ptrdiff_t), h);
        h = vf::hbytes(val.data(), val.size() * sizeof(V), h);
        return h;
    }
};

template <class V>
struct Rows {
    int n; std::vector<std::map<int, V>> r;
    explicit Rows(int n) : n(n), r(n) {}
    void add(int i, int j, V v) { r[i][j] += v; }
    Sys<V> finish(const std::string &name, bool keep_empty_rows = true) const {
        Sys<V> S; S.n = n; S.name = name; S.ptr.assign(n + 1, 0);
        for (int i = 0; i < n; ++i) { for (auto &kv : r[i]) { S.col.push_back(kv.first); S.val.push_back(kv.second); } S.ptr[i + 1] = (ptrdiff_t)S.col.size(); }
        return S;
    }
};

// 2-D convection-diffusion, first order upwind, on an nx x ny grid, with a position dependent
// diffusion coefficient; pe = 0 gives a symmetric positive definite M-matrix.
// cshift adds i*cshift*(1 + (p mod 3)) to the diagonal (complex value type only).
template <class V>
Sys<V> grid(int nx, int ny, double pe, double scale, double cshift, const std::string &name) {
    int n = nx * ny; Rows<V> R(n);
    auto id = [&](int i, int j) { return j * nx + i; };
    auto kc = [&](int i, int j) { return scale * (1.0 + 0.5 * ((i + 2 * j) % 3)); };
    const int dx[4] = {-1, 1, 0, 0}, dy[4] = {0, 0, -1, 1};
    for (int j = 0; j < ny; ++j) for (int i = 0; i < nx; ++i) {
        int p = id(i, j);
        for (int d = 0; d < 4; ++d) {
            if (d >= 2 && ny <= 1) continue;
            int ii = i + dx[d], jj = j + dy[d];
            bool in = ii >= 0 && ii < nx && jj >= 0 && jj < ny;
            double w = in ? 2 * kc(i, j) * kc(ii, jj) / (kc(i, j) + kc(ii, jj)) : kc(i, j);
            double c = 0;
            if (d == 0) c = pe;             // flow in +x: upwind neighbour is on the left
            if (d == 2) c = 0.5 * pe;       // and +y
            R.add(p, p, mkval<V>::get(w + c, 0));
            if (in) R.add(p, id(ii, jj), mkval<V>::get(-(w + c), 0));
        }
        if (cshift != 0) R.add(p, p, mkval<V>::get(0.25, cshift * (1 + p % 3)));
    }
    return R.finish(name);
}

// cyclic shift (permutation) matrix: row i has the single entry (i, (i+1) mod n) = 1.
// <A e_1, e_1> = 0 exactly: provokes exact breakdowns (zero sigma / zero rho / alpha = 1/0).
template <class V> Sys<V> shift_matrix(int n) {
    Rows<V> R(n); for (int i = 0; i < n; ++i) R.add(i, (i + 1) % n, mkval<V>::get(1, 0)); return R.finish("shift");
}
// as grid() but row 0 stores no entry at all (singular; <A z, e_1> = 0 for every z)
template <class V> Sys<V> empty_row_matrix(const Sys<V> &A) {
    Sys<V> S; S.n = A.n; S.name = A.name + "_emptyrow0"; S.ptr.assign(A.n + 1, 0);
    for (ptrdiff_t i = 1; i < A.n; ++i) { for (ptrdiff_t j = A.ptr[i]; j < A.ptr[i + 1]; ++j) { S.col.push_back(A.col[j]); S.val.push_back(A.val[j]); } S.ptr[i + 1] = (ptrdiff_t)S.col.size(); }
    S.ptr[1] = 0;
    for (ptrdiff_t i = 1; i <= A.n; ++i) if (S.ptr[i] < S.ptr[i - 1]) S.ptr[i] = S.ptr[i - 1];
    return S;
}
// same pattern, all stored values zero
template <class V> Sys<V> zero_values(const Sys<V> &A) { Sys<V> S = A; S.name = A.name + "_zeroed"; for (auto &v : S.val) v = V(); return S; }

template <class V> std::vector<V> spmv(const Sys<V> &A, const std::vector<V> &x) {
    std::vector<V> y(A.n, V());
    for (ptrdiff_t i = 0; i < A.n; ++i) { V s = V(); for (ptrdiff_t j = A.ptr[i]; j < A.ptr[i + 1]; ++j) s += A.val[j] * x[A.col[j]]; y[i] = s; }
    return y;
}

template <class V> struct ldt { typedef long double type; };
template <> struct ldt<Cx> { typedef std::complex<long double> type; };

// dense solve in extended precision (Eigen full-pivot LU), rounded to V: the "exact" initial guess
template <class V> std::vector<V> dense_solve(const Sys<V> &A, const std::vector<V> &f) {
    typedef typename ldt<V>::type L;
    Eigen::Matrix<L, Eigen::Dynamic, Eigen::Dynamic> D = Eigen::Matrix<L, Eigen::Dynamic, Eigen::Dynamic>::Zero(A.n, A.n);
    for (ptrdiff_t i = 0; i < A.n; ++i) for (ptrdiff_t j = A.ptr[i]; j < A.ptr[i + 1]; ++j) D(i, A.col[j]) += (L)A.val[j];
    Eigen::Matrix<L, Eigen::Dynamic, 1> b(A.n); for (ptrdiff_t i = 0; i < A.n; ++i) b(i) = (L)f[i];
    Eigen::Matrix<L, Eigen::Dynamic, 1> x = D.fullPivLu().solve(b);
    std::vector<V> r(A.n); for (ptrdiff_t i = 0; i < A.n; ++i) r[i] = (V)x(i);
    return r;
}
inline long double abs2l(double x) { return (long double)x * x; }
inline long double abs2l(const Cx &x) { return (long double)x.real() * x.real() + (long double)x.imag() * x.imag(); }
template <class V> long double norm_ld(const std::vector<V> &v) { long double s = 0; for (auto &x : v) s += abs2l(x); return sqrtl(s); }
template <class V> long double true_residual(const Sys<V> &A, const std::vector<V> &f, const std::vector<V> &x) {
    typedef typename ldt<V>::type L;
    long double s = 0;
    for (ptrdiff_t i = 0; i < A.n; ++i) { L r = (L)f[i]; for (ptrdiff_t j = A.ptr[i]; j < A.ptr[i + 1]; ++j) r -= (L)A.val[j] * (L)x[A.col[j]]; s += std::norm(r); }
    return sqrtl(s);
}

// right-hand sides
enum { F_GEN = 0, F_GEN2, F_ZERO, F_NAN, F_E1, F_HUGE, F_KINDS };
inline const char *fname(int k) { static const char *nm[] = {"gen", "gen2", "zero", "nan", "e1", "huge"}; return nm[k]; }
template <class V> std::vector<V> rhs(int kind, int n) {
    static const double G1[7] = {1, -2, 3, 1.5, -0.5, 2.5, -1};
    static const double G2[5] = {0.75, 4, -3, 0.25, 2};
    std::vector<V> f(n, V());
    switch (kind) {
        case F_GEN:  for (int i = 0; i < n; ++i) f[i] = mkval<V>::get(G1[i % 7] + 0.125 * i, 0.5 * G1[(i + 3) % 7]); break;
        case F_GEN2: for (int i = 0; i < n; ++i) f[i] = mkval<V>::get(G2[i % 5] - 0.25 * i, -0.25 * G2[(i + 2) % 5]); break;
        case F_ZERO: break;
        case F_NAN:  for (int i = 0; i < n; ++i) f[i] = mkval<V>::get(G1[i % 7], 0.5); f[n / 2] = mkval<V>::get(std::numeric_limits<double>::quiet_NaN(), 0); break;
        case F_E1:   f[0] = mkval<V>::get(1, 0); break;
        case F_HUGE: for (int i = 0; i < n; ++i) f[i] = mkval<V>::get(1e200 * G1[i % 7], 1e200); break;
    }
    return f;
}
enum { X_ZERO = 0, X_EXACT, X_RAMP, X_KINDS };
inline const char *xname(int k) { static const char *nm[] = {"x0=0", "x0=exact", "x0=ramp"}; return nm[k]; }
template <class V> std::vector<V> ramp(int n) { std::vector<V> x(n); for (int i = 0; i < n; ++i) x[i] = mkval<V>::get((double)(i + 1) / n, -0.5 * (i + 1) / n); return x; }

// ------------------------------------------------------------------------------------------
// hashing of object state
struct Hs {
    uint64_t h = 1469598103934665603ULL;
    void raw(const void *p, size_t n) { h = vf::hbytes(p, n, h); h = vf::hmix(h, n); }
    template <class T> void pod(const T &v) { raw(&v, sizeof(T)); }
    template <class T> void vec(const std::vector<T> &v) { raw(v.data(), v.size() * sizeof(T)); }
    template <class T> void vec(const amgcl::backend::numa_vector<T> &v) { raw(v.size() ? &v[0] : nullptr, v.size() * sizeof(T)); }
    template <class T> void vec(const amgcl::iterator_range<T*> &v) { raw(v.begin(), (v.end() - v.begin()) * sizeof(T)); }
    template <class T> void sp(const std::shared_ptr<T> &p) { if (p) { pod((char)1); vec(*p); } else pod((char)0); }
    template <class T> void spv(const std::vector<std::shared_ptr<T>> &v) { pod(v.size()); for (auto &p : v) sp(p); }
    template <class T, int N> void ma(const amgcl::multi_array<T, N> &m) { raw(m.data(), m.size() * sizeof(T)); }
    template <class V, class C, class P> void crs(const amgcl::backend::crs<V, C, P> &A) {
        pod(A.nrows); pod(A.ncols);
        if (A.nrows && A.ptr) { raw(A.ptr, (A.nrows + 1) * sizeof(P)); size_t nnz = A.ptr[A.nrows]; if (A.col) raw(A.col, nnz * sizeof(C)); if (A.val) raw(A.val, nnz * sizeof(V)); }
    }
    template <class M> void spm(const std::shared_ptr<M> &p) { if (p) { pod((char)1); crs(*p); } else pod((char)0); }
};

// ------------------------------------------------------------------------------------------
// outcome of one call; compared bitwise
struct Outcome {
    int status = 0;                 // 0 returned, 1 threw
    std::string what;
    unsigned long long iters = 0;
    std::vector<unsigned char> bytes;   // residual followed by the solution vector
    std::vector<std::pair<std::string, std::string>> notes;   // (sub-check, text): integrity / semantic violations seen during the call
    template <class T> void put(const T *p, size_t n) { const unsigned char *c = (const unsigned char*)p; bytes.insert(bytes.end(), c, c + n * sizeof(T)); }
    bool same(const Outcome &o) const { return status == o.status && what == o.what && iters == o.iters && bytes == o.bytes; }
    std::string brief() const {
        vf::KS k; k.o.precision(17);
        if (status) k << "threw '" << what << "' ";
        k << "iters=" << iters;
        if (bytes.size() >= 8) { double r; std::memcpy(&r, bytes.data(), 8); k << " res=" << r; }
        size_t nd = (bytes.size() - 8) / 8; if (bytes.size() < 8) nd = 0;
        k << " x=[";
        for (size_t i = 0; i < nd && i < 6; ++i) { double v; std::memcpy(&v, bytes.data() + 8 + 8 * i, 8); k << (i ? " " : "") << v; }
        k << (nd > 6 ? " ...]" : "]");
        return k;
    }
    std::string diff(const Outcome &o) const {
        vf::KS k; k.o.precision(17);
        if (status != o.status || what != o.what) { k << "live " << (status ? "threw '" + what + "'" : std::string("returned")) << ", reference " << (o.status ? "threw '" + o.what + "'" : std::string("returned")); return k; }
        if (iters != o.iters) k << "iterations live " << iters << " vs reference " << o.iters << "; ";
        if (bytes.size() != o.bytes.size()) { k << "result size differs"; return k; }
        for (size_t i = 0; i + 8 <= bytes.size(); i += 8) if (std::memcmp(&bytes[i], &o.bytes[i], 8)) {
            double a, b; std::memcpy(&a, &bytes[i], 8); std::memcpy(&b, &o.bytes[i], 8);
            k << (i == 0 ? "residual" : "x scalar #") ; if (i) k << (i / 8 - 1); k << ": live " << a << " vs reference " << b; break;
        }
        return k;
    }
};

enum OpClass { QUERY = 0, MUTATOR = 1, MUTATOR_ATOMIC_FAIL = 2 /* expected to throw before changing anything */, MUTATOR_POISON = 3 /* may throw half way */ };

template <class Obj>
struct Op {
    std::string name;
    OpClass cls = QUERY;
    std::function<Outcome(Obj&)> run;
};

enum RefPolicy { REF_LAST_MUTATOR = 0, REF_ALL_MUTATORS = 1 };

struct ExploreStats { long long states = 0, transitions = 0, validated = 0, merges = 0, merges_validated = 0, failures = 0; int max_depth_reached = 0; };

// Kind interface:
//   typedef ... Obj;  std::unique_ptr<Obj> make();  const std::vector<Op<Obj>>& ops() const;
//   uint64_t state_key(const Obj&) const;  std::string name() const;  RefPolicy policy() const;
//   bool equality() const   (false: the documented exception; only the notes of the calls are judged)
//   int probe() const       index of the query run after every mutator to observe its effect (-1: none)
template <class Kind>
ExploreStats explore(Kind &K, const std::string &key, int depth) {
    typedef typename Kind::Obj Obj;
    const auto &ops = K.ops();
    const int nops = (int)ops.size();
    ExploreStats st;
    struct Node { std::vector<int> h; std::vector<int> eff; bool poisoned = false; };
    auto hist = [&](const std::vector<int> &h) { std::string s; for (int c : h) { s += (s.empty() ? "" : " ; "); s += ops[c].name; } return s.empty() ? std::string("<fresh>") : s; };
    auto replay = [&](const std::vector<int> &h) { std::unique_ptr<Obj> o = K.make(); for (int c : h) ops[c].run(*o); return o; };
    auto report = [&](const std::string &sub, const std::string &text) {
        ++st.failures;
        vf::fail(K.name() + "." + sub, key, text);
    };
    std::unordered_map<uint64_t, std::vector<int>> seen;
    std::vector<Node> frontier(1);
    { auto o = K.make(); seen[K.state_key(*o)] = {}; }
    for (int d = 0; d < depth && !frontier.empty(); ++d) {
        std::vector<Node> next;
        for (const Node &nd : frontier) {
            ++st.states;
            for (int c = 0; c < nops; ++c) {
                const Op<Obj> &op = ops[c];
                if (nd.poisoned && op.cls == QUERY) continue;         // behaviour after a half-finished rebuild is not specified
                // live object
                std::unique_ptr<Obj> live = replay(nd.h);
                Outcome ol = op.run(*live);
                ++st.transitions;
                // reference object: fresh, plus the state-setting calls only
                std::unique_ptr<Obj> ref = K.make();
                if (!nd.eff.empty()) {
                    if (K.policy() == REF_LAST_MUTATOR) ops[nd.eff.back()].run(*ref);
                    else for (int m : nd.eff) ops[m].run(*ref);
                }
                Outcome orf = op.run(*ref);
                std::string where = "history [" + hist(nd.h) + "] then " + op.name;
                for (auto &nt : ol.notes) report(nt.first, where + ": " + nt.second);
                bool ok = true;
                if (K.equality()) {
                    if (!ol.same(orf)) { ok = false; report("fresh_equivalence", where + ": " + ol.diff(orf) + " | live: " + ol.brief() + " | fresh: " + orf.brief()); }
                    else if (op.cls != QUERY && K.probe() >= 0 && !ol.status) {
                        Outcome pl = ops[K.probe()].run(*live), pr = ops[K.probe()].run(*ref);
                        if (!pl.same(pr)) { ok = false; report("fresh_equivalence", where + " (observed through " + ops[K.probe()].name + "): " + pl.diff(pr)); }
                        live = replay(nd.h); op.run(*live);            // undo the probe
                    }
                }
                if (ok && ol.notes.empty()) ++st.validated;
                if (!nd.h.empty()) vf::nontrivial(vf::hstr(key + "|" + hist(nd.h) + "|" + op.name));
                // successor state
                Node nn; nn.h = nd.h; nn.h.push_back(c); nn.eff = nd.eff; nn.poisoned = nd.poisoned;
                if (op.cls != QUERY) {
                    if (!ol.status) { if (K.policy() == REF_LAST_MUTATOR) nn.eff.clear(); nn.eff.push_back(c); nn.poisoned = false; }
                    else if (op.cls == MUTATOR_POISON || op.cls == MUTATOR) { nn.poisoned = true; }
                    // MUTATOR_ATOMIC_FAIL that threw: nothing changed
                }
                Hs hk; hk.pod(K.state_key(*live)); hk.pod(nn.poisoned); for (int m : nn.eff) hk.pod(m);
                uint64_t k2 = hk.h;
                auto it = seen.find(k2);
                if (it == seen.end()) { seen[k2] = nn.h; next.push_back(nn); st.max_depth_reached = std::max(st.max_depth_reached, d + 1); }
                else {
                    ++st.merges;
                    // the merge prunes a subtree only below the last level: validate those merges by one step of bisimulation
                    if (d + 1 < depth && it->second != nn.h) {
                        bool good = true;
                        for (int q = 0; q < nops && good; ++q) {
                            if (nn.poisoned && ops[q].cls == QUERY) continue;
                            auto a = replay(it->second); auto b = replay(nn.h);
                            Outcome oa = ops[q].run(*a), ob = ops[q].run(*b);
                            if (!oa.same(ob) || K.state_key(*a) != K.state_key(*b)) {
                                good = false;
                                report("bfs.merge_unsound", "states after [" + hist(it->second) + "] and [" + hist(nn.h) + "] have equal keys but differ under " + ops[q].name + ": " + oa.diff(ob));
                            }
                        }
                        if (good) ++st.merges_validated;
                    }
                }
            }
        }
        frontier.swap(next);
    }
    // no unexpanded state left: every history of ANY length leads to a state that was expanded (fixpoint)
    if (frontier.empty()) vf::count("bfs.state_space_closed_within_depth_bound");
    vf::S().states += st.states;
    vf::S().transitions += st.transitions;
    vf::S().evals += st.transitions;     // evaluations = calls executed on live objects (each compared with a fresh object)
    vf::S().traces_validated += st.validated;
    vf::count("bfs.merges", st.merges);
    vf::count("bfs.merges_validated_by_one_step_bisimulation", st.merges_validated);
    vf::count("bfs.runs");
    vf::count(std::string("bfs.depth_reached_") + std::to_string(st.max_depth_reached));
    return st;
}

// ------------------------------------------------------------------------------------------
// helpers shared by the kinds
template <class V> using NV = amgcl::backend::numa_vector<V>;

template <class V> NV<V> to_nv(const std::vector<V> &v) { return NV<V>(v); }

template <class V> bool all_zero(const NV<V> &x) { for (size_t i = 0; i < x.size(); ++i) if (!(x[i] == V())) return false; return true; }

template <class V> bool same_bytes(const NV<V> &a, const std::vector<V> &b) { return a.size() == b.size() && (a.size() == 0 || std::memcmp(&a[0], b.data(), a.size() * sizeof(V)) == 0); }

} // namespace c15
#endif
