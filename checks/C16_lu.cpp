// C16 unit "lu" -- skyline LU coarse solver and Cuthill-McKee.
//  * exact value types: Q (rational), QC (Gaussian rational), static_matrix<Q,2,2>: the solution
//    returned by the real skyline_lu must satisfy A x == b exactly whenever block elimination
//    without pivoting in the solver's own ordering meets only invertible pivots; a zero pivot
//    must be reported by an exception.
//  * floating types: double, complex<double>: componentwise residual bound of LU without
//    pivoting (Higham, ASNA, Thm 9.4) evaluated with the exact L and U of the permuted matrix.
//  * cuthill_mckee<false/true>::get returns a permutation of 0..n-1 for every pattern.
#include <complex>
#include <functional>
#include <amgcl/backend/builtin.hpp>
#include <amgcl/solver/skyline_lu.hpp>
#include <amgcl/reorder/cuthill_mckee.hpp>
#include "C16_common.hpp"
#include "mk.hpp"
#include "forkrun.hpp"

using namespace amgcl;
using namespace c16;

typedef static_matrix<Q, 2, 2> QB2;
typedef static_matrix<double, 2, 2> DB2;

// ---- value type traits -------------------------------------------------------------------
template <class V> struct vt;
template <> struct vt<Q>  { static const int B = 1; typedef Q F;  static const bool cplx = false, exact = true;  static const char *name() { return "rational"; }
    static void set(Q &v, int, int, int re, int) { v = Q(re); } template <class R> static Q get(const R &x, int) { return x; } template <class R> static void setr(R &x, int, int re, int) { x = Q(re); } };
template <> struct vt<QC> { static const int B = 1; typedef QC F; static const bool cplx = true, exact = true;  static const char *name() { return "gaussian_rational"; }
    static void set(QC &v, int, int, int re, int im) { v = QC(Q(re), Q(im)); } template <class R> static QC get(const R &x, int) { return x; } template <class R> static void setr(R &x, int, int re, int im) { x = QC(Q(re), Q(im)); } };
template <> struct vt<QB2> { static const int B = 2; typedef Q F; static const bool cplx = false, exact = true; static const char *name() { return "rational_block2"; }
    static void set(QB2 &v, int ii, int jj, int re, int) { v(ii, jj) = Q(re); } template <class R> static Q get(const R &x, int ii) { return x(ii); } template <class R> static void setr(R &x, int ii, int re, int) { x(ii) = Q(re); } };
template <> struct vt<double> { static const int B = 1; typedef Q F; static const bool cplx = false, exact = false; static const char *name() { return "double"; }
    static void set(double &v, int, int, int re, int) { v = re; } template <class R> static void setr(R &x, int, int re, int) { x = re; } };
template <> struct vt<std::complex<double>> { static const int B = 1; typedef QC F; static const bool cplx = true, exact = false; static const char *name() { return "cdouble"; }
    static void set(std::complex<double> &v, int, int, int re, int im) { v = std::complex<double>(re, im); } template <class R> static void setr(R &x, int, int re, int im) { x = std::complex<double>(re, im); } };

static inline Q mkF(Q*, int re, int) { return Q(re); }
static inline QC mkF(QC*, int re, int im) { return QC(Q(re), Q(im)); }

// ---- integer test matrices ---------------------------------------------------------------
// block pattern: bit (I*n+J) of mask.  Scalar entry (i,j) of the unrolled N x N matrix (N = n*B):
static inline int code(int i, int j, int salt) { static const int v[4] = {1, -1, 2, -2}; return v[((i * 3 + j * 5 + salt) % 4 + 4) % 4]; }
enum Rule { DD = 0, SYM = 1, GEN0 = 2, GEN1 = 3, ZEROS = 4, NRULES = 5 };
static const char *rule_name(int r) { static const char *n[] = {"diag-dominant", "hermitian-diag-dominant", "general(salt0)", "general(salt1)", "general+explicit-zeros"}; return n[r]; }

struct IntMat { int N; std::vector<int> re, im; std::vector<char> st; IntMat(int N) : N(N), re(N * N, 0), im(N * N, 0), st(N * N, 0) {} };

static bool mask_symmetric(int n, uint64_t mask) { for (int i = 0; i < n; ++i) for (int j = 0; j < i; ++j) if (mk::bit(mask, i * n + j) != mk::bit(mask, j * n + i)) return false; return true; }

static IntMat build(int n, int B, uint64_t mask, int rule, bool cplx) {
    int N = n * B; IntMat M(N);
    for (int i = 0; i < N; ++i) for (int j = 0; j < N; ++j) {
        if (!mk::bit(mask, (i / B) * n + (j / B))) continue;
        M.st[i * N + j] = 1;
        int a = i, b = j;
        if (rule == SYM && i > j) { a = j; b = i; }
        int salt = rule == GEN1 ? 1 : 0;
        M.re[i * N + j] = code(a, b, salt);
        M.im[i * N + j] = cplx ? code(b, a, salt + 2) * ((rule == SYM && i > j) ? -1 : 1) : 0;
        if (rule == SYM && i == j) M.im[i * N + j] = 0;
        if (rule == ZEROS && (i * 3 + j * 7) % 4 == 0) { M.re[i * N + j] = 0; M.im[i * N + j] = 0; }
    }
    if (rule == DD || rule == SYM) {
        for (int i = 0; i < N; ++i) {
            if (!M.st[i * N + i]) continue;
            int s = 0; for (int j = 0; j < N; ++j) if (j != i) s += std::abs(M.re[i * N + j]) + std::abs(M.im[i * N + j]);
            M.re[i * N + i] = (1 + s) * ((rule == DD && (i & 1)) ? -1 : 1); M.im[i * N + i] = 0;
        }
    }
    return M;
}

template <class V> static std::shared_ptr<backend::crs<V, ptrdiff_t, ptrdiff_t>> to_crs(int n, uint64_t mask, const IntMat &M) {
    const int B = vt<V>::B; int N = M.N;
    auto A = std::make_shared<backend::crs<V, ptrdiff_t, ptrdiff_t>>();
    A->set_size(n, n, true);
    for (int i = 0; i < n; ++i) { int w = 0; for (int j = 0; j < n; ++j) w += mk::bit(mask, i * n + j); A->ptr[i + 1] = w; }
    A->set_nonzeros(A->scan_row_sizes());
    for (int i = 0; i < n; ++i) { ptrdiff_t h = A->ptr[i]; for (int j = 0; j < n; ++j) if (mk::bit(mask, i * n + j)) {
        A->col[h] = j; V v = math::zero<V>();
        for (int ii = 0; ii < B; ++ii) for (int jj = 0; jj < B; ++jj) vt<V>::set(v, ii, jj, M.re[(i * B + ii) * N + j * B + jj], M.im[(i * B + ii) * N + j * B + jj]);
        A->val[h] = v; ++h; } }
    return A;
}

// dyadic rationals with short numerators: every double operation on such values is exact
static inline bool dyadic(const Q &q) {
    auto d = boost::multiprecision::denominator(q); auto nmr = boost::multiprecision::numerator(q);
    if (d <= 0) return false;
    if ((d & (d - 1)) != 0) return false;
    return boost::multiprecision::msb(d) <= 20 && (nmr == 0 || boost::multiprecision::msb(nmr < 0 ? decltype(nmr)(-nmr) : nmr) <= 30);
}
static inline bool dyadic(const QC &q) { return dyadic(q.re) && dyadic(q.im); }

// ---- reference: block elimination without pivoting on the permuted unrolled matrix ---------
enum Verdict { SOLVABLE = 0, ZERO_PIVOT = 1, SINGULAR_BLOCK = 2 };
template <class F> struct Ref { Verdict v; int at; bool dyadic; Mat<F> L, U; };   // L unit lower, U upper (scalar case) of P A P^T
template <class F> static Ref<F> reference(const IntMat &M, int n, int B, const std::vector<int> &perm) {
    int N = M.N; Ref<F> R; R.v = SOLVABLE; R.at = -1; R.dyadic = true;
    Mat<F> W(N, N);
    for (int i = 0; i < N; ++i) for (int j = 0; j < N; ++j) { int oi = perm[i / B] * B + i % B, oj = perm[j / B] * B + j % B; W(i, j) = mkF((F*)0, M.re[oi * N + oj], M.im[oi * N + oj]); }
    R.L = Mat<F>(N, N); R.U = Mat<F>(N, N);
    for (int k = 0; k < n; ++k) {
        Mat<F> S(B, B); bool allz = true;
        for (int a = 0; a < B; ++a) for (int b = 0; b < B; ++b) { S(a, b) = W(k * B + a, k * B + b); allz &= is0(S(a, b)); }
        if (allz) { R.v = ZERO_PIVOT; R.at = k; return R; }
        Mat<F> I(B, B), Sinv; for (int a = 0; a < B; ++a) I(a, a) = F(1);
        if (!gj_solve(S, I, Sinv)) { R.v = SINGULAR_BLOCK; R.at = k; return R; }
        for (auto &q : Sinv.a) R.dyadic &= dyadic(q);
        for (int j = k * B; j < N; ++j) for (int c = 0; c < B; ++c) for (int b = 0; b < B; ++b) { F t = Sinv(b, c) * W(k * B + c, j); R.dyadic &= dyadic(t); }
        if (B == 1) { for (int j = k; j < N; ++j) R.U(k, j) = W(k, j); R.L(k, k) = F(1); }
        for (int i = k + 1; i < n; ++i) {
            Mat<F> Lik(B, B); bool z = true;
            for (int a = 0; a < B; ++a) for (int b = 0; b < B; ++b) { F s(0); for (int c = 0; c < B; ++c) s += W(i * B + a, k * B + c) * Sinv(c, b); Lik(a, b) = s; z &= is0(s); R.dyadic &= dyadic(s); }
            if (B == 1) R.L(i, k) = Lik(0, 0);
            if (z) continue;
            for (int a = 0; a < B; ++a) for (int j = k * B; j < N; ++j) { F s(0); for (int c = 0; c < B; ++c) s += Lik(a, c) * W(k * B + c, j); W(i * B + a, j) -= s; R.dyadic &= dyadic(W(i * B + a, j)) && dyadic(s); }
        }
    }
    return R;
}

static std::string lkey(const char *tn, int n, uint64_t mask, int rule) { return vf::KS() << "lu|" << tn << "|" << n << "|" << mask << "|" << rule; }

static std::string show_int(const IntMat &M, bool cplx) {
    std::ostringstream o; o << "[";
    for (int i = 0; i < M.N; ++i) { if (i) o << "; "; for (int j = 0; j < M.N; ++j) { o << (j ? " " : ""); if (!M.st[i * M.N + j]) o << "."; else { o << M.re[i * M.N + j]; if (cplx) o << (M.im[i * M.N + j] < 0 ? "" : "+") << M.im[i * M.N + j] << "i"; } } }
    o << "]"; return o.str();
}

template <class V>
static void lu_case(int n, uint64_t mask, int rule) {
    typedef typename vt<V>::F F;
    typedef typename math::rhs_of<V>::type R;
    const int B = vt<V>::B; const bool cplx = vt<V>::cplx; const char *tn = vt<V>::name();
    const int N = n * B;
    std::string key = lkey(tn, n, mask, rule);
    IntMat M = build(n, B, mask, rule, cplx);
    auto A = to_crs<V>(n, mask, M);
    // ordering the solver will use (the real cuthill_mckee), checked to be a permutation
    std::vector<int> perm(n, -1);
    reorder::cuthill_mckee<false>::get(*A, perm);
    { std::vector<int> seen(n, 0); bool ok = true; for (int p : perm) { if (p < 0 || p >= n || seen[p]++) ok = false; }
      if (!ok) { vf::fail("skyline_lu.ordering_is_permutation", key, "cuthill_mckee returned a non-permutation for A=" + show_int(M, cplx)); return; } }
    Ref<F> ref = reference<F>(M, n, B, perm);
    if (ref.v == SINGULAR_BLOCK) { vf::count(std::string("lu_skipped_singular_nonzero_block_pivot.") + tn); return; }
    // floating point: an exact zero pivot is reproduced exactly (and must be reported) when every intermediate
    // quantity of the elimination is a short dyadic rational; otherwise rounding may turn it into a tiny non-zero
    if (!vt<V>::exact && ref.v == ZERO_PIVOT && !ref.dyadic) { vf::count(std::string("lu_float_skipped_zero_pivot_not_exactly_reproducible.") + tn); return; }
    int offd = 0; for (int i = 0; i < n; ++i) for (int j = 0; j < n; ++j) if (i != j && mk::bit(mask, i * n + j)) ++offd;
    if (offd > 0) vf::nontrivial(vf::hstr(key));
    std::shared_ptr<solver::skyline_lu<V>> S;
    bool threw = false; std::string what;
    try { S = std::make_shared<solver::skyline_lu<V>>(*A); } catch (const std::exception &e) { threw = true; what = e.what(); }
    std::string desc = std::string("A=") + show_int(M, cplx) + " rule=" + rule_name(rule) + " perm=(";
    for (int i = 0; i < n; ++i) desc += (i ? "," : "") + std::to_string(perm[i]);
    desc += ")";
    if (ref.v == ZERO_PIVOT) {
        vf::count(std::string("lu_zero_pivot_cases.") + tn);
        if (!threw) vf::fail(std::string("skyline_lu.zero_pivot_exception[") + tn + "]", key, desc + ": elimination in the solver's ordering meets a zero pivot at step " + std::to_string(ref.at) + " but the constructor did not throw");
        return;
    }
    if (threw) { vf::fail(std::string("skyline_lu.unexpected_exception[") + tn + "]", key, desc + ": all pivots are invertible but the constructor threw: " + what); return; }
    vf::count(std::string("lu_solved_cases.") + tn);
    if (S->perm != perm) vf::fail("skyline_lu.ordering_differs", key, desc + ": solver's stored perm differs from cuthill_mckee<false>::get");
    // two right-hand sides, the first one solved twice (mutable work vector must not leak state)
    for (int rep = 0; rep < 3; ++rep) {
        int salt = (rep == 1) ? 3 : 0;
        std::vector<R> b(n), x(n);
        std::vector<int> bre(N), bim(N);
        for (int i = 0; i < N; ++i) { bre[i] = code(i, 1, salt) * (1 + i % 3); bim[i] = cplx ? code(2, i, salt) : 0; }
        for (int i = 0; i < n; ++i) for (int ii = 0; ii < B; ++ii) vt<V>::setr(b[i], ii, bre[i * B + ii], bim[i * B + ii]);
        (*S)(b, x);
        if constexpr (vt<V>::exact) {
            bool ok = true; int badrow = -1;
            for (int i = 0; i < N && ok; ++i) {
                F s(0);
                for (int j = 0; j < N; ++j) if (M.re[i * N + j] || M.im[i * N + j]) s += mkF((F*)0, M.re[i * N + j], M.im[i * N + j]) * F(vt<V>::get(x[j / B], j % B));
                if (!(s == mkF((F*)0, bre[i], bim[i]))) { ok = false; badrow = i; }
            }
            if (!ok) { std::ostringstream xs; for (int j = 0; j < N; ++j) xs << (j ? "," : "") << F(vt<V>::get(x[j / B], j % B));
                vf::fail(std::string(rep == 2 ? "skyline_lu.repeat_solve[" : "skyline_lu.exact_solution[") + tn + "]", key, desc + " rhs#" + std::to_string(rep) + ": (A x)[" + std::to_string(badrow) + "] != b; x=(" + xs.str() + ")"); break; }
        } else {
            // residual in the permuted ordering, long double
            typedef long double LD; typedef std::complex<LD> CLD;
            const LD u = cplx ? 5.66L * 0x1p-53L : 0x1p-53L;
            const int kk = 3 * n + 3; const LD gam = kk * u / (1 - kk * u);
            std::vector<CLD> xh(N); for (int j = 0; j < N; ++j) { std::complex<double> z = x[j]; xh[j] = CLD(z.real(), z.imag()); }
            bool finite = true; for (auto &z : xh) finite &= std::isfinite((double)z.real()) && std::isfinite((double)z.imag());
            if (!finite) { vf::fail(std::string("skyline_lu.backward_error[") + tn + "]", key, desc + ": non-finite solution"); break; }
            for (int i = 0; i < N; ++i) {
                int oi = perm[i];
                CLD r((LD)bre[oi], (LD)bim[oi]); LD evalerr = 0;
                for (int j = 0; j < N; ++j) { CLD a((LD)M.re[oi * N + j], (LD)M.im[oi * N + j]); r -= a * xh[j]; evalerr += std::abs(a) * std::abs(xh[j]); }
                // (|L||U||x|)_i with x in permuted order
                LD lux = 0;
                for (int j = 0; j < N; ++j) {
                    LD lu = 0;
                    for (int k = 0; k <= std::min(i, j); ++k) {
                        LD l, uu;
                        if constexpr (vt<V>::cplx) { l = std::sqrt((LD)(ref.L(i, k).re * ref.L(i, k).re + ref.L(i, k).im * ref.L(i, k).im).template convert_to<long double>()); uu = std::sqrt((LD)(ref.U(k, j).re * ref.U(k, j).re + ref.U(k, j).im * ref.U(k, j).im).template convert_to<long double>()); }
                        else { l = std::fabs(ref.L(i, k).template convert_to<long double>()); uu = std::fabs(ref.U(k, j).template convert_to<long double>()); }
                        lu += l * uu;
                    }
                    lux += lu * std::abs(xh[perm[j]]);
                }
                LD bound = 2 * gam * lux + 8 * N * 0x1p-63L * (evalerr + std::abs(CLD((LD)bre[oi], (LD)bim[oi])));
                if (!(std::abs(r) <= bound)) {
                    vf::fail(std::string("skyline_lu.backward_error[") + tn + "]", key, desc + " rhs#" + std::to_string(rep) + ": |b-Ax| in row " + std::to_string(oi) + " = " + std::to_string((double)std::abs(r)) + " exceeds 2*gamma_(3n+3)*(|L||U||x|) = " + std::to_string((double)bound));
                    break;
                }
            }
        }
    }
}

template <class V>
static void run_lu(int nmax_all, const std::vector<int> &rules, bool five_full_diag, const std::vector<int> &family_sizes) {
    const char *tn = vt<V>::name();
    for (int n = 1; n <= nmax_all; ++n) {
        for (uint64_t mask = 0; mask < (1ull << (n * n)); ++mask) for (int rule : rules) {
            if (rule == SYM && !mask_symmetric(n, mask)) continue;
            if (!vf::take([&]{ return lkey(tn, n, mask, rule); })) continue;
            lu_case<V>(n, mask, rule);
        }
        vf::space(vf::KS() << "skyline_lu " << tn << ": all " << n << "x" << n << " sparsity patterns x value rules");
    }
    if (five_full_diag) {
        const int n = 5; const int maxoff = vf::thorough() ? 14 : 6;
        for (uint64_t off = 0; off < (1ull << 20); ++off) {
            if (__builtin_popcountll(off) > maxoff) continue;
            uint64_t mask = 0; int b = 0;
            for (int i = 0; i < n; ++i) for (int j = 0; j < n; ++j) { if (i == j) mask |= 1ull << (i * n + j); else { if ((off >> b) & 1) mask |= 1ull << (i * n + j); ++b; } }
            for (int rule : {(int)DD, (int)GEN0}) {
                if (!vf::take([&]{ return lkey(tn, n, mask, rule); })) continue;
                lu_case<V>(n, mask, rule);
            }
        }
        vf::space(vf::KS() << "skyline_lu " << tn << ": all 5x5 patterns with stored diagonal and <= " << maxoff << " off-diagonal entries x {diag-dominant, general}");
    }
    for (int n : family_sizes) {
        // circulant family: row i has the template rotated by i (plus the diagonal); arrow, reverse arrow, two components, band
        std::vector<uint64_t> masks;
        for (uint64_t t = 0; t < (1ull << n); ++t) { uint64_t m = 0; for (int i = 0; i < n; ++i) for (int j = 0; j < n; ++j) if (i == j || ((t >> ((j - i + n) % n)) & 1)) m |= 1ull << (i * n + j); masks.push_back(m); }
        { uint64_t arrow = 0, rarrow = 0, two = 0, band = 0, lowerarrow = 0;
          for (int i = 0; i < n; ++i) for (int j = 0; j < n; ++j) {
              uint64_t bit = 1ull << (i * n + j);
              if (i == j || i == 0 || j == 0) arrow |= bit;
              if (i == j || i == n - 1 || j == n - 1) rarrow |= bit;
              if (i == j || ((i < n / 2) == (j < n / 2) && std::abs(i - j) == 1)) two |= bit;
              if (j - i <= 2 && i - j <= 1) band |= bit;
              if (i == j || j == 0 || (i == 0 && j == n - 1)) lowerarrow |= bit;
          }
          masks.push_back(arrow); masks.push_back(rarrow); masks.push_back(two); masks.push_back(band); masks.push_back(lowerarrow); }
        std::sort(masks.begin(), masks.end()); masks.erase(std::unique(masks.begin(), masks.end()), masks.end());
        for (uint64_t mask : masks) for (int rule : rules) {
            if (rule == SYM && !mask_symmetric(n, mask)) continue;
            if (!vf::take([&]{ return lkey(tn, n, mask, rule); })) continue;
            lu_case<V>(n, mask, rule);
        }
        vf::space(vf::KS() << "skyline_lu " << tn << ": " << n << "x" << n << " circulant-template patterns (all 2^" << n << " templates) + arrow / reverse arrow / two components / non-symmetric band x value rules");
    }
}

// ---- Cuthill-McKee permutation law ---------------------------------------------------------
template <bool REV> static bool cm_ok(int n, uint64_t mask, std::vector<int> &perm) {
    auto D = mk::from_mask<double>(n, n, mask, [](int, int) { return 1.0; });
    auto A = mk::to_crs<double>(D);
    perm.assign(n, -1);
    reorder::cuthill_mckee<REV>::get(*A, perm);
    std::vector<int> seen(n, 0);
    for (int p : perm) { if (p < 0 || p >= n || seen[p]++) return false; }
    return true;
}
static void run_cm() {
    // Every group of 1024 patterns runs in a forked child with a time limit: a wrong ordering routine may
    // loop forever or write out of bounds, which must be an observed outcome and not the end of the check.
    int nmax = vf::thorough() ? 5 : 4;
    for (int n = 1; n <= nmax; ++n) {
        uint64_t total = 1ull << (n * n), chunk = 1024;
        for (uint64_t base = 0; base < total; base += chunk) {
            if (!vf::take([&]{ return std::string(vf::KS() << "cm|" << n << "|" << base); })) continue;
            std::string key = vf::KS() << "cm|" << n << "|" << base;
            uint64_t end = std::min(total, base + chunk);
            fr::Result r = fr::run([&](fr::Out &out) {
                long long nonsym = 0; int nfail = 0;
                for (uint64_t mask = base; mask < end; ++mask) {
                    std::vector<int> perm;
                    for (int rev = 0; rev < 2; ++rev) {
                        bool ok = rev ? cm_ok<true>(n, mask, perm) : cm_ok<false>(n, mask, perm);
                        if (!ok && nfail++ < 5) { out << "F " << mask << " " << rev << " :"; for (int p : perm) out << " " << p; out << "\n"; }
                    }
                    if (!mask_symmetric(n, mask)) ++nonsym;
                }
                out << "C " << nonsym << " " << nfail << "\n";
            }, 60.0);
            if (n > 1) { vf::nontrivial(vf::hstr(key)); vf::count("cm_patterns_n_ge_2", (long long)(end - base)); }
            if (r.kind != fr::OK) { vf::fail("cuthill_mckee.crash_or_hang", key, vf::KS() << "n=" << n << " pattern masks " << base << ".." << end - 1 << ": child outcome " << r.kind_name() << " code " << r.code << " " << r.err.substr(0, 200)); continue; }
            std::istringstream is(r.text); std::string line;
            while (std::getline(is, line)) {
                if (line.size() && line[0] == 'F') { std::istringstream ls(line.substr(2)); uint64_t mask; int rev; ls >> mask >> rev; std::string rest; std::getline(ls, rest);
                    vf::fail(rev ? "cuthill_mckee.reverse.permutation" : "cuthill_mckee.permutation", key, vf::KS() << "n=" << n << " pattern mask=" << mask << " returned" << rest << " which is not a permutation of 0.." << n - 1); }
                if (line.size() && line[0] == 'C') { std::istringstream ls(line.substr(2)); long long nonsym; ls >> nonsym; vf::count("cm_structurally_nonsymmetric", nonsym); }
            }
        }
        vf::space(vf::KS() << "cuthill_mckee<false/true>: all " << n << "x" << n << " sparsity patterns");
    }
}

// ---- empty matrix (n = 0): forked, a crash is an observed outcome ---------------------------
static void run_empty() {
    if (!vf::take([&]{ return std::string("empty|0"); })) return;
    std::string key = "empty|0";
    fr::Result r = fr::run([&](fr::Out &out) {
        backend::crs<double, ptrdiff_t, ptrdiff_t> A; A.set_size(0, 0, true); A.set_nonzeros(0);
        std::vector<int> perm;
        reorder::cuthill_mckee<false>::get(A, perm);
        out << "perm.size=" << perm.size();
    }, 20.0);
    vf::count(std::string("empty_matrix_cuthill_mckee_outcome_") + r.kind_name());
    // n = 0 does occur: a per-process preconditioner on an MPI rank that owns no rows (see C12, block_preconditioner)
    if (r.kind != fr::OK || r.text != "perm.size=0") vf::fail("cuthill_mckee.empty_matrix", key, std::string("cuthill_mckee::get on a 0x0 matrix with an empty perm vector: outcome ") + r.kind_name() + " code " + std::to_string(r.code) + " " + r.text + " " + r.err.substr(0, 300));
    // the solver itself on the 0x0 matrix (no pivot exists, so nothing can be a zero pivot; the solution is the empty vector)
    fr::Result r2 = fr::run([&](fr::Out &out) {
        backend::crs<double, ptrdiff_t, ptrdiff_t> A; A.set_size(0, 0, true); A.set_nonzeros(0);
        solver::skyline_lu<double> S(A);
        std::vector<double> b, x; S(b, x);
        out << "solved";
    }, 20.0);
    vf::count(std::string("empty_matrix_skyline_lu_outcome_") + r2.kind_name());
    if (r2.kind != fr::OK || r2.text != "solved") vf::fail("skyline_lu.empty_matrix", key, std::string("skyline_lu on a 0x0 matrix: outcome ") + r2.kind_name() + " code " + std::to_string(r2.code) + " " + r2.text + " " + r2.err.substr(0, 300));
}

int main(int argc, char **argv) {
    vf::init(argc, argv, "C16");
    vf::sample_str("skyline_lu case: rational, A=" + show_int(build(4, 1, 0xB7DE, DD, false), false) + " (diag-dominant rule), b position-coded integers: A x == b exactly");
    vf::sample_str("zero-pivot case: rational, A=" + show_int(build(2, 1, 0xF, GEN0, false), false) + " style general small-integer matrices; exception expected iff elimination in the solver's ordering meets a zero pivot");
    if (vf::section("cm")) run_cm();
    if (vf::section("empty")) run_empty();
    bool ordering_broken = false;
    for (auto &kv : vf::S().viol_per_sub) if (kv.first.compare(0, 14, "cuthill_mckee.") == 0 && kv.first != "cuthill_mckee.empty_matrix") ordering_broken = true;
    if (ordering_broken && !vf::replaying()) vf::cap("skyline_lu cases not run in this shard: cuthill_mckee (called by the solver in-process) failed its own sub-check");
    if (vf::section("lu") && !ordering_broken) {
        std::vector<int> all = {DD, SYM, GEN0, GEN1, ZEROS};
        run_lu<Q>(4, all, true, {6, 7, 8});
        run_lu<double>(4, all, true, {6, 7, 8});
        run_lu<QC>(vf::thorough() ? 4 : 3, all, false, {6});
        if (vf::quick()) { // 4x4 for the Gaussian rationals in the quick tier: two rules
            for (uint64_t mask = 0; mask < 65536; ++mask) for (int rule : {(int)DD, (int)GEN0}) { if (!vf::take([&]{ return lkey(vt<QC>::name(), 4, mask, rule); })) continue; lu_case<QC>(4, mask, rule); }
            vf::space("skyline_lu gaussian_rational: all 4x4 patterns x {diag-dominant, general}");
        }
        run_lu<std::complex<double>>(4, all, false, {6});
        run_lu<QB2>(3, all, false, {});
        if (vf::thorough()) {
            for (uint64_t mask = 0; mask < 65536; ++mask) for (int rule : {(int)DD, (int)GEN0}) { if (!vf::take([&]{ return lkey(vt<QB2>::name(), 4, mask, rule); })) continue; lu_case<QB2>(4, mask, rule); }
            vf::space("skyline_lu rational_block2: all 4x4 block patterns x {diag-dominant, general}");
        }
    }
    return vf::finish();
}
