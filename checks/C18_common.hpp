// C18_common.hpp -- exact value type, dense reference algebra and the harness inner solvers
// that are plugged into amgcl's composite preconditioners as template arguments.
//
//   Q                      boost rational (expression templates off): every operation exact
//   Mat<V>, solve(), inv   dense reference algebra over a field
//   ExactSolver<B,Role>    "inner solver": records the matrix it is constructed with, solves with
//                          it exactly (Gauss-Jordan over V); called with a matrix-free operator it
//                          probes the operator with unit vectors and solves with the probed matrix
//   LinearPrecond<B,Role>  "recording preconditioner": records the matrix it is constructed with
//                          and applies a fixed, exactly representable linear map derived from it
#ifndef VERIF_C18_COMMON_HPP
#define VERIF_C18_COMMON_HPP

#include <vector>
#include <string>
#include <sstream>
#include <stdexcept>
#include <tuple>
#include <memory>
#include <boost/multiprecision/cpp_int.hpp>
#include <boost/property_tree/ptree.hpp>
#include <amgcl/backend/builtin.hpp>
#include <amgcl/value_type/interface.hpp>
#include <amgcl/util.hpp>
#include "vf.hpp"
#include "mk.hpp"

namespace c18 {
typedef boost::multiprecision::number<boost::multiprecision::cpp_rational_backend, boost::multiprecision::et_off> Q;
}
namespace amgcl { namespace math {
template <> struct norm_impl<c18::Q> { static c18::Q get(const c18::Q &x) { return x < 0 ? c18::Q(-x) : x; } };
} }

namespace c18 {

struct Singular : std::runtime_error { Singular(const std::string &w) : std::runtime_error(w) {} };

template <class V> struct Mat {
    int m = 0, n = 0; std::vector<V> a;
    Mat() {}
    Mat(int m, int n) : m(m), n(n), a((size_t)m * n, V(0)) {}
    V& operator()(int i, int j) { return a[(size_t)i * n + j]; }
    const V& operator()(int i, int j) const { return a[(size_t)i * n + j]; }
};
template <class V> Mat<V> mul(const Mat<V> &A, const Mat<V> &B) {
    Mat<V> C(A.m, B.n);
    for (int i = 0; i < A.m; ++i) for (int k = 0; k < A.n; ++k) { if (A(i, k) == V(0)) continue; for (int j = 0; j < B.n; ++j) C(i, j) += A(i, k) * B(k, j); }
    return C;
}
template <class V> Mat<V> sub(const Mat<V> &A, const Mat<V> &B) { Mat<V> C = A; for (size_t i = 0; i < C.a.size(); ++i) C.a[i] -= B.a[i]; return C; }
template <class V> std::vector<V> mulv(const Mat<V> &A, const std::vector<V> &x) {
    std::vector<V> y(A.m, V(0));
    for (int i = 0; i < A.m; ++i) for (int j = 0; j < A.n; ++j) y[i] += A(i, j) * x[j];
    return y;
}
template <class V> bool same(const Mat<V> &A, const Mat<V> &B) { return A.m == B.m && A.n == B.n && A.a == B.a; }
template <class V> std::string show(const Mat<V> &A) {
    std::ostringstream o; o << "[";
    for (int i = 0; i < A.m; ++i) { if (i) o << "; "; for (int j = 0; j < A.n; ++j) o << (j ? " " : "") << A(i, j); }
    o << "]"; return o.str();
}
template <class V> std::string showv(const std::vector<V> &v) { std::ostringstream o; o << "["; for (size_t i = 0; i < v.size(); ++i) o << (i ? " " : "") << v[i]; o << "]"; return o.str(); }

// Gauss-Jordan over a field (first non-zero pivot).  A X = B.  false if singular.
template <class V> bool gj(Mat<V> A, Mat<V> B, Mat<V> &X) {
    int n = A.m;
    for (int c = 0; c < n; ++c) {
        int p = -1; for (int r = c; r < n; ++r) if (!(A(r, c) == V(0))) { p = r; break; }
        if (p < 0) return false;
        if (p != c) { for (int j = 0; j < n; ++j) std::swap(A(p, j), A(c, j)); for (int j = 0; j < B.n; ++j) std::swap(B(p, j), B(c, j)); }
        V d = A(c, c);
        for (int j = 0; j < n; ++j) A(c, j) /= d; for (int j = 0; j < B.n; ++j) B(c, j) /= d;
        for (int r = 0; r < n; ++r) if (r != c && !(A(r, c) == V(0))) {
            V f = A(r, c);
            for (int j = 0; j < n; ++j) A(r, j) -= f * A(c, j);
            for (int j = 0; j < B.n; ++j) B(r, j) -= f * B(c, j);
        }
    }
    X = B; return true;
}
template <class V> bool inverse(const Mat<V> &A, Mat<V> &Ai) { Mat<V> I(A.m, A.m); for (int i = 0; i < A.m; ++i) I(i, i) = V(1); return gj(A, I, Ai); }
template <class V> bool solvev(const Mat<V> &A, const std::vector<V> &b, std::vector<V> &x) {
    Mat<V> B(A.m, 1), X; for (int i = 0; i < A.m; ++i) B(i, 0) = b[i];
    if (!gj(A, B, X)) return false;
    x.resize(A.m); for (int i = 0; i < A.m; ++i) x[i] = X(i, 0); return true;
}

template <class V, class M> Mat<V> dense_of(const M &A) {
    Mat<V> D((int)amgcl::backend::rows(A), (int)amgcl::backend::cols(A));
    for (int i = 0; i < D.m; ++i) for (auto a = amgcl::backend::row_begin(A, i); a; ++a) D(i, (int)a.col()) += a.value();
    return D;
}

struct AnyParams {
    AnyParams() {}
    AnyParams(const boost::property_tree::ptree&) {}
    void get(boost::property_tree::ptree&, const std::string&) const {}
};

// ------------------------------------------------------------------------------------------
template <class Backend, int Role>
class ExactSolver {
    public:
        typedef Backend backend_type;
        typedef typename Backend::value_type value_type;
        typedef typename Backend::matrix matrix;
        typedef typename Backend::vector vector;
        typedef typename Backend::params backend_params;
        typedef typename amgcl::backend::builtin<value_type>::matrix build_matrix;
        typedef typename amgcl::math::scalar_of<value_type>::type scalar_type;
        typedef AnyParams params;

        std::shared_ptr<build_matrix> A;        // the matrix this solver was given
        Mat<value_type> Ad;
        mutable Mat<value_type> probed;          // last matrix-free operator, probed column by column
        mutable long direct_calls = 0, matrixfree_calls = 0;

        template <class Matrix>
        ExactSolver(const Matrix &M, const params& = params(), const backend_params& = backend_params())
            : A(std::make_shared<build_matrix>(M)), Ad(dense_of<value_type>(*A)) {}

        template <class Vec1, class Vec2>
        std::tuple<size_t, scalar_type> operator()(const Vec1 &rhs, Vec2 &&x) const {
            ++direct_calls;
            solve_with(Ad, rhs, x);
            return std::make_tuple((size_t)1, scalar_type(0));
        }
        template <class Op, class Vec1, class Vec2>
        std::tuple<size_t, scalar_type> operator()(const Op &S, const Vec1 &rhs, Vec2 &&x) const {
            ++matrixfree_calls;
            int n = (int)rhs.size();
            probed = Mat<value_type>(n, n);
            vector e(n), col(n);
            for (int j = 0; j < n; ++j) {
                for (int i = 0; i < n; ++i) { e[i] = value_type(i == j ? 1 : 0); col[i] = value_type(12345); }
                amgcl::backend::spmv(amgcl::math::identity<scalar_type>(), S, e, amgcl::math::zero<scalar_type>(), col);
                for (int i = 0; i < n; ++i) probed(i, j) = col[i];
            }
            // the operator's contract is y = beta y + alpha S x for EVERY alpha, beta (iterative pressure solvers form
            // residuals with alpha = -1, beta = 1): checked exactly against the probed S, and through backend::residual
            if (op_mismatch.empty()) {
                static const int AB[5][4] = {{-1, 1, 1, 1}, {2, 1, -1, 1}, {0, 1, 1, 1}, {-1, 1, 0, 1}, {1, 2, 2, 1}};   // alpha = a0/a1, beta = a2/a3
                vector xv(n), y(n), f(n);
                for (int i = 0; i < n; ++i) { xv[i] = value_type((i % 2 ? -1 : 1) * (i + 2)); f[i] = value_type(3 * i - 4); }
                for (int k = 0; k < 5 && op_mismatch.empty(); ++k) {
                    scalar_type al = scalar_type(AB[k][0]) / scalar_type(AB[k][1]), be = scalar_type(AB[k][2]) / scalar_type(AB[k][3]);
                    for (int i = 0; i < n; ++i) y[i] = value_type(7 - 2 * i);
                    amgcl::backend::spmv(al, S, xv, be, y);
                    for (int i = 0; i < n && op_mismatch.empty(); ++i) {
                        value_type w = be * value_type(7 - 2 * i);
                        for (int j = 0; j < n; ++j) w += al * probed(i, j) * xv[j];
                        if (!(y[i] == w)) { std::ostringstream os; os << "spmv(alpha=" << al << ", S, x, beta=" << be << ", y): component " << i << " is " << y[i] << ", beta*y + alpha*S*x = " << w; op_mismatch = os.str(); }
                    }
                }
                if (op_mismatch.empty()) {
                    amgcl::backend::residual(f, S, xv, y);
                    for (int i = 0; i < n && op_mismatch.empty(); ++i) {
                        value_type w = f[i];
                        for (int j = 0; j < n; ++j) w -= probed(i, j) * xv[j];
                        if (!(y[i] == w)) { std::ostringstream os; os << "residual(f, S, x, r): component " << i << " is " << y[i] << ", f - S*x = " << w; op_mismatch = os.str(); }
                    }
                }
                ++op_checks;
            }
            solve_with(probed, rhs, x);
            return std::make_tuple((size_t)1, scalar_type(0));
        }
        mutable std::string op_mismatch; mutable long op_checks = 0;
        template <class Vec1, class Vec2> void apply(const Vec1 &rhs, Vec2 &&x) const { ++direct_calls; solve_with(Ad, rhs, x); }
        const matrix& system_matrix() const { return *A; }
        std::shared_ptr<matrix> system_matrix_ptr() const { return A; }
        size_t bytes() const { return 0; }
        friend std::ostream& operator<<(std::ostream &os, const ExactSolver&) { return os << "exact dense solver (harness)"; }
    private:
        template <class Vec1, class Vec2>
        static void solve_with(const Mat<value_type> &M, const Vec1 &rhs, Vec2 &x) {
            std::vector<value_type> b(rhs.size()), y;
            for (size_t i = 0; i < b.size(); ++i) b[i] = rhs[i];
            if (!solvev(M, b, y)) throw Singular("harness: singular matrix given to the exact inner solver");
            for (size_t i = 0; i < y.size(); ++i) x[i] = y[i];
        }
};

} // namespace c18
#endif
