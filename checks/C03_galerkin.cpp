// C03 -- every coarse level is the (re-scaled) Galerkin product; rebuild keeps it so.
//
// static part : enumerate matrices x coarsening parameters x amg parameters x SpGEMM algorithm
//               (fiber OpenMP shim, max_threads 1 -> saad, 17 -> rmerge); a recording coarsening
//               rec<> (the Coarsening template argument of amgcl::amg) logs every (A,P,R) returned
//               by transfer_operators and every coarse_operator call; the private level list is read
//               with -fno-access-control and cross-checked against the log.
// history part: layered breadth-first search over rebuild/apply histories on one live amg object;
//               state = canonical dump of all level matrices + action on all unit vectors; equal
//               states are merged; every state is compared with a freshly constructed amg over a
//               replaying coarsening that hands out the recorded P,R.
#include <utility>
#include <amgcl/backend/builtin.hpp>
#include <amgcl/amg.hpp>
#include <amgcl/coarsening/runtime.hpp>
#include <amgcl/relaxation/runtime.hpp>
#include <boost/property_tree/ptree.hpp>
#include <map>
#include <set>
#include <limits>
#include "vf.hpp"
#include "mk.hpp"
#include "vsched.hpp"
#include "C03_fam.hpp"

// Note: hierarchies in which some level has a row without a negative off-diagonal entry are counted
// (rs_level_with_row_without_negative_offdiag): ruge_stuben::connect used to read uninitialised strength flags for
// such rows (repaired in /repo by 4fe3727); they are ordinary inputs here (two decoupled pairs give a diagonal coarse matrix).

typedef amgcl::backend::builtin<double> Backend;
typedef Backend::matrix Crs;
// The build-format copies kept for rebuild() are private members of amg::level: read them when they exist (a refactoring that
// drops or renames one must not stop this check from compiling -- the behavioural oracles below do not depend on them).
template <class L> auto lvl_bP(const L &l, int) -> decltype(l.bP) { return l.bP; }
template <class L> std::shared_ptr<Crs> lvl_bP(const L &, long) { return std::shared_ptr<Crs>(); }
template <class L> auto lvl_bR(const L &l, int) -> decltype(l.bR) { return l.bR; }
template <class L> std::shared_ptr<Crs> lvl_bR(const L &, long) { return std::shared_ptr<Crs>(); }
template <class L> constexpr auto has_bP(int) -> decltype((void)std::declval<const L&>().bP, true) { return true; }
template <class L> constexpr bool has_bP(long) { return false; }
template <class L> constexpr auto has_bR(int) -> decltype((void)std::declval<const L&>().bR, true) { return true; }
template <class L> constexpr bool has_bR(long) { return false; }
typedef boost::property_tree::ptree ptree;
typedef mk::Dense<double> DD;

// ---------------------------------------------------------------------------------------------
// recording / replaying coarsenings
// ---------------------------------------------------------------------------------------------
struct Ev {
    int kind;                                 // 0: transfer_operators returned, 1: it threw empty_level, 2: coarse_operator
    std::shared_ptr<Crs> A, P, R, Ac;         // deep copies taken at the call
};
struct Log { std::vector<Ev> ev; };
static Log *g_log = nullptr;
static std::shared_ptr<Crs> clone(const Crs &m) { return std::make_shared<Crs>(m); }

template <class B>
struct rec {
    typedef amgcl::runtime::coarsening::wrapper<B> Base;
    typedef typename Base::params params;
    Base base;
    rec(const params &p = params()) : base(p) {}

    template <class M>
    std::tuple<std::shared_ptr<M>, std::shared_ptr<M>> transfer_operators(const M &A) {
        try {
            auto pr = base.transfer_operators(A);
            if (g_log) g_log->ev.push_back(Ev{0, clone(A), clone(*std::get<0>(pr)), clone(*std::get<1>(pr)), nullptr});
            return pr;
        } catch (const amgcl::error::empty_level&) {
            if (g_log) g_log->ev.push_back(Ev{1, clone(A), nullptr, nullptr, nullptr});
            throw;
        }
    }
    template <class M>
    std::shared_ptr<M> coarse_operator(const M &A, const M &P, const M &R) const {
        auto Ac = base.coarse_operator(A, P, R);
        if (g_log) g_log->ev.push_back(Ev{2, clone(A), clone(P), clone(R), clone(*Ac)});
        return Ac;
    }
};

struct ReplaySrc { const std::vector<Ev> *ev = nullptr; size_t next = 0; bool overrun = false; bool shape_mismatch = false; };
static ReplaySrc g_rep;

template <class B>
struct replay {
    typedef amgcl::runtime::coarsening::wrapper<B> Base;
    typedef typename Base::params params;
    Base base;
    replay(const params &p = params()) : base(p) {}

    template <class M>
    std::tuple<std::shared_ptr<M>, std::shared_ptr<M>> transfer_operators(const M &A) {
        const std::vector<Ev> &ev = *g_rep.ev;
        while (g_rep.next < ev.size() && ev[g_rep.next].kind == 2) ++g_rep.next;
        if (g_rep.next >= ev.size()) { g_rep.overrun = true; throw amgcl::error::empty_level(); }
        const Ev &e = ev[g_rep.next++];
        if (e.A->nrows != A.nrows) g_rep.shape_mismatch = true;
        if (e.kind == 1) throw amgcl::error::empty_level();
        return std::make_tuple(clone(*e.P), clone(*e.R));
    }
    template <class M>
    std::shared_ptr<M> coarse_operator(const M &A, const M &P, const M &R) const {
        return base.coarse_operator(A, P, R);
    }
};

typedef amgcl::amg<Backend, rec, amgcl::runtime::relaxation::wrapper> RecAMG;
typedef amgcl::amg<Backend, replay, amgcl::runtime::relaxation::wrapper> RepAMG;

// ---------------------------------------------------------------------------------------------
// configuration tables
// ---------------------------------------------------------------------------------------------
struct Coars { const char *name; const char *type; double over_interp; ptree p; bool adjoint_claimed; };
static std::vector<Coars> coarsenings() {
    std::vector<Coars> v;
    auto mk_ = [&](const char *name, const char *type, double oi, std::initializer_list<std::pair<const char*, const char*>> kv, bool adj) {
        Coars c{name, type, oi, ptree(), adj};
        c.p.put("type", type);
        for (auto &x : kv) c.p.put(x.first, x.second);
        v.push_back(c);
    };
    mk_("agg",        "aggregation", 1.5, {}, true);                                           // default over_interp = 1.5
    mk_("agg_oi2",    "aggregation", 2.0, {{"over_interp", "2"}}, true);
    mk_("agg_oi1_e",  "aggregation", 1.0, {{"over_interp", "1"}, {"aggr.eps_strong", "0.3"}}, true);
    mk_("agg_oi05",   "aggregation", 0.5, {{"over_interp", "0.5"}}, true);                     // a factor below one is a valid parameter value too
    mk_("sa",         "smoothed_aggregation", 0, {}, true);
    mk_("sa_rho",     "smoothed_aggregation", 0, {{"relax", "0.5"}, {"estimate_spectral_radius", "true"}, {"power_iters", "0"}}, true);
    mk_("sa_pow",     "smoothed_aggregation", 0, {{"estimate_spectral_radius", "true"}, {"power_iters", "3"}, {"aggr.eps_strong", "0"}}, true);
    mk_("emin",       "smoothed_aggr_emin", 0, {}, false);
    mk_("rs",         "ruge_stuben", 0, {}, true);
    mk_("rs_notrunc", "ruge_stuben", 0, {{"do_trunc", "false"}, {"eps_strong", "0.5"}}, true);
    return v;
}

struct AmgV { const char *name; int ce_mode; /* 0: fixed, 1: n/3 */ unsigned coarse_enough; unsigned max_levels; bool direct_coarse; bool byptr; bool allow_rebuild; };
static const unsigned INF = std::numeric_limits<unsigned>::max();
static std::vector<AmgV> amg_variants() {
    return {
        {"ce1_direct",      0, 1,    INF, true,  false, true},
        {"ce2_relax",       0, 2,    INF, false, true,  true},
        {"ce_n3_ml2",       1, 0,    2,   true,  true,  true},
        {"ce1_ml3_relax",   0, 1,    3,   false, false, true},
        {"single_direct",   0, 3000, INF, true,  true,  true},
        {"single_relax",    0, 1,    1,   true,  false, true},
    };
}
static const char *relax_names[] = {"spai0", "gauss_seidel", "ilu0", "damped_jacobi", "chebyshev", "iluk", "ilup", "ilut", "spai1"};

struct Cfg {
    Coars c; AmgV a; const char *relax; int nt;
    unsigned npre = 1, npost = 1, ncycle = 1, pre_cycles = 1;
};

template <class AMG>
static typename AMG::params make_params(const Cfg &cfg, int n) {
    typename AMG::params p;
    p.coarsening = cfg.c.p;
    p.relax.put("type", cfg.relax);
    p.coarse_enough = cfg.a.ce_mode == 1 ? std::max(1, n / 3) : cfg.a.coarse_enough;
    p.max_levels = cfg.a.max_levels;
    p.direct_coarse = cfg.a.direct_coarse;
    p.allow_rebuild = cfg.a.allow_rebuild;
    p.npre = cfg.npre; p.npost = cfg.npost; p.ncycle = cfg.ncycle; p.pre_cycles = cfg.pre_cycles;
    return p;
}

static void set_threads(int nt) {
    vs::cfg().max_threads = nt;
    vs::cfg().prefix.clear();
    vs::begin_execution();
}

// ---------------------------------------------------------------------------------------------
// helpers: dense views, bitwise comparison, Galerkin oracle
// ---------------------------------------------------------------------------------------------
static bool to_dense(const Crs &M, DD &out, bool sorted, std::string &err) {
    err = mk::from_crs(M, out, sorted);
    return err.empty();
}
static bool same_matrix(const Crs &X, const Crs &Y, std::string &why) {   // equal as matrices (structure + bit-identical values), any column order
    DD a, b; std::string e;
    if (!to_dense(X, a, false, e)) { why = "first: " + e; return false; }
    if (!to_dense(Y, b, false, e)) { why = "second: " + e; return false; }
    return mk::same(a, b, why);
}
static bool same_dense_crs(const DD &X, const Crs &Y, std::string &why) {
    DD b; std::string e;
    if (!to_dense(Y, b, false, e)) { why = e; return false; }
    return mk::same(b, X, why);
}
static void put_bytes(std::string &s, const void *p, size_t n) { s.append((const char*)p, n); }
static void put_crs(std::string &s, const char *tag, const std::shared_ptr<Crs> &m) {
    s += tag;
    if (!m) { s += "-;"; return; }
    s += "+";
    size_t d[3] = {m->nrows, m->ncols, m->nnz};
    put_bytes(s, d, sizeof d);
    if (m->nrows) put_bytes(s, m->ptr, sizeof(m->ptr[0]) * (m->nrows + 1));
    put_bytes(s, m->col, sizeof(m->col[0]) * m->nnz);
    put_bytes(s, m->val, sizeof(m->val[0]) * m->nnz);
    s += ";";
}

// canonical dump of the private level list (m_nonzeros is reporting-only and not part of the state)
template <class AMG>
static void dump_levels(const AMG &a, std::vector<std::string> &out, std::vector<std::string> &xfer) {
    for (const auto &l : a.levels) {
        std::string s, t;
        size_t r = l.m_rows; put_bytes(s, &r, sizeof r);
        s += l.solve ? 'S' : 's'; s += l.relax ? 'R' : 'r';
        put_crs(s, "A", l.A);
        put_crs(t, "P", l.P); put_crs(t, "R", l.R); put_crs(t, "bP", lvl_bP(l, 0)); put_crs(t, "bR", lvl_bR(l, 0));
        out.push_back(s + t);
        xfer.push_back(t);
    }
}

struct Obs {
    std::vector<std::string> levels;      // one canonical dump per level
    std::vector<std::string> xfer;        // the transfer-operator part of each level dump (contained in levels)
    std::vector<double> B;                // action: columns apply(e_j), j = 0..n-1, then apply(ramp)
    std::string exc;                      // non-empty: an exception escaped while observing / building
    bool operator==(const Obs &o) const {
        return exc == o.exc && levels == o.levels && B.size() == o.B.size() &&
               (B.empty() || std::memcmp(B.data(), o.B.data(), B.size() * sizeof(double)) == 0);
    }
    std::string key() const {
        std::string s = exc; s += '|';
        for (auto &l : levels) { s += l; s += '#'; }
        put_bytes(s, B.data(), B.size() * sizeof(double));
        return s;
    }
};

static std::vector<double> ramp(int n) { std::vector<double> f(n); for (int i = 0; i < n; ++i) f[i] = 1 + i % 5; return f; }

template <class AMG>
static Obs observe(const AMG &a, int n) {
    Obs o;
    dump_levels(a, o.levels, o.xfer);
    try {
        std::vector<double> f(n, 0.0), x(n);
        // all unit vectors (the whole operator); under the 17-fiber team every parallel region costs ~70 context
        // switches, so there only e_0, e_{n/2}, e_{n-1} (and the ramp) are applied -- the level dump is complete either way
        for (int j = 0; j < n; ++j) {
            if (vs::cfg().max_threads > 1 && !(j == 0 || j == n / 2 || j == n - 1)) continue;
            f[j] = 1; vs::begin_execution(); a.apply(f, x); f[j] = 0;
            o.B.insert(o.B.end(), x.begin(), x.end());
        }
        f = ramp(n); vs::begin_execution(); a.apply(f, x);
        o.B.insert(o.B.end(), x.begin(), x.end());
    } catch (const std::exception &e) { o.exc = std::string("apply threw: ") + e.what(); }
    return o;
}

static std::string diff_obs(const Obs &got, const Obs &want) {
    vf::KS s;
    if (got.exc != want.exc) { s << "exception '" << got.exc << "' vs '" << want.exc << "'"; return s; }
    if (got.levels.size() != want.levels.size()) { s << "levels " << got.levels.size() << " vs " << want.levels.size(); return s; }
    for (size_t k = 0; k < got.levels.size(); ++k) if (got.levels[k] != want.levels[k]) { s << "level " << k << " dump differs"; return s; }
    for (size_t i = 0; i < got.B.size() && i < want.B.size(); ++i)
        if (std::memcmp(&got.B[i], &want.B[i], sizeof(double)) != 0) {
            s << "action differs first at entry " << i << " of the column-major probe results: " << std::setprecision(17) << got.B[i] << " vs " << want.B[i];
            return s;
        }
    return "equal";
}

// Galerkin oracle.  ref = R*(A*P) in long double, S = |R|(|A||P|).
// Each entry of fl(A*P) is a sum of at most kA products: error <= gamma_kA |A||P|; the second product adds
// gamma_kR; any summation order (saad marker order, rmerge merge tree) is covered by these bounds.
// bound = (kA + kR + 4) u S  (+ one rounding for the scaling, + 2^-24 |ref| when 1/over_interp is inexact in float:
// the factor is formed as `1 / prm.over_interp` in float, coarsening/aggregation.hpp:155).
struct Gal { bool ok = true, exact_checked = false, exact_ok = true, nonfinite = false; std::string why; };
static Gal galerkin_check(const Crs &A, const Crs &P, const Crs &R, const Crs &Ac, double over_interp) {
    Gal g;
    int n = (int)A.nrows, nc = (int)P.ncols;
    if ((int)P.nrows != n || (int)R.ncols != n || (int)R.nrows != nc || (int)A.ncols != n) { g.ok = false; g.why = "operand shapes inconsistent"; return g; }
    DD dAc; std::string err;
    if (!to_dense(Ac, dAc, false, err)) { g.ok = false; g.why = "coarse matrix malformed: " + err; return g; }
    if (dAc.m != nc || dAc.n != nc) { g.ok = false; g.why = "coarse matrix shape"; return g; }
    std::vector<long double> AP((size_t)n * nc, 0), SAP((size_t)n * nc, 0), ref((size_t)nc * nc, 0), S((size_t)nc * nc, 0);
    size_t kA = 0, kR = 0;
    bool ints = true;
    auto isint = [](double v) { return v == std::floor(v) && std::fabs(v) < 1048576.0; };
    for (int i = 0; i < n; ++i) {
        kA = std::max<size_t>(kA, A.ptr[i + 1] - A.ptr[i]);
        for (auto ja = A.ptr[i]; ja < A.ptr[i + 1]; ++ja) {
            int k = (int)A.col[ja]; long double a = A.val[ja]; ints &= isint(A.val[ja]);
            for (auto jp = P.ptr[k]; jp < P.ptr[k + 1]; ++jp) {
                AP[(size_t)i * nc + P.col[jp]] += a * (long double)P.val[jp];
                SAP[(size_t)i * nc + P.col[jp]] += fabsl(a * (long double)P.val[jp]);
            }
        }
    }
    for (size_t j = 0; j < P.nnz; ++j) ints &= isint(P.val[j]);
    for (int i = 0; i < nc; ++i) {
        kR = std::max<size_t>(kR, R.ptr[i + 1] - R.ptr[i]);
        for (auto jr = R.ptr[i]; jr < R.ptr[i + 1]; ++jr) {
            int k = (int)R.col[jr]; long double r = R.val[jr]; ints &= isint(R.val[jr]);
            for (int c = 0; c < nc; ++c) {
                ref[(size_t)i * nc + c] += r * AP[(size_t)k * nc + c];
                S[(size_t)i * nc + c] += fabsl(r) * SAP[(size_t)k * nc + c];
            }
        }
    }
    const long double u = ldexpl(1.0L, -53);
    long double gamma = (long double)(kA + kR + 4) * u;
    float sf = 1; bool float_inexact = false;
    if (over_interp > 0) {
        sf = 1 / (float)over_interp;
        float_inexact = ((long double)sf * (long double)(float)over_interp != 1.0L);
    }
    for (int i = 0; i < nc; ++i) for (int c = 0; c < nc; ++c) {
        long double r = ref[(size_t)i * nc + c], s = S[(size_t)i * nc + c];
        if (over_interp > 0) { r /= (long double)(float)over_interp; s /= (long double)(float)over_interp; }
        long double bound = gamma * s + (float_inexact ? ldexpl(1.0L, -24) * fabsl(r) : 0.0L);
        long double got = dAc.st(i, c) ? (long double)dAc(i, c) : 0.0L;
        if (std::isnan((double)r) || std::isinf((double)s)) {   // non-finite transfer operators: the product is non-finite as well
            g.nonfinite = true;
            if (std::isfinite((double)got)) { g.ok = false; g.why = vf::KS() << "coarse(" << i << "," << c << ") = " << (double)got << " but R*A*P is not finite"; return g; }
            continue;
        }
        if (!(fabsl(got - r) <= bound)) {
            g.ok = false;
            g.why = vf::KS() << "coarse(" << i << "," << c << ") = " << std::setprecision(17) << (double)got << " but R*A*P" << (over_interp > 0 ? "/over_interp" : "")
                             << " = " << (double)r << " (allowed deviation " << (double)bound << ")";
            return g;
        }
    }
    if (ints) {   // integer operands: the product is exact, the stored value must be fl(RAP * (double)(1.0f/over_interp))
        g.exact_checked = true;
        for (int i = 0; i < nc; ++i) for (int c = 0; c < nc; ++c) {
            double want = (double)ref[(size_t)i * nc + c];
            if (over_interp > 0) want *= sf;
            double got = dAc.st(i, c) ? dAc(i, c) : 0.0;
            if (got != want) { g.exact_ok = false; g.why = vf::KS() << "integer operands: coarse(" << i << "," << c << ") = " << std::setprecision(17) << got << " expected exactly " << want; return g; }
        }
    }
    return g;
}

// ---------------------------------------------------------------------------------------------
// one case
// ---------------------------------------------------------------------------------------------
struct Case {
    std::string key;
    std::set<std::string> failed;         // sub-checks already reported for this case
    void fail(const std::string &sub, const std::string &detail) {
        if (failed.insert(sub).second) vf::fail(sub, key, detail);
    }
};

struct MatDesc { std::string id; DD d; };

// checks tying the recorder log of one build / rebuild to the private level list and to the Galerkin oracle.
//   transfers: the kind-0/1 events of the INITIAL build (transfer operators must stay those)
template <class AMG>
static void check_levels_against_log(Case &cs, const char *phase, const AMG &a, const std::vector<Ev> &ev,
                                     const std::vector<const Ev*> &initial_transfers, const DD &Mi, const Cfg &cfg, bool is_rebuild)
{
    std::string ph = phase, why;
    std::vector<const typename AMG::level*> lv;
    for (const auto &l : a.levels) lv.push_back(&l);
    if (lv.empty()) { cs.fail(ph + ".levels.none", "hierarchy has no level"); return; }

    // finest level matrix is the matrix handed in
    if (lv[0]->A) { if (!same_dense_crs(Mi, *lv[0]->A, why)) cs.fail(ph + ".finest_is_input", why); }
    else cs.fail(ph + ".finest_is_input", "finest level has no matrix");

    // sizes strictly decrease; last level direct iff rows <= coarse_enough && direct_coarse; others smoothed
    for (size_t k = 0; k + 1 < lv.size(); ++k) {
        if (!(lv[k + 1]->m_rows < lv[k]->m_rows)) cs.fail(ph + ".sizes.strictly_decrease", vf::KS() << "level " << k << " rows " << lv[k]->m_rows << " -> level " << k + 1 << " rows " << lv[k + 1]->m_rows);
        if (!lv[k]->relax || lv[k]->solve) cs.fail(ph + ".levels.inner_level_smoothed", vf::KS() << "inner level " << k << " relax=" << (bool)lv[k]->relax << " solve=" << (bool)lv[k]->solve);
        if (!lv[k]->P || !lv[k]->R) cs.fail(ph + ".levels.inner_level_has_transfer", vf::KS() << "level " << k);
    }
    {
        const auto *last = lv.back();
        unsigned ce = cfg.a.ce_mode == 1 ? std::max(1, Mi.m / 3) : cfg.a.coarse_enough;
        bool want_direct = last->m_rows <= ce && cfg.a.direct_coarse;
        if ((bool)last->solve != want_direct || (bool)last->relax == want_direct)
            cs.fail(ph + ".coarse.direct_iff", vf::KS() << "last level rows " << last->m_rows << " coarse_enough " << ce << " direct_coarse " << cfg.a.direct_coarse
                    << " but solve=" << (bool)last->solve << " relax=" << (bool)last->relax);
        vf::count(last->solve ? "last_level_direct" : "last_level_smoother");
    }

    // walk the log
    size_t k = 0;                                  // level index the next coarse_operator event belongs to
    const Ev *pending_transfer = nullptr;
    size_t n_coarse = 0;
    for (const Ev &e : ev) {
        if (e.kind == 0) { pending_transfer = &e; continue; }
        if (e.kind == 1) { pending_transfer = nullptr; continue; }
        ++n_coarse;
        if (k >= lv.size()) { cs.fail(ph + ".log.more_coarse_operators_than_levels", vf::KS() << n_coarse); break; }
        const auto *l = lv[k];
        // operands of the coarse operator: level matrix and (unchanged) transfer operators
        if (l->A && !same_matrix(*e.A, *l->A, why)) cs.fail(ph + ".galerkin.operand_is_level_matrix", vf::KS() << "level " << k << ": " << why);
        if (!is_rebuild && pending_transfer) {
            if (!same_matrix(*pending_transfer->A, *e.A, why)) cs.fail(ph + ".log.transfer_and_coarse_see_same_matrix", vf::KS() << "level " << k << ": " << why);
            if (!same_matrix(*pending_transfer->P, *e.P, why)) cs.fail(ph + ".log.P_passed_on", vf::KS() << "level " << k << ": " << why);
            if (!same_matrix(*pending_transfer->R, *e.R, why)) cs.fail(ph + ".log.R_passed_on", vf::KS() << "level " << k << ": " << why);
        }
        if (k < initial_transfers.size() && initial_transfers[k]->kind == 0) {
            if (!same_matrix(*initial_transfers[k]->P, *e.P, why)) cs.fail(ph + ".transfer.P_unchanged", vf::KS() << "level " << k << ": " << why);
            if (!same_matrix(*initial_transfers[k]->R, *e.R, why)) cs.fail(ph + ".transfer.R_unchanged", vf::KS() << "level " << k << ": " << why);
        } else cs.fail(ph + ".log.coarse_operator_without_transfer", vf::KS() << "level " << k);
        if (!l->P || !same_matrix(*e.P, *l->P, why)) cs.fail(ph + ".transfer.level_P_is_recorded_P", vf::KS() << "level " << k << ": " << why);
        if (!l->R || !same_matrix(*e.R, *l->R, why)) cs.fail(ph + ".transfer.level_R_is_recorded_R", vf::KS() << "level " << k << ": " << why);
        if (cfg.a.allow_rebuild) {
            typedef typename std::decay<decltype(*l)>::type Level;
            if (has_bP<Level>(0)) { auto b = lvl_bP(*l, 0); if (!b || !same_matrix(*e.P, *b, why)) cs.fail(ph + ".transfer.level_bP_is_recorded_P", vf::KS() << "level " << k << ": " << why); } else vf::count("level_bP_member_absent_not_checked");
            if (has_bR<Level>(0)) { auto b = lvl_bR(*l, 0); if (!b || !same_matrix(*e.R, *b, why)) cs.fail(ph + ".transfer.level_bR_is_recorded_R", vf::KS() << "level " << k << ": " << why); } else vf::count("level_bR_member_absent_not_checked");
        }
        // R == adjoint(P) (real scalars: transpose), bit for bit
        if (cfg.c.adjoint_claimed) {
            DD dP, dR; std::string er;
            if (to_dense(*e.P, dP, false, er) && to_dense(*e.R, dR, false, er)) {
                bool ok = dR.m == dP.n && dR.n == dP.m;
                for (int i = 0; ok && i < dP.m; ++i) for (int j = 0; j < dP.n; ++j)
                    if (dP.st(i, j) != dR.st(j, i) || (dP.st(i, j) && std::memcmp(&dP(i, j), &dR(j, i), sizeof(double)) != 0)) { ok = false; why = vf::KS() << "P(" << i << "," << j << ") vs R(" << j << "," << i << ")"; break; }
                if (!ok) cs.fail(ph + ".transfer.R_is_adjoint_of_P", vf::KS() << "level " << k << ": " << why);
                vf::count("adjoint_checked");
            } else cs.fail(ph + ".transfer.wellformed", er);
        } else vf::count("adjoint_not_claimed_emin");
        // the Galerkin product itself
        Gal g = galerkin_check(*e.A, *e.P, *e.R, *e.Ac, std::string(cfg.c.type) == "aggregation" ? cfg.c.over_interp : 0.0);
        if (!g.ok) cs.fail(ph + ".galerkin.value", vf::KS() << "level " << k << " -> " << k + 1 << ": " << g.why);
        else if (g.exact_checked && !g.exact_ok) cs.fail(ph + ".galerkin.exact", vf::KS() << "level " << k << " -> " << k + 1 << ": " << g.why);
        vf::count(g.exact_checked ? "galerkin_products_checked_exactly" : "galerkin_products_checked_with_bound");
        if (g.nonfinite) vf::count(std::string("galerkin_products_with_nonfinite_transfer_operators:") + cfg.c.name);
        // the product became the next level
        if (k + 1 >= lv.size()) cs.fail(ph + ".galerkin.next_level_exists", vf::KS() << "coarse operator of level " << k << " has no level");
        else {
            const auto *nx = lv[k + 1];
            if (nx->m_rows != e.Ac->nrows) cs.fail(ph + ".galerkin.next_level_rows", vf::KS() << "level " << k + 1 << " rows " << nx->m_rows << " coarse operator rows " << e.Ac->nrows);
            if (nx->A) {
                DD dn; std::string er;
                if (!to_dense(*nx->A, dn, true, er)) cs.fail(ph + ".levels.wellformed_sorted", vf::KS() << "level " << k + 1 << ": " << er);
                if (!same_matrix(*e.Ac, *nx->A, why)) cs.fail(ph + ".galerkin.next_level_is_product", vf::KS() << "level " << k + 1 << ": " << why);
                vf::count("next_level_matrix_compared");
            } else vf::count("next_level_inside_direct_solver");
        }
        ++k;
        pending_transfer = nullptr;
    }
    // every level that owns transfer operators produced exactly one coarse operator
    size_t with_transfer = 0;
    for (auto *l : lv) if (l->P && l->R) ++with_transfer;
    if (n_coarse != with_transfer) cs.fail(ph + ".log.one_coarse_operator_per_transfer_level", vf::KS() << n_coarse << " coarse_operator calls, " << with_transfer << " levels with P,R");
    for (size_t q = 0; q < lv.size(); ++q) {
        DD tmp; std::string er;
        if (lv[q]->P && !to_dense(*lv[q]->P, tmp, true, er)) cs.fail(ph + ".levels.wellformed_sorted", vf::KS() << "P of level " << q << ": " << er);
        if (lv[q]->R && !to_dense(*lv[q]->R, tmp, true, er)) cs.fail(ph + ".levels.wellformed_sorted", vf::KS() << "R of level " << q << ": " << er);
    }
}

static const int NALPHA_MAX = 6;

static void run_case(const std::string &key, const MatDesc &md, const Cfg &cfg, int depth, int nalpha) {
    Case cs; cs.key = key;
    static const bool trace_keys = std::getenv("VERIF_TRACE_KEYS") != nullptr;
    if (trace_keys) std::cerr << "CASE " << key << std::endl;
    const int n = md.d.m;
    set_threads(cfg.nt);

    std::vector<DD> Md; std::vector<std::shared_ptr<Crs>> M;
    for (int i = 0; i < std::max(1, nalpha); ++i) { Md.push_back(fam::alphabet(md.d, i)); M.push_back(mk::to_crs<double>(Md.back())); }

    auto prm = make_params<RecAMG>(cfg, n);
    Log L0; g_log = &L0;
    std::unique_ptr<RecAMG> live;
    try {
        vs::begin_execution();
        if (cfg.a.byptr) live.reset(new RecAMG(clone(*M[0]), prm)); else live.reset(new RecAMG(*M[0], prm));
    } catch (const std::exception &e) {
        g_log = nullptr;
        vf::count(std::string("build_threw:") + cfg.c.name + ":" + std::string(e.what()).substr(0, 60));
        return;
    }
    g_log = nullptr;
    if (cfg.nt > 16 && vs::trace().teams > 0) vf::count("builds_under_team_of_17_rmerge");
    size_t nlev = live->levels.size();
    vf::count("hierarchies_built");
    if (nlev >= 2) { vf::count("levels_ge_2"); vf::nontrivial(vf::hstr(key)); }
    if (nlev >= 3) vf::count("levels_ge_3");
    if (nlev >= 4) vf::count("levels_ge_4");
    std::vector<const Ev*> transfers;
    for (const Ev &e : L0.ev) if (e.kind != 2) transfers.push_back(&e);
    if (!transfers.empty() && transfers.back()->kind == 1) vf::count("stopped_by_empty_level");

    if (std::string(cfg.c.type) == "ruge_stuben") {
        bool frow = false;
        for (const Ev *t : transfers) {
            const Crs &X = *t->A;
            for (size_t i = 0; i < X.nrows && !frow; ++i) { bool neg = false; for (auto j = X.ptr[i]; j < X.ptr[i + 1]; ++j) if ((size_t)X.col[j] != i && X.val[j] < 0) neg = true; if (!neg) frow = true; }
        }
        if (frow) vf::count("rs_level_with_row_without_negative_offdiag");
    }
    check_levels_against_log(cs, "build", *live, L0.ev, transfers, Md[0], cfg, false);

    if (depth <= 0) return;

    // ------------------------------------------------------------------------------------------
    // history part
    // ------------------------------------------------------------------------------------------
    const Obs obs0 = observe(*live, n);
    std::vector<std::unique_ptr<Obs>> expect(nalpha);
    auto fresh = [&](int i) -> const Obs& {
        if (!expect[i]) {
            expect[i].reset(new Obs());
            g_rep = ReplaySrc(); g_rep.ev = &L0.ev;
            auto rp = make_params<RepAMG>(cfg, n);
            try {
                vs::begin_execution();
                RepAMG f(clone(*M[i]), rp);
                if (g_rep.overrun) cs.fail("harness.replay_overrun", "fresh hierarchy asked for more transfer operators than were recorded");
                if (g_rep.shape_mismatch) cs.fail("harness.replay_shape", "fresh hierarchy presented a matrix of another size to the replaying coarsening");
                *expect[i] = observe(f, n);
                vf::count("fresh_objects_constructed");
            } catch (const std::exception &e) { expect[i]->exc = std::string("fresh build threw: ") + e.what(); }
        }
        return *expect[i];
    };
    if (!(obs0 == fresh(0))) cs.fail("replay.fresh_from_recorded_operators_equals_original", diff_obs(obs0, fresh(0)));

    std::vector<char> ops;
    for (int i = 0; i < nalpha; ++i) ops.push_back('0' + i);
    ops.push_back('a'); ops.push_back('n');

    // executes one operation on an object; returns false if it threw
    auto do_op = [&](RecAMG &a, char op, Log *lg, std::string &exc) -> bool {
        try {
            vs::begin_execution();
            if (op == 'a' || op == 'n') {
                std::vector<double> f = ramp(n), x(n);
                if (op == 'n') for (auto &v : f) v = std::numeric_limits<double>::quiet_NaN();
                a.apply(f, x);
            } else {
                int i = op - '0';
                g_log = lg;
                if (cfg.a.byptr) a.rebuild(clone(*M[i])); else a.rebuild(*M[i]);
                g_log = nullptr;
            }
            return true;
        } catch (const std::exception &e) { g_log = nullptr; exc = e.what(); return false; }
    };

    struct St { std::string hist; Obs obs; int last; };
    std::vector<St> layer; layer.push_back(St{"", obs0, 0});
    std::set<std::string> expanded_keys;
    for (int d = 1; d <= depth; ++d) {
        std::map<std::string, St> next;
        for (const St &s : layer) {
            ++vf::S().states;
            // trace validation: the representative history on a second, freshly built object gives the same observation
            {
                try {
                    vs::begin_execution();
                    std::unique_ptr<RecAMG> second;
                    if (cfg.a.byptr) second.reset(new RecAMG(clone(*M[0]), prm)); else second.reset(new RecAMG(*M[0], prm));
                    std::string exc; bool ok = true;
                    for (char c : s.hist) ok &= do_op(*second, c, nullptr, exc);
                    Obs o2 = observe(*second, n);
                    if (!ok) cs.fail("trace.second_object_threw", "history '" + s.hist + "': " + exc);
                    else if (!(o2 == s.obs)) cs.fail("trace.second_object_differs", "history '" + s.hist + "': " + diff_obs(o2, s.obs));
                    else ++vf::S().traces_validated;
                } catch (const std::exception &e) { cs.fail("trace.second_object_threw", "history '" + s.hist + "': " + e.what()); }
            }
            bool first_op = true;
            for (char op : ops) {
                std::string exc;
                // drive the live object (whatever its past) through the representative history of s
                bool ok = true;
                if (s.hist.empty()) {
                    // the initial state cannot be re-entered by operations: start a new live object (used from here on)
                    try {
                        vs::begin_execution();
                        if (cfg.a.byptr) live.reset(new RecAMG(clone(*M[0]), prm)); else live.reset(new RecAMG(*M[0], prm));
                    } catch (const std::exception &e) { cs.fail("harness.second_build_threw", e.what()); return; }
                }
                for (char c : s.hist) ok &= do_op(*live, c, nullptr, exc);
                if (first_op) {   // equal states are merged: the live object must now be in state s again
                    Obs back = observe(*live, n);
                    if (!(back == s.obs)) cs.fail("history.state_depends_on_older_history", "after re-running '" + s.hist + "' on the live object: " + diff_obs(back, s.obs));
                    first_op = false;
                }
                Log lg;
                ok &= do_op(*live, op, &lg, exc);
                ++vf::S().transitions;
                std::string h = s.hist + op;
                if (!ok) { cs.fail("rebuild.threw", "history '" + h + "': " + exc); continue; }
                int last = (op >= '0' && op <= '9') ? op - '0' : s.last;
                Obs o = observe(*live, n);
                if (op >= '0' && op <= '9') {
                    vf::count("rebuilds_checked");
                    check_levels_against_log(cs, "rebuild", *live, lg.ev, transfers, Md[last], cfg, true);
                    // transfer operators of the levels are bit-identical to those of the initial build
                    if (o.xfer != obs0.xfer) cs.fail("rebuild.transfer.level_operators_bitwise_unchanged", vf::KS() << "history '" << h << "'");
                }
                const Obs &want = fresh(last);
                if (!(o == want)) {
                    bool lv_same = o.levels == want.levels;
                    cs.fail(lv_same ? "rebuild.equals_fresh.action" : "rebuild.equals_fresh.levels", "history '" + h + "' (last matrix " + std::to_string(last) + "): " + diff_obs(o, want));
                }
                if (last == 0 && !(o == obs0)) cs.fail("rebuild.original_restored", "history '" + h + "': " + diff_obs(o, obs0));
                std::string k = o.key();
                if (!next.count(k)) next.emplace(k, St{h, o, last});
                else vf::count("states_merged");
            }
        }
        layer.clear();
        for (auto &kv : next) layer.push_back(kv.second);
        std::sort(layer.begin(), layer.end(), [](const St &a, const St &b) { return a.hist < b.hist; });
        vf::count("bfs_layer_states", (long long)layer.size());
    }
    vf::count("bfs_cases");
    // rebuild must be refused when allow_rebuild is off (documented precondition; counted, not part of the property)
}

// ---------------------------------------------------------------------------------------------
// enumeration
// ---------------------------------------------------------------------------------------------
static bool usable(const MatDesc &md, const Coars &c) {
    (void)md; (void)c;     // every (matrix, coarsening) pair is usable
    return true;
}

// replay mode: only the matrix named in the replayed key needs to be visited
static bool wanted(const std::string &id) {
    return !vf::replaying() || vf::S().replay_key.find("|" + id + "|") != std::string::npos;
}

static void static_part() {
    auto cs = coarsenings(); auto av = amg_variants();
    auto for_matrix = [&](const MatDesc &md, bool with_rmerge = true) {
        if (!wanted(md.id)) return;
        for (size_t ci = 0; ci < cs.size(); ++ci) for (size_t ai = 0; ai < 4; ++ai) for (int nt : {1, 17}) {
            if (nt == 17 && !with_rmerge) continue;
            if (!vf::take_in_group([&]{ return std::string(vf::KS() << "st|" << md.id << "|" << cs[ci].name << "|" << av[ai].name << "|t" << nt); })) continue;
            if (!usable(md, cs[ci])) { vf::count("rs_skipped_row_without_negative_offdiag"); continue; }
            Cfg cfg{cs[ci], av[ai], "spai0", nt};
            run_case(vf::KS() << "st|" << md.id << "|" << cs[ci].name << "|" << av[ai].name << "|t" << nt, md, cfg, 0, 1);
        }
    };
    // all symmetric patterns n = 2..5 (thorough: 6), value rules M / mixed sign
    int nmax = vf::thorough() ? 6 : 5;
    for (int n = 2; n <= nmax; ++n) for (int rule = 0; rule < 2; ++rule) {
        for (uint64_t mask = 0; mask < (1ull << fam::npairs(n)); ++mask) {
            if (!vf::take_group()) continue;
            // n = 6 (thorough only): the mixed-sign rule runs with saad only (the 17-fiber teams cost ~100x)
            for_matrix(MatDesc{vf::KS() << "sym" << n << "r" << rule << "m" << mask, fam::sym_pattern(n, mask, rule)}, !(n == 6 && rule == 1));
        }
        vf::space(vf::KS() << "static: all symmetric off-diagonal patterns n=" << n << " value rule " << rule << " x 9 coarsening settings x 4 amg settings x SpGEMM " << (n == 6 && rule == 1 ? "{saad (1 thread)}" : "{saad (1 thread), rmerge (17 threads)}"));
    }
    // all nonsymmetric patterns n = 2..4; symmetric patterns with nonsymmetric values n = 5
    for (int n = 2; n <= 4; ++n) for (int rule : {0, 2}) {
        for (uint64_t mask = 0; mask < (1ull << fam::noffd(n)); ++mask) {
            if (!vf::take_group()) continue;
            // quick: n = 4 with the second value rule runs with saad only
            for_matrix(MatDesc{vf::KS() << "ns" << n << "r" << rule << "m" << mask, fam::nonsym_pattern(n, mask, rule)}, !(vf::quick() && n == 4 && rule == 2));
        }
        vf::space(vf::KS() << "static: all nonsymmetric off-diagonal patterns n=" << n << " value rule " << rule << " x 9 x 4 x " << (vf::quick() && n == 4 && rule == 2 ? "saad" : "{saad, rmerge}"));
    }
    for (uint64_t mask = 0; mask < (1ull << fam::npairs(5)); ++mask) {
        if (!vf::take_group()) continue;
        for_matrix(MatDesc{vf::KS() << "sym5r2m" << mask, fam::sym_pattern(5, mask, 2)});
    }
    vf::space("static: all symmetric patterns n=5 with nonsymmetric values x 9 x 4 x 2");
    // grids: 1-D n = 2..8 (all stripe masks), 2-D nx,ny in 2..6 (quick: 3 stripe masks; thorough: all), contrast 9, anisotropy {1, 1/8}
    for (int nx = 2; nx <= 8; ++nx) for (uint64_t st = 0; st < (1ull << nx); ++st) {
        if (!vf::take_group()) continue;
        for_matrix(MatDesc{vf::KS() << "g" << nx << "x1s" << st, fam::grid(nx, 1, st, 9)});
    }
    vf::space("static: 1-D diffusion n=2..8, all coefficient stripe masks (contrast 9) x 9 x 4 x 2");
    for (int nx = 2; nx <= 6; ++nx) for (int ny = 2; ny <= 6; ++ny) for (int an = 0; an < 2; ++an) {
        for (uint64_t st = 0; st < (1ull << nx); ++st) {
            if (vf::quick() && !(st == 0 || st == (0x15u & ((1u << nx) - 1)) || st == ((1u << (nx / 2)) - 1))) continue;
            if (!vf::take_group()) continue;
            for_matrix(MatDesc{vf::KS() << "g" << nx << "x" << ny << "s" << st << "a" << an, fam::grid(nx, ny, st, 9, an ? 0.125 : 1.0)});
        }
    }
    vf::space(vf::quick() ? "static: 2-D diffusion nx,ny in 2..6, stripe masks {none, alternating, half}, anisotropy {1,1/8} x 9 x 4 x 2"
                          : "static: 2-D diffusion nx,ny in 2..6, all stripe masks, anisotropy {1,1/8} x 9 x 4 x 2");
    for (int nx = 3; nx <= 6; ++nx) for (int ny : {1, nx}) for (int pe : {1, 3}) {
        if (!vf::take_group()) continue;
        for_matrix(MatDesc{vf::KS() << "cd" << nx << "x" << ny << "p" << pe, fam::convdiff(nx, ny, pe)});
    }
    vf::space("static: upwind convection-diffusion 3..6 (1-D and square 2-D), Peclet 1,3 x 9 x 4 x 2");
}

static std::vector<MatDesc> history_matrices() {
    std::vector<MatDesc> v;
    auto add = [&](const std::string &id, const DD &d) { v.push_back(MatDesc{id, d}); };
    add("g7x1s28", fam::grid(7, 1, 28, 9));
    add("g4x4s0", fam::grid(4, 4, 0, 9));
    add("g5x5s6", fam::grid(5, 5, 6, 9));
    add("g6x6s7", fam::grid(6, 6, 7, 9));
    add("g6x6s0a1", fam::grid(6, 6, 0, 9, 0.125));
    add("g4x6s5", fam::grid(4, 6, 5, 9));
    add("sym5path", fam::sym_pattern(5, 0b1000100101ull & 0x3ff, 0));
    add("sym5full", fam::sym_pattern(5, 0x3ff, 0));
    add("sym5mixed", fam::sym_pattern(5, 0x2b7, 1));
    add("ns4", fam::nonsym_pattern(4, 0xb6d, 2));
    add("cd5x5p3", fam::convdiff(5, 5, 3));
    if (vf::thorough()) {
        add("g8x1s0", fam::grid(8, 1, 0, 9));
        add("g3x6s2", fam::grid(3, 6, 2, 9));
        add("g6x5s21", fam::grid(6, 5, 21, 9));
        add("g6x6s56a1", fam::grid(6, 6, 56, 9, 0.125));
        add("sym6ring", fam::sym_pattern(6, 0b100011001010001ull, 0));
        add("ns4full", fam::nonsym_pattern(4, 0xfff, 0));
        add("cd6x1p1", fam::convdiff(6, 1, 1));
    }
    return v;
}

static void history_part() {
    auto cs = coarsenings(); auto av = amg_variants();
    auto mats = history_matrices();
    int depth = vf::thorough() ? 5 : 3;
    int nalpha = 5;
    int nrelax = vf::thorough() ? 9 : 5;
    for (auto &md : mats) for (size_t ci = 0; ci < cs.size(); ++ci) for (int ri = 0; ri < nrelax; ++ri) for (size_t ai = 0; ai < av.size(); ++ai) for (int nt : {1, 17}) {
        // quick: the single-level variants and the second parameter set of each coarsening only with spai0
        if (vf::quick() && ri > 0 && (ai >= 3 || ci == 1 || ci == 2 || ci == 5 || ci == 8)) continue;
        // the 17-thread runs (rmerge in rebuild, parallel paths of the smoothers) are ~100x slower under the fiber shim: subset
        bool main_coars = (ci == 0 || ci == 3 || ci == 6 || ci == 7);
        if (nt == 17 && vf::quick()    && !((ri == 0 && ai < 3) || (ri <= 2 && main_coars && ai == 0))) continue;
        if (nt == 17 && vf::thorough() && !((ri == 0 && ai < 4) || (main_coars && ai == 0))) continue;
        auto keyf = [&]{ return std::string(vf::KS() << "bfs|" << md.id << "|" << cs[ci].name << "|" << relax_names[ri] << "|" << av[ai].name << "|t" << nt); };
        if (!vf::take(keyf)) continue;
        if (!usable(md, cs[ci])) { vf::count("rs_skipped_row_without_negative_offdiag"); continue; }
        Cfg cfg{cs[ci], av[ai], relax_names[ri], nt};
        // vary cycle parameters with the case so that W-cycles / several sweeps are rebuilt too
        cfg.ncycle = 1 + (ci + ai) % 2; cfg.npre = 1 + ri % 2; cfg.npost = 1 + (ri + ai) % 3; cfg.pre_cycles = 1 + (ci % 2);
        run_case(keyf(), md, cfg, depth, nalpha);
    }
    vf::space(vf::KS() << "history: layered BFS to depth " << depth << " over {rebuild(M0), rebuild(2*M0), rebuild(M0+D), rebuild(new values), rebuild(sub-pattern), apply(ramp), apply(NaN)} on "
              << mats.size() << " matrices x coarsening settings x " << nrelax << " relaxations x amg settings x threads {1,17}");
}

int main(int argc, char **argv) {
    vf::init(argc, argv, "C03");
    vf::sample_str("static case: A = " + mk::show(fam::sym_pattern(4, 0x2d, 0)) + ", coarsening aggregation(over_interp=1.5), coarse_enough=1");
    vf::sample_str("history case: M0 = 2-D diffusion 4x4, alphabet {M0, 2*M0, M0+diag(1+i%3), rescaled off-diagonals, sub-pattern}, ops rebuild(Mi)/apply(ramp)/apply(NaN)");
    const char *part = std::getenv("VERIF_C03_PART");   // debugging aid: run only one part
    if (vf::section("st") && (!part || std::string(part) == "st")) static_part();
    if (vf::section("bfs") && (!part || std::string(part) == "bfs")) history_part();
    return vf::finish();
}
