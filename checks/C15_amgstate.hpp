// C15_amgstate.hpp -- state hashes of amg hierarchies, relaxations and the bundled solvers.
#ifndef VERIF_C15_AMGSTATE_HPP
#define VERIF_C15_AMGSTATE_HPP

#include "C15_state.hpp"
#include <amgcl/amg.hpp>
#include <amgcl/make_solver.hpp>
#include <amgcl/relaxation/spai0.hpp>
#include <amgcl/relaxation/damped_jacobi.hpp>
#include <amgcl/relaxation/gauss_seidel.hpp>
#include <amgcl/relaxation/ilu0.hpp>
#include <amgcl/relaxation/chebyshev.hpp>
#include <amgcl/relaxation/as_preconditioner.hpp>
#include <amgcl/preconditioner/dummy.hpp>

namespace c15 {

template <class B> void hstate(Hs &h, const amgcl::relaxation::spai0<B> &r) { h.sp(r.M); }
template <class B> void hstate(Hs &h, const amgcl::relaxation::damped_jacobi<B> &r) { h.sp(r.dia); }
template <class B> void hstate(Hs &h, const amgcl::relaxation::gauss_seidel<B> &r) { h.pod(r.is_serial); }
template <class B> void hstate(Hs &h, const amgcl::relaxation::ilu0<B> &r) { h.spm(r.ilu->L); h.spm(r.ilu->U); h.sp(r.ilu->D); }
template <class B> void hstate(Hs &h, const amgcl::relaxation::chebyshev<B> &r) { h.sp(r.M); h.sp(r.p); h.sp(r.r); h.pod(r.c); h.pod(r.d); }

template <class B, template <class> class C, template <class> class R>
void hstate(Hs &h, const amgcl::amg<B, C, R> &a) {
    h.pod(a.levels.size());
    for (const auto &l : a.levels) {
        h.sp(l.f); h.sp(l.u); h.sp(l.t);
        h.spm(l.A); h.spm(l.P); h.spm(l.R);
        if (l.solve) { h.pod((char)1); hstate(h, *l.solve); } else h.pod((char)0);
        if (l.relax) { h.pod((char)1); hstate(h, *l.relax); } else h.pod((char)0);
    }
}
template <class B, template <class> class R>
void hstate(Hs &h, const amgcl::relaxation::as_preconditioner<B, R> &p) { h.spm(p.A); hstate(h, *p.S); }
template <class B> void hstate(Hs &h, const amgcl::preconditioner::dummy<B> &p) { h.spm(p.A); }

template <class P, class S> void hstate(Hs &h, const amgcl::make_solver<P, S> &m) { hstate(h, m.P); hstate(h, m.S); }

template <class AMG> int amg_levels(const AMG &a) { return (int)a.levels.size(); }

} // namespace c15
#endif
