// C17 (preconditioners) -- a preconditioner built from a matrix whose row entries are listed in
// arbitrary order equals the one built from the sorted matrix; reorder / scale_diagonal adapters solve
// the original system.  Matrices have power-of-two diagonals and small integer off-diagonals.
// One source, three units (compile time): -DP_AMG, -DP_RELAX, -DP_COMP.
#include <boost/property_tree/ptree.hpp>
#include <amgcl/backend/builtin.hpp>
#include <amgcl/value_type/static_matrix.hpp>
#include <amgcl/adapter/crs_tuple.hpp>
#include <amgcl/adapter/zero_copy.hpp>
#include <amgcl/adapter/reorder.hpp>
#include <amgcl/adapter/scaled_problem.hpp>
#include <amgcl/adapter/block_matrix.hpp>
#include <amgcl/make_solver.hpp>
#include <amgcl/make_block_solver.hpp>
#include <amgcl/amg.hpp>
#include <amgcl/coarsening/runtime.hpp>
#include <amgcl/relaxation/runtime.hpp>
#include <amgcl/relaxation/as_preconditioner.hpp>
#include <amgcl/solver/runtime.hpp>
#include <amgcl/solver/preonly.hpp>
#ifdef P_COMP
#include <amgcl/preconditioner/cpr.hpp>
#include <amgcl/preconditioner/cpr_drs.hpp>
#include <amgcl/preconditioner/schur_pressure_correction.hpp>
#endif
#include <Eigen/Dense>
#include "vf.hpp"
#include "mk.hpp"

using namespace amgcl;
typedef backend::builtin<double> Backend;
typedef boost::property_tree::ptree ptree;

struct Sys {
    std::string name; int n = 0;
    std::vector<ptrdiff_t> ptr, col; std::vector<double> val;
    mk::Dense<double> D;
};
static Sys from_dense(const std::string &name, const mk::Dense<double> &D) {
    Sys s; s.name = name; s.n = D.m; s.D = D; s.ptr.push_back(0);
    for (int i = 0; i < D.m; ++i) { for (int j = 0; j < D.n; ++j) if (D.st(i, j)) { s.col.push_back(j); s.val.push_back(D(i, j)); } s.ptr.push_back((ptrdiff_t)s.col.size()); }
    return s;
}
static void set(mk::Dense<double> &D, int i, int j, double v) { D.st(i, j) = 1; D(i, j) = v; }
static Sys tri(int n, double lo, double up) { mk::Dense<double> D(n, n); for (int i = 0; i < n; ++i) { set(D, i, i, 4); if (i) set(D, i, i - 1, lo); if (i + 1 < n) set(D, i, i + 1, up); } return from_dense(vf::KS() << "tridiag(" << lo << ",4," << up << ")x" << n, D); }
static Sys grid(int nx, int ny) { int n = nx * ny; mk::Dense<double> D(n, n); for (int j = 0; j < ny; ++j) for (int i = 0; i < nx; ++i) { int k = j * nx + i; set(D, k, k, 4); if (i) set(D, k, k - 1, -1); if (i + 1 < nx) set(D, k, k + 1, -1); if (j) set(D, k, k - nx, -1); if (j + 1 < ny) set(D, k, k + nx, -1); } return from_dense(vf::KS() << "poisson" << nx << "x" << ny, D); }
static Sys pat3(uint64_t off) {   // 3x3, full diagonal 4, off-diagonal pattern bits -> -1
    mk::Dense<double> D(3, 3); int b = 0;
    for (int i = 0; i < 3; ++i) for (int j = 0; j < 3; ++j) { if (i == j) set(D, i, j, 4); else { if ((off >> b) & 1) set(D, i, j, -1); ++b; } }
    return from_dense(vf::KS() << "3x3 offdiag-mask " << off, D);
}
// two unknowns per cell (pressure first): cell coupling tridiagonal, dense 2x2 cell blocks
static Sys twophase(int cells) {
    int n = 2 * cells; mk::Dense<double> D(n, n);
    for (int c = 0; c < cells; ++c) {
        set(D, 2 * c, 2 * c, 8); set(D, 2 * c, 2 * c + 1, 1); set(D, 2 * c + 1, 2 * c, -1); set(D, 2 * c + 1, 2 * c + 1, 4);
        for (int d : {-1, 1}) { int e = c + d; if (e < 0 || e >= cells) continue; set(D, 2 * c, 2 * e, -2); set(D, 2 * c, 2 * e + 1, d > 0 ? 1 : -1); set(D, 2 * c + 1, 2 * e, 1); set(D, 2 * c + 1, 2 * e + 1, -1); }
    }
    return from_dense(vf::KS() << "twophase cells=" << cells, D);
}
static std::string show(const Sys &s) {
    vf::KS o; o << s.name << " rows:";
    for (int i = 0; i < s.n; ++i) { o << " ["; for (ptrdiff_t j = s.ptr[i]; j < s.ptr[i + 1]; ++j) o << (j > s.ptr[i] ? " " : "") << s.col[j] << ":" << s.val[j]; o << "]"; }
    return o;
}
static void permute_row(Sys &s, int row, const std::vector<int> &order) {
    ptrdiff_t b = s.ptr[row]; int w = (int)(s.ptr[row + 1] - b);
    std::vector<ptrdiff_t> c(w); std::vector<double> v(w);
    for (int k = 0; k < w; ++k) { c[k] = s.col[b + order[k]]; v[k] = s.val[b + order[k]]; }
    for (int k = 0; k < w; ++k) { s.col[b + k] = c[k]; s.val[b + k] = v[k]; }
}
// The shuffles of a system: every combination of in-row permutations if there are at most `lim` of them,
// otherwise every permutation of one row at a time + all rows reversed + all rows rotated by one.
static std::vector<Sys> shuffles(const Sys &s0, long lim) {
    std::vector<Sys> out;
    double total = 1; for (int r = 0; r < s0.n; ++r) { int w = (int)(s0.ptr[r + 1] - s0.ptr[r]); for (int k = 2; k <= w; ++k) total *= k; }
    if (total <= lim) {
        std::vector<std::vector<int>> perm(s0.n);
        for (int r = 0; r < s0.n; ++r) { int w = (int)(s0.ptr[r + 1] - s0.ptr[r]); perm[r].resize(w); for (int q = 0; q < w; ++q) perm[r][q] = q; }
        while (true) {
            int r = 0; while (r < s0.n && !std::next_permutation(perm[r].begin(), perm[r].end())) ++r;
            if (r == s0.n) break;
            Sys s = s0; for (int q = 0; q < s0.n; ++q) permute_row(s, q, perm[q]); out.push_back(s);
        }
    } else {
        for (int r = 0; r < s0.n; ++r) {
            int w = (int)(s0.ptr[r + 1] - s0.ptr[r]); std::vector<int> p(w); for (int q = 0; q < w; ++q) p[q] = q;
            while (std::next_permutation(p.begin(), p.end())) { Sys s = s0; permute_row(s, r, p); out.push_back(s); }
        }
        Sys rev = s0, rot = s0;
        for (int r = 0; r < s0.n; ++r) { int w = (int)(s0.ptr[r + 1] - s0.ptr[r]); std::vector<int> a(w), b(w); for (int q = 0; q < w; ++q) { a[q] = w - 1 - q; b[q] = (q + 1) % w; } permute_row(rev, r, a); permute_row(rot, r, b); }
        out.push_back(rev); out.push_back(rot);
    }
    return out;
}

// right-hand sides: unit vectors and a ramp
static std::vector<std::vector<double>> rhs_set(int n) {
    std::vector<std::vector<double>> r;
    for (int i = 0; i < n; ++i) { std::vector<double> e(n, 0.0); e[i] = 1; r.push_back(e); }
    std::vector<double> ramp(n); for (int i = 0; i < n; ++i) ramp[i] = 1 + i; r.push_back(ramp);
    return r;
}

// Compare the action of a preconditioner built by `make` from the sorted system with the one built from
// every shuffle.  make(sys) returns a std::function applying the preconditioner.
typedef std::function<void(const std::vector<double>&, std::vector<double>&)> Apply;
template <class Make>
static void compare_shuffled(const std::string &cls, const std::string &cfg, const std::string &key, const Sys &s0, long lim, Make &&make) {
    Apply ref;
    try { ref = make(s0); } catch (const std::exception &e) { vf::count("sorted_build_throws." + cls + "." + cfg); return; }
    auto F = rhs_set(s0.n);
    std::vector<std::vector<double>> X0, Fok;
    for (auto &f : F) {
        std::vector<double> x(s0.n, 0.0);
        try { ref(f, x); } catch (const std::exception &e) { vf::count("sorted_apply_throws." + cls + "." + cfg); continue; }     // e.g. BiCGStab breakdown on a unit vector
        X0.push_back(x); Fok.push_back(f);
    }
    F = Fok;
    double scale = 0; for (auto &x : X0) for (double v : x) scale = std::max(scale, std::abs(v));
    bool nonzero = scale > 0; if (!nonzero) vf::count("zero_action." + cls + "." + cfg);
    auto sh = shuffles(s0, lim);
    vf::count("shuffled_builds." + cls, (long long)sh.size());
    int reported = 0;
    for (auto &s : sh) {
        Apply app;
        try { app = make(s); }
        catch (const std::exception &e) {
            if (reported++ < 2) vf::fail("shuffled." + cls + "." + cfg + ".throws", key, std::string("built from sorted rows, but with shuffled rows: ") + e.what() + " | " + show(s));
            continue;
        }
        double worst = 0; bool bitwise = true, thrown = false;
        for (size_t k = 0; k < F.size(); ++k) {
            std::vector<double> x(s0.n, 0.0);
            try { app(F[k], x); }
            catch (const std::exception &e) {
                if (reported++ < 2) vf::fail("shuffled." + cls + "." + cfg + ".throws", key, std::string("applied fine when built from sorted rows, but with shuffled rows: ") + e.what() + " | " + show(s));
                thrown = true; break;
            }
            if (std::memcmp(x.data(), X0[k].data(), sizeof(double) * s0.n) != 0) { bitwise = false; for (int i = 0; i < s0.n; ++i) { double d = std::abs(x[i] - X0[k][i]); if (!(d <= 1e300)) d = 1e300; worst = std::max(worst, d); } }
        }
        if (thrown) continue;
        if (bitwise) { vf::count("bitwise_equal." + cls); continue; }
        double rel = worst / (scale > 0 ? scale : 1);
        // differences of a few ulp can only come from a different summation order inside otherwise identical
        // formulas; anything larger means a different operator
        if (rel <= 64 * 2.220446049250313e-16) {
            vf::count("equal_up_to_summation_order." + cls + "." + cfg);
            int ulps = (int)std::ceil(rel / 2.220446049250313e-16);
            vf::count(std::string("summation_order_class.") + (ulps <= 1 ? "le_1_ulp" : ulps <= 2 ? "le_2_ulp" : ulps <= 4 ? "le_4_ulp" : ulps <= 8 ? "le_8_ulp" : ulps <= 16 ? "le_16_ulp" : ulps <= 32 ? "le_32_ulp" : "le_64_ulp"));
            continue;
        }
        { int e = (int)std::floor(-std::log10(std::min(rel, 1.0))); vf::count("differs_class.rel_diff_1e-" + std::to_string(e)); }
        if (reported++ < 2) vf::fail("shuffled." + cls + "." + cfg + ".action_differs", key, vf::KS() << "max |x_shuffled - x_sorted| / max|x_sorted| = " << rel << " | " << show(s));
    }
}

static const char *RELAX[] = {"gauss_seidel", "ilu0", "iluk", "ilut", "ilup", "damped_jacobi", "spai0", "spai1", "chebyshev"};
static const char *COARS[] = {"ruge_stuben", "aggregation", "smoothed_aggregation", "smoothed_aggr_emin"};

typedef amg<Backend, runtime::coarsening::wrapper, runtime::relaxation::wrapper> AMG;
typedef relaxation::as_preconditioner<Backend, runtime::relaxation::wrapper> RelaxP;

template <class P> static Apply applier(std::shared_ptr<P> p) { return [p](const std::vector<double> &f, std::vector<double> &x) { p->apply(f, x); }; }

#ifdef P_RELAX
static void run_relax() {
    // all 3x3 patterns with full diagonal x all in-row permutations ; tridiagonals 4..6 ; poisson 3x3 grid
    std::vector<Sys> systems;
    for (uint64_t off = 0; off < 64; ++off) systems.push_back(pat3(off));
    for (int n = 4; n <= (vf::thorough() ? 9 : 6); ++n) { systems.push_back(tri(n, -1, -1)); systems.push_back(tri(n, -2, -1)); }
    systems.push_back(grid(3, 3)); systems.push_back(twophase(3));
    if (vf::thorough()) {
        systems.push_back(grid(4, 3)); systems.push_back(grid(4, 4)); systems.push_back(twophase(4)); systems.push_back(twophase(5));
        // all 4x4 patterns with full diagonal 4 (strictly diagonally dominant)
        for (uint64_t off = 0; off < 4096; ++off) {
            mk::Dense<double> D(4, 4); int b = 0;
            for (int i = 0; i < 4; ++i) for (int j = 0; j < 4; ++j) { if (i == j) set(D, i, j, 4); else { if ((off >> b) & 1) set(D, i, j, -1); ++b; } }
            systems.push_back(from_dense(vf::KS() << "4x4 offdiag-mask " << off, D));
        }
    }
    const long LIM = vf::thorough() ? 8000 : 1500;
    int si = 0;
    for (auto &s : systems) {
        int id = si++;
        for (const char *rl : RELAX) {
            std::string key = vf::KS() << "relax|" << id << "|" << rl;
            std::string key2 = vf::KS() << "relaxz|" << id << "|" << rl;
            bool t1 = vf::take([&] { return key; }), t2 = vf::take([&] { return key2; });     // both gates are always passed: every shard sees the same case sequence
            if (t1) {
                if (s.col.size() > (size_t)s.n) vf::nontrivial(vf::hstr(key));
                compare_shuffled("as_preconditioner", rl, key, s, LIM, [&](const Sys &m) {
                    ptree p; p.put("type", rl);
                    return applier(std::make_shared<RelaxP>(std::tie(m.n, m.ptr, m.col, m.val), p));
                });
            }
            // the same through the shared-crs constructor (zero-copy user arrays)
            if (!t2) continue;
            compare_shuffled("as_preconditioner_shared_crs", rl, key2, s, 200, [&](const Sys &m) {
                ptree p; p.put("type", rl);
                auto keep = std::make_shared<Sys>(m);
                auto Z = adapter::zero_copy((size_t)keep->n, keep->ptr.data(), keep->col.data(), keep->val.data());
                auto P = std::make_shared<RelaxP>(Z, p);
                return Apply([P, keep, Z](const std::vector<double> &f, std::vector<double> &x) { P->apply(f, x); });
            });
        }
    }
    vf::space(vf::KS() << "as_preconditioner x 9 relaxations: all 64 3x3 patterns with full diagonal (all in-row permutations), tridiagonal n=4.." << (vf::thorough() ? 9 : 6) << " symmetric and nonsymmetric, Poisson grids, two-phase systems" << (vf::thorough() ? ", all 4096 4x4 patterns with full diagonal" : "") << "; template constructor and shared-crs constructor; all in-row permutation combinations when <= " << LIM << ", else single-row permutations + reversed + rotated");
}
#endif

#ifdef P_AMG
struct rotate_order {      // i -> i+1 mod n: not an involution for n > 2
    template <class Matrix, class Vector> static void get(const Matrix &A, Vector &perm) { ptrdiff_t n = backend::rows(A); for (ptrdiff_t i = 0; i < n; ++i) perm[i] = (i + 1) % n; }
};
static double cond2(const Sys &s) {
    Eigen::MatrixXd M = Eigen::MatrixXd::Zero(s.n, s.n);
    for (int i = 0; i < s.n; ++i) for (int j = 0; j < s.n; ++j) if (s.D.st(i, j)) M(i, j) = s.D(i, j);
    Eigen::JacobiSVD<Eigen::MatrixXd> svd(M);
    return svd.singularValues()(0) / svd.singularValues()(s.n - 1);
}
static double true_resid(const Sys &s, const std::vector<double> &f, const std::vector<double> &x) {
    long double rr = 0, ff = 0;
    for (int i = 0; i < s.n; ++i) { long double r = f[i]; for (int j = 0; j < s.n; ++j) if (s.D.st(i, j)) r -= (long double)s.D(i, j) * x[j]; rr += r * r; ff += (long double)f[i] * f[i]; }
    return (double)std::sqrt(rr / ff);
}

static void run_amg() {
    std::vector<Sys> systems;
    for (int n = 4; n <= (vf::thorough() ? 14 : 8); ++n) { systems.push_back(tri(n, -1, -1)); systems.push_back(tri(n, -2, -1)); }
    systems.push_back(grid(3, 3)); systems.push_back(grid(4, 3));
    if (vf::thorough()) { systems.push_back(grid(4, 4)); systems.push_back(grid(5, 4)); systems.push_back(grid(5, 5)); }
    const long LIM = vf::thorough() ? 8000 : 900;
    const char *relax_in_amg[] = {"spai0", "gauss_seidel", "ilu0", "damped_jacobi"};
    int si = 0;
    for (auto &s : systems) {
        int id = si++;
        for (const char *cz : COARS) for (const char *rl : relax_in_amg) {
            std::string key = vf::KS() << "amg|" << id << "|" << cz << "|" << rl;
            if (!vf::take([&] { return key; })) continue;
            vf::nontrivial(vf::hstr(key));
            std::string cfg = std::string(cz) + "." + rl;
            compare_shuffled("amg", cfg, key, s, LIM, [&](const Sys &m) {
                ptree p; p.put("coarsening.type", cz); p.put("relax.type", rl); p.put("coarse_enough", 2);
                auto P = std::make_shared<AMG>(std::tie(m.n, m.ptr, m.col, m.val), p);
                if (&m == &s) { std::ostringstream os; os << *P; if (os.str().find("\n    1 ") != std::string::npos) vf::count("amg_hierarchies_with_2_or_more_levels"); else vf::count("amg_hierarchies_with_1_level"); }
                return applier(P);
            });
        }
        // shared-crs constructor: amg cannot sort the user's arrays
        for (const char *cz : COARS) {
            std::string key = vf::KS() << "amgz|" << id << "|" << cz;
            if (!vf::take([&] { return key; })) continue;
            compare_shuffled("amg_shared_crs", cz, key, s, 100, [&](const Sys &m) {
                ptree p; p.put("coarsening.type", cz); p.put("relax.type", "spai0"); p.put("coarse_enough", 2);
                auto keep = std::make_shared<Sys>(m);
                auto Z = adapter::zero_copy((size_t)keep->n, keep->ptr.data(), keep->col.data(), keep->val.data());
                auto P = std::make_shared<AMG>(Z, p);
                return Apply([P, keep, Z](const std::vector<double> &f, std::vector<double> &x) { P->apply(f, x); });
            });
        }
        // index types of the user arrays: the hierarchy built from int / unsigned / size_t / long long arrays (sorted or reversed rows) is the same
        {
            std::string key = vf::KS() << "amgi|" << id;
            if (vf::take([&] { return key; })) {
                vf::nontrivial(vf::hstr(key));
                ptree p; p.put("coarsening.type", "smoothed_aggregation"); p.put("relax.type", "ilu0"); p.put("coarse_enough", 2);
                AMG ref(std::tie(s.n, s.ptr, s.col, s.val), p);
                Sys rev = s; for (int r = 0; r < rev.n; ++r) { int w = (int)(rev.ptr[r + 1] - rev.ptr[r]); std::vector<int> o(w); for (int q = 0; q < w; ++q) o[q] = w - 1 - q; permute_row(rev, r, o); }
                auto F = rhs_set(s.n);
                auto cmp = [&](const char *ty, AMG &P) {
                    for (auto &f : F) { std::vector<double> x0(s.n, 0.0), x1(s.n, 0.0); ref.apply(f, x0); P.apply(f, x1); if (std::memcmp(x0.data(), x1.data(), 8 * s.n) != 0) { vf::fail(std::string("index_type.amg.") + ty, key, "hierarchy built from " + std::string(ty) + " index arrays acts differently | " + show(s)); return; } }
                    vf::count("index_type_builds_equal");
                };
                for (const Sys *m : {&s, &rev}) {
                    { std::vector<int> pt(m->ptr.begin(), m->ptr.end()), cl(m->col.begin(), m->col.end()); int n = m->n; AMG P(std::tie(n, pt, cl, m->val), p); cmp("int", P); }
                    { std::vector<unsigned> pt(m->ptr.begin(), m->ptr.end()), cl(m->col.begin(), m->col.end()); unsigned n = m->n; AMG P(std::tie(n, pt, cl, m->val), p); cmp("unsigned", P); }
                    { std::vector<size_t> pt(m->ptr.begin(), m->ptr.end()), cl(m->col.begin(), m->col.end()); size_t n = m->n; AMG P(std::tie(n, pt, cl, m->val), p); cmp("size_t", P); }
                    { std::vector<long long> pt(m->ptr.begin(), m->ptr.end()), cl(m->col.begin(), m->col.end()); long long n = m->n; AMG P(std::tie(n, pt, cl, m->val), p); cmp("llong", P); }
                    { std::vector<long> pt(m->ptr.begin(), m->ptr.end()); std::vector<int> cl(m->col.begin(), m->col.end()); size_t n = m->n; const long *pp = pt.data(); const int *cp = cl.data(); const double *vp = m->val.data();
                      AMG P(std::make_tuple(n, make_iterator_range(pp, pp + n + 1), make_iterator_range(cp, cp + cl.size()), make_iterator_range(vp, vp + cl.size())), p); cmp("long_int_pointer_ranges", P); }
                }
            }
        }
        // make_solver: solution and iteration count identical
        for (const char *sv : {"cg", "bicgstab", "gmres"}) {
            std::string key = vf::KS() << "mks|" << id << "|" << sv;
            if (!vf::take([&] { return key; })) continue;
            vf::nontrivial(vf::hstr(key));
            typedef make_solver<AMG, runtime::solver::wrapper<Backend>> Solver;
            compare_shuffled("make_solver", sv, key, s, 200, [&](const Sys &m) {
                ptree p; p.put("precond.coarsening.type", "smoothed_aggregation"); p.put("precond.relax.type", "spai0"); p.put("precond.coarse_enough", 2);
                p.put("solver.type", sv); p.put("solver.tol", 1e-10); p.put("solver.maxiter", 100);
                auto S = std::make_shared<Solver>(std::tie(m.n, m.ptr, m.col, m.val), p);
                return Apply([S](const std::vector<double> &f, std::vector<double> &x) { size_t it; double r; std::tie(it, r) = (*S)(f, x); x.push_back((double)it); x.pop_back(); });
            });
        }
    }
    vf::space(vf::KS() << "amg x 4 coarsenings x 4 relaxations, make_solver x 3 solvers, amg through the shared-crs constructor: " << systems.size() << " systems (tridiagonal symmetric / nonsymmetric, Poisson grids); all in-row permutation combinations when <= " << LIM << ", else single-row permutations + reversed + rotated");

    // reorder and scale_diagonal: the back-transformed solution solves the original system
    typedef make_solver<AMG, runtime::solver::wrapper<Backend>> Solver;
    si = 0;
    for (auto &s : systems) {
        int id = si++;
        for (const char *sv : {"cg", "bicgstab", "gmres"}) for (int what = 0; what < 4; ++what) for (int shuffled = 0; shuffled < 2; ++shuffled) {
            bool sym = s.name.find("(-2") == std::string::npos;
            if (!sym && std::string(sv) == "cg") continue;
            std::string key = vf::KS() << "solve|" << id << "|" << sv << "|" << what << "|" << shuffled;
            if (!vf::take([&] { return key; })) continue;
            vf::nontrivial(vf::hstr(key));
            Sys m = s;
            if (shuffled) for (int r = 0; r < m.n; ++r) { int w = (int)(m.ptr[r + 1] - m.ptr[r]); std::vector<int> o(w); for (int q = 0; q < w; ++q) o[q] = w - 1 - q; permute_row(m, r, o); }
            const double tol = 1e-10;
            ptree p; p.put("precond.coarsening.type", "smoothed_aggregation"); p.put("precond.relax.type", "spai0"); p.put("precond.coarse_enough", 2);
            p.put("solver.type", sv); p.put("solver.tol", tol); p.put("solver.maxiter", 200);
            auto A = std::tie(m.n, m.ptr, m.col, m.val);
            std::vector<double> f(m.n), x(m.n, 0.0); for (int i = 0; i < m.n; ++i) f[i] = 1 + (i * 7) % 5;
            size_t it = 0; double res = 0;
            const char *nm = what == 0 ? "reorder.cuthill_mckee" : what == 1 ? "reorder.reverse_cuthill_mckee" : what == 2 ? "scale_diagonal" : "reorder.rotation";
            try {
                if (what == 0) { adapter::reorder<reorder::cuthill_mckee<false>> perm(A); Solver solve(perm(A), p); auto F = perm(f); auto X = perm(x); std::tie(it, res) = solve(F, X); }
                else if (what == 1) { adapter::reorder<reorder::cuthill_mckee<true>> perm(A); Solver solve(perm(A), p); auto F = perm(f); auto X = perm(x); std::tie(it, res) = solve(F, X); }
                else if (what == 3) { adapter::reorder<rotate_order> perm(A); Solver solve(perm(A), p); auto F = perm(f); auto X = perm(x); std::tie(it, res) = solve(F, X); }
                else { auto scale = adapter::scale_diagonal<Backend>(A); Solver solve(scale.matrix(A), p); std::tie(it, res) = solve(*scale.rhs(f), x); scale(x); }
            } catch (const std::exception &e) { vf::fail(std::string("solve.") + nm + ".throws", key, std::string(e.what()) + " | " + show(m)); continue; }
            double tr = true_resid(m, f, x), kappa = cond2(m);
            vf::count(std::string("solves.") + nm);
            if (!(res <= tol)) { vf::count(std::string("not_converged.") + nm); continue; }
            // the solver reports ||r||/||f|| of the transformed system <= tol.  Permutation leaves the norms unchanged;
            // diagonal scaling changes them by at most max(s)/min(s) = sqrt(max|a_ii|/min|a_ii|) = 1 here (all diagonals are 4).
            // Rounding of the recursively updated residual: (iterations + 2) * n * eps * kappa(A).
            double bound = tol + (it + 2) * m.n * 2.220446049250313e-16 * kappa * 8;
            if (!(tr <= bound)) vf::fail(std::string("solve.") + nm + ".original_system_not_solved", key, vf::KS() << "||f - A x||/||f|| = " << tr << " > " << bound << " (reported " << res << ", " << it << " iterations, kappa " << kappa << ") | " << show(m));
        }
    }
    vf::space(vf::KS() << "reorder (CM, reverse CM, cyclic rotation) and scale_diagonal through make_solver<amg, {cg,bicgstab,gmres}>: " << systems.size() << " systems x sorted / reversed rows; true residual of the original system");
}
#endif

#ifdef P_COMP
typedef make_solver<RelaxP, solver::preonly<Backend>> InnerRelax;
typedef make_solver<AMG, solver::preonly<Backend>> InnerAmg;

static void run_comp() {
    std::vector<Sys> systems;
    for (int c = 2; c <= (vf::thorough() ? 9 : 5); ++c) systems.push_back(twophase(c));
    const long LIM = vf::thorough() ? 3000 : 300;
    int si = 0;
    for (auto &s : systems) {
        int id = si++;
        // cpr / cpr_drs with scalar matrix, block size 2
        for (const char *rl : {"spai0", "ilu0", "gauss_seidel", "damped_jacobi"}) for (int drs = 0; drs < 2; ++drs) {
            std::string key = vf::KS() << "cpr|" << id << "|" << rl << "|" << drs;
            if (!vf::take([&] { return key; })) continue;
            vf::nontrivial(vf::hstr(key));
            auto params = [&] { ptree p; p.put("block_size", 2); p.put("pprecond.coarsening.type", "aggregation"); p.put("pprecond.relax.type", "spai0"); p.put("pprecond.coarse_enough", 1); p.put("sprecond.type", rl); return p; };
            if (!drs) compare_shuffled("cpr", rl, key, s, LIM, [&](const Sys &m) { return applier(std::make_shared<preconditioner::cpr<AMG, RelaxP>>(std::tie(m.n, m.ptr, m.col, m.val), params())); });
            else      compare_shuffled("cpr_drs", rl, key, s, LIM, [&](const Sys &m) { return applier(std::make_shared<preconditioner::cpr_drs<AMG, RelaxP>>(std::tie(m.n, m.ptr, m.col, m.val), params())); });
            // refresh of an existing object: built once from the sorted system, then partial_update(K, update_transfer_ops)
            // with K = the same matrix in every shuffled row order (the reference is the refresh with sorted rows)
            for (int upd = 0; upd < 2; ++upd) {
                std::string cls = std::string(drs ? "cpr_drs" : "cpr") + (upd ? ".partial_update_transfer" : ".partial_update_noxfer");
                if (!drs) compare_shuffled(cls, rl, key, s, LIM, [&](const Sys &m) {
                    auto P = std::make_shared<preconditioner::cpr<AMG, RelaxP>>(std::tie(s.n, s.ptr, s.col, s.val), params());
                    P->partial_update(std::tie(m.n, m.ptr, m.col, m.val), (bool)upd);
                    return applier(P); });
                else compare_shuffled(cls, rl, key, s, LIM, [&](const Sys &m) {
                    auto P = std::make_shared<preconditioner::cpr_drs<AMG, RelaxP>>(std::tie(s.n, s.ptr, s.col, s.val), params());
                    P->partial_update(std::tie(m.n, m.ptr, m.col, m.val), (bool)upd);
                    return applier(P); });
            }
        }
        // schur pressure correction: pressure = even unknowns
        for (int type = 1; type <= 2; ++type) for (int adjust = 0; adjust <= 2; ++adjust) for (int approx = 0; approx < 2; ++approx) {
            std::string key = vf::KS() << "schur|" << id << "|" << type << "|" << adjust << "|" << approx;
            if (!vf::take([&] { return key; })) continue;
            vf::nontrivial(vf::hstr(key));
            typedef preconditioner::schur_pressure_correction<InnerRelax, InnerRelax> Schur;
            std::string cfg = vf::KS() << "type" << type << ".adjust_p" << adjust << ".approx_schur" << approx;
            compare_shuffled("schur_pressure_correction", cfg, key, s, LIM, [&](const Sys &m) {
                Schur::params prm; prm.type = type; prm.adjust_p = adjust; prm.approx_schur = approx;
                prm.pmask.assign(m.n, 0); for (int i = 0; i < m.n; i += 2) prm.pmask[i] = 1;
                { ptree p; p.put("type", "spai0"); prm.usolver.precond = RelaxP::params(p); prm.psolver.precond = RelaxP::params(p); }
                return applier(std::make_shared<Schur>(std::tie(m.n, m.ptr, m.col, m.val), prm));
            });
        }
        // make_block_solver: scalar matrix blocked 2x2 internally
        for (const char *sv : {"bicgstab", "gmres"}) {
            std::string key = vf::KS() << "mkb|" << id << "|" << sv;
            if (!vf::take([&] { return key; })) continue;
            vf::nontrivial(vf::hstr(key));
            typedef backend::builtin<static_matrix<double, 2, 2>> BB;
            typedef make_block_solver<amg<BB, runtime::coarsening::wrapper, runtime::relaxation::wrapper>, runtime::solver::wrapper<BB>> BSolver;
            compare_shuffled("make_block_solver", sv, key, s, LIM, [&](const Sys &m) {
                ptree p; p.put("precond.coarsening.type", "aggregation"); p.put("precond.relax.type", "spai0"); p.put("precond.coarse_enough", 1);
                p.put("solver.type", sv); p.put("solver.tol", 1e-10); p.put("solver.maxiter", 100);
                auto S = std::make_shared<BSolver>(std::tie(m.n, m.ptr, m.col, m.val), p);
                return Apply([S](const std::vector<double> &f, std::vector<double> &x) { (*S)(f, x); });
            });
        }
    }
    vf::space("cpr / cpr_drs (block size 2, 4 relaxations; construction and partial_update with / without transfer-operator update), schur_pressure_correction (type x adjust_p x approx_schur), make_block_solver<2x2>: two-phase systems with 2..5 (thorough: 9) cells; every in-row permutation (small) or single-row permutations + reversed + rotated");
}
#endif

int main(int argc, char **argv) {
    vf::init(argc, argv, "C17");
    vf::sample_str("shuffled-input case: " + show(shuffles(tri(4, -1, -1), 10).back()) + " must give the same preconditioner as " + show(tri(4, -1, -1)));
#ifdef P_RELAX
    if (vf::section("relax") || vf::section("relaxz")) run_relax();
#endif
#ifdef P_AMG
    if (vf::section("amg") || vf::section("amgz") || vf::section("amgi") || vf::section("mks") || vf::section("solve")) run_amg();
#endif
#ifdef P_COMP
    if (vf::section("cpr") || vf::section("schur") || vf::section("mkb")) run_comp();
#endif
    return vf::finish();
}
