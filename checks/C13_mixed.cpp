// C13 unit "mixed" -- a single-precision preconditioner (backend::builtin<float>) under a double-precision solver still reaches the
// default 1e-8 tolerance on the diffusion model problems (the SPD M-matrix family of C01: 1-D/2-D/3-D grids with coefficient
// contrast masks, anisotropy).
//
// case = (system, preconditioner class, coarsening, relaxation, solver).  Both
//   double   make_solver< runtime::preconditioner<builtin<double>>, runtime::solver::wrapper<builtin<double>> >
//   mixed    make_solver< runtime::preconditioner<builtin<float>>,  runtime::solver::wrapper<builtin<double>> >
// are constructed from the same double CRS arrays and property tree and solved with the documented call form S(A, rhs, x)
// (A = the user's double-precision matrix; examples/mixed_precision.cpp).  Default solver parameters (tol 1e-8, maxiter 100).
// sub-checks (suffix = solver type):
//   mp.reaches_tol      the all-double configuration converged (reported and recomputed residual < tol) but the mixed one did not
//   mp.truthful         |reported - true| <= bound for the mixed solver (DESIGN C01/FA bound, u = double round-off: the Krylov
//                       recurrences and the residual are evaluated in double; the preconditioner is just another operator)
//   mp.tol              reported < 1e-8 => true <= 1e-8 (1+1e-6) + bound
//   mp.exception        the mixed solver throws something the double one does not (breakdown preconditions and "not supported" excluded)
//   mp.operator         the level-0 matrix of the float preconditioner == the double matrix rounded to float entry by entry
#define AMGCL_PARAM_UNKNOWN(name) throw std::logic_error(std::string("HARNESS: unknown parameter ") + std::string(name))
#include <tuple>
#include <boost/property_tree/ptree.hpp>
#include <amgcl/backend/builtin.hpp>
#include <amgcl/adapter/crs_tuple.hpp>
#include <amgcl/make_solver.hpp>
#include <amgcl/backend/detail/mixing.hpp>
#include <amgcl/value_type/static_matrix.hpp>
#include <amgcl/preconditioner/runtime.hpp>
#include <amgcl/solver/runtime.hpp>
#include "vf.hpp"
#include "C13_common.hpp"

using namespace amgcl;
using c13::ld;
typedef boost::property_tree::ptree ptree;
typedef backend::builtin<double> DB;
typedef backend::builtin<float> FB;
typedef make_solver<runtime::preconditioner<DB>, runtime::solver::wrapper<DB>> SD;
typedef make_solver<runtime::preconditioner<FB>, runtime::solver::wrapper<DB>> SM;

struct Out { bool threw = false; std::string what; size_t iters = 0; double resid = 0; std::vector<double> x; std::string opdiff; };

template <class S> static Out run(const sg::Crs<double> &A, const ptree &p, const std::vector<double> &f, bool check_op) {
    Out o;
    try {
        int n = A.n; std::vector<ptrdiff_t> ptr = A.ptr, col = A.col; std::vector<double> val = A.val; auto At = std::tie(n, ptr, col, val);
        S s(At, p);
        if (check_op) {
            const auto &L = s.precond().system_matrix();
            std::ostringstream e;
            if ((int)backend::rows(L) != n) e << "level-0 matrix has " << backend::rows(L) << " rows";
            else for (int i = 0; i < n && e.str().empty(); ++i) {
                if (L.ptr[i + 1] - L.ptr[i] != A.ptr[i + 1] - A.ptr[i]) { e << "row " << i << " width differs"; break; }
                for (ptrdiff_t j = A.ptr[i], k = L.ptr[i]; j < A.ptr[i + 1]; ++j, ++k) if (L.col[k] != A.col[j] || !(L.val[k] == (float)A.val[j])) { e << "entry (" << i << "," << A.col[j] << ") = " << L.val[k] << ", expected float(" << A.val[j] << ")"; break; }
            }
            o.opdiff = e.str();
        }
        o.x.assign(n, 0.0);
        std::tie(o.iters, o.resid) = s(At, f, o.x);
    } catch (const std::exception &e) { o.threw = true; o.what = e.what(); }
    return o;
}
// Call form S(rhs, x) of the mixed solver iterates on the preconditioner's single-precision copy of the matrix.  When every entry
// of A is representable in float that copy IS the matrix, so the reported residual has to be truthful for the double system:
// two solves on one object, the second warm-started from the first solution with a slightly different right-hand side (a
// non-zero initial guess makes the first residual f - A x0 a difference of nearly equal numbers).
struct Warm { bool threw = false; std::string what; size_t it1 = 0, it2 = 0; double r1 = 0, r2 = 0; std::vector<double> x1, x2, f2; };
static bool float_exact(const sg::Crs<double> &A) { for (double v : A.val) if ((double)(float)v != v) return false; return true; }
static Warm run_warm(const sg::Crs<double> &A, const ptree &p, const std::vector<double> &f) {
    Warm w;
    try {
        int n = A.n; std::vector<ptrdiff_t> ptr = A.ptr, col = A.col; std::vector<double> val = A.val; auto At = std::tie(n, ptr, col, val);
        SM s(At, p);
        w.x1.assign(n, 0.0);
        std::tie(w.it1, w.r1) = s(f, w.x1);
        w.f2 = f; for (int i = 0; i < n; ++i) w.f2[i] *= 1.0 + 0.0009765625 * (1 + i % 5);
        w.x2 = w.x1;
        std::tie(w.it2, w.r2) = s(w.f2, w.x2);
    } catch (const std::exception &e) { w.threw = true; w.what = e.what(); }
    return w;
}
static bool allowed_breakdown(const std::string &w) { return w.find("Zero rho") != std::string::npos || w.find("Zero omega") != std::string::npos || w.find("breakdown") != std::string::npos; }
static bool unsupported(const std::string &w) { return w.find("not supported") != std::string::npos; }

int main(int argc, char **argv) {
    vf::init(argc, argv, "C13");
    const bool T = vf::thorough();
    std::vector<std::string> coars = {"aggregation", "smoothed_aggregation", "smoothed_aggr_emin", "ruge_stuben"};
    std::vector<std::string> relax = {"spai0", "damped_jacobi", "gauss_seidel", "ilu0", "iluk", "ilut", "ilup", "chebyshev", "spai1"};
    std::vector<std::string> solvers = {"cg", "bicgstab", "gmres", "bicgstabl"};
    if (T) for (const char *s : {"idrs", "lgmres", "fgmres", "richardson"}) solvers.push_back(s);      // here all 8: the clause is "still reaches 1e-8", judged against the all-double run
    if (vf::section("mp")) {
        std::vector<sg::System<double>> sys;
        for (auto &s : sg::grid_systems(1)) if (s.spd_mmatrix && s.A.n <= 150) sys.push_back(s);
        size_t ncase = 0;
        for (auto &S : sys) {
            sg::SvdInfo sv; bool have = false; std::vector<double> f; ld fn = 0;
            // preconditioner classes: amg with every coarsening x relaxation; a relaxation alone as preconditioner
            struct PC { std::string cls, c, r; };
            std::vector<PC> pcs;
            for (auto &c : coars) for (auto &r : relax) pcs.push_back({"amg", c, r});
            for (auto &r : relax) pcs.push_back({"relaxation", "-", r});
            for (auto &pc : pcs) for (auto &so : solvers) {
                ++ncase;
                if (!vf::take([&] { return std::string(vf::KS() << "mp|" << S.name << "|" << pc.cls << "|" << pc.c << "|" << pc.r << "|" << so); })) continue;
                std::string key = vf::KS() << "mp|" << S.name << "|" << pc.cls << "|" << pc.c << "|" << pc.r << "|" << so;
                if (!have) { sv = sg::svd_info(S.A); f = sg::rhs(sg::RHS_ONES, S.A); fn = sg::norm2_ld(f); have = true; }
                ptree p; p.put("precond.class", pc.cls);
                if (pc.cls == "amg") { p.put("precond.coarsening.type", pc.c); p.put("precond.relax.type", pc.r); p.put("precond.coarse_enough", std::max(2, S.A.n / 8)); }
                else p.put("precond.type", pc.r);
                p.put("solver.type", so);
                const std::string in = vf::KS() << " :: " << pc.cls << ":" << pc.c << "+" << pc.r << " + " << so << " :: " << S.name << " n=" << S.A.n << " kappa=" << sv.kappa;
                Out od = run<SD>(S.A, p, f, false), om = run<SM>(S.A, p, f, true);
                auto conv = [&](const Out &o, ld &tr, ld &bd) {
                    if (o.threw || !c13::all_finite(o.x) || !std::isfinite(o.resid)) return false;
                    tr = c13::truth(S.A, f, o.x); bd = c13::bound(o.iters, S.A.n, sv, 0, sg::norm2_ld(o.x), fn, o.resid);
                    return o.resid < 1e-8 && tr <= 1e-8L * (1 + 1e-6L) + bd;
                };
                ld trd = 0, bdd = 0, trm = 0, bdm = 0;
                bool cd = conv(od, trd, bdd), cm = conv(om, trm, bdm);
                vf::count(od.threw ? "double.threw" : cd ? "double.converged" : "double.not_converged");
                if (om.threw) {
                    if (unsupported(om.what)) { vf::count("mixed.unsupported"); continue; }
                    if (om.what.find("HARNESS") != std::string::npos) { vf::fail("harness.param", key, om.what + in); continue; }
                    if (allowed_breakdown(om.what)) { vf::count("mixed.breakdown_exception." + so); if (cd) vf::count("mixed.breakdown_exception_while_double_converged." + so); continue; }
                    if (od.threw && od.what == om.what) { vf::count("mixed.same_exception_as_double"); continue; }
                    vf::fail("mp.exception." + so, key, "exception '" + om.what + "'" + (od.threw ? " (double threw '" + od.what + "')" : " (double did not throw)") + in);
                    continue;
                }
                vf::count("mixed.ran");
                if (!om.opdiff.empty()) vf::fail("mp.operator", key, om.opdiff + in);
                if (om.iters >= 2) vf::nontrivial(vf::hstr(key));
                bool fin = c13::all_finite(om.x) && std::isfinite(om.resid);
                if (fin) {
                    ld diff = fabsl((ld)om.resid - trm);
                    if (om.resid > 1 || trm > 1) vf::count("mixed.diverged_not_judged_for_truthfulness");
                    else if (om.resid < 1e-8 && !(trm <= 1e-8L * (1 + 1e-6L) + bdm)) vf::fail("mp.tol." + so, key, vf::KS() << "reported=" << om.resid << " < tol but true=" << (double)trm << " iters=" << om.iters << in);
                    else if (!(diff <= bdm) && !(om.resid < 1e-8 && trm < 1e-8L)) vf::fail("mp.truthful." + so, key, vf::KS() << "reported=" << om.resid << " true=" << (double)trm << " |diff|=" << (double)diff << " > bound=" << (double)bdm << " iters=" << om.iters << in);
                    else if (!(diff <= bdm)) vf::count("margin.gap_above_bound_but_both_below_tol");
                    // early-stopped probe: two-sided bound as derived
                    if (om.iters > 2) {
                        ptree pe = p; pe.put("solver.maxiter", 2);
                        Out oe = run<SM>(S.A, pe, f, false);
                        if (!oe.threw && c13::all_finite(oe.x) && std::isfinite(oe.resid)) {
                            ld tre = c13::truth(S.A, f, oe.x), bde = c13::bound(oe.iters, S.A.n, sv, 0, sg::norm2_ld(oe.x), fn, oe.resid);
                            vf::count(tre > 1e-6L ? "early.residual_above_1e-6" : "early.residual_below_1e-6");
                            if (!(oe.resid > 1 || tre > 1) && !(fabsl((ld)oe.resid - tre) <= bde)) vf::fail("mp.truthful_early." + so, key, vf::KS() << "maxiter=2 reported=" << oe.resid << " true=" << (double)tre << " bound=" << (double)bde << in);
                        }
                    }
                } else vf::count("mixed.nonfinite");
                if (cm) { vf::count("mixed.converged"); long d = (long)om.iters - (long)od.iters; if (cd) vf::count(d <= 0 ? "iters.mixed_le_double" : d <= 2 ? "iters.mixed_minus_double_1_2" : d <= 10 ? "iters.mixed_minus_double_3_10" : "iters.mixed_minus_double_gt_10"); }
                if (float_exact(S.A) && !om.threw) {
                    Warm w = run_warm(S.A, p, f);
                    if (!w.threw && c13::all_finite(w.x1) && c13::all_finite(w.x2) && std::isfinite(w.r1) && std::isfinite(w.r2)) {
                        ld fn2 = sg::norm2_ld(w.f2);
                        ld t1 = c13::truth(S.A, f, w.x1), t2 = c13::truth(S.A, w.f2, w.x2);
                        ld b1 = c13::bound(w.it1, S.A.n, sv, 0, sg::norm2_ld(w.x1), fn, w.r1), b2 = c13::bound(w.it2, S.A.n, sv, sg::norm2_ld(w.x1), sg::norm2_ld(w.x2), fn2, w.r2);
                        vf::count("mixed.warm_start_pairs");
                        if (!(w.r1 > 1 || t1 > 1) && !(fabsl((ld)w.r1 - t1) <= b1) && !(w.r1 < 1e-8 && t1 < 1e-8L)) vf::fail("mp.truthful_own_matrix." + so, key, vf::KS() << "S(rhs,x), cold start: reported=" << w.r1 << " true=" << (double)t1 << " bound=" << (double)b1 << in);
                        else if (!(w.r2 > 1 || t2 > 1) && ((w.r2 < 1e-8 && !(t2 <= 1e-8L * (1 + 1e-6L) + b2)) || (!(fabsl((ld)w.r2 - t2) <= b2) && !(w.r2 < 1e-8 && t2 < 1e-8L))))
                            vf::fail("mp.truthful_warm_start." + so, key, vf::KS() << "S(rhs,x), second solve warm-started from the first solution: reported=" << w.r2 << " true=" << (double)t2 << " |diff|=" << (double)fabsl((ld)w.r2 - t2) << " > bound=" << (double)b2 << " iters=" << w.it2 << in);
                    } else vf::count("mixed.warm_start_not_judged");
                }
                if (cd && !cm) vf::fail("mp.reaches_tol." + so, key, vf::KS() << "double preconditioner: " << od.iters << " its, reported " << od.resid << " (true " << (double)trd << "); float preconditioner: " << om.iters << " its, reported " << om.resid << " (true " << (double)trm << ")" << in);
            }
        }
        vf::space(vf::KS() << sys.size() << " SPD M-matrix diffusion systems (C01 grid family, n <= 150) x (4 coarsenings x 9 relaxations as AMG + 9 relaxations alone) x " << solvers.size() << " solvers = " << ncase << " cases, float vs double preconditioner");
    }
    // mixed block / scalar backends of different precision (the pressure-correction preconditioners combine a block U-solver with a
    // scalar P-solver): the common backend they compute in is documented as "the backend with scalar value_type of highest
    // precision" -- all ordered pairs of {float, double} x {scalar, 2x2 block, 3x3 block} with at least one block
    if (vf::section("mix")) {
        auto chk = [&](const char *name, size_t got, size_t s1, size_t s2) {
            std::string key = std::string("mix|") + name;
            if (!vf::take([&]{ return key; })) return;
            vf::nontrivial(vf::hstr(key));
            vf::count("common_backend_pairs");
            if (got != std::max(s1, s2)) vf::fail("mp.common_scalar_backend", key, vf::KS() << "common_scalar_backend<" << name << "> computes in a scalar of " << got << " bytes, the operands have " << s1 << " and " << s2 << " (highest precision expected)");
        };
        #define C13_MIX(N, V1, V2) chk(N, sizeof(typename backend::detail::common_scalar_backend<backend::builtin<V1>, backend::builtin<V2>>::type::value_type), sizeof(typename math::scalar_of<V1>::type), sizeof(typename math::scalar_of<V2>::type))
        typedef static_matrix<double, 2, 2> D2; typedef static_matrix<float, 2, 2> F2; typedef static_matrix<double, 3, 3> D3; typedef static_matrix<float, 3, 3> F3;
        C13_MIX("double2x2,float", D2, float); C13_MIX("float,double2x2", float, D2); C13_MIX("float2x2,double", F2, double); C13_MIX("double,float2x2", double, F2);
        C13_MIX("double3x3,float", D3, float); C13_MIX("float3x3,double", F3, double); C13_MIX("double2x2,float3x3", D2, F3); C13_MIX("float2x2,double3x3", F2, D3);
        C13_MIX("double2x2,double", D2, double); C13_MIX("float,float2x2", float, F2);
        #undef C13_MIX
        vf::space("common backend of mixed block/scalar pairs: 10 ordered pairs over {float,double} x {scalar, 2x2, 3x3}");
    }
    vf::sample_str("mp|grid2d_4x4_checker_c100|amg|smoothed_aggregation|spai0|cg: builtin<float> AMG under a builtin<double> CG");
    return vf::finish();
}
