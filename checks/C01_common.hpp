// C01_common.hpp -- deterministic linear-system families and dense helpers shared by the
// solver-level checks (C01, C05; meant to be reused by C02, C15, C20).
//
// Everything here is plain data: a system is three std::vectors (ptr/col/val, rows sorted,
// 0-based) plus measured structural flags.  No amgcl headers are needed to use this file;
// hand the arrays to amgcl with  std::tie(n, A.ptr, A.col, A.val)  /  amgcl::adapter::zero_copy.
// No RNG, no clock: every family is an explicit finite enumeration.
//
//   sg::Crs<V>                         CRS arrays
//   sg::connected_graphs(n)            edge masks of ALL labelled connected graphs on n nodes
//   sg::graph_laplacian(n,mask,shift,wrule)
//   sg::grid_diffusion(nx,ny,nz,coef,ax,ay,az,shift)      7-point, Dirichlet, harmonic averaging
//   sg::coef_mask(kind,contrast)       coefficient layouts: uniform/stripes/checker/half/inclusion
//   sg::convection_diffusion(nx,ny,peclet,bx,by)          first-order upwind, nonsymmetric M-matrix
//   sg::complex_shifted_laplacian(nx,ny,sre,sim)
//   sg::kron(A,B,b) / sg::kron_identity(A,b)              scalar CRS of A (x) B
//   sg::real_systems(level) / sg::complex_systems(level)  the named families used by C01
//   sg::rhs(kind,A) , sg::guess(kind,A,f)                 right-hand sides / initial guesses
//   sg::dense(A), sg::svd_info(A) -> {sigma_max, sigma_min, kappa2}
//   sg::true_residual(A,f,x)           ||f - A x||_2 evaluated in long double from the user's arrays
#ifndef VERIF_C01_COMMON_HPP
#define VERIF_C01_COMMON_HPP

#include <vector>
#include <map>
#include <string>
#include <sstream>
#include <complex>
#include <cstdint>
#include <cstddef>
#include <cmath>
#include <functional>
#include <algorithm>
#include <Eigen/Dense>

namespace sg {

typedef std::complex<double> cplx;
typedef long double ld;
typedef std::complex<long double> cld;

template <class V> struct ld_of            { typedef long double type; };
template <class T> struct ld_of<std::complex<T>> { typedef std::complex<long double> type; };

// ------------------------------------------------------------------------------------------
template <class V>
struct Crs {
    int n = 0;
    std::vector<ptrdiff_t> ptr, col;
    std::vector<V> val;
    size_t nnz() const { return val.size(); }
};

template <class V>
struct Builder {
    int n;
    std::vector<std::map<int, V>> rows;
    explicit Builder(int n) : n(n), rows(n) {}
    void add(int i, int j, V v) { rows[i][j] += v; }
    Crs<V> finish() const {
        Crs<V> A; A.n = n; A.ptr.assign(n + 1, 0);
        for (int i = 0; i < n; ++i) A.ptr[i + 1] = A.ptr[i] + (ptrdiff_t)rows[i].size();
        A.col.reserve(A.ptr[n]); A.val.reserve(A.ptr[n]);
        for (int i = 0; i < n; ++i) for (auto &kv : rows[i]) { A.col.push_back(kv.first); A.val.push_back(kv.second); }
        return A;
    }
};

template <class V>
struct System {
    Crs<V> A;
    std::string name;      // unique, deterministic
    std::string family;    // graph | grid1d | grid2d | grid3d | aniso | convdiff | cshift | kron | ...
    // measured (see classify()):
    bool symmetric = false;      // A == A^H exactly
    bool mmatrix = false;        // positive real diagonal, off-diagonals real <= 0, weakly diagonally dominant, one strict row
    bool spd_mmatrix = false;    // symmetric && mmatrix  (=> SPD, the "diffusion type model problem" of C01)
};

// ------------------------------------------------------------------------------------------
// dense helpers
template <class V>
Eigen::Matrix<V, Eigen::Dynamic, Eigen::Dynamic> dense(const Crs<V> &A) {
    Eigen::Matrix<V, Eigen::Dynamic, Eigen::Dynamic> D = Eigen::Matrix<V, Eigen::Dynamic, Eigen::Dynamic>::Zero(A.n, A.n);
    for (int i = 0; i < A.n; ++i) for (ptrdiff_t j = A.ptr[i]; j < A.ptr[i + 1]; ++j) D(i, A.col[j]) += A.val[j];
    return D;
}

struct SvdInfo { double smax = 0, smin = 0, kappa = 0; };

template <class M>
SvdInfo svd_info_dense(const M &D) {
    SvdInfo s;
    if (D.rows() == 0) return s;
    Eigen::JacobiSVD<M> svd(D);
    s.smax = svd.singularValues()(0);
    s.smin = svd.singularValues()(D.rows() - 1);
    s.kappa = s.smin > 0 ? s.smax / s.smin : INFINITY;
    return s;
}
template <class V> SvdInfo svd_info(const Crs<V> &A) { return svd_info_dense(dense(A)); }

template <class T> inline long double abs2_ld(const T &x) { return (long double)x * (long double)x; }
template <class T> inline long double abs2_ld(const std::complex<T> &x) { return (long double)x.real() * x.real() + (long double)x.imag() * x.imag(); }

template <class V> long double norm2_ld(const std::vector<V> &v) {
    long double s = 0; for (auto &x : v) s += abs2_ld(x); return sqrtl(s);
}

// r = f - A x in extended precision from the user's arrays
template <class V>
std::vector<typename ld_of<V>::type> residual_ld(const Crs<V> &A, const std::vector<V> &f, const std::vector<V> &x) {
    typedef typename ld_of<V>::type L;
    std::vector<L> r(A.n);
    for (int i = 0; i < A.n; ++i) {
        L s = (L)f[i];
        for (ptrdiff_t j = A.ptr[i]; j < A.ptr[i + 1]; ++j) s -= (L)A.val[j] * (L)x[A.col[j]];
        r[i] = s;
    }
    return r;
}
template <class V> long double true_residual(const Crs<V> &A, const std::vector<V> &f, const std::vector<V> &x) {
    return norm2_ld(residual_ld(A, f, x));
}

template <class V> std::vector<V> spmv(const Crs<V> &A, const std::vector<V> &x) {
    std::vector<V> y(A.n);
    for (int i = 0; i < A.n; ++i) { V s = V(); for (ptrdiff_t j = A.ptr[i]; j < A.ptr[i + 1]; ++j) s += A.val[j] * x[A.col[j]]; y[i] = s; }
    return y;
}

inline double realpart(double x) { return x; }
inline double realpart(const cplx &x) { return x.real(); }
inline double imagpart(double) { return 0; }
inline double imagpart(const cplx &x) { return x.imag(); }
inline double conjv(double x) { return x; }
inline cplx conjv(const cplx &x) { return std::conj(x); }
inline ld conjv_ld(ld x) { return x; }
inline cld conjv_ld(const cld &x) { return std::conj(x); }

template <class V>
void classify(System<V> &S) {
    const Crs<V> &A = S.A;
    auto D = dense(A);
    bool sym = true, mm = true, strict = false;
    for (int i = 0; i < A.n; ++i) {
        double off = 0;
        for (int j = 0; j < A.n; ++j) {
            if (D(i, j) != conjv(D(j, i))) sym = false;
            if (i != j) {
                if (imagpart(D(i, j)) != 0 || realpart(D(i, j)) > 0) mm = false;
                off += std::abs(D(i, j));
            }
        }
        if (imagpart(D(i, i)) != 0 || realpart(D(i, i)) <= 0) mm = false;
        else {
            double d = realpart(D(i, i));
            if (d < off * (1 - 1e-14)) mm = false;
            if (d > off * (1 + 1e-12)) strict = true;
        }
    }
    S.symmetric = sym;
    S.mmatrix = mm && strict;
    S.spd_mmatrix = sym && mm && strict;
}

// ------------------------------------------------------------------------------------------
// graphs: edge k of n nodes is the k-th pair (i<j) in lexicographic order
inline int npairs(int n) { return n * (n - 1) / 2; }
inline void pair_of(int n, int k, int &i, int &j) {
    for (i = 0; i < n; ++i) for (j = i + 1; j < n; ++j) { if (k == 0) return; --k; }
}
inline bool graph_connected(int n, uint32_t mask) {
    if (n <= 1) return true;
    std::vector<int> comp(n); for (int i = 0; i < n; ++i) comp[i] = i;
    std::function<int(int)> find = [&](int a) { return comp[a] == a ? a : comp[a] = find(comp[a]); };
    int k = 0;
    for (int i = 0; i < n; ++i) for (int j = i + 1; j < n; ++j, ++k) if ((mask >> k) & 1u) comp[find(i)] = find(j);
    for (int i = 1; i < n; ++i) if (find(i) != find(0)) return false;
    return true;
}
// all labelled connected graphs on n nodes (n<=5: 1,1,4,38,728)
inline std::vector<uint32_t> connected_graphs(int n) {
    std::vector<uint32_t> g;
    for (uint32_t m = 0; m < (1u << npairs(n)); ++m) if (graph_connected(n, m)) g.push_back(m);
    return g;
}
// weight rule 0: unit weights; 1: position coded dyadic weights {1,2,1/2,4}; 2: contrast weights {1,10,100}
inline double edge_weight(int wrule, int i, int j) {
    static const double w1[4] = {1, 2, 0.5, 4};
    static const double w2[3] = {1, 10, 100};
    if (wrule == 1) return w1[(i + 2 * j) % 4];
    if (wrule == 2) return w2[(i * 2 + j) % 3];
    return 1;
}
// L + shift*I,  L = D - W
inline Crs<double> graph_laplacian(int n, uint32_t mask, double shift, int wrule = 0) {
    Builder<double> B(n);
    for (int i = 0; i < n; ++i) B.add(i, i, shift);
    int k = 0;
    for (int i = 0; i < n; ++i) for (int j = i + 1; j < n; ++j, ++k) if ((mask >> k) & 1u) {
        double w = edge_weight(wrule, i, j);
        B.add(i, j, -w); B.add(j, i, -w); B.add(i, i, w); B.add(j, j, w);
    }
    return B.finish();
}

// ------------------------------------------------------------------------------------------
// coefficient layouts on a grid
typedef std::function<double(int, int, int)> Coef;
enum { COEF_UNIFORM = 0, COEF_STRIPE_X, COEF_STRIPE_Y, COEF_STRIPE2_X, COEF_CHECKER, COEF_HALF, COEF_INCLUSION, COEF_KINDS };
inline const char *coef_name(int kind) {
    static const char *nm[] = {"uniform", "stripeX", "stripeY", "stripe2X", "checker", "half", "inclusion"};
    return nm[kind];
}
inline Coef coef_mask(int kind, double contrast, int nx = 0, int ny = 0, int nz = 0) {
    switch (kind) {
        case COEF_STRIPE_X:  return [=](int i, int, int) { return (i & 1) ? contrast : 1.0; };
        case COEF_STRIPE_Y:  return [=](int, int j, int) { return (j & 1) ? contrast : 1.0; };
        case COEF_STRIPE2_X: return [=](int i, int, int) { return ((i >> 1) & 1) ? contrast : 1.0; };
        case COEF_CHECKER:   return [=](int i, int j, int k) { return ((i + j + k) & 1) ? contrast : 1.0; };
        case COEF_HALF:      return [=](int i, int, int) { return (2 * i >= nx) ? contrast : 1.0; };
        case COEF_INCLUSION: return [=](int i, int j, int k) {
            bool in = (4 * i >= nx && 4 * i < 3 * nx) && (ny <= 1 || (4 * j >= ny && 4 * j < 3 * ny)) && (nz <= 1 || (4 * k >= nz && 4 * k < 3 * nz));
            return in ? contrast : 1.0; };
        default: return [](int, int, int) { return 1.0; };
    }
}

// -div(k grad u) + shift u on an nx x ny x nz vertex grid, homogeneous Dirichlet boundary eliminated.
// Face coefficient = harmonic mean of the two node coefficients (own value towards the boundary),
// direction weights ax, ay, az (anisotropy).  Result: symmetric M-matrix, strictly dominant in boundary rows.
inline Crs<double> grid_diffusion(int nx, int ny, int nz, const Coef &k, double ax = 1, double ay = 1, double az = 1, double shift = 0) {
    int n = nx * ny * nz;
    Builder<double> B(n);
    auto id = [&](int i, int j, int l) { return (l * ny + j) * nx + i; };
    const int dx[6] = {-1, 1, 0, 0, 0, 0}, dy[6] = {0, 0, -1, 1, 0, 0}, dz[6] = {0, 0, 0, 0, -1, 1};
    for (int l = 0; l < nz; ++l) for (int j = 0; j < ny; ++j) for (int i = 0; i < nx; ++i) {
        int p = id(i, j, l);
        double kp = k(i, j, l);
        B.add(p, p, shift);
        for (int d = 0; d < 6; ++d) {
            if ((d >= 2 && d < 4 && ny <= 1) || (d >= 4 && nz <= 1)) continue;    // lower-dimensional grid: no such direction
            double a = d < 2 ? ax : (d < 4 ? ay : az);
            int ii = i + dx[d], jj = j + dy[d], ll = l + dz[d];
            bool inside = ii >= 0 && ii < nx && jj >= 0 && jj < ny && ll >= 0 && ll < nz;
            double kq = inside ? k(ii, jj, ll) : kp;
            double w = a * 2 * kp * kq / (kp + kq);
            B.add(p, p, w);
            if (inside) B.add(p, id(ii, jj, ll), -w);
        }
    }
    return B.finish();
}

// -Laplace(u) + Pe * (b . grad u), first-order upwind on an nx x ny grid (h absorbed into Pe = cell Peclet number)
inline Crs<double> convection_diffusion(int nx, int ny, double peclet, double bx, double by) {
    int n = nx * ny;
    Builder<double> B(n);
    auto id = [&](int i, int j) { return j * nx + i; };
    for (int j = 0; j < ny; ++j) for (int i = 0; i < nx; ++i) {
        int p = id(i, j);
        const int dx[4] = {-1, 1, 0, 0}, dy[4] = {0, 0, -1, 1};
        for (int d = 0; d < 4; ++d) {
            if (d >= 2 && ny <= 1) continue;
            double w = 1;                                   // diffusion
            double b = d < 2 ? bx : by;
            // upwind: flow in +direction takes the value from the -direction neighbour
            if ((d % 2 == 0 && b > 0) || (d % 2 == 1 && b < 0)) w += peclet * std::abs(b);
            int ii = i + dx[d], jj = j + dy[d];
            B.add(p, p, w);
            if (ii >= 0 && ii < nx && jj >= 0 && jj < ny) B.add(p, id(ii, jj), -w);
        }
    }
    return B.finish();
}

template <class V>
Crs<cplx> to_complex(const Crs<V> &A) {
    Crs<cplx> C; C.n = A.n; C.ptr = A.ptr; C.col = A.col; C.val.assign(A.val.begin(), A.val.end());
    return C;
}

// 5-point Laplacian + (sre + i sim) I  (sre >= 0 keeps the diagonal dominant)
inline Crs<cplx> complex_shifted_laplacian(int nx, int ny, double sre, double sim) {
    Crs<cplx> C = to_complex(grid_diffusion(nx, ny, 1, coef_mask(COEF_UNIFORM, 1)));
    for (int i = 0; i < C.n; ++i) for (ptrdiff_t j = C.ptr[i]; j < C.ptr[i + 1]; ++j) if (C.col[j] == i) C.val[j] += cplx(sre, sim);
    return C;
}
// Hermitian positive definite: Laplacian with unimodular phases on the edges (a "magnetic" Laplacian) + shift
inline Crs<cplx> complex_hermitian_laplacian(int nx, int ny, double shift) {
    Crs<cplx> C = to_complex(grid_diffusion(nx, ny, 1, coef_mask(COEF_UNIFORM, 1), 1, 1, 1, shift));
    static const cplx ph[4] = {cplx(1, 0), cplx(0.6, 0.8), cplx(0, 1), cplx(0.8, -0.6)};
    for (int i = 0; i < C.n; ++i) for (ptrdiff_t j = C.ptr[i]; j < C.ptr[i + 1]; ++j) {
        int c = (int)C.col[j];
        if (c > i) C.val[j] *= ph[(i + c) % 4];
        else if (c < i) C.val[j] *= std::conj(ph[(i + c) % 4]);
    }
    return C;
}

// scalar CRS of A (x) B, B dense b x b row-major (zero entries of B are not stored)
template <class V>
Crs<V> kron(const Crs<V> &A, const std::vector<V> &Bd, int b) {
    Builder<V> K(A.n * b);
    for (int i = 0; i < A.n; ++i) for (ptrdiff_t j = A.ptr[i]; j < A.ptr[i + 1]; ++j)
        for (int p = 0; p < b; ++p) for (int q = 0; q < b; ++q) if (Bd[p * b + q] != V())
            K.add(i * b + p, (int)A.col[j] * b + q, A.val[j] * Bd[p * b + q]);
    return K.finish();
}
template <class V> Crs<V> kron_identity(const Crs<V> &A, int b) {
    std::vector<V> I(b * b, V()); for (int p = 0; p < b; ++p) I[p * b + p] = V(1);
    return kron(A, I, b);
}

// ------------------------------------------------------------------------------------------
// right-hand sides and initial guesses
enum { RHS_E1 = 0, RHS_ONES, RHS_ALT, RHS_A_ONES, RHS_A_RAMP, RHS_KINDS };
inline const char *rhs_name(int k) { static const char *nm[] = {"e1", "ones", "alt", "A*1", "A*ramp"}; return nm[k]; }
template <class V> std::vector<V> ramp(int n) { std::vector<V> r(n); for (int i = 0; i < n; ++i) r[i] = V((double)(i + 1) / n); return r; }
template <class V>
std::vector<V> rhs(int kind, const Crs<V> &A) {
    int n = A.n;
    std::vector<V> f(n, V());
    switch (kind) {
        case RHS_E1: if (n) f[0] = V(1); break;
        case RHS_ONES: for (auto &x : f) x = V(1); break;
        case RHS_ALT: for (int i = 0; i < n; ++i) f[i] = V((i & 1) ? -1.0 : 1.0); break;
        case RHS_A_ONES: f = spmv(A, std::vector<V>(n, V(1))); break;
        case RHS_A_RAMP: f = spmv(A, ramp<V>(n)); break;
    }
    return f;
}
enum { X0_ZERO = 0, X0_ONES, X0_RAMP, X0_EXACT, X0_KINDS };
inline const char *x0_name(int k) { static const char *nm[] = {"zero", "ones", "ramp", "exact"}; return nm[k]; }
// dense solve (Eigen partial-pivot LU in long double, rounded) -- used for the "exact" initial guess
template <class V>
std::vector<V> dense_solve(const Crs<V> &A, const std::vector<V> &f) {
    typedef typename ld_of<V>::type L;
    typedef Eigen::Matrix<L, Eigen::Dynamic, Eigen::Dynamic> M;
    typedef Eigen::Matrix<L, Eigen::Dynamic, 1> Vc;
    M D = M::Zero(A.n, A.n);
    for (int i = 0; i < A.n; ++i) for (ptrdiff_t j = A.ptr[i]; j < A.ptr[i + 1]; ++j) D(i, A.col[j]) += (L)A.val[j];
    Vc b(A.n); for (int i = 0; i < A.n; ++i) b(i) = (L)f[i];
    Vc x = D.partialPivLu().solve(b);
    std::vector<V> r(A.n); for (int i = 0; i < A.n; ++i) r[i] = (V)x(i);
    return r;
}
template <class V>
std::vector<V> guess(int kind, const Crs<V> &A, const std::vector<V> &f) {
    switch (kind) {
        case X0_ONES: return std::vector<V>(A.n, V(1));
        case X0_RAMP: return ramp<V>(A.n);
        case X0_EXACT: return dense_solve(A, f);
        default: return std::vector<V>(A.n, V());
    }
}

// ------------------------------------------------------------------------------------------
// The named families.  level 0 = the quick subset, 1 = everything.
template <class V> System<V> make_system(Crs<V> A, const std::string &family, const std::string &name) {
    System<V> S; S.A = std::move(A); S.family = family; S.name = name; classify(S); return S;
}

inline std::vector<System<double>> graph_systems(int nmin, int nmax, const std::vector<double> &shifts, const std::vector<int> &wrules) {
    std::vector<System<double>> out;
    for (int n = nmin; n <= nmax; ++n) for (uint32_t m : connected_graphs(n)) for (double s : shifts) for (int w : wrules) {
        std::ostringstream nm; nm << "graph" << n << "_m" << m << "_s" << s << "_w" << w;
        out.push_back(make_system(graph_laplacian(n, m, s, w), "graph", nm.str()));
    }
    return out;
}

inline std::vector<System<double>> grid_systems(int level) {
    std::vector<System<double>> out;
    auto add = [&](Crs<double> A, const char *fam, const std::string &nm) { out.push_back(make_system(std::move(A), fam, nm)); };
    std::vector<double> contrasts = level ? std::vector<double>{1, 10, 100} : std::vector<double>{1, 100};
    // 1-D
    for (int nx : (level ? std::vector<int>{3, 4, 5, 6, 7, 8, 16, 32} : std::vector<int>{5, 16}))
        for (double c : contrasts) for (int kind : {COEF_UNIFORM, COEF_STRIPE_X, COEF_STRIPE2_X, COEF_HALF}) {
            if ((c == 1) != (kind == COEF_UNIFORM)) continue;
            std::ostringstream nm; nm << "grid1d_" << nx << "_" << coef_name(kind) << "_c" << c;
            add(grid_diffusion(nx, 1, 1, coef_mask(kind, c, nx, 1, 1)), "grid1d", nm.str());
        }
    // 2-D
    for (int nx : (level ? std::vector<int>{3, 4, 5, 6, 7, 8} : std::vector<int>{4, 7}))
        for (double c : contrasts) for (int kind = 0; kind < COEF_KINDS; ++kind) {
            if ((c == 1) != (kind == COEF_UNIFORM)) continue;
            if (!level && !(kind == COEF_UNIFORM || kind == COEF_CHECKER || kind == COEF_STRIPE_X)) continue;
            int ny = nx - (nx > 4 ? 1 : 0);                                 // non-square for nx > 4
            std::ostringstream nm; nm << "grid2d_" << nx << "x" << ny << "_" << coef_name(kind) << "_c" << c;
            add(grid_diffusion(nx, ny, 1, coef_mask(kind, c, nx, ny, 1)), "grid2d", nm.str());
        }
    // 3-D
    for (int nx : (level ? std::vector<int>{3, 4, 5} : std::vector<int>{3}))
        for (double c : contrasts) for (int kind : {COEF_UNIFORM, COEF_CHECKER, COEF_HALF, COEF_INCLUSION}) {
            if ((c == 1) != (kind == COEF_UNIFORM)) continue;
            if (!level && kind == COEF_INCLUSION) continue;
            std::ostringstream nm; nm << "grid3d_" << nx << "_" << coef_name(kind) << "_c" << c;
            add(grid_diffusion(nx, nx, nx, coef_mask(kind, c, nx, nx, nx)), "grid3d", nm.str());
        }
    // anisotropy
    for (double e : (level ? std::vector<double>{0.1, 0.01} : std::vector<double>{0.01}))
        for (int nx : (level ? std::vector<int>{4, 6, 8} : std::vector<int>{4, 6})) {
            std::ostringstream nm; nm << "aniso2d_" << nx << "_eps" << e;
            add(grid_diffusion(nx, nx, 1, coef_mask(COEF_UNIFORM, 1), 1, e, 1), "aniso", nm.str());
            if (level && nx <= 4) { std::ostringstream n3; n3 << "aniso3d_" << nx << "_eps" << e; add(grid_diffusion(nx, nx, nx, coef_mask(COEF_UNIFORM, 1), 1, e, e), "aniso", n3.str()); }
        }
    return out;
}

inline std::vector<System<double>> convdiff_systems(int level) {
    std::vector<System<double>> out;
    for (double pe : (level ? std::vector<double>{0.5, 2, 10} : std::vector<double>{2}))
        for (int nx : (level ? std::vector<int>{4, 6, 8} : std::vector<int>{6})) {
            { std::ostringstream nm; nm << "convdiff2d_" << nx << "_pe" << pe << "_b(1,0.5)"; out.push_back(make_system(convection_diffusion(nx, nx, pe, 1, 0.5), "convdiff", nm.str())); }
            if (level) { std::ostringstream nm; nm << "convdiff2d_" << nx << "_pe" << pe << "_b(-1,1)"; out.push_back(make_system(convection_diffusion(nx, nx, pe, -1, 1), "convdiff", nm.str())); }
            if (level) { std::ostringstream nm; nm << "convdiff1d_" << nx * 2 << "_pe" << pe; out.push_back(make_system(convection_diffusion(nx * 2, 1, pe, 1, 0), "convdiff", nm.str())); }
        }
    return out;
}

inline std::vector<System<double>> kron_systems(int level) {
    std::vector<System<double>> out;
    const std::vector<double> B2 = {2, -1, -1, 2};                // SPD coupling block
    for (int nx : (level ? std::vector<int>{3, 5} : std::vector<int>{4})) {
        auto A = grid_diffusion(nx, nx, 1, coef_mask(COEF_UNIFORM, 1));
        { std::ostringstream nm; nm << "kronI2_grid2d_" << nx; out.push_back(make_system(kron_identity(A, 2), "kron", nm.str())); }
        { std::ostringstream nm; nm << "kronB2_grid2d_" << nx; out.push_back(make_system(kron(A, B2, 2), "kron", nm.str())); }
        if (level) { std::ostringstream nm; nm << "kronI3_grid2d_" << nx; out.push_back(make_system(kron_identity(A, 3), "kron", nm.str())); }
    }
    return out;
}

// every family, real valued.  Graph systems are kept separate (there are many of them and they are tiny).
inline std::vector<System<double>> real_systems(int level) {
    std::vector<System<double>> out = grid_systems(level);
    for (auto &s : convdiff_systems(level)) out.push_back(s);
    for (auto &s : kron_systems(level)) out.push_back(s);
    return out;
}

inline std::vector<System<cplx>> complex_systems(int level) {
    std::vector<System<cplx>> out;
    for (int nx : (level ? std::vector<int>{3, 5, 7} : std::vector<int>{4})) {
        for (double sim : (level ? std::vector<double>{0.5, 2} : std::vector<double>{1})) {
            std::ostringstream nm; nm << "cshift2d_" << nx << "_s(0.25," << sim << ")";
            out.push_back(make_system(complex_shifted_laplacian(nx, nx, 0.25, sim), "cshift", nm.str()));
        }
        { std::ostringstream nm; nm << "cherm2d_" << nx; out.push_back(make_system(complex_hermitian_laplacian(nx, nx, 0.25), "cherm", nm.str())); }
        if (level) { std::ostringstream nm; nm << "creal2d_" << nx; out.push_back(make_system(to_complex(grid_diffusion(nx, nx, 1, coef_mask(COEF_CHECKER, 10))), "creal", nm.str())); }
    }
    return out;
}

// ------------------------------------------------------------------------------------------
// Enumerable small systems: n x n sparsity pattern with a stored, strictly dominant diagonal (shared by C05 and C01).
//   rule 0 "spd"    symmetric pattern (mask over pairs i<j), real symmetric values, SPD
//   rule 1 "nonsym" any off-diagonal pattern (mask over off-diagonal positions, row-major), real nonsymmetric values
//   rule 2 "cherm"  symmetric pattern, complex Hermitian values, HPD
//   rule 3 "cshift" as nonsym plus a complex shift i*sigma_i on the diagonal
enum { PAT_SPD = 0, PAT_NONSYM = 1, PAT_CHERM = 2, PAT_CSHIFT = 3 };
inline const char *pattern_rule_name(int r) { static const char *nm[4] = {"spd", "nonsym", "cherm", "cshift"}; return nm[r]; }
template <class V> V make_value(double re, double im);
template <> inline double make_value<double>(double re, double) { return re; }
template <> inline cplx make_value<cplx>(double re, double im) { return cplx(re, im); }
inline int pattern_bits(int n, int rule) { return (rule == PAT_SPD || rule == PAT_CHERM) ? n * (n - 1) / 2 : n * (n - 1); }
template <class V>
Crs<V> dominant_pattern(int n, uint32_t mask, int rule) {
    static const double WT[4] = {1, 0.5, 2, 1.5};
    static const double DD[5] = {1, 2, 0.5, 1.5, 0.75};
    static const double NS[6] = {-1, 0.5, -2, 1.5, -0.5, 1};
    static const double SG[4] = {1, -0.5, 2, 0.75};
    std::vector<V> D((size_t)n * n, V()); std::vector<char> st((size_t)n * n, 0);
    std::vector<double> rowsum(n, 0);
    int b = 0;
    if (rule == PAT_SPD || rule == PAT_CHERM) {
        static const cplx PH[4] = {cplx(1, 0), cplx(0, 1), cplx(0.6, 0.8), cplx(0.8, -0.6)};
        for (int i = 0; i < n; ++i) for (int j = i + 1; j < n; ++j, ++b) if ((mask >> b) & 1u) {
            double w = WT[(i + 2 * j) % 4];
            st[i * n + j] = st[j * n + i] = 1; rowsum[i] += w; rowsum[j] += w;
            if (rule == PAT_SPD) { double sgn = ((i * j + i + j) % 3 == 0) ? 1 : -1; D[i * n + j] = D[j * n + i] = make_value<V>(sgn * w, 0); }
            else { cplx p = w * PH[(i + j) % 4]; D[i * n + j] = make_value<V>(p.real(), p.imag()); D[j * n + i] = make_value<V>(p.real(), -p.imag()); }
        }
    } else {
        for (int i = 0; i < n; ++i) for (int j = 0; j < n; ++j) if (i != j) { if ((mask >> b) & 1u) { double v = NS[(3 * i + 5 * j) % 6]; st[i * n + j] = 1; D[i * n + j] = make_value<V>(v, 0); rowsum[i] += std::abs(v); } ++b; }
    }
    for (int i = 0; i < n; ++i) { st[i * n + i] = 1; D[i * n + i] = make_value<V>(rowsum[i] + DD[i % 5], rule == PAT_CSHIFT ? SG[i % 4] : 0.0); }
    Builder<V> B(n);
    for (int i = 0; i < n; ++i) for (int j = 0; j < n; ++j) if (st[i * n + j]) B.add(i, j, D[i * n + j]);
    return B.finish();
}
// position-coded general right-hand side / ramp initial guess used with these systems
template <class V> std::vector<V> pattern_rhs(int n, int kind) {
    static const double GEN[10] = {1, -2, 3, 1.5, -0.5, 2.5, -1, 4, 0.75, -3};
    std::vector<V> f(n, V());
    if (kind == 0) for (int i = 0; i < n; ++i) f[i] = make_value<V>(GEN[i % 10], 0.5 * GEN[(i + 3) % 10]); else if (n) f[0] = make_value<V>(1, 0);
    return f;
}
template <class V> std::vector<V> pattern_x0(int n, int kind) {
    std::vector<V> x(n, V());
    if (kind == 1) for (int i = 0; i < n; ++i) x[i] = make_value<V>((double)(i + 1) / n, -0.5 * (i + 1) / n);
    return x;
}
// n = 4 off-diagonal masks that are symmetric, upper or lower triangular (the quick-tier sub-family)
inline bool pattern_sym_or_triangular(int n, uint32_t mask) {
    bool sym = true, up = true, lo = true; int b = 0; std::vector<char> e((size_t)n * n, 0);
    for (int i = 0; i < n; ++i) for (int j = 0; j < n; ++j) if (i != j) { e[i * n + j] = (mask >> b) & 1u; ++b; }
    for (int i = 0; i < n; ++i) for (int j = 0; j < n; ++j) if (i != j) { if (e[i * n + j] != e[j * n + i]) sym = false; if (i > j && e[i * n + j]) up = false; if (i < j && e[i * n + j]) lo = false; }
    return sym || up || lo;
}

template <class V> std::string show(const Crs<V> &A) {
    std::ostringstream o; o << A.n << "x" << A.n << "{";
    for (int i = 0; i < A.n; ++i) { o << (i ? ";" : ""); for (ptrdiff_t j = A.ptr[i]; j < A.ptr[i + 1]; ++j) o << (j > A.ptr[i] ? " " : "") << A.col[j] << ":" << A.val[j]; }
    o << "}"; return o.str();
}
template <class V> std::string showv(const std::vector<V> &v) {
    std::ostringstream o; o.precision(17); o << "[";
    for (size_t i = 0; i < v.size(); ++i) o << (i ? " " : "") << v[i];
    o << "]"; return o.str();
}

} // namespace sg
#endif
