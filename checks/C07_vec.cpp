// C07 unit "vec" -- vector primitives of the builtin backend (also used by block_crs and
// builtin_hybrid, whose vector type is builtin's numa_vector): axpby, axpbypcz, vmul, lin_comb,
// copy, clear, inner_product.  Every case runs the real amgcl function under the fiber OpenMP
// shim with a chosen team size and compares every output element by == with the defining
// formula evaluated in complex<long double> on small-integer / dyadic inputs.
#include <cstring>
#include <complex>
#include <numeric>
#include "vsched.hpp"
#include "C07_common.hpp"

using namespace amgcl;
using namespace c07;

static const int NTS_EL[] = {1, 2, 3, 5, 65};          // team sizes for element-wise primitives
static const int NTS_IP[] = {1, 2, 3, 5, 63, 64, 65};  // inner product: serial, static buffer, dynamic buffer
static std::vector<int> lens() { return {0, 1, 2, 3, 4, 5, 7, 66}; }

static std::string ckey(const char *op, const char *tn, const char *kind, int n, int ci, int nt) {
    return vf::KS() << op << "|" << tn << "|" << kind << "|" << n << "|" << ci << "|" << nt;
}

// ------------------------------------------------------------------------------------------- axpby
template <class T, int KX, int KY, class CB = typename coef_of<T>::type>
static void run_axpby() {
    typedef typename coef_of<T>::type C;
    std::string tns = std::string(tname<T>::get()) + (std::is_same<C, CB>::value ? "" : "*realb");
    const char *tn = tns.c_str();
    std::string kind = std::string(Holder<T, KX>::kind()) + "," + Holder<T, KY>::kind();
    const int nc = coefs<C>::n(), ncb = coefs<CB>::n();
    for (int n : lens()) for (int ia = 0; ia < nc; ++ia) for (int ib = 0; ib < ncb; ++ib) for (int nt : NTS_EL) {
        if (!vf::take([&]{ return ckey("axpby", tn, kind.c_str(), n, ia * nc + ib, nt); })) continue;
        std::string key = ckey("axpby", tn, kind.c_str(), n, ia * nc + ib, nt);
        C a = coefs<C>::get(ia); CB b = coefs<CB>::get(ib);
        bool bz = czero(b);
        if (n > 1) vf::nontrivial(vf::hstr(key));
        for (int pf = 0; pf <= (bz ? MIXED : FINITE); ++pf) {
            Holder<T, KX> x(n); Holder<T, KY> y(n); Holder<T, 0> y0(n);
            fill(x, 1); prefill(y, pf, 4); prefill(y0, pf, 4);
            with_threads(nt, [&]{ backend::axpby(a, x.vec(), b, y.vec()); });
            if (vs::trace().teams > 0) vf::count("axpby_ran_in_team");
            if (bz && pf) vf::count("axpby_zero_coef_nonfinite_prefill");
            for (int i = 0; i < n; ++i) {
                RM want = to_ref(a) * to_ref(x[i]);
                if (!bz) want = want + to_ref(b) * to_ref(y0[i]);
                if (!eq(y[i], want)) {
                    vf::fail(std::string(pf ? "axpby.zero_coef_ignores_output[" : "axpby.formula[") + tn + "]", key,
                        vf::KS() << "n=" << n << " a=" << show(a) << " b=" << show(b) << " prefill=" << special_name(pf) << " threads=" << nt
                                 << " i=" << i << " x=" << show(x[i]) << " y_before=" << show(y0[i]) << " got=" << show(y[i]) << " want=" << rshow(want));
                    break;
                }
            }
        }
    }
    vf::space(vf::KS() << "axpby " << tn << " (" << kind << "): lengths {0,1,2,3,4,5,7,66} x all coefficient pairs x threads {1,2,3,5,65} x output prefill {finite; NaN,+Inf,-Inf,mixed when b=0}");
}

// ---------------------------------------------------------------------------------------- axpbypcz
template <class T, int K>
static void run_axpbypcz() {
    typedef typename coef_of<T>::type C;
    const char *tn = tname<T>::get();
    const char *kind = Holder<T, K>::kind();
    const int nc = coefs<C>::n();
    for (int n : lens()) for (int ia = 0; ia < nc; ++ia) for (int ib = 0; ib < nc; ++ib) for (int ic = 0; ic < nc; ++ic) for (int nt : NTS_EL) {
        if (nt == 65 && n != 66 && n != 3) continue;
        if (!vf::take([&]{ return ckey("axpbypcz", tn, kind, n, (ia * nc + ib) * nc + ic, nt); })) continue;
        std::string key = ckey("axpbypcz", tn, kind, n, (ia * nc + ib) * nc + ic, nt);
        C a = coefs<C>::get(ia), b = coefs<C>::get(ib), c = coefs<C>::get(ic);
        bool cz = czero(c);
        if (n > 1) vf::nontrivial(vf::hstr(key));
        for (int pf = 0; pf <= (cz ? MIXED : FINITE); ++pf) {
            Holder<T, K> x(n), y(n), z(n); Holder<T, 0> z0(n);
            fill(x, 1); fill(y, 3, 2); prefill(z, pf, 6); prefill(z0, pf, 6);
            with_threads(nt, [&]{ backend::axpbypcz(a, x.vec(), b, y.vec(), c, z.vec()); });
            if (cz && pf) vf::count("axpbypcz_zero_coef_nonfinite_prefill");
            for (int i = 0; i < n; ++i) {
                RM want = to_ref(a) * to_ref(x[i]) + to_ref(b) * to_ref(y[i]);
                if (!cz) want = want + to_ref(c) * to_ref(z0[i]);
                if (!eq(z[i], want)) {
                    vf::fail(std::string(pf ? "axpbypcz.zero_coef_ignores_output[" : "axpbypcz.formula[") + tn + "]", key,
                        vf::KS() << "n=" << n << " a=" << show(a) << " b=" << show(b) << " c=" << show(c) << " prefill=" << special_name(pf) << " threads=" << nt
                                 << " i=" << i << " x=" << show(x[i]) << " y=" << show(y[i]) << " z_before=" << show(z0[i]) << " got=" << show(z[i]) << " want=" << rshow(want));
                    break;
                }
            }
        }
    }
    vf::space(vf::KS() << "axpbypcz " << tn << " (" << kind << "): lengths {0..5,7,66} x all coefficient triples x threads {1,2,3,5; 65 for n in {3,66}} x output prefill");
}

// -------------------------------------------------------------------------------------------- vmul
// z = a x.*y + b z ; X = element type of x (scalar or N x N block), Y = element type of y and z
// (same as X for scalars, N x 1 for blocks).  MODE 1/2/3: y and z / only y / only z are passed as
// vectors of the scalar type with N entries per block ("scalar vectors where block vectors are
// expected"), MODE 0: block vectors.
template <class X, class Y, int K, int MODE>
static void run_vmul() {
    constexpr bool SY = (MODE == 1 || MODE == 2), SZ = (MODE == 1 || MODE == 3);
    typedef typename coef_of<X>::type C;
    typedef typename math::scalar_of<Y>::type S0;
    typedef typename std::conditional<SY, typename math::element_of<Y>::type, Y>::type YE;   // element types actually stored
    typedef typename std::conditional<SZ, typename math::element_of<Y>::type, Y>::type ZE;
    const int pery = sizeof(Y) / sizeof(YE), perz = sizeof(Y) / sizeof(ZE);
    std::string tn = std::string(tname<X>::get()) + (MODE == 1 ? "*scalar_y_z" : MODE == 2 ? "*scalar_y" : MODE == 3 ? "*scalar_z" : "");
    const char *kind = Holder<X, K>::kind();
    const int nc = coefs<C>::n();
    for (int n : lens()) for (int ia = 0; ia < nc; ++ia) for (int ib = 0; ib < nc; ++ib) for (int nt : NTS_EL) {
        if (!vf::take([&]{ return ckey("vmul", tn.c_str(), kind, n, ia * nc + ib, nt); })) continue;
        std::string key = ckey("vmul", tn.c_str(), kind, n, ia * nc + ib, nt);
        C a = coefs<C>::get(ia), b = coefs<C>::get(ib);
        bool bz = czero(b);
        if (n > 1) vf::nontrivial(vf::hstr(key));
        for (int pf = 0; pf <= (bz ? MIXED : FINITE); ++pf) {
            Holder<X, K> x(n); Holder<YE, K> y(n * pery); Holder<ZE, K> z(n * perz); Holder<ZE, 0> z0(n * perz);
            fill(x, 2); fill(y, 5, 3); prefill(z, pf, 1); prefill(z0, pf, 1);
            with_threads(nt, [&]{ backend::vmul(a, x.vec(), y.vec(), b, z.vec()); });
            if (bz && pf) vf::count("vmul_zero_coef_nonfinite_prefill");
            if (MODE) vf::count("vmul_scalar_vectors_for_block_vectors");
            bool bad = false;
            for (int i = 0; i < n && !bad; ++i) {
                // gather element i of y, z0, z as RM of the shape of Y
                RM yi = to_ref(Y()), zi0 = yi, zi = yi;
                if constexpr (SY) { for (int q = 0; q < pery; ++q) yi.a[q] = to_ref(y[i * pery + q]).a[0]; } else yi = to_ref(y[i]);
                if constexpr (SZ) { for (int q = 0; q < perz; ++q) { zi0.a[q] = to_ref(z0[i * perz + q]).a[0]; zi.a[q] = to_ref(z[i * perz + q]).a[0]; } } else { zi0 = to_ref(z0[i]); zi = to_ref(z[i]); }
                RM want = to_ref(a) * (to_ref(x[i]) * yi);
                if (!bz) want = want + to_ref(b) * zi0;
                if (!req(zi, want)) {
                    bad = true;
                    vf::fail(std::string(pf ? "vmul.zero_coef_ignores_output[" : "vmul.formula[") + tn + "]", key,
                        vf::KS() << "n=" << n << " a=" << show(a) << " b=" << show(b) << " prefill=" << special_name(pf) << " threads=" << nt
                                 << " i=" << i << " x=" << show(x[i]) << " y=" << rshow(yi) << " z_before=" << rshow(zi0) << " got=" << rshow(zi) << " want=" << rshow(want));
                }
            }
        }
    }
    vf::space(vf::KS() << "vmul " << tn << " (" << kind << "): lengths {0..5,7,66} x all coefficient pairs x threads {1,2,3,5,65} x output prefill");
}

// ---------------------------------------------------------------------------------------- lin_comb
template <class T, int K>
static void run_lin_comb() {
    typedef typename coef_of<T>::type C;
    const char *tn = tname<T>::get();
    const char *kind = Holder<T, K>::kind();
    const int nc = coefs<C>::n();
    for (int k = 1; k <= 5; ++k) {
        // coefficient tuples: all nc^k for k <= 3; for k = 4,5 all tuples with at most two positions
        // differing from 1 ... enumerated as: all nc^2 values at every pair of positions, rest = 2
        std::vector<std::vector<int>> tuples;
        if (k <= 3) {
            int tot = 1; for (int q = 0; q < k; ++q) tot *= nc;
            for (int t = 0; t < tot; ++t) { std::vector<int> v(k); int r = t; for (int q = 0; q < k; ++q) { v[q] = r % nc; r /= nc; } tuples.push_back(v); }
        } else {
            for (int p = 0; p < k; ++p) for (int q = p + 1; q < k; ++q) for (int u = 0; u < nc; ++u) for (int w = 0; w < nc; ++w) {
                std::vector<int> v(k, 3); v[p] = u; v[q] = w; tuples.push_back(v);
            }
            std::sort(tuples.begin(), tuples.end()); tuples.erase(std::unique(tuples.begin(), tuples.end()), tuples.end());
        }
        for (int n : {0, 1, 3, 5}) for (size_t ti = 0; ti < tuples.size(); ++ti) for (int ial = 0; ial < nc; ++ial) for (int nt : {1, 3}) {
            if (!vf::take([&]{ return ckey("lincomb", tn, kind, n * 10 + k, (int)ti * nc + ial, nt); })) continue;
            std::string key = ckey("lincomb", tn, kind, n * 10 + k, (int)ti * nc + ial, nt);
            C alpha = coefs<C>::get(ial);
            bool az = czero(alpha);
            std::vector<C> c(k); for (int q = 0; q < k; ++q) c[q] = coefs<C>::get(tuples[ti][q]);
            if (n > 1 && k > 1) vf::nontrivial(vf::hstr(key));
            for (int pf = 0; pf <= (az ? PINF : FINITE); ++pf) {
                std::vector<std::shared_ptr<Holder<T, K>>> hv(k);
                std::vector<decltype(&hv[0]->vec())> v(k);
                for (int q = 0; q < k; ++q) { hv[q] = std::make_shared<Holder<T, K>>(n); fill(*hv[q], 2 * q + 1, q + 1); v[q] = &hv[q]->vec(); }
                Holder<T, K> y(n); Holder<T, 0> y0(n);
                prefill(y, pf, 9); prefill(y0, pf, 9);
                with_threads(nt, [&]{ backend::lin_comb(k, c, v, alpha, y.vec()); });
                vf::count(std::string("lin_comb_k") + std::to_string(k));
                for (int i = 0; i < n; ++i) {
                    RM want = to_ref(c[0]) * to_ref((*hv[0])[i]);
                    for (int q = 1; q < k; ++q) want = want + to_ref(c[q]) * to_ref((*hv[q])[i]);
                    if (!az) want = want + to_ref(alpha) * to_ref(y0[i]);
                    if (!eq(y[i], want)) {
                        vf::KS d; d << "k=" << k << " n=" << n << " c=(";
                        for (int q = 0; q < k; ++q) d << (q ? "," : "") << show(c[q]);
                        d << ") alpha=" << show(alpha) << " prefill=" << special_name(pf) << " threads=" << nt << " i=" << i << " got=" << show(y[i]) << " want=" << rshow(want);
                        vf::fail(std::string(pf ? "lin_comb.zero_coef_ignores_output[" : "lin_comb.formula[") + tn + "]", key, d);
                        break;
                    }
                }
            }
        }
    }
    vf::space(vf::KS() << "lin_comb " << tn << " (" << kind << "): 1..5 vectors x coefficient tuples (all for <=3 vectors, all value pairs at all position pairs for 4,5) x alpha x lengths {0,1,3,5} x threads {1,3}");
}

// -------------------------------------------------------------------------------------- copy, clear
template <class T, int KX, int KY>
static void run_copy_clear() {
    const char *tn = tname<T>::get();
    std::string kind = std::string(Holder<T, KX>::kind()) + "," + Holder<T, KY>::kind();
    for (int n : lens()) for (int nt : NTS_EL) for (int pf = 0; pf <= MIXED; ++pf) {
        if (!vf::take([&]{ return ckey("copyclear", tn, kind.c_str(), n, pf, nt); })) continue;
        std::string key = ckey("copyclear", tn, kind.c_str(), n, pf, nt);
        if (n > 1) vf::nontrivial(vf::hstr(key));
        Holder<T, KX> x(n); Holder<T, KY> y(n), z(n);
        fill(x, 3); prefill(y, pf, 2); prefill(z, pf, 2);
        with_threads(nt, [&]{ backend::copy(x.vec(), y.vec()); backend::clear(z.vec()); });
        for (int i = 0; i < n; ++i) {
            if (!eq(y[i], to_ref(x[i]))) { vf::fail(std::string("copy.value[") + tn + "]", key, vf::KS() << "n=" << n << " i=" << i << " prefill=" << special_name(pf) << " threads=" << nt << " got=" << show(y[i]) << " want=" << show(x[i])); break; }
        }
        RM zero = to_ref(T()); for (auto &q : zero.a) q = CLD(0, 0);
        for (int i = 0; i < n; ++i) {
            if (!eq(z[i], zero)) { vf::fail(std::string("clear.value[") + tn + "]", key, vf::KS() << "n=" << n << " i=" << i << " prefill=" << special_name(pf) << " threads=" << nt << " got=" << show(z[i])); break; }
        }
    }
    vf::space(vf::KS() << "copy/clear " << tn << " (" << kind << "): lengths {0..5,7,66} x threads {1,2,3,5,65} x output prefill {finite,NaN,+Inf,-Inf,mixed}");
}

// ----------------------------------------------------------------------------------- inner_product
template <class T> struct ip_ret { typedef typename math::inner_product_impl<T>::return_type type; };

template <class T, int K>
static void run_inner_product() {
    typedef typename coef_of<T>::type C;     // == return type for scalars / rhs blocks
    const char *tn = tname<T>::get();
    const char *kind = Holder<T, K>::kind();
    const int nc = coefs<C>::n();
    for (int n : {0, 1, 2, 3, 4, 5, 7, 63, 64, 65, 130}) for (int salt = 0; salt < 3; ++salt) for (int nt : NTS_IP) {
        if (!vf::take([&]{ return ckey("ip", tn, kind, n, salt, nt); })) continue;
        std::string key = ckey("ip", tn, kind, n, salt, nt);
        Holder<T, K> x(n), y(n), z(n);
        fill(x, 1 + salt, 1 + salt); fill(y, 2 + 3 * salt, 2); fill(z, 5 + salt, 3);
        if (n > 1) vf::nontrivial(vf::hstr(key));
        C got = with_threads(nt, [&]{ return backend::inner_product(x.vec(), y.vec()); });
        if (vs::trace().teams > 0) { vf::count(nt >= 64 ? "inner_product_parallel_dynamic_buffer" : "inner_product_parallel_static_buffer"); if (vs::trace().max_team != nt) vf::fail("harness.team_size", key, "team size differs from requested"); }
        else vf::count("inner_product_serial_path");
        CLD want(0, 0);
        for (int i = 0; i < n; ++i) want += rdot(to_ref(x[i]), to_ref(y[i]));
        RM w; w.a[0] = want;
        if (!eq(got, w)) vf::fail(std::string("inner_product.formula[") + tn + "]", key, vf::KS() << "n=" << n << " salt=" << salt << " threads=" << nt << " got=" << show(got) << " want=" << rshow(w) << " (sum x_i conj(y_i))");
        // sesquilinearity identities, every term through the real code
        C yx = with_threads(nt, [&]{ return backend::inner_product(y.vec(), x.vec()); });
        RM cyx; cyx.a[0] = std::conj(to_ref(yx).a[0]);
        if (!eq(got, cyx)) vf::fail(std::string("inner_product.hermitian[") + tn + "]", key, vf::KS() << "n=" << n << " <x,y>=" << show(got) << " <y,x>=" << show(yx));
        for (int ia = 1; ia < nc; ++ia) {
            C a = coefs<C>::get(ia), b = coefs<C>::get((ia + 2) % nc);
            // u = a x + b z ; v = a y
            Holder<T, K> u(n), v(n);
            for (int i = 0; i < n; ++i) { u[i] = a * x[i] + b * z[i]; v[i] = a * y[i]; }
            C uy = with_threads(nt, [&]{ return backend::inner_product(u.vec(), y.vec()); });
            C zy = with_threads(nt, [&]{ return backend::inner_product(z.vec(), y.vec()); });
            C xv = with_threads(nt, [&]{ return backend::inner_product(x.vec(), v.vec()); });
            RM lin = to_ref(a) * to_ref(got) + to_ref(b) * to_ref(zy);
            if (!eq(uy, lin)) vf::fail(std::string("inner_product.linear_in_first[") + tn + "]", key, vf::KS() << "n=" << n << " a=" << show(a) << " b=" << show(b) << " <ax+bz,y>=" << show(uy) << " a<x,y>+b<z,y>=" << rshow(lin));
            RM cl; cl.a[0] = cmul(std::conj(to_ref(a).a[0]), to_ref(got).a[0]);
            if (!eq(xv, cl)) vf::fail(std::string("inner_product.conjugate_linear_in_second[") + tn + "]", key, vf::KS() << "n=" << n << " a=" << show(a) << " <x,ay>=" << show(xv) << " conj(a)<x,y>=" << rshow(cl));
        }
    }
    vf::space(vf::KS() << "inner_product " << tn << " (" << kind << "): lengths {0..5,7,63,64,65,130} x 3 contents x threads {1,2,3,5,63,64,65}; formula + hermitian + sesquilinearity with all coefficients");
}

// ------------------------------------------------------------------- inner_product called from inside a region
// The caller's own code may already be inside an active parallel region (nesting disabled, libgomp's default): the
// library's inner region then runs as a team of ONE while omp_get_max_threads() still answers nt, so only slot 0 of
// the per-thread partial-sum array is written by the team.  Whatever the stack held before must not reach the result:
// every member of the outer team first fills the stack area the callee is going to use with a fixed pattern
// (0x00 control, 0xFF = NaN, 1e300 doubles), then calls the real inner_product.
__attribute__((noinline)) static void stale_stack(int pat) {
    volatile unsigned char buf[48 * 1024];
    if (pat == 2) { double big = 1e300; unsigned char b[8]; std::memcpy(b, &big, 8); for (size_t i = 0; i < sizeof(buf); ++i) buf[i] = b[i % 8]; }
    else for (size_t i = 0; i < sizeof(buf); ++i) buf[i] = pat == 1 ? 0xFF : 0x00;
    asm volatile("" ::: "memory");
}

template <class T, int K>
static void run_inner_product_nested() {
    typedef typename coef_of<T>::type C;
    const char *tn = tname<T>::get();
    const char *kind = Holder<T, K>::kind();
    static const char *pn[] = {"zero", "ff", "1e300"};
    for (int n : {0, 1, 2, 5, 64, 130}) for (int nt : {2, 3, 5, 63, 64, 65}) for (int outer : {2, 3}) for (int pat = 0; pat < 3; ++pat) {
        std::string key = std::string(vf::KS() << "ipnest|" << tn << "|" << kind << "|" << n << "|" << nt << "|o" << outer << "|" << pn[pat]);
        if (!vf::take([&]{ return key; })) continue;
        Holder<T, K> x(n), y(n);
        fill(x, 1 + pat, 1); fill(y, 2 + outer, 2);
        if (n > 1) vf::nontrivial(vf::hstr(key));
        CLD want(0, 0);
        for (int i = 0; i < n; ++i) want += rdot(to_ref(x[i]), to_ref(y[i]));
        RM w; w.a[0] = want;
        std::vector<C> got(outer);
        // every case carries its own history: one top-level call with the full team first (whatever a previous call leaves in
        // per-thread storage must not reach a later call made by a smaller team), so that a failing case replays on its own
        { Holder<T, K> u(n), v(n); fill(u, 7 + pat, 3); fill(v, 5 + outer, 1); (void)with_threads(nt, [&]{ return backend::inner_product(u.vec(), v.vec()); }); }
        with_threads(nt, [&]{
#pragma omp parallel num_threads(outer)
            {
                int me = omp_get_thread_num();
                stale_stack(pat);
                got[me] = backend::inner_product(x.vec(), y.vec());
            }
            return 0;
        });
        vf::count("inner_product_from_inside_region", outer);
        for (int t = 0; t < outer; ++t)
            if (!eq(got[t], w)) { vf::fail(std::string("inner_product.inside_active_region[") + tn + "]", key, vf::KS() << "n=" << n << " max_threads=" << nt << ", called by member " << t << " of an outer team of " << outer << " (inner team of one), stack pattern " << pn[pat] << ": got=" << show(got[t]) << " want=" << rshow(w)); break; }
    }
    vf::space(vf::KS() << "inner_product " << tn << " (" << kind << ") called from every member of an outer region: lengths {0,1,2,5,64,130} x max_threads {2,3,5,63,64,65} x outer team {2,3} x stale stack {00,FF,1e300}");
}

// compensated summation: x = (1, u, u, ..., u) (u = unit roundoff of S), y = ones.  Exact value
// 1 + (n-1) u.  Error bound of the implemented algorithm: every thread sums its static chunk
// with Kahan's method (|error| <= (2u + O(n u^2)) * sum|x_i|, Higham ASNA Sec. 4.3 eq. (4.8); the
// O() constant is taken as 16 here, the term is 2^-30 of the leading one) and the per-thread sums
// are added recursively (gamma_{nt-1} * sum|partial|).  Plain recursive summation returns exactly 1
// on this input (error (n-1) u >> bound), Kahan's method with the compensation applied with the
// wrong sign as well.
template <class S>
static void run_kahan() {
    const char *tn = tname<S>::get();
    const int n = 65537;
    const LD u = (LD)std::numeric_limits<S>::epsilon() / 2;
    for (int nt : {1, 2, 3, 5, 63, 64}) {
        if (!vf::take([&]{ return ckey("kahan", tn, "numa", n, 0, nt); })) continue;
        std::string key = ckey("kahan", tn, "numa", n, 0, nt);
        backend::numa_vector<S> x(n, false), y(n, false);
        x[0] = 1; y[0] = 1;
        for (int i = 1; i < n; ++i) { x[i] = (S)u; y[i] = 1; }
        S got = with_threads(nt, [&]{ return backend::inner_product(x, y); });
        LD exact_minus_one = (LD)(n - 1) * u;
        LD err = ((LD)got - 1) - exact_minus_one;
        if (err < 0) err = -err;
        LD sumabs = 1 + exact_minus_one;
        LD kahan = (2 * u + 16 * (LD)n * u * u) * sumabs;
        LD gam = (nt - 1) * u / (1 - (nt - 1) * u);
        LD bound = kahan + gam * (sumabs + kahan);
        vf::nontrivial(vf::hstr(key));
        vf::count("kahan_cases");
        if (!(err <= bound)) vf::fail(std::string("inner_product.compensated_summation_bound[") + tn + "]", key,
            vf::KS() << "x=(1,u,...,u) n=" << n << " u=2^" << std::log2((double)u) << " threads=" << nt << " got-1=" << (double)((LD)got - 1) << " exact-1=" << (double)exact_minus_one << " |error|=" << (double)err << " bound=" << (double)bound);
    }
    vf::space(vf::KS() << "inner_product " << tn << ": compensated-summation accuracy on x=(1,u,...,u), n=65537, threads {1,2,3,5,63,64}");
}

template <class T> static void run_type_basic() {
    run_axpby<T, 1, 1>();
    run_axpbypcz<T, 1>();
    run_lin_comb<T, 1>();
    run_copy_clear<T, 1, 1>();
    run_inner_product<T, 1>();
}

int main(int argc, char **argv) {
    vf::init(argc, argv, "C07");
    vf::sample_str("axpby case: a=1/2 b=0, x=(-1,-3,2,0,...) (position-coded small integers), y pre-filled with NaN, 3 threads: result must be exactly a*x");
    vf::sample_str("inner_product case: complex<double>, n=65, x_i=(sv(i),sv(3i+1)) Gaussian integers, 64 threads (dynamic partial-sum buffer): == sum x_i conj(y_i)");
    if (vf::section("axpby")) {
        run_axpby<float, 1, 1>(); run_axpby<double, 1, 1>(); run_axpby<long double, 1, 1>();
        run_axpby<std::complex<float>, 1, 1>(); run_axpby<std::complex<double>, 1, 1>();
        run_axpby<R2, 1, 1>(); run_axpby<R3, 1, 1>(); run_axpby<RC2, 1, 1>(); run_axpby<B2, 1, 1>();
        run_axpby<double, 0, 0>(); run_axpby<double, 0, 1>(); run_axpby<double, 2, 2>(); run_axpby<double, 1, 2>();
        run_axpby<std::complex<double>, 0, 0>(); run_axpby<std::complex<double>, 1, 1, double>(); run_axpby<RC2, 1, 1, double>(); run_axpby<R2, 0, 0>(); run_axpby<float, 0, 0>();
    }
    if (vf::section("axpbypcz")) {
        run_axpbypcz<float, 1>(); run_axpbypcz<double, 1>(); run_axpbypcz<long double, 1>();
        run_axpbypcz<std::complex<double>, 1>(); run_axpbypcz<R2, 1>(); run_axpbypcz<R3, 1>(); run_axpbypcz<RC2, 1>();
        run_axpbypcz<double, 0>(); run_axpbypcz<double, 2>(); run_axpbypcz<std::complex<float>, 0>();
    }
    if (vf::section("vmul")) {
        run_vmul<float, float, 1, 0>(); run_vmul<double, double, 1, 0>(); run_vmul<long double, long double, 1, 0>();
        run_vmul<std::complex<double>, std::complex<double>, 1, 0>(); run_vmul<std::complex<float>, std::complex<float>, 0, 0>();
        run_vmul<B2, R2, 1, 0>(); run_vmul<B3, R3, 1, 0>(); run_vmul<BC2, RC2, 1, 0>();
        run_vmul<B2, R2, 1, 1>(); run_vmul<B3, R3, 1, 1>(); run_vmul<B2, R2, 0, 1>(); run_vmul<B2, R2, 1, 2>(); run_vmul<B2, R2, 1, 3>(); run_vmul<B3, R3, 1, 2>(); run_vmul<B3, R3, 1, 3>();
#ifdef C07_CBLOCK_MIXED
        run_vmul<BC2, RC2, 1, 1>();
#endif
        run_vmul<double, double, 0, 0>(); run_vmul<double, double, 2, 0>();
    }
    if (vf::section("lincomb")) {
        run_lin_comb<float, 1>(); run_lin_comb<double, 1>(); run_lin_comb<long double, 1>();
        run_lin_comb<std::complex<double>, 1>(); run_lin_comb<R2, 1>(); run_lin_comb<R3, 1>(); run_lin_comb<double, 0>();
    }
    if (vf::section("copyclear")) {
        run_copy_clear<float, 1, 1>(); run_copy_clear<double, 1, 1>(); run_copy_clear<long double, 1, 1>();
        run_copy_clear<std::complex<float>, 1, 1>(); run_copy_clear<std::complex<double>, 1, 1>();
        run_copy_clear<R2, 1, 1>(); run_copy_clear<R3, 1, 1>(); run_copy_clear<RC2, 1, 1>(); run_copy_clear<B2, 1, 1>(); run_copy_clear<B3, 1, 1>();
        run_copy_clear<double, 0, 0>(); run_copy_clear<double, 0, 1>(); run_copy_clear<double, 1, 0>(); run_copy_clear<double, 2, 2>(); run_copy_clear<R2, 0, 1>();
    }
    if (vf::section("ip")) {
        run_inner_product<float, 1>(); run_inner_product<double, 1>(); run_inner_product<long double, 1>();
        run_inner_product<std::complex<float>, 1>(); run_inner_product<std::complex<double>, 1>();
        run_inner_product<R2, 1>(); run_inner_product<R3, 1>(); run_inner_product<RC2, 1>();
        run_inner_product<double, 0>(); run_inner_product<double, 2>(); run_inner_product<std::complex<double>, 0>(); run_inner_product<R2, 0>();
    }
    if (vf::section("ipnest")) {
        run_inner_product_nested<float, 1>(); run_inner_product_nested<double, 1>(); run_inner_product_nested<long double, 1>();
        run_inner_product_nested<std::complex<double>, 1>(); run_inner_product_nested<R2, 1>(); run_inner_product_nested<RC2, 1>(); run_inner_product_nested<double, 0>();
    }
    if (vf::section("kahan")) { run_kahan<float>(); run_kahan<double>(); run_kahan<long double>(); }
    return vf::finish();
}
