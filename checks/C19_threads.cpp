// C19 (units "threads" / "tsan") -- the readers under OpenMP.
// The MatrixMarket and the binary CRS reader sort the entries of every row inside a `#pragma omp parallel for`.  A valid file
// must be read back as the matrix it stores for EVERY thread count and every order in which the data lines arrive:
//   threads : the real readers on the fiber OpenMP runtime (engine/gomp_fiber), team sizes {1,2,3,5,8}: results that depend on
//             how the rows are dealt out to the team;
//   tsan    : the same body free-running on a pthread OpenMP runtime under ThreadSanitizer (the cooperative scheduler has no
//             scheduling point inside a loop body, so unsynchronised accesses to anything shared between the row iterations
//             are left to the race detector, as DESIGN 2.2 prescribes).
// Space: n in {3,4,6,9} nodes + one larger banded matrix; 4 pattern families x {general, symmetric} x 5 line orders (row-major,
// column-major, reversed, two fixed shuffles) x (symmetric: lower / upper / mixed triangle) x team sizes; binary: the same
// matrices with every row's entries in 3 orders.  Oracle: bitwise equality with the CRS the file was written from.
#include <amgcl/io/mm.hpp>
#include <amgcl/io/binary.hpp>
#include <algorithm>
#include <cstring>
#include <fstream>
#include <sstream>
#include <unistd.h>
#include <omp.h>
#ifndef C19_REAL_OMP
#  include "vsched.hpp"
#endif
#include "vf.hpp"

#ifdef C19_REAL_OMP
static void set_threads(int nt) { omp_set_num_threads(nt); }
static const int NTS[] = {2, 4};
#else
static void set_threads(int nt) { vs::cfg().max_threads = nt; vs::cfg().prefix.clear(); vs::begin_execution(); }
static const int NTS[] = {1, 2, 3, 5, 8};
#endif

struct Ent { int i, j; double v; };
struct Mtx { int n = 0; bool sym = false; std::vector<Ent> e; std::string name; };   // e: every stored entry of the full matrix, row-major sorted

// family 0: tridiagonal + far corner; 1: arrow; 2: dense lower band of width 3 (+ transposed part when symmetric); 3: "every other column"
static Mtx make(int n, int fam, bool sym) {
    Mtx m; m.n = n; m.sym = sym; m.name = std::string(vf::KS() << "n" << n << "f" << fam << (sym ? "s" : "g"));
    auto val = [&](int i, int j) { return sym ? 1.0 + 0.125 * (std::min(i, j) * 7 + std::max(i, j)) : 1.0 + 0.125 * (i * 7 + j) - 0.0625 * ((i + 2 * j) % 5); };
    for (int i = 0; i < n; ++i) for (int j = 0; j < n; ++j) {
        bool on = false;
        int a = sym ? std::min(i, j) : i, b = sym ? std::max(i, j) : j;
        switch (fam) {
            case 0: on = std::abs(i - j) <= 1 || (a == 0 && b == n - 1); break;
            case 1: on = i == j || a == 0 || (!sym && i == n - 1); break;
            case 2: on = std::abs(i - j) <= 3; break;
            default: on = i == j || ((a + b) % 2 == 0 && std::abs(i - j) <= 4); break;
        }
        if (on) m.e.push_back({i, j, i == j ? 8.0 + i : -val(i, j)});
    }
    return m;
}

static std::vector<size_t> order_of(size_t k, int ord, int n, const std::vector<Ent> &lines) {
    std::vector<size_t> p(k); for (size_t q = 0; q < k; ++q) p[q] = q;
    if (ord == 1) std::stable_sort(p.begin(), p.end(), [&](size_t a, size_t b) { return std::make_pair(lines[a].j, lines[a].i) < std::make_pair(lines[b].j, lines[b].i); });
    else if (ord == 2) std::reverse(p.begin(), p.end());
    else if (ord >= 3) { uint64_t s = 0x9E3779B97F4A7C15ull * (ord + 1) + n; for (size_t q = k; q > 1; --q) { s = s * 6364136223846793005ull + 1442695040888963407ull; std::swap(p[q - 1], p[(s >> 33) % q]); } }
    return p;
}

// tri: 0 lower, 1 upper, 2 mixed (entry (i,j), i != j, stored as (max,min) when (i+j) is even, else (min,max))
static std::string write_mm(const Mtx &m, int ord, int tri, const std::string &fname) {
    std::vector<Ent> lines;
    for (auto &x : m.e) {
        if (!m.sym) { lines.push_back(x); continue; }
        if (x.i < x.j) continue;                       // one representative per symmetric pair: start from the lower one
        Ent y = x;
        if (x.i != x.j && (tri == 1 || (tri == 2 && (x.i + x.j) % 2))) std::swap(y.i, y.j);
        lines.push_back(y);
    }
    auto p = order_of(lines.size(), ord, m.n, lines);
    std::ofstream f(fname);
    f << "%%MatrixMarket matrix coordinate real " << (m.sym ? "symmetric" : "general") << "\n% written by C19_threads\n" << m.n << " " << m.n << " " << lines.size() << "\n";
    f.precision(17);
    for (size_t q : p) f << lines[q].i + 1 << " " << lines[q].j + 1 << " " << lines[q].v << "\n";
    return fname;
}

struct CRS { std::vector<ptrdiff_t> ptr, col; std::vector<double> val; };
static CRS reference(const Mtx &m) {
    CRS r; r.ptr.assign(m.n + 1, 0);
    for (auto &x : m.e) ++r.ptr[x.i + 1];
    for (int i = 0; i < m.n; ++i) r.ptr[i + 1] += r.ptr[i];
    for (auto &x : m.e) { r.col.push_back(x.j); r.val.push_back(x.v); }   // m.e is row-major sorted
    return r;
}
static std::string diff(const CRS &a, const CRS &b, size_t rows, size_t cols, int n) {
    if ((int)rows != n || (int)cols != n) return vf::KS() << "reader reports " << rows << "x" << cols << ", file stores " << n << "x" << n;
    if (a.ptr != b.ptr) return "row pointers differ";
    for (size_t q = 0; q < b.col.size(); ++q) if (a.col[q] != b.col[q] || std::memcmp(&a.val[q], &b.val[q], 8)) {
        int row = (int)(std::upper_bound(b.ptr.begin(), b.ptr.end(), (ptrdiff_t)q) - b.ptr.begin()) - 1;
        return vf::KS() << "row " << row << " position " << q - b.ptr[row] << ": read (" << a.col[q] << ", " << a.val[q] << "), stored (" << b.col[q] << ", " << b.val[q] << ")";
    }
    return "";
}

static void mm_case(const Mtx &m, const std::string &tag) {
    CRS ref = reference(m);
    std::string fname = std::string(vf::KS() << "./c19t_" << (long)getpid() << ".mtx");
    for (int ord = 0; ord < 5; ++ord) for (int tri = 0; tri < (m.sym ? 3 : 1); ++tri) {
        std::string key = vf::KS() << "mmt|" << tag << "|" << m.name << "|o" << ord << "|t" << tri;
        if (!vf::take([&]{ return key; })) continue;
        write_mm(m, ord, tri, fname);
        for (int nt : NTS) {
            set_threads(nt);
            CRS got; size_t rows = 0, cols = 0; std::string exc;
            try { amgcl::io::mm_reader rd(fname); std::tie(rows, cols) = rd(got.ptr, got.col, got.val); } catch (const std::exception &e) { exc = e.what(); }
            set_threads(1);
            vf::count("mm_reads");
            if (!exc.empty()) { vf::fail("threads.mm.valid_file_rejected", key, vf::KS() << nt << " threads: " << exc); break; }
            std::string d = diff(got, ref, rows, cols, m.n);
            if (!d.empty()) { vf::fail("threads.mm.matrix_differs", key, vf::KS() << nt << " threads, " << (m.sym ? "symmetric" : "general") << " file, line order " << ord << ", triangle rule " << tri << ": " << d); break; }
        }
        if (m.n > 3) vf::nontrivial(vf::hstr(key));
        unlink(fname.c_str());
    }
}

// binary CRS: rows stored with their entries in the given order (the reader sorts every row of the requested range)
static void bin_case(const Mtx &m, const std::string &tag) {
    CRS ref = reference(m);
    std::string fname = std::string(vf::KS() << "./c19t_" << (long)getpid() << ".bin");
    for (int ord = 0; ord < 3; ++ord) {
        std::string key = vf::KS() << "bint|" << tag << "|" << m.name << "|o" << ord;
        if (!vf::take([&]{ return key; })) continue;
        CRS w = ref;
        for (int i = 0; i < m.n; ++i) {
            auto b = w.ptr[i], e = w.ptr[i + 1];
            if (ord == 1) { std::reverse(w.col.begin() + b, w.col.begin() + e); std::reverse(w.val.begin() + b, w.val.begin() + e); }
            if (ord == 2 && e - b > 1) { std::rotate(w.col.begin() + b, w.col.begin() + b + (i % (e - b)), w.col.begin() + e); std::rotate(w.val.begin() + b, w.val.begin() + b + (i % (e - b)), w.val.begin() + e); }
        }
        { std::ofstream f(fname, std::ios::binary); size_t nn = m.n;          // layout of io::read_crs: n, ptr[n+1], col[nnz], val[nnz]
          f.write((const char*)&nn, sizeof nn); f.write((const char*)w.ptr.data(), w.ptr.size() * sizeof(ptrdiff_t));
          f.write((const char*)w.col.data(), w.col.size() * sizeof(ptrdiff_t)); f.write((const char*)w.val.data(), w.val.size() * sizeof(double)); }
        for (int nt : NTS) {
            set_threads(nt);
            CRS got; size_t rows = 0; std::string exc;
            try { amgcl::io::read_crs(fname, rows, got.ptr, got.col, got.val); } catch (const std::exception &e) { exc = e.what(); }
            set_threads(1);
            vf::count("bin_reads");
            if (!exc.empty()) { vf::fail("threads.bin.valid_file_rejected", key, vf::KS() << nt << " threads: " << exc); break; }
            std::string d = diff(got, ref, rows, m.n, m.n);
            if (!d.empty()) { vf::fail("threads.bin.matrix_differs", key, vf::KS() << nt << " threads, row entry order " << ord << ": " << d); break; }
        }
        if (m.n > 3) vf::nontrivial(vf::hstr(key));
        unlink(fname.c_str());
    }
}

#ifdef C19_FAULTS
#include "forkrun.hpp"
// damaged binary CRS files read by an OpenMP build (real libgomp): a reader that validates inside a parallel region cannot hand
// the error to the caller (an exception that leaves a parallel region terminates the process).  Every single-byte damage of the
// top byte of every column index and of every row pointer, for 1 and 2 threads, full read and the middle row range; the child
// must end with an exception or a structurally valid matrix.
static void fault_case(const Mtx &m) {
    CRS ref = reference(m);
    std::string good;
    { std::ostringstream f; size_t nn = m.n; f.write((const char*)&nn, sizeof nn); f.write((const char*)ref.ptr.data(), ref.ptr.size() * sizeof(ptrdiff_t)); f.write((const char*)ref.col.data(), ref.col.size() * sizeof(ptrdiff_t)); f.write((const char*)ref.val.data(), ref.val.size() * sizeof(double)); good = f.str(); }
    const size_t ptr_beg = sizeof(size_t), col_beg = ptr_beg + ref.ptr.size() * sizeof(ptrdiff_t), nidx = ref.ptr.size() + ref.col.size();
    for (size_t q = 0; q < nidx; ++q) {
        std::string key = vf::KS() << "binflt|" << m.name << "|" << q;
        if (!vf::take([&]{ return key; })) continue;
        std::string bad = good; bad[ptr_beg + q * sizeof(ptrdiff_t) + 7] = (char)0x80;     // most significant byte: the index becomes negative
        std::string fname = std::string(vf::KS() << "./c19f_" << (long)getpid() << ".bin");
        { std::ofstream f(fname, std::ios::binary); f.write(bad.data(), bad.size()); }
        for (int nt : {1, 2}) for (int range = 0; range < 2; ++range) {
            fr::Result r = fr::run([&](fr::Out &o) {
                omp_set_num_threads(nt);
                CRS got; size_t rows = 0;
                if (range) amgcl::io::read_crs(fname, rows, got.ptr, got.col, got.val, m.n / 3, m.n - m.n / 3); else amgcl::io::read_crs(fname, rows, got.ptr, got.col, got.val);
                bool ok = !got.ptr.empty() && got.ptr[0] == 0 && (size_t)got.ptr.back() == got.col.size() && got.col.size() == got.val.size();
                for (size_t i = 0; ok && i + 1 < got.ptr.size(); ++i) ok = got.ptr[i] <= got.ptr[i + 1];
                for (size_t k = 0; ok && k < got.col.size(); ++k) ok = got.col[k] >= 0;
                o << (ok ? "valid" : "INVALID-STRUCTURE");
            }, 20.0);
            vf::count("damaged_reads");
            if (r.kind == fr::EXC) { vf::count("damaged_reads_rejected_by_exception"); continue; }
            if (r.kind == fr::OK && r.text == "valid") { vf::count("damaged_reads_outside_the_range_or_harmless"); continue; }
            vf::fail("threads.bin.damaged_file", key, vf::KS() << (q < ref.ptr.size() ? "row pointer " : "column index ") << (q < ref.ptr.size() ? q : q - ref.ptr.size()) << " made negative, " << nt << " thread(s), " << (range ? "middle row range" : "full read") << ": " << (r.kind == fr::OK ? "reader returned a structurally invalid matrix" : std::string("process ended with ") + r.kind_name() + " " + std::to_string(r.code)) << " :: " << r.err.substr(0, 160));
            break;
        }
        unlink(fname.c_str());
        vf::nontrivial(vf::hstr(key));
    }
}
#endif

int main(int argc, char **argv) {
    vf::init(argc, argv, "C19");
    vf::sample_str("threads case: 6x6 symmetric arrow matrix, coordinate file with mixed triangles and shuffled data lines, read by a team of 3: bitwise the stored matrix");
#ifndef C19_FAULTS     // the fault unit forks its cases: its parent process must never have started an OpenMP region (a forked child of a
                       // process whose libgomp pool exists waits forever in its first parallel region)
    if (vf::section("mmt") || vf::section("bint")) {
        for (int n : {3, 4, 6, 9}) for (int fam = 0; fam < 4; ++fam) for (int sym = 0; sym < 2; ++sym) { Mtx m = make(n, fam, sym); mm_case(m, "small"); bin_case(m, "small"); }
        // rows long and numerous enough that several threads are inside the per-row sort at the same time
        for (int sym = 0; sym < 2; ++sym) {
            Mtx m; m.n = 3000; m.sym = sym; m.name = sym ? "band3000s" : "band3000g";
            for (int i = 0; i < m.n; ++i) for (int j = std::max(0, i - 6); j <= std::min(m.n - 1, i + 6); ++j) m.e.push_back({i, j, i == j ? 16.0 : -(1.0 + 0.0625 * ((std::min(i, j) * 3 + std::max(i, j)) % 11))});
            mm_case(m, "band"); bin_case(m, "band");
        }
        vf::space("readers under OpenMP: 4 pattern families x n {3,4,6,9} + 3000-row band, general and symmetric coordinate files x 5 line orders x 3 triangle rules, binary CRS x 3 row entry orders, team sizes as listed in the unit");
    }
#endif
#ifdef C19_FAULTS
    if (vf::section("binflt")) {
        for (int fam = 0; fam < 2; ++fam) { Mtx m = make(6, fam, 0); fault_case(m); }
        { Mtx m; m.n = 40; m.sym = false; m.name = "band40g"; for (int i = 0; i < m.n; ++i) for (int j = std::max(0, i - 2); j <= std::min(m.n - 1, i + 2); ++j) m.e.push_back({i, j, i == j ? 8.0 : -1.0 - 0.125 * ((i + j) % 3)}); fault_case(m); }
        vf::space("damaged binary CRS files under real OpenMP: every row pointer / column index made negative (top byte 0x80) x {1,2} threads x {full read, middle row range}, forked children");
    }
#endif
    return vf::finish();
}
