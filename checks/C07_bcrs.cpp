// C07 unit "bcrs" -- block_crs backend: conversion of a scalar CRS matrix to block CRS with
// block sizes 1..5 and 7 (sizes divisible and not divisible by the block size, blocks larger
// than the matrix) followed by spmv / residual, compared by == with the dense scalar formula.
#include <complex>
#include "vsched.hpp"
#include "C07_common.hpp"
#include <amgcl/backend/block_crs.hpp>
#include "mk.hpp"

using namespace amgcl;
using namespace c07;

static std::string pkey(const char *tn, int bs, int m, int n, uint64_t mask) {
    return vf::KS() << "bcrs|" << tn << "|bs" << bs << "|" << m << "x" << n << "|" << mask;
}

template <class S>
static void run_bcrs(int all_bits_quick, int all_bits_thorough) {
    typedef backend::block_crs<S> BK;
    const char *tn = tname<S>::get();
    int all_bits = vf::thorough() ? all_bits_thorough : all_bits_quick;
    const int nc = coefs<S>::n();
    for (int m = 0; m <= 5; ++m) for (int n = 0; n <= 5; ++n) {
        std::vector<uint64_t> masks;
        if (m * n <= all_bits) { for (uint64_t k = 0; k < (1ull << (m * n)); ++k) masks.push_back(k); } else masks = family_masks(m, n);
        for (uint64_t mask : masks) for (int bs : {1, 2, 3, 4, 5, 7}) {
            if (!vf::take([&]{ return pkey(tn, bs, m, n, mask); })) continue;
            std::string key = pkey(tn, bs, m, n, mask);
            auto D = mk::from_mask<S>(m, n, mask, [](int i, int j) { return gen<S>::make(3 * i + 5 * j + 1); });
            auto As = mk::to_crs<S>(D);
            if (D.nnz() > 1) vf::nontrivial(vf::hstr(key));
            if ((m % bs) || (n % bs)) vf::count("bcrs_size_not_divisible_by_block_size");
            if (bs > m && bs > n) vf::count("bcrs_block_larger_than_matrix");
            Holder<S, 1> x(n), f(m);
            fill(x, 2, 3); fill(f, 1, 2);
            std::vector<LD> Ax(m, 0);
            for (int i = 0; i < m; ++i) for (int j = 0; j < n; ++j) if (D.st(i, j)) Ax[i] += (LD)D(i, j) * (LD)x[j];
            for (int nt : {1, 2, 3, 5}) {
                auto Ab = with_threads(nt, [&]{ return BK::copy_matrix(As, typename BK::params(bs)); });
                if (backend::rows(*Ab) != (size_t)m || backend::cols(*Ab) != (size_t)n) { vf::fail(std::string("block_crs.copy_matrix.shape[") + tn + "]", key, "rows()/cols() of the block matrix differ from the source"); continue; }
                for (int ia = 0; ia < nc; ++ia) for (int ib = 0; ib < nc; ++ib) {
                    S al = coefs<S>::get(ia), be = coefs<S>::get(ib);
                    bool bz = czero(be);
                    for (int pf = 0; pf <= (bz ? NINF : FINITE); ++pf) {
                        Holder<S, 1> y(m); Holder<S, 0> y0(m);
                        prefill(y, pf, 7); prefill(y0, pf, 7);
                        with_threads(nt, [&]{ backend::spmv(al, *Ab, x.vec(), be, y.vec()); });
                        if (bz && pf) vf::count("bcrs_beta0_nonfinite_prefill");
                        for (int i = 0; i < m; ++i) {
                            LD want = (LD)al * Ax[i] + (bz ? 0 : (LD)be * (LD)y0[i]);
                            if (!((LD)y[i] == want)) {
                                vf::fail(std::string(pf ? "block_crs.spmv.beta0_ignores_output[" : "block_crs.spmv.formula[") + tn + "]", key,
                                    vf::KS() << "A=" << mk::show(D) << " block_size=" << bs << " alpha=" << (double)al << " beta=" << (double)be << " prefill=" << special_name(pf) << " threads=" << nt << " row " << i << ": got=" << (double)y[i] << " want=" << (double)want);
                                break;
                            }
                        }
                    }
                }
                for (int pf = 0; pf <= MIXED; ++pf) {
                    Holder<S, 1> r(m);
                    prefill(r, pf, 5);
                    with_threads(nt, [&]{ backend::residual(f.vec(), *Ab, x.vec(), r.vec()); });
                    for (int i = 0; i < m; ++i) {
                        LD want = (LD)f[i] - Ax[i];
                        if (!((LD)r[i] == want)) { vf::fail(std::string(pf ? "block_crs.residual.ignores_output[" : "block_crs.residual.formula[") + tn + "]", key, vf::KS() << "A=" << mk::show(D) << " block_size=" << bs << " prefill=" << special_name(pf) << " threads=" << nt << " row " << i << ": got=" << (double)r[i] << " want=" << (double)want); break; }
                    }
                }
            }
        }
    }
    vf::space(vf::KS() << "block_crs " << tn << ": shapes 0..5 x 0..5, block sizes {1,2,3,4,5,7}, all patterns with <= " << all_bits << " positions, families beyond; copy_matrix + spmv (all coefficient pairs, prefill) + residual; threads {1,2,3,5}");
}

int main(int argc, char **argv) {
    vf::init(argc, argv, "C07");
    vf::sample_str("block_crs case: A = " + mk::show(mk::from_mask<double>(5, 3, 0x5a3b, [](int i, int j) { return gen<double>::make(3 * i + 5 * j + 1); })) + " block_size=2 (5 and 3 not divisible by 2), alpha=-1 beta=1/2");
    if (vf::section("bcrs")) {
        run_bcrs<double>(10, 16);
        run_bcrs<float>(9, 12);
        run_bcrs<long double>(9, 12);
    }
    return vf::finish();
}
