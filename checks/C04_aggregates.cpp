// C04 unit "aggr" -- aggregates partition the grid; block_size lifting; tentative prolongation.
//
// Enumerated: every labelled undirected graph on n nodes (n <= 6 quick, 7 thorough) and every
// directed off-diagonal pattern (n <= 4 quick, 5 thorough), three value rules, eps_strong in
// {0, 0.08, 0.5}, block_size in {1,2,3} (A (x) I_b and blocks with structurally incomplete
// entries), near-null-space dimension 0..3 with integer vectors.
#include "C04_common.hpp"

using namespace c04;

static const float EPS[3] = {0.0f, 0.08f, 0.5f};

// reference for "is (i,j) a strong connection" (documented: a_ij^2 > eps^2 a_ii a_jj) used ONLY to decide
// whether error::empty_level was legitimate.  eps^2 is a float product (24 bit), the matrix values are
// dyadic with < 12 bits, so both sides are exact in long double (and in double): 1 strong, 0 weak.
// -1 (different but closer than 1e-9 relative) cannot happen with these alphabets; it is counted.
static int strong_ref(const Dn &D, float eps, int i, int j) {
    if (i == j || !D.st(i, j)) return 0;
    double e2 = eps * eps;                       // float product, as in the documented parameter
    long double lhs = (long double)e2 * D(i, i) * D(j, j), rhs = (long double)D(i, j) * D(i, j);
    if (lhs != rhs && fabsl(lhs - rhs) <= 1e-9L * fabsl(rhs)) return -1;
    return lhs < rhs;
}

static std::vector<double> make_nullspace(int N, int b, int cols) {
    std::vector<double> B((size_t)N * cols);
    for (int r = 0; r < N; ++r) {
        int I = r / b, k = r % b;
        double v[3];
        if (b == 1) { v[0] = 1; v[1] = r; v[2] = (double)r * r; }
        else { v[0] = (k == 0); v[1] = (k == 1); v[2] = (k == 0) ? -(I + 1) : (k == 1 ? 2 * I + 1 : 0); }
        for (int c = 0; c < cols; ++c) B[(size_t)r * cols + c] = v[c];
    }
    return B;
}

struct Ctx { std::string key; int n; uint64_t mask; bool directed; int rule; float eps; std::string Ashow; };

static std::string where(const Ctx &c, int b, const char *variant) {
    return vf::KS() << "rule=" << c.rule << " eps_strong=" << c.eps << " block_size=" << b << " " << variant << " A=" << c.Ashow;
}

// tentative prolongation laws
static void check_tentative(const Ctx &c, const Crs &K, const Aggr &g, int b, int cols, const char *variant) {
    const int N = (int)K.nrows;
    std::string sub = std::string("tentative.") + (cols ? "nullspace" : "constant") + ".";
    coarsening::nullspace_params ns;
    ns.cols = cols;
    std::vector<double> B = make_nullspace(N, b, cols);
    ns.B = B;
    auto P = coarsening::tentative_prolongation<Crs>(N, g.count, g.id, ns, b);
    std::string at = vf::KS() << where(c, b, variant) << " nullspace_cols=" << cols << " id=" << show_ids(g.id);
    Dn Pd;
    std::string err = mk::from_crs(*P, Pd, false);
    if (!err.empty()) { vf::fail(sub + "wellformed", c.key, err + " " + at); return; }
    const int nba = (int)g.count / b;
    const int ncol = cols ? cols * nba : (int)g.count;
    if (Pd.n != ncol || Pd.m != N) { vf::fail(sub + "shape", c.key, vf::KS() << "P_tent is " << Pd.m << "x" << Pd.n << ", expected " << N << "x" << ncol << " " << at); return; }
    vf::count("tentative_cases");
    // rows: aggregated rows carry max(cols,1) entries inside their own aggregate, others are empty
    for (int r = 0; r < N; ++r) {
        int cnt = 0; for (int q = 0; q < ncol; ++q) cnt += Pd.st(r, q);
        if (g.id[r] < 0) { if (cnt) { vf::fail(sub + "unaggregated_row_not_empty", c.key, vf::KS() << "row " << r << " " << at); return; } continue; }
        if (cnt != std::max(cols, 1)) { vf::fail(sub + "row_entries", c.key, vf::KS() << "row " << r << " has " << cnt << " entries " << at); return; }
        for (int q = 0; q < ncol; ++q) if (Pd.st(r, q)) {
            bool mine = cols ? (q / cols == g.id[r] / b) : (q == g.id[r]);
            if (!mine) { vf::fail(sub + "disjoint_support", c.key, vf::KS() << "row " << r << " (aggregate id " << g.id[r] << ") has an entry in column " << q << " " << at + " P=" + mk::show(Pd)); return; }
        }
    }
    if (cols == 0) {
        // one unit entry per aggregated row: columns trivially orthogonal with disjoint support, and P*1 = 1
        for (int r = 0; r < N; ++r) if (g.id[r] >= 0 && Pd(r, (int)g.id[r]) != 1.0) { vf::fail(sub + "reproduces_constant", c.key, vf::KS() << "row " << r << " " << at + " P=" + mk::show(Pd)); return; }
        if (!ns.B.empty()) vf::fail(sub + "coarse_nullspace_not_empty", c.key, at);
        return;
    }
    // with a near-null space: orthonormal columns, P * B_coarse == B on aggregated rows.
    // Householder QR of a d x cols block is backward stable: |B - QR| <= gamma ||B||_F and |Q^T Q - I| <= gamma
    // with gamma = c * d * cols * u; c = 100 is used (Higham, Accuracy and Stability, Thm 19.4: "small integer constant").
    double fro = 0; for (double x : B) fro += x * x; fro = std::sqrt(fro);
    const double gamma = 100.0 * N * cols * U;
    if ((int)ns.B.size() != nba * cols * cols) { vf::fail(sub + "coarse_nullspace_shape", c.key, vf::KS() << "coarse B has " << ns.B.size() << " values, expected " << nba * cols * cols << " " << at); return; }
    for (int p = 0; p < ncol; ++p) for (int q = p; q < ncol; ++q) {
        long double s = 0; for (int r = 0; r < N; ++r) s += (long double)Pd(r, p) * Pd(r, q);
        long double want = (p == q) ? 1 : 0;
        if (fabsl(s - want) > gamma) { vf::fail(sub + "orthonormal_columns", c.key, vf::KS() << "(P^T P)(" << p << "," << q << ") = " << (double)s << " " << at + " P=" + mk::show(Pd)); return; }
    }
    for (int r = 0; r < N; ++r) if (g.id[r] >= 0) for (int k = 0; k < cols; ++k) {
        long double s = 0;
        for (int q = 0; q < ncol; ++q) if (Pd.st(r, q)) s += (long double)Pd(r, q) * ns.B[(size_t)q * cols + k];
        if (fabsl(s - B[(size_t)r * cols + k]) > gamma * fro) {
            vf::fail(sub + "reproduces_nullspace", c.key, vf::KS() << "(P_tent*B_c)(" << r << "," << k << ") = " << (double)s << " but B = " << B[(size_t)r * cols + k] << " " << at + " P=" + mk::show(Pd)); return; }
    }
    vf::count("tentative_nullspace_cases_with_aggregates", nba > 0);
}

// removal of small aggregates (min_aggregate = nullspace dimension): survivors keep their order
static void check_min_aggregate(const Ctx &c, const Crs &K, const Aggr &g0, const Aggr &g, int b, int min_aggr, const char *variant) {
    std::string at = vf::KS() << where(c, b, variant) << " min_aggregate=" << min_aggr << " ids(min_aggregate=0)=" << show_ids(g0.id) << " ids=" << show_ids(g.id);
    if (g0.empty_level != g.empty_level) { vf::fail("min_aggregate.empty_level", c.key, at); return; }
    if (g.empty_level) return;
    if (g.S != g0.S) { vf::fail("min_aggregate.flags_changed", c.key, at); return; }
    int nagg0 = (int)g0.count / b;
    std::vector<int> size(nagg0, 0), map(nagg0, -2);
    for (size_t r = 0; r < g0.id.size(); r += b) if (g0.id[r] >= 0) ++size[g0.id[r] / b];
    int m = 0;
    for (int a = 0; a < nagg0; ++a) if (min_aggr <= 1 || b * size[a] >= min_aggr) map[a] = m++;
    bool removed_some = m < nagg0;
    if ((int)g.count != m * b) { vf::fail("min_aggregate.count", c.key, vf::KS() << "count " << g.count << " expected " << m * b << " " << at); return; }
    for (size_t r = 0; r < g0.id.size(); ++r) {
        ptrdiff_t want = g0.id[r] < 0 ? -1 : (map[g0.id[r] / b] < 0 ? -1 : map[g0.id[r] / b] * b + g0.id[r] % b);
        bool ok = want < 0 ? g.id[r] < 0 : g.id[r] == want;
        if (!ok) { vf::fail("min_aggregate.ids", c.key, vf::KS() << "unknown " << r << " " << at); return; }
    }
    if (removed_some) vf::count("cases_with_small_aggregates_removed");
}

static void run_graph(const std::string &key, int n, uint64_t mask, bool directed) {
    for (int rule = 0; rule < 3; ++rule) {
        Dn D = make_matrix(n, mask, directed, rule);
        auto A = mk::to_crs<double>(D);
        for (int ie = 0; ie < 3; ++ie) {
            Ctx c{key, n, mask, directed, rule, EPS[ie], mk::show(D)};
            // ---- block_size 1 ------------------------------------------------------------
            Aggr g1 = run_pointwise(*A, c.eps, 1, 0);
            Aggr gp = run_plain(*A, c.eps);
            if (g1.empty_level != gp.empty_level || g1.count != gp.count || g1.id != gp.id || g1.S != gp.S)
                vf::fail("pointwise_b1_equals_plain", key, where(c, 1, "scalar"));
            bool any_strong = false, unsure = false;
            for (int i = 0; i < n; ++i) for (int j = 0; j < n; ++j) { int s = strong_ref(D, c.eps, i, j); any_strong |= (s == 1); unsure |= (s < 0); }
            if (unsure) vf::count("threshold_too_close_to_tell");
            if (g1.empty_level) {
                vf::count("empty_level_cases");
                if (any_strong && !unsure) vf::fail("empty_level.unjustified", key, where(c, 1, "scalar"));
            } else {
                if (g1.count == 0) vf::fail("partition.b1.no_aggregate_and_no_exception", key, where(c, 1, "scalar"));
                int iso = 0;
                std::string e = partition_laws(*A, g1, 1, false, &iso);
                if (!e.empty()) { vf::fail("partition.b1", key, e + " " + where(c, 1, "scalar") + " ids=" + show_ids(g1.id) + " strong=" + show_flags(*A, g1.S)); continue; }   // ids unusable downstream
                for (int i = 0; i < n; ++i) for (auto j = A->ptr[i]; j < A->ptr[i + 1]; ++j)
                    if (A->col[j] == i && g1.S[j]) { vf::fail("flags.diagonal_flagged_strong.b1", key, where(c, 1, "scalar")); break; }
                vf::nontrivial(vf::hstr(vf::KS() << key << "|" << rule << "|" << ie));
                if (iso) vf::count("cases_with_isolated_nodes");
                if (g1.count >= 2) vf::count("cases_with_2_or_more_aggregates");
                vf::count("aggregation_cases_b1");
            }
            // ---- block_size 2, 3: lifting ----------------------------------------------------
            for (int b = 2; b <= 3; ++b) {
                for (int variant = 0; variant < 2; ++variant) {
                    const char *vn = variant ? "incomplete-blocks" : "A(x)I_b";
                    Dn KD = variant ? kron_incomplete(D, b) : kron_identity(D, b);
                    auto K = mk::to_crs<double>(KD);
                    Aggr gk = run_pointwise(*K, c.eps, b, 0);
                    std::string sfx = std::string(variant ? ".incomplete_blocks.b" : ".b") + std::to_string(b);
                    std::string at = where(c, b, vn);
                    if (gk.empty_level != g1.empty_level) { vf::fail("lifting.empty_level" + sfx, key, at); continue; }
                    if (gk.empty_level) continue;
                    vf::count("lifting_cases");
                    std::string e = partition_laws(*K, gk, b, false);
                    if (!e.empty()) vf::fail("partition" + sfx, key, e + " " + at + " ids=" + show_ids(gk.id) + " strong=" + show_flags(*K, gk.S));
                    if (gk.count != g1.count * b) vf::fail("lifting.count" + sfx, key, vf::KS() << "count " << gk.count << " but scalar problem has " << g1.count << " aggregates " << at);
                    bool idok = gk.id.size() == (size_t)n * b;
                    for (int I = 0; I < n && idok; ++I) for (int k = 0; k < b; ++k) {
                        ptrdiff_t got = gk.id[I * b + k];
                        if (g1.id[I] < 0 ? got >= 0 : got != g1.id[I] * b + k) idok = false;
                    }
                    if (!idok) vf::fail("lifting.ids" + sfx, key, vf::KS() << "ids " << show_ids(gk.id) << " are not the lifted scalar ids " << show_ids(g1.id) << " " << at);
                    // flags: entry (r,c) of block (I,J): I != J -> flag of (I,J) in the scalar problem; I == J -> r != c
                    std::vector<char> SA(n * n, 0);
                    for (int i = 0; i < n; ++i) for (auto j = A->ptr[i]; j < A->ptr[i + 1]; ++j) SA[i * n + A->col[j]] = g1.S[j];
                    if (gk.S.size() == K->nnz) {
                        for (int r = 0; r < n * b; ++r) {
                            bool bad = false;
                            for (auto j = K->ptr[r]; j < K->ptr[r + 1]; ++j) {
                                int cc = (int)K->col[j], I = r / b, J = cc / b;
                                bool want = (I == J) ? (r != cc) : SA[I * n + J];
                                if ((bool)gk.S[j] != want) {
                                    const char *what = (r == cc) ? "lifting.flags.diagonal_flagged_strong" : (want ? "lifting.flags.strong_entry_flagged_weak" : "lifting.flags.weak_entry_flagged_strong");
                                    vf::fail(what + sfx, key, vf::KS() << "entry (" << r << "," << cc << ") flag " << (int)gk.S[j] << " expected " << want
                                        << " " << at << " K=" << mk::show(KD) << " strong=" << show_flags(*K, gk.S) << " scalar strong=" << show_flags(*A, g1.S));
                                    bad = true; break;
                                }
                            }
                            if (bad) break;
                        }
                    }
                }
            }
            // ---- near-null space: removal of small aggregates, tentative prolongation ----------------
            if (g1.empty_level) continue;
            for (int b = 1; b <= 3; ++b) {
                Dn KD = (b == 1) ? D : kron_identity(D, b);
                auto K = (b == 1) ? A : mk::to_crs<double>(KD);
                Aggr g0 = (b == 1) ? g1 : run_pointwise(*K, c.eps, b, 0);
                if (b > 1 && !g0.empty_level) { std::string e = partition_laws(*K, g0, b, true); if (!e.empty() && e.find("strong neighbour") == std::string::npos) continue; }   // reported above as partition.bN
                for (int cols = 0; cols <= 3; ++cols) {
                    Aggr g = (cols == 0) ? g0 : run_pointwise(*K, c.eps, b, cols);
                    if (cols) check_min_aggregate(c, *K, g0, g, b, cols, "A(x)I_b");
                    if (g.empty_level) continue;
                    { std::string e = partition_laws(*K, g, b, cols > 1); if (!e.empty()) { if (cols > 1) vf::fail("partition.after_removal", key, e + " " + where(c, b, "A(x)I_b")); if (e.find("strong neighbour") == std::string::npos) continue; } }   // out-of-range ids are not handed to tentative_prolongation
                    check_tentative(c, *K, g, b, cols, "A(x)I_b");
                }
            }
        }
    }
}

int main(int argc, char **argv) {
    vf::init(argc, argv, "C04");
    vf::sample_str("undirected graph n=5 mask=0x2d5 rule 1: A = " + mk::show(make_matrix(5, 0x2d5, false, 1)));
    vf::sample_str("incomplete-block lift (b=2) of the path 0-1-2, rule 0: K = " + mk::show(kron_incomplete(make_matrix(3, 0x5, false, 0), 2)));
    if (vf::section("ug")) {
        int nmax = vf::thorough() ? 7 : 6;
        for (int n = 1; n <= nmax; ++n) {
            for (uint64_t mask = 0; mask < (1ull << ubits(n)); ++mask) {
                std::string key;
                if (!vf::take([&]{ return key = (vf::KS() << "ug|" << n << "|" << mask).str(); })) continue;
                if (key.empty()) key = vf::KS() << "ug|" << n << "|" << mask;
                run_graph(key, n, mask, false);
            }
            vf::space(vf::KS() << "aggregation/lifting/tentative prolongation: all 2^" << ubits(n) << " labelled undirected graphs on " << n << " nodes x 3 value rules x eps_strong {0,0.08,0.5} x block_size {1,2,3} x nullspace dimension 0..3");
        }
    }
    if (vf::section("dg")) {
        int nmax = vf::thorough() ? 5 : 4;
        for (int n = 2; n <= nmax; ++n) {
            for (uint64_t mask = 0; mask < (1ull << dbits(n)); ++mask) {
                std::string key;
                if (!vf::take([&]{ return key = (vf::KS() << "dg|" << n << "|" << mask).str(); })) continue;
                if (key.empty()) key = vf::KS() << "dg|" << n << "|" << mask;
                run_graph(key, n, mask, true);
            }
            vf::space(vf::KS() << "aggregation/lifting/tentative prolongation: all 2^" << dbits(n) << " directed off-diagonal patterns on " << n << " nodes x 3 value rules x eps_strong {0,0.08,0.5} x block_size {1,2,3} x nullspace dimension 0..3");
        }
    }
    return vf::finish();
}
