// C20 -- the C interface (lib/amgcl.cpp + lib/amgcl.h, compiled INTO this harness) gives bitwise the
// results of the equivalent C++ run-time interface call.
//
// Every case runs in a forked child (engine/forkrun.hpp).  All arrays handed to the C functions
// (ptr, col, val, rhs, x) live in their own mmap'ed region with a PROT_NONE page directly after the
// last element ("tail" placement) or directly before the first element ("head" placement), so any
// read or write outside the user's arrays is a SIGSEGV whose address is classified by the child's
// signal handler.
//
// sections (key prefixes)
//   capi|<system>|<parameter set>|<op>|<base>|<placement>
//        op = solve      create solver, solve(rhs,x) twice (second right-hand side, warm x), report, destroy
//             solve_mtx  create solver with A, solve with the replacement matrix A' (same pattern class, other values)
//             precond    create preconditioner, apply, report, destroy
//        base = 0 (C entry points) | 1 (Fortran entry points *_f on arrays shifted by one)
//   param|<parameter set>|<via>        the values given to seti/setf/sets or written in a JSON file are the values
//                                      held by the live solver / smoother / AMG objects (via = setters | json | json+setters)
//   life|<order>                       every admissible interleaving of create/solve/destroy of a parameter list,
//                                      two solvers and a preconditioner gives the isolated results; heap returns to baseline
#include <algorithm>
#include <sys/mman.h>
#include <sys/resource.h>
#include <signal.h>
#include <unistd.h>
#include <cstdio>
#include <cstring>
#include <fstream>

#include <lib/amgcl.cpp>          // found through -I<repo>: the C interface under test, same translation unit

#include <amgcl/relaxation/damped_jacobi.hpp>
#include "C01_common.hpp"
#include "vf.hpp"
#include "forkrun.hpp"

typedef boost::property_tree::ptree ptree;

// ---------------------------------------------------------------------------------------------
// live C++ heap blocks (replaced global operator new/delete): create/destroy cycles must return to the start value
static long g_live_blocks = 0;
void *operator new(std::size_t n) { void *p = std::malloc(n ? n : 1); if (!p) throw std::bad_alloc(); ++g_live_blocks; return p; }
void *operator new[](std::size_t n) { void *p = std::malloc(n ? n : 1); if (!p) throw std::bad_alloc(); ++g_live_blocks; return p; }
void operator delete(void *p) noexcept { if (p) { --g_live_blocks; std::free(p); } }
void operator delete[](void *p) noexcept { if (p) { --g_live_blocks; std::free(p); } }
void operator delete(void *p, std::size_t) noexcept { if (p) { --g_live_blocks; std::free(p); } }
void operator delete[](void *p, std::size_t) noexcept { if (p) { --g_live_blocks; std::free(p); } }

// ---------------------------------------------------------------------------------------------
// guarded arrays
struct Guarded { char *base = nullptr; size_t maplen = 0; char *lo = nullptr, *hi = nullptr; const char *name = ""; };
static std::vector<Guarded> g_regions;
static const size_t PAGE = 4096;

template <class T>
static T* galloc(const char *name, size_t count, bool tail) {
    size_t bytes = count * sizeof(T);
    size_t pages = (bytes + PAGE - 1) / PAGE; if (pages == 0) pages = 1;
    size_t maplen = (pages + 2) * PAGE;
    char *base = (char*)mmap(nullptr, maplen, PROT_NONE, MAP_PRIVATE | MAP_ANONYMOUS, -1, 0);
    if (base == MAP_FAILED) { perror("mmap"); _exit(3); }
    if (mprotect(base + PAGE, pages * PAGE, PROT_READ | PROT_WRITE)) { perror("mprotect"); _exit(3); }
    std::memset(base + PAGE, 0xA5, pages * PAGE);      // poison the slack
    char *p = tail ? base + PAGE + pages * PAGE - bytes : base + PAGE;
    Guarded g; g.base = base; g.maplen = maplen; g.lo = p; g.hi = p + bytes; g.name = name;
    g_regions.push_back(g);
    return (T*)p;
}
template <class T, class V>
static T* gcopy(const char *name, const std::vector<V> &v, bool tail, long shift = 0) {
    T *p = galloc<T>(name, v.size(), tail);
    for (size_t i = 0; i < v.size(); ++i) p[i] = (T)(v[i] + (V)shift);
    return p;
}
static void gfree_all() { for (auto &g : g_regions) munmap(g.base, g.maplen); g_regions.clear(); }

static void segv_handler(int, siginfo_t *si, void *) {
    char buf[512];
    char *a = (char*)si->si_addr;
    const char *name = "?"; const char *side = "unrelated address"; long off = 0;
    for (auto &g : g_regions) {
        if (a >= g.base && a < g.base + g.maplen) {
            name = g.name;
            if (a >= g.hi) { side = "after the last element"; off = (long)(a - g.hi); }
            else { side = "before the first element"; off = (long)(g.lo - a); }
        }
    }
    int n = snprintf(buf, sizeof buf, "SEGV array=%s %s (+%ld bytes) addr=%p\n", name, side, off, (void*)a);
    if (write(2, buf, n)) {}
    _exit(97);
}
// A damaged index array can make the library allocate without bound or loop: every child is confined.
static void child_limits() {
    struct rlimit as = {(rlim_t)3 << 30, (rlim_t)3 << 30}; setrlimit(RLIMIT_AS, &as);
    struct rlimit cpu = {20, 25}; setrlimit(RLIMIT_CPU, &cpu);
    struct rlimit core = {0, 0}; setrlimit(RLIMIT_CORE, &core);
}
static int g_abnormal = 0;                  // children that did not finish normally (this process)
static const int MAX_ABNORMAL = 24;
static bool too_many_abnormal() {
    static bool said = false;
    if (g_abnormal < MAX_ABNORMAL) return false;
    if (!said) { said = true; vf::cap("enumeration stopped in this shard after " + std::to_string(MAX_ABNORMAL) + " children ended by signal / time-out / abnormal exit (each is reported)"); }
    return true;
}

static void install_segv() {
    child_limits();
    struct sigaction sa; std::memset(&sa, 0, sizeof sa);
    sa.sa_sigaction = segv_handler; sa.sa_flags = SA_SIGINFO;
    sigaction(SIGSEGV, &sa, nullptr); sigaction(SIGBUS, &sa, nullptr);
}

// ---------------------------------------------------------------------------------------------
// systems (C01 families, n <= 64)
struct Sys { std::string name; int n; std::vector<int> ptr, col; std::vector<double> val, val2, f, f2; };

static Sys to_sys(const sg::System<double> &S) {
    Sys s; s.name = S.name; s.n = S.A.n;
    s.ptr.assign(S.A.ptr.begin(), S.A.ptr.end()); s.col.assign(S.A.col.begin(), S.A.col.end()); s.val = S.A.val;
    s.f = sg::rhs(sg::RHS_A_RAMP, S.A);
    s.f2 = sg::rhs(sg::RHS_ALT, S.A);
    // replacement matrix: same pattern, diagonal increased by half its value, off-diagonals scaled position dependent (dyadic factors)
    s.val2 = s.val;
    for (int i = 0; i < s.n; ++i) for (int j = s.ptr[i]; j < s.ptr[i + 1]; ++j)
        s.val2[j] = s.col[j] == i ? s.val[j] * 1.5 : s.val[j] * (((i + s.col[j]) & 1) ? 0.75 : 1.0);
    return s;
}

static const std::vector<Sys>& systems() {
    static std::vector<Sys> out;
    if (out.empty()) {
        for (auto &S : sg::real_systems(vf::thorough() ? 1 : 0)) if (S.A.n <= 64 && S.A.n >= 1) out.push_back(to_sys(S));
        // the same operators with the entries of every row stored in descending column order (rows need not be sorted):
        // both interfaces receive the same arrays, so results stay bitwise comparable; a hidden copy-and-sort on one side
        // changes the summation order of every product with the user's matrix
        { size_t k = out.size(); for (size_t q = 0; q < k; ++q) if (out[q].n >= 3) { Sys r = out[q]; r.name += "/rows-reversed";
            for (int i = 0; i < r.n; ++i) { std::reverse(r.col.begin() + r.ptr[i], r.col.begin() + r.ptr[i + 1]); std::reverse(r.val.begin() + r.ptr[i], r.val.begin() + r.ptr[i + 1]); std::reverse(r.val2.begin() + r.ptr[i], r.val2.begin() + r.ptr[i + 1]); }
            out.push_back(r); } }
        for (auto &S : sg::graph_systems(2, vf::thorough() ? 5 : 4, {1.0}, {1})) {
            out.push_back(to_sys(S));
        }
    }
    return out;
}

// ---------------------------------------------------------------------------------------------
// parameter sets expressible through the C API
struct PEntry { char kind; const char *name; int i; float f; const char *s; };      // kind 'i','f','s'
struct PSet { const char *name; bool null_handle; std::vector<PEntry> e; };

static PEntry I(const char *n, int v) { return {'i', n, v, 0.f, ""}; }
static PEntry F(const char *n, float v) { return {'f', n, 0, v, ""}; }
static PEntry S(const char *n, const char *v) { return {'s', n, 0, 0.f, v}; }

static const std::vector<PSet>& psets() {
    static const std::vector<PSet> P = {
        {"null", true, {}},
        {"empty", false, {}},
        {"ml", false, {I("precond.coarse_enough", 4)}},
        {"sa_spai0_cg", false, {I("precond.coarse_enough", 4), S("precond.coarsening.type", "smoothed_aggregation"), S("precond.relax.type", "spai0"), S("solver.type", "cg"), F("solver.tol", 1e-6f), I("solver.maxiter", 50)}},
        {"rs_gs_bicgstab", false, {I("precond.coarse_enough", 4), S("precond.coarsening.type", "ruge_stuben"), F("precond.coarsening.eps_strong", 0.25f), S("precond.relax.type", "gauss_seidel"), S("solver.type", "bicgstab"), I("precond.npre", 2), I("precond.npost", 2)}},
        {"agg_jacobi_gmres", false, {I("precond.coarse_enough", 4), S("precond.coarsening.type", "aggregation"), F("precond.coarsening.over_interp", 1.25f), S("precond.relax.type", "damped_jacobi"), F("precond.relax.damping", 0.8f), S("solver.type", "gmres"), I("solver.M", 10), F("solver.tol", 1e-10f), S("solver.pside", "left")}},
        {"emin_ilu0_fgmres", false, {I("precond.coarse_enough", 6), S("precond.coarsening.type", "smoothed_aggr_emin"), S("precond.relax.type", "ilu0"), F("precond.relax.damping", 0.75f), S("solver.type", "fgmres"), I("precond.ncycle", 2)}},
        {"sa_cheb_idrs", false, {I("precond.coarse_enough", 4), F("precond.coarsening.relax", 0.5f), S("precond.relax.type", "chebyshev"), I("precond.relax.degree", 3), S("solver.type", "idrs"), I("solver.s", 3), F("solver.omega", 0.7f)}},
        {"sa_iluk_lgmres", false, {I("precond.coarse_enough", 4), S("precond.relax.type", "iluk"), I("precond.relax.k", 2), S("solver.type", "lgmres"), I("solver.K", 2), I("solver.M", 8), I("precond.direct_coarse", 0)}},
        {"sa_spai1_bicgstabl", false, {I("precond.coarse_enough", 4), S("precond.relax.type", "spai1"), S("solver.type", "bicgstabl"), I("solver.L", 3), I("precond.max_levels", 2), I("precond.pre_cycles", 2)}},
        {"sa_ilut_richardson", false, {I("precond.coarse_enough", 4), S("precond.relax.type", "ilut"), F("precond.relax.tau", 0.05f), S("solver.type", "richardson"), F("solver.damping", 0.9f), I("solver.maxiter", 30)}},
        {"sa_ilup_preonly", false, {I("precond.coarse_enough", 4), S("precond.relax.type", "ilup"), S("solver.type", "preonly")}},
    };
    return P;
}

static amgclHandle c_params(const PSet &ps) {
    if (ps.null_handle) return nullptr;
    amgclHandle h = amgcl_params_create();
    for (auto &e : ps.e) {
        if (e.kind == 'i') amgcl_params_seti(h, e.name, e.i);
        else if (e.kind == 'f') amgcl_params_setf(h, e.name, e.f);
        else amgcl_params_sets(h, e.name, e.s);
    }
    return h;
}
// the equivalent C++ call: ptree.put(name, value) with the value in the type the caller holds it in
static ptree cpp_params(const PSet &ps) {
    ptree p;
    for (auto &e : ps.e) {
        if (e.kind == 'i') p.put(e.name, e.i);
        else if (e.kind == 'f') p.put(e.name, e.f);
        else p.put(e.name, e.s);
    }
    return p;
}
static void json_emit(const ptree &p, std::ostringstream &o, int ind) {
    // leaves carry their JSON literal (numbers bare, strings already quoted)
    o << "{\n";
    size_t k = 0;
    for (auto &kv : p) {
        o << std::string(ind + 2, ' ') << '"' << kv.first << "\": ";
        if (kv.second.empty()) o << kv.second.data(); else json_emit(kv.second, o, ind + 2);
        o << (++k < p.size() ? ",\n" : "\n");
    }
    o << std::string(ind, ' ') << "}";
}
static void dump_tree_rec(const ptree &p, const std::string &pre, std::string &out) {
    if (p.empty()) { out += pre + "=" + p.data() + ";"; return; }
    for (auto &kv : p) dump_tree_rec(kv.second, pre.empty() ? kv.first : pre + "." + kv.first, out);
}
static std::string dump_tree(const ptree &p) { std::string s; if (!p.empty()) dump_tree_rec(p, "", s); return s; }

static std::string json_text(const PSet &ps) {
    // nested JSON object from dotted names; numbers as bare JSON numbers (17 significant digits of the float's value), strings quoted
    ptree p;
    for (auto &e : ps.e) {
        if (e.kind == 'i') p.put(e.name, e.i);
        else if (e.kind == 'f') p.put(e.name, (double)e.f);
        else p.put(e.name, std::string("\"") + e.s + "\"");
    }
    std::ostringstream o; json_emit(p, o, 0); o << "\n"; return o.str();
}

// ---------------------------------------------------------------------------------------------
struct Out {
    fr::Out &o;
    void fail(const std::string &sub, const std::string &detail) { std::string d = detail; for (char &c : d) if (c == '\n' || c == '\t') c = ' '; o << "FAIL\t" << sub << "\t" << d << "\n"; }
    void count(const std::string &name, long long n = 1) { o << "COUNT\t" << name << "\t" << n << "\n"; }
};

static std::string bits(double v) { char b[64]; snprintf(b, sizeof b, "%.17g", v); return b; }

// bitwise equality; two NaNs are equal whatever their sign / payload bits (x86 gives the default NaN a sign bit, NaN
// propagation keeps the first operand's: not a property of the value)
static bool same_dbl(double a, double b) { return (a != a && b != b) || !std::memcmp(&a, &b, sizeof(double)); }
static bool same_vec(const double *a, const std::vector<double> &b, std::string &why) {
    for (size_t i = 0; i < b.size(); ++i) if (!same_dbl(a[i], b[i])) { why = "x[" + std::to_string(i) + "] = " + bits(a[i]) + " (C) vs " + bits(b[i]) + " (C++)"; return false; }
    return true;
}

struct SilenceCout {
    std::ostringstream cap; std::streambuf *old;
    SilenceCout() : old(std::cout.rdbuf(cap.rdbuf())) {}
    ~SilenceCout() { std::cout.rdbuf(old); }
};

// one capi case, executed in the child
static void capi_case(Out o, const Sys &s, const PSet &ps, const std::string &op, int base, bool tail) {
    install_segv();
    int n = s.n;
    int nnz = s.ptr[n];
    // --- C++ reference (plain vectors, 0-based) ---
    size_t nn = n;
    // The C++ side receives the property tree exactly as the C setters built it (the handle IS a ptree); whether the
    // setters encode the caller's values faithfully is the subject of the param|* cases.
    amgclHandle prm = c_params(ps);
    ptree cp = prm ? *static_cast<ptree*>(prm) : ptree();
    if (prm && dump_tree(cp) != dump_tree(cpp_params(ps))) o.count("setter_tree_differs_from_ptree_put_of_same_typed_values");
    std::vector<double> rx(n, 0.0), rx2;
    size_t rit = 0, rit2 = 0; double rres = 0, rres2 = 0;
    std::string rreport;
    bool rthrew = false; std::string rwhat;
    try {
        if (op == "precond") {
            AMG ref(std::tie(nn, s.ptr, s.col, s.val), cp);
            ref.apply(s.f, rx);
            std::ostringstream os; os << ref << std::endl; rreport = os.str();
        } else {
            Solver ref(std::tie(nn, s.ptr, s.col, s.val), cp);
            if (op == "solve") {
                std::tie(rit, rres) = ref(s.f, rx);
                rx2 = rx;
                std::tie(rit2, rres2) = ref(s.f2, rx2);
            } else {
                std::tie(rit, rres) = ref(std::tie(nn, s.ptr, s.col, s.val2), s.f, rx);
            }
            std::ostringstream os; os << ref.precond() << std::endl; rreport = os.str();
        }
    } catch (const std::exception &e) { rthrew = true; rwhat = e.what(); }

    // --- C interface on guarded arrays ---
    int    *ptr = gcopy<int>("ptr", s.ptr, tail, base);
    int    *col = gcopy<int>("col", s.col, tail, base);
    double *val = gcopy<double>("val", s.val, tail);
    double *val2 = gcopy<double>("val(replacement)", s.val2, tail);
    double *f   = gcopy<double>("rhs", s.f, tail);
    double *f2  = gcopy<double>("rhs(second)", s.f2, tail);
    double *x   = galloc<double>("x", n, tail);
    for (int i = 0; i < n; ++i) x[i] = 0.0;
    (void)nnz;
    bool cthrew = false; std::string cwhat;
    conv_info ci = {0, 0.0}, ci2 = {0, 0.0};
    std::string creport;
    std::vector<double> x_after_first;
    try {
        if (op == "precond") {
            amgclHandle h = base ? amgcl_precond_create_f(n, ptr, col, val, prm) : amgcl_precond_create(n, ptr, col, val, prm);
            if (prm) amgcl_params_destroy(prm);
            amgcl_precond_apply(h, f, x);
            { SilenceCout sc; amgcl_precond_report(h); creport = sc.cap.str(); }
            amgcl_precond_destroy(h);
        } else {
            amgclHandle h = base ? amgcl_solver_create_f(n, ptr, col, val, prm) : amgcl_solver_create(n, ptr, col, val, prm);
            if (prm) amgcl_params_destroy(prm);
            if (op == "solve") {
                if (base) amgcl_solver_solve_f(h, f, x, &ci); else ci = amgcl_solver_solve(h, f, x);
                x_after_first.assign(x, x + n);
                if (base) amgcl_solver_solve_f(h, f2, x, &ci2); else ci2 = amgcl_solver_solve(h, f2, x);
            } else {
                if (base) amgcl_solver_solve_mtx_f(h, ptr, col, val2, f, x, &ci); else ci = amgcl_solver_solve_mtx(h, ptr, col, val2, f, x);
            }
            { SilenceCout sc; amgcl_solver_report(h); creport = sc.cap.str(); }
            amgcl_solver_destroy(h);
        }
    } catch (const std::exception &e) { cthrew = true; cwhat = e.what(); }

    std::string ctx = s.name + " / " + ps.name + " / " + op + (base ? " / 1-based *_f" : " / 0-based") + (tail ? " / guard after" : " / guard before");
    if (rthrew != cthrew || (rthrew && rwhat != cwhat)) { o.fail("capi.exception_mismatch", ctx + ": C++ " + (rthrew ? "raised " + rwhat : "ok") + ", C " + (cthrew ? "raised " + cwhat : "ok")); return; }
    if (rthrew) { o.count("both_raised"); return; }
    std::string why;
    if (op == "precond") {
        if (!same_vec(x, rx, why)) o.fail("capi.precond_apply", ctx + ": " + why);
    } else if (op == "solve") {
        if ((size_t)ci.iterations != rit) o.fail("capi.iterations", ctx + ": " + std::to_string(ci.iterations) + " vs " + std::to_string(rit));
        if (!same_dbl(ci.residual, rres)) o.fail("capi.residual", ctx + ": " + bits(ci.residual) + " vs " + bits(rres));
        if (!same_vec(x_after_first.data(), rx, why)) o.fail("capi.solution", ctx + ": " + why);
        if ((size_t)ci2.iterations != rit2 || !same_dbl(ci2.residual, rres2) || !same_vec(x, rx2, why))
            o.fail("capi.second_solve", ctx + ": second right-hand side on the same handle: iterations " + std::to_string(ci2.iterations) + " vs " + std::to_string(rit2) + ", residual " + bits(ci2.residual) + " vs " + bits(rres2) + " " + why);
        if (rit >= 1) o.count("solves_with_iterations");
    } else {
        if ((size_t)ci.iterations != rit) o.fail("capi.mtx.iterations", ctx + ": " + std::to_string(ci.iterations) + " vs " + std::to_string(rit));
        if (!same_dbl(ci.residual, rres)) o.fail("capi.mtx.residual", ctx + ": " + bits(ci.residual) + " vs " + bits(rres));
        if (!same_vec(x, rx, why)) o.fail("capi.mtx.solution", ctx + ": " + why);
    }
    if (creport != rreport) o.fail("capi.report", ctx + ": report text differs: [" + creport.substr(0, 200) + "] vs [" + rreport.substr(0, 200) + "]");
    // the user's input arrays are unchanged
    bool inputs_ok = true;
    for (int i = 0; i <= n; ++i) inputs_ok &= ptr[i] == s.ptr[i] + base;
    for (int j = 0; j < s.ptr[n]; ++j) inputs_ok &= col[j] == s.col[j] + base && !std::memcmp(&val[j], &s.val[j], 8) && !std::memcmp(&val2[j], &s.val2[j], 8);
    for (int i = 0; i < n; ++i) inputs_ok &= !std::memcmp(&f[i], &s.f[i], 8) && !std::memcmp(&f2[i], &s.f2[i], 8);
    if (!inputs_ok) o.fail("capi.inputs_modified", ctx);
    // levels (vacuity)
    if (rreport.find("Number of levels:    1") == std::string::npos) o.count("hierarchies_with_ge_2_levels");
    o.count("cases_completed");
    gfree_all();
}

static void relay(const fr::Result &r, const std::string &key, const char *segv_sub) {
    if (r.kind != fr::OK && r.kind != fr::EXC) ++g_abnormal;
    if (r.kind == fr::EXIT && r.code == 97) { vf::fail(segv_sub, key, "access outside a user array: " + r.err.substr(0, 300)); return; }
    if (r.kind != fr::OK) { vf::fail("capi.abnormal_termination", key, std::string(r.kind_name()) + " code " + std::to_string(r.code) + " " + r.text.substr(0, 300) + " " + r.err.substr(0, 300)); return; }
    std::istringstream in(r.text); std::string l;
    while (std::getline(in, l)) {
        size_t a = l.find('\t'), b = a == std::string::npos ? a : l.find('\t', a + 1);
        if (b == std::string::npos) continue;
        if (l.compare(0, 5, "FAIL\t") == 0) vf::fail(l.substr(a + 1, b - a - 1), key, l.substr(b + 1));
        else if (l.compare(0, 6, "COUNT\t") == 0) vf::count(l.substr(a + 1, b - a - 1), std::atoll(l.c_str() + b + 1));
    }
}

static void run_capi() {
    for (const Sys &s : systems()) for (const PSet &ps : psets()) for (const char *op : {"solve", "solve_mtx", "precond"})
        for (int base = 0; base < 2; ++base) for (int tail = 1; tail >= 0; --tail) {
            std::string key = vf::KS() << "capi|" << s.name << "|" << ps.name << "|" << op << "|" << base << "|" << (tail ? "tail" : "head");
            if (too_many_abnormal() && !vf::replaying()) continue;
            if (!vf::take([&]{ return key; })) continue;
            fr::Result r = fr::run([&](fr::Out &o) { capi_case(Out{o}, s, ps, op, base, tail != 0); }, 40.0);
            relay(r, key, "bounds.access_outside_user_array");
            vf::nontrivial(vf::hstr(key));
        }
    vf::space("C01 system families with n <= 64 x parameter sets {null handle, empty, 10 setter-built sets covering 4 coarsenings, 9 relaxations, 9 solvers} x {solve (two right-hand sides), solve with replacement matrix, preconditioner apply} x {0-based, 1-based *_f} x {guard page after, guard page before every user array}");
}

// ---------------------------------------------------------------------------------------------
// parameters reach the live objects unchanged
struct Seen { bool found = false; bool is_float = false; double v = 0; std::string text; };

#define C20_FIELD(obj, fname) if (name == #fname) { sn.found = true; sn.is_float = std::is_same<typename std::decay<decltype((obj).fname)>::type, float>::value; sn.v = (double)(obj).fname; return; }

static void seen_in_solver(const ISolver &w, const std::string &name, Seen &sn) {
    namespace rs = amgcl::runtime::solver;
    switch (w.s) {
        case rs::cg:        { auto &p = static_cast<amgcl::solver::cg<Backend>*>(w.handle)->prm; C20_FIELD(p, tol) C20_FIELD(p, maxiter) C20_FIELD(p, abstol) } break;
        case rs::bicgstab:  { auto &p = static_cast<amgcl::solver::bicgstab<Backend>*>(w.handle)->prm; C20_FIELD(p, tol) C20_FIELD(p, maxiter) } break;
        case rs::bicgstabl: { auto &p = static_cast<amgcl::solver::bicgstabl<Backend>*>(w.handle)->prm; C20_FIELD(p, tol) C20_FIELD(p, maxiter) C20_FIELD(p, L) } break;
        case rs::gmres:     { auto &p = static_cast<amgcl::solver::gmres<Backend>*>(w.handle)->prm; C20_FIELD(p, tol) C20_FIELD(p, maxiter) C20_FIELD(p, M)
                              if (name == "pside") { sn.found = true; std::ostringstream o; o << p.pside; sn.text = o.str(); return; } } break;
        case rs::lgmres:    { auto &p = static_cast<amgcl::solver::lgmres<Backend>*>(w.handle)->prm; C20_FIELD(p, tol) C20_FIELD(p, maxiter) C20_FIELD(p, M) C20_FIELD(p, K) } break;
        case rs::fgmres:    { auto &p = static_cast<amgcl::solver::fgmres<Backend>*>(w.handle)->prm; C20_FIELD(p, tol) C20_FIELD(p, maxiter) C20_FIELD(p, M) } break;
        case rs::idrs:      { auto &p = static_cast<amgcl::solver::idrs<Backend>*>(w.handle)->prm; C20_FIELD(p, tol) C20_FIELD(p, maxiter) C20_FIELD(p, s) C20_FIELD(p, omega) } break;
        case rs::richardson:{ auto &p = static_cast<amgcl::solver::richardson<Backend>*>(w.handle)->prm; C20_FIELD(p, tol) C20_FIELD(p, maxiter) C20_FIELD(p, damping) } break;
        default: break;
    }
}
static void seen_in_relax(const amgcl::runtime::relaxation::wrapper<Backend> &w, const std::string &name, Seen &sn) {
    namespace rr = amgcl::runtime::relaxation;
    switch (w.r) {
        case rr::damped_jacobi: { auto &p = static_cast<amgcl::relaxation::damped_jacobi<Backend>*>(w.handle)->prm; C20_FIELD(p, damping) } break;
        case rr::ilu0:          { auto &p = static_cast<amgcl::relaxation::ilu0<Backend>*>(w.handle)->prm; C20_FIELD(p, damping) } break;
        case rr::iluk:          { auto &p = static_cast<amgcl::relaxation::iluk<Backend>*>(w.handle)->prm; C20_FIELD(p, damping) C20_FIELD(p, k) } break;
        case rr::ilut:          { auto &p = static_cast<amgcl::relaxation::ilut<Backend>*>(w.handle)->prm; C20_FIELD(p, damping) C20_FIELD(p, tau) C20_FIELD(p, p) } break;
        case rr::chebyshev:     { auto &p = static_cast<amgcl::relaxation::chebyshev<Backend>*>(w.handle)->prm; C20_FIELD(p, degree) C20_FIELD(p, higher) C20_FIELD(p, lower) } break;
        default: break;
    }
}
static void seen_in_amg(const AMG::params &p, const std::string &name, Seen &sn) {
    C20_FIELD(p, coarse_enough) C20_FIELD(p, direct_coarse) C20_FIELD(p, max_levels) C20_FIELD(p, npre) C20_FIELD(p, npost)
    C20_FIELD(p, ncycle) C20_FIELD(p, pre_cycles) C20_FIELD(p, allow_rebuild)
}

static void param_case(Out o, const PSet &ps, const std::string &via) {
    // a system large enough to have a smoother on the finest level with coarse_enough <= 6
    static const sg::Crs<double> A = sg::grid_diffusion(6, 5, 1, sg::coef_mask(sg::COEF_UNIFORM, 1.0));
    std::vector<int> ptr(A.ptr.begin(), A.ptr.end()), col(A.col.begin(), A.col.end());
    int n = A.n;
    amgclHandle prm = nullptr;
    std::string jfile = "./c20_params_" + std::to_string((long)getpid()) + ".json";
    if (via == "setters") prm = c_params(ps);
    else {
        { std::ofstream f(jfile); f << json_text(ps); }
        prm = amgcl_params_create();
        if (via.compare(0, 3, "pre") == 0) {
            // "pre<k><s|d>+json": entry k (or every entry, k = 'a') is set through the typed setters BEFORE the file is read, with
            // the file's value (s) or another one (d).  Whether the reader replaces or merges, the file's values must reach the solver.
            bool all = via[3] == 'a'; int k = all ? -1 : std::atoi(via.c_str() + 3); bool diff = via.find("d+json") != std::string::npos;
            for (int q = 0; q < (int)ps.e.size(); ++q) if (all || q == k) {
                auto &e = ps.e[q];
                if (e.kind == 'i') amgcl_params_seti(prm, e.name, diff ? e.i + 1 : e.i);
                else if (e.kind == 'f') amgcl_params_setf(prm, e.name, diff ? e.f * 0.5f : e.f);
                else amgcl_params_sets(prm, e.name, e.s);
            }
        }
        amgcl_params_read_json(prm, jfile.c_str());
        unlink(jfile.c_str());
        if (via == "json+setters") amgcl_params_seti(prm, "solver.maxiter", 17);
    }
    amgclHandle h = amgcl_solver_create(n, ptr.data(), col.data(), A.val.data(), prm);
    if (prm) amgcl_params_destroy(prm);
    Solver *slv = static_cast<Solver*>(h);
    for (auto &e : ps.e) {
        std::string name = e.name, where;
        Seen sn;
        // expected value as the caller holds it
        double want = e.kind == 'i' ? (double)e.i : (double)e.f;
        if (via == "json+setters" && name == "solver.maxiter") want = 17;
        if (name.compare(0, 7, "solver.") == 0) {
            std::string fld = name.substr(7);
            if (fld == "type") { std::ostringstream os; os << slv->solver().s; sn.found = true; sn.text = os.str(); }
            else seen_in_solver(slv->solver(), fld, sn);
            where = "the iterative solver object";
        } else if (name.compare(0, 14, "precond.relax.") == 0) {
            std::string fld = name.substr(14);
            auto &lv = slv->precond().levels.front();
            if (!lv.relax) { o.count("param_not_observable_single_level"); continue; }
            if (fld == "type") { std::ostringstream os; os << lv.relax->r; sn.found = true; sn.text = os.str(); }
            else seen_in_relax(*lv.relax, fld, sn);
            where = "the smoother object of the finest level";
        } else if (name.compare(0, 19, "precond.coarsening.") == 0) {
            // the coarsening object is temporary; the tree it was built from is kept in the AMG parameters
            auto t = slv->precond().prm.coarsening.get_optional<std::string>(name.substr(19));
            if (t) {
                sn.found = true; sn.text = *t;
                if (e.kind != 's') { sn.text.clear(); std::istringstream is(*t); float fv; double dv;
                    if (e.kind == 'f') { is >> fv; sn.v = fv; sn.is_float = true; } else { is >> dv; sn.v = dv; } }
            }
            where = "the coarsening parameters kept by the AMG object";
        } else if (name.compare(0, 8, "precond.") == 0) {
            seen_in_amg(slv->precond().prm, name.substr(8), sn);
            where = "the AMG parameters";
        }
        if (!sn.found) { o.fail("param.harness_cannot_observe", std::string(ps.name) + ": " + name); continue; }
        o.count("parameters_observed");
        if (e.kind == 's') {
            if (sn.text != e.s) o.fail("param.string_reaches_solver", std::string(ps.name) + " via " + via + ": " + name + "=" + e.s + " but " + where + " holds " + sn.text);
        } else if (e.kind == 'i' || via != "setters") {
            // integers, and numbers written with 17 digits in JSON: exact
            if (sn.v != want) o.fail(e.kind == 'i' ? "param.int_reaches_solver" : "param.json_number_reaches_solver",
                    std::string(ps.name) + " via " + via + ": " + name + "=" + bits(want) + " but " + where + " holds " + bits(sn.v));
        } else {
            // setf(float): the value the caller passed is (double)e.f exactly
            if (sn.v != want) {
                bool same_float = (float)sn.v == e.f;
                o.fail(sn.is_float ? "param.setf_reaches_float_member" : "param.setf_reaches_double_member",
                        std::string(ps.name) + ": amgcl_params_setf(" + name + ", " + bits(want) + ") but " + where + " holds " + bits(sn.v)
                        + (same_float ? " (equal after rounding to float: the value went through a 9-digit decimal string)" : " (different even as float)"));
            }
        }
    }
    amgcl_solver_destroy(h);
    o.count("param_cases_completed");
}

static void run_params() {
    for (const PSet &ps : psets()) {
      if (ps.null_handle || ps.e.empty()) continue;
      std::vector<std::string> vias = {"setters", "json", "json+setters", "preas+json", "pread+json"};
      for (size_t k = 0; k < ps.e.size(); ++k) { vias.push_back("pre" + std::to_string(k) + "s+json"); vias.push_back("pre" + std::to_string(k) + "d+json"); }
      for (const std::string &via : vias) {
        std::string key = vf::KS() << "param|" << ps.name << "|" << via;
        if (!vf::take([&]{ return key; })) continue;
        fr::Result r = fr::run([&](fr::Out &o) { child_limits(); param_case(Out{o}, ps, via); }, 40.0);
        relay(r, key, "bounds.access_outside_user_array");
        vf::nontrivial(vf::hstr(key));
      }
    }
    vf::space("10 parameter sets x {typed setters, JSON file, JSON file then a setter, every single entry / all entries set through the typed setters (same or different value) and then the JSON file}: every entry is looked up in the live solver / finest-level smoother / AMG object");
}

// ---------------------------------------------------------------------------------------------
// create / destroy orders
//   ops: cP createparams, cS1 solver(sys1,P), cS2 solver(sys2,P), cM precond(sys1,P), dP, s1 solve, s2 solve, aM apply, dS1, dS2, dM
struct Iso { conv_info c1, c2; std::vector<double> x1, x2, xm; };

static void life_run(const std::vector<int> &order, const Sys &a, const Sys &b, const PSet &ps, Iso &res) {
    amgclHandle P = nullptr, S1 = nullptr, S2 = nullptr, M = nullptr;
    std::fill(res.x1.begin(), res.x1.end(), 0.0); std::fill(res.x2.begin(), res.x2.end(), 0.0); std::fill(res.xm.begin(), res.xm.end(), 0.0);
    for (int op : order) switch (op) {
        case 0: P = c_params(ps); break;
        case 1: S1 = amgcl_solver_create(a.n, a.ptr.data(), a.col.data(), a.val.data(), P); break;
        case 2: S2 = amgcl_solver_create(b.n, b.ptr.data(), b.col.data(), b.val.data(), P); break;
        case 3: M = amgcl_precond_create(a.n, a.ptr.data(), a.col.data(), a.val.data(), P); break;
        case 4: amgcl_params_destroy(P); P = nullptr; break;
        case 5: res.c1 = amgcl_solver_solve(S1, a.f.data(), res.x1.data()); break;
        case 6: res.c2 = amgcl_solver_solve(S2, b.f.data(), res.x2.data()); break;
        case 7: amgcl_precond_apply(M, a.f.data(), res.xm.data()); break;
        case 8: amgcl_solver_destroy(S1); break;
        case 9: amgcl_solver_destroy(S2); break;
        case 10: amgcl_precond_destroy(M); break;
    }
}
static const char *opname(int op) { static const char *nm[] = {"cP", "cS1", "cS2", "cM", "dP", "s1", "s2", "aM", "dS1", "dS2", "dM"}; return nm[op]; }

static void gen_orders(std::vector<int> &cur, unsigned done, std::vector<std::vector<int>> &out, int nops) {
    if ((int)cur.size() == nops) { out.push_back(cur); return; }
    auto has = [&](int op) { return (done >> op) & 1u; };
    for (int op = 0; op < nops; ++op) {
        if (has(op)) continue;
        bool ok = true;
        switch (op) {
            case 1: case 2: case 3: ok = has(0) && !has(4); break;        // creation needs the live parameter list
            case 4: ok = has(0) && has(1) && has(2) && has(3); break;        // parameters destroyed after the last create (any time later)
            case 5: ok = has(1) && !has(8); break;
            case 6: ok = has(2) && !has(9); break;
            case 7: ok = has(3) && !has(10); break;
            case 8: ok = has(1) && has(5); break;
            case 9: ok = has(2) && has(6); break;
            case 10: ok = has(3) && has(7); break;
        }
        if (!ok) continue;
        cur.push_back(op);
        gen_orders(cur, done | (1u << op), out, nops);
        cur.pop_back();
    }
}

static void run_life() {
    // sys1: 2-D grid (n=28), sys2: convection-diffusion (n=36): different sizes, so a mixed-up handle shows
    static Sys a = to_sys(sg::make_system(sg::grid_diffusion(7, 4, 1, sg::coef_mask(sg::COEF_CHECKER, 10.0)), "grid2d", "life_grid2d_7x4"));
    static Sys b = to_sys(sg::make_system(sg::convection_diffusion(6, 6, 2.0, 1.0, 0.5), "convdiff", "life_convdiff_6x6"));
    const PSet &ps = psets()[3];
    std::vector<std::vector<int>> orders; { std::vector<int> cur; gen_orders(cur, 0, orders, 11); }
    size_t step = 1;
    for (size_t oi = 0; oi < orders.size(); oi += step) {
        if (too_many_abnormal() && !vf::replaying()) continue;
        if (!vf::take_group()) continue;
        // a group = 1 order; cheap enough to fork per order
        std::string key;
        { vf::KS k; k << "life|"; for (int op : orders[oi]) k << opname(op) << ","; key = k; }
        if (!vf::take_in_group([&]{ return key; })) continue;
        fr::Result r = fr::run([&](fr::Out &o0) {
            child_limits();
            Out o{o0};
            const std::vector<int> iso = {0, 1, 5, 8, 2, 6, 9, 3, 7, 10, 4};
            Iso ref, warm, got;
            for (Iso *q : {&ref, &warm, &got}) { q->x1.assign(a.n, 0.0); q->x2.assign(b.n, 0.0); q->xm.assign(a.n, 0.0); }
            life_run(iso, a, b, ps, warm);                 // warm-up: one-time allocations of the C++ runtime (locales, ...)
            long l0 = g_live_blocks;
            life_run(iso, a, b, ps, ref);
            long l1 = g_live_blocks;
            life_run(orders[oi], a, b, ps, got);
            long l2 = g_live_blocks;
            auto same = [](const conv_info &p, const conv_info &q) { return p.iterations == q.iterations && same_dbl(p.residual, q.residual); };
            std::string w;
            if (!same(got.c1, ref.c1) || !same_vec(got.x1.data(), ref.x1, w)) o.fail("life.solver1_result", "differs from the isolated run " + w);
            if (!same(got.c2, ref.c2) || !same_vec(got.x2.data(), ref.x2, w)) o.fail("life.solver2_result", "differs from the isolated run " + w);
            if (!same_vec(got.xm.data(), ref.xm, w)) o.fail("life.precond_result", "differs from the isolated run " + w);
            if (l1 != l0) o.fail("life.heap_not_returned", "isolated create/solve/destroy cycle leaves " + std::to_string(l1 - l0) + " live heap blocks");
            if (l2 != l1) o.fail("life.heap_not_returned", "this order leaves " + std::to_string(l2 - l1) + " live heap blocks after every handle was destroyed");
            if (ref.c1.iterations >= 1) o.count("lifecycle_solves_with_iterations");
            o.count("lifecycle_orders_run");
        }, 40.0);
        relay(r, key, "bounds.access_outside_user_array");
        vf::nontrivial(vf::hstr(key));
    }
    vf::space("every admissible interleaving of {create params, create solver 1, create solver 2, create preconditioner, destroy params, solve 1, solve 2, apply, destroy x3} (params alive during creates; use between create and destroy)");
}

int main(int argc, char **argv) {
    vf::init(argc, argv, "C20");
    if (vf::section("capi")) run_capi();
    if (vf::section("param")) run_params();
    if (vf::section("life")) run_life();
    { const Sys &s = systems()[0]; vf::sample_str(vf::KS() << "system " << s.name << " n=" << s.n << " nnz=" << s.ptr[s.n] << "; parameter set " << psets()[5].name << ": " << json_text(psets()[5])); }
    return vf::finish();
}
