// C10 -- outputs are a function of the inputs only; no memory errors on valid input.
// fault_enumeration: for every (matrix, configuration) case the environment answers are
// enumerated: heap fill pattern of every fresh allocation x allocation prelude x repetition.
// Every case runs in a forked child (batches of cases; a crashing batch is re-run case by case).
//  O1 determinism : the complete observable result (iterations, residual bits, solution bytes,
//                   exception text) is byte-identical for all environment answers
//  O2 memory safety: child ends normally (ASan/UBSan unit: no report; plain unit: no glibc abort/signal)
//  O3 ledger       : after destruction no block allocated during the run is still live
#include <amgcl/backend/builtin.hpp>
#include <amgcl/adapter/crs_tuple.hpp>
#include <amgcl/adapter/zero_copy.hpp>
#include <amgcl/make_solver.hpp>
#include <amgcl/relaxation/as_preconditioner.hpp>
#include <amgcl/amg.hpp>
#include <amgcl/coarsening/runtime.hpp>
#include <amgcl/relaxation/runtime.hpp>
#include <amgcl/solver/runtime.hpp>
#include <amgcl/preconditioner/runtime.hpp>
#include <amgcl/solver/skyline_lu.hpp>
#include <boost/property_tree/ptree.hpp>
#include <cstring>
#include "vf.hpp"
#include "forkrun.hpp"
#include "heapfill.hpp"
#ifdef C10_FIBERS
#include "vsched.hpp"      // OpenMP teams as fibers: 17 threads select the row-merge SpGEMM and the level-scheduled sweeps
#endif

using namespace amgcl;
typedef backend::builtin<double> B;
typedef make_solver<runtime::preconditioner<B>, runtime::solver::wrapper<B>> Solver;

struct Mat { int n; std::vector<ptrdiff_t> ptr, col; std::vector<double> val; std::string name; };

// pattern (off-diagonal mask) + sign rule -> strictly diagonally dominant matrix
static Mat make_mat(int n, uint64_t off, int rule) {
    Mat m; m.n = n; m.ptr.push_back(0);
    int b = 0;
    std::vector<std::vector<double>> d(n, std::vector<double>(n, 0.0));
    for (int i = 0; i < n; ++i) for (int j = 0; j < n; ++j) if (i != j) {
        if ((off >> b) & 1) {
            double v;
            if (rule == 0) v = -1;                                  // M-matrix
            else if (rule == 1) v = +1;                             // only positive off-diagonals
            else v = ((i + 2 * j) % 3 == 0) ? 0.5 : -1.0 - (j % 2); // mixed signs and sizes
            d[i][j] = v;
        }
        ++b;
    }
    for (int i = 0; i < n; ++i) { double s = 1; for (int j = 0; j < n; ++j) s += std::abs(d[i][j]); d[i][i] = (rule == 2 && i == 1) ? -s : s; }
    b = 0;
    for (int i = 0; i < n; ++i) {
        for (int j = 0; j < n; ++j) {
            bool st = (i == j);
            if (i != j) { /* recompute bit index */ int bi = i * (n - 1) + (j < i ? j : j - 1); st = (off >> bi) & 1; }
            if (st) { m.col.push_back(j); m.val.push_back(d[i][j]); }
        }
        m.ptr.push_back((ptrdiff_t)m.col.size());
    }
    m.name = vf::KS() << "p" << n << "_" << off << "_r" << rule;
    return m;
}
static Mat poisson1d(int n, const char *nm) {
    Mat m; m.n = n; m.ptr.push_back(0);
    for (int i = 0; i < n; ++i) { if (i) { m.col.push_back(i-1); m.val.push_back(-1); } m.col.push_back(i); m.val.push_back(2); if (i+1<n) { m.col.push_back(i+1); m.val.push_back(-1); } m.ptr.push_back((ptrdiff_t)m.col.size()); }
    m.name = nm; return m;
}
static Mat diagonal(int n) { Mat m; m.n = n; m.ptr.push_back(0); for (int i = 0; i < n; ++i) { m.col.push_back(i); m.val.push_back(1 + i); m.ptr.push_back(i + 1); } m.name = vf::KS() << "diag" << n; return m; }
// 1-D Poisson stored with a dense pattern: every entry outside the band holds a subnormal number (nonzero, finite: a valid
// input whose tiny entries are "nonzero" for some tests and "negligible" for others); numbering i -> (step*i) mod n
static Mat tiny_offband(int n, int step) {
    Mat m; m.n = n; m.ptr.push_back(0);
    std::vector<int> pos(n); for (int i = 0; i < n; ++i) pos[(step * i) % n] = i;      // new index -> chain position
    for (int i = 0; i < n; ++i) {
        for (int j = 0; j < n; ++j) { int d = std::abs(pos[i] - pos[j]); m.col.push_back(j); m.val.push_back(d == 0 ? 4.0 : d == 1 ? -1.0 : 1e-310); }
        m.ptr.push_back((ptrdiff_t)m.col.size());
    }
    m.name = vf::KS() << "tiny_offband" << n << "_step" << step;
    return m;
}
static Mat two_blocks() {   // disconnected graph: two 1-D Poisson blocks of size 3 and an isolated unknown
    Mat m; m.n = 7; m.ptr.push_back(0);
    for (int i = 0; i < 7; ++i) {
        int lo = i < 3 ? 0 : (i < 6 ? 3 : 6), hi = i < 3 ? 3 : (i < 6 ? 6 : 7);
        if (i - 1 >= lo) { m.col.push_back(i-1); m.val.push_back(-1); }
        m.col.push_back(i); m.val.push_back(2.5);
        if (i + 1 < hi) { m.col.push_back(i+1); m.val.push_back(-1); }
        m.ptr.push_back((ptrdiff_t)m.col.size());
    }
    m.name = "two_blocks_plus_isolated"; return m;
}
static Mat grid2d(int nx) {
    Mat m; m.n = nx * nx; m.ptr.push_back(0);
    for (int j = 0; j < nx; ++j) for (int i = 0; i < nx; ++i) {
        int c = j * nx + i;
        if (j) { m.col.push_back(c - nx); m.val.push_back(-1); }
        if (i) { m.col.push_back(c - 1); m.val.push_back(-1); }
        m.col.push_back(c); m.val.push_back(4);
        if (i + 1 < nx) { m.col.push_back(c + 1); m.val.push_back(-1); }
        if (j + 1 < nx) { m.col.push_back(c + nx); m.val.push_back(-1); }
        m.ptr.push_back((ptrdiff_t)m.col.size());
    }
    m.name = vf::KS() << "grid" << nx << "x" << nx; return m;
}

static Mat grid3d(int nx, int ny, int nz) {
    Mat m; m.n = nx * ny * nz; m.ptr.push_back(0);
    for (int k = 0; k < nz; ++k) for (int j = 0; j < ny; ++j) for (int i = 0; i < nx; ++i) {
        int c = (k * ny + j) * nx + i;
        if (k) { m.col.push_back(c - nx * ny); m.val.push_back(-1); }
        if (j) { m.col.push_back(c - nx); m.val.push_back(-1); }
        if (i) { m.col.push_back(c - 1); m.val.push_back(-1); }
        m.col.push_back(c); m.val.push_back(6);
        if (i + 1 < nx) { m.col.push_back(c + 1); m.val.push_back(-1); }
        if (j + 1 < ny) { m.col.push_back(c + nx); m.val.push_back(-1); }
        if (k + 1 < nz) { m.col.push_back(c + nx * ny); m.val.push_back(-1); }
        m.ptr.push_back((ptrdiff_t)m.col.size());
    }
    m.name = vf::KS() << "grid3d_" << nx << "x" << ny << "x" << nz; return m;
}

struct Cfg { std::string name; boost::property_tree::ptree p; };

// slice C: fill-producing smoothers with non-default fill parameters on larger grids (working rows grow and reallocate)
static std::vector<Cfg> fill_configs() {
    std::vector<Cfg> out;
    struct RP { const char *r; const char *key; int v; };
    const RP rps[] = {{"iluk","k",1},{"iluk","k",2},{"iluk","k",3},{"ilup","k",1},{"ilup","k",2},{"ilut","p",2},{"ilut","p",4},{"ilu0",nullptr,0},{"spai1",nullptr,0},{"gauss_seidel",nullptr,0},{"chebyshev","degree",4}};
    for (auto &rp : rps) for (int cls = 0; cls < 2; ++cls) {
        Cfg g; g.name = vf::KS() << (cls ? "amgfill." : "relaxfill.") << rp.r << (rp.key ? std::string(".") + rp.key + std::to_string(rp.v) : std::string());
        if (cls) { g.p.put("precond.class", "amg"); g.p.put("precond.relax.type", rp.r); if (rp.key) g.p.put(std::string("precond.relax.") + rp.key, rp.v); g.p.put("precond.coarse_enough", 10); }
        else { g.p.put("precond.class", "relaxation"); g.p.put("precond.type", rp.r); if (rp.key) g.p.put(std::string("precond.") + rp.key, rp.v); }
        g.p.put("solver.type", "bicgstab"); g.p.put("solver.maxiter", 10);
        out.push_back(g);
    }
    return out;
}

static const char *COARS[] = {"ruge_stuben", "aggregation", "smoothed_aggregation", "smoothed_aggr_emin"};
static const char *RELAX[] = {"gauss_seidel", "ilu0", "iluk", "ilup", "ilut", "damped_jacobi", "spai0", "spai1", "chebyshev"};
static const char *SOLV[]  = {"cg", "bicgstab", "bicgstabl", "gmres", "lgmres", "fgmres", "idrs", "richardson", "preonly"};

static std::vector<Cfg> configs(bool quick) {
    std::vector<Cfg> out;
    // slice A: every amg configuration under two solvers
    for (auto c : COARS) for (auto r : RELAX)
        for (int ce : {0, 1, 2, 3000}) for (int ml : {1, 2, 0}) for (int dc = 0; dc < 2; ++dc)
            for (auto s : {"cg", "gmres"}) {
                if (quick && (ce == 2 || (ml == 2 && dc == 0))) continue;
                Cfg g; g.name = vf::KS() << "amg." << c << "." << r << ".ce" << ce << ".ml" << ml << ".dc" << dc << "." << s;
                g.p.put("precond.class", "amg"); g.p.put("precond.coarsening.type", c); g.p.put("precond.relax.type", r);
                g.p.put("precond.coarse_enough", ce); if (ml) g.p.put("precond.max_levels", ml); g.p.put("precond.direct_coarse", dc ? true : false);
                g.p.put("solver.type", s); g.p.put("solver.maxiter", 20);
                out.push_back(g);
            }
    // slice B: every solver x {one amg, every relaxation as preconditioner, dummy}
    for (auto s : SOLV) {
        { Cfg g; g.name = vf::KS() << "amgdef." << s; g.p.put("precond.class", "amg"); g.p.put("precond.coarse_enough", 1); g.p.put("solver.type", s); g.p.put("solver.maxiter", 20); out.push_back(g); }
        { Cfg g; g.name = vf::KS() << "dummy." << s; g.p.put("precond.class", "dummy"); g.p.put("solver.type", s); g.p.put("solver.maxiter", 20); out.push_back(g); }
        for (auto r : RELAX) { Cfg g; g.name = vf::KS() << "relax." << r << "." << s; g.p.put("precond.class", "relaxation"); g.p.put("precond.type", r); g.p.put("solver.type", s); g.p.put("solver.maxiter", 20); out.push_back(g); }
    }
    return out;
}

static void prelude(int kind) {
    // allocation histories: fragmenting alloc/free ladders that leave differently sized holes
    if (kind == 0) return;
    std::vector<char*> keep;
    for (int i = 1; i <= 40; ++i) {
        size_t sz = kind == 1 ? (size_t)(8 * i) : (size_t)(24 + 40 * (i % 7));
        char *p = new char[sz];
        keep.push_back(p);
    }
    for (size_t i = 0; i < keep.size(); ++i) if ((i % (kind + 1)) == 0) { delete[] keep[i]; keep[i] = nullptr; }
    static std::vector<char*> parked;            // the rest stays allocated for the duration of the child
    for (char *p : keep) if (p) parked.push_back(p);
}

// one run of one case under the currently selected environment; the observable result goes to
// `out` (capacity reserved by the caller, so that the ledger only sees the library's blocks)
static long long run_once(const Mat &m, const Cfg &c, std::string &out) {
    long long before = hf::live_blocks();
    {
        std::vector<double> f(m.n), x(m.n, 0.0);
        for (int i = 0; i < m.n; ++i) f[i] = 1.0 + 0.5 * i;
        std::vector<ptrdiff_t> ptr = m.ptr, col = m.col; std::vector<double> val = m.val;
        out.clear();
        try {
            Solver S(std::make_tuple((size_t)m.n, ptr, col, val), c.p);
            size_t it; double r;
            std::tie(it, r) = S(f, x);
            out.append((const char*)&it, sizeof it); out.append((const char*)&r, sizeof r);
            out.append((const char*)x.data(), x.size() * sizeof(double));
            // apply the preconditioner alone as well
            backend::numa_vector<double> ff(f), y(m.n);
            S.precond().apply(ff, y);
            out.append((const char*)y.data(), m.n * sizeof(double));
        } catch (const std::exception &e) {
            out = "EXC:"; out.append(e.what(), std::min<size_t>(std::strlen(e.what()), 900));
        }
        if (ptr != m.ptr || col != m.col || std::memcmp(val.data(), m.val.data(), val.size() * sizeof(double)) != 0) out += "|USER-MATRIX-MODIFIED";
    }
    return hf::live_blocks() - before;
}

static const int ENV[][2] = {{0,0},{1,1},{2,2},{3,0},{3,1},{0,2},{0,0}};   // (fill mode, prelude); last = repetition of the first
static const int NENV = 7;

// child body for one case: returns "OK ..." or a description of the first discrepancy
static std::string case_body(const Mat &m, const Cfg &c) {
    std::string first, r; first.reserve(8192); r.reserve(8192);
    hf::set_mode(0, 1);
    run_once(m, c, r);                       // warm-up (static initialisation inside boost/iostream)
    for (int e = 0; e < NENV; ++e) {
        hf::set_mode(ENV[e][0], 7 + e);
        prelude(ENV[e][1]);
        long long leaked = run_once(m, c, r);
        if (leaked != 0) return vf::KS() << "LEAK env=" << e << ": " << leaked << " block(s) allocated during the run are still live after destruction";
        if (r.find("USER-MATRIX-MODIFIED") != std::string::npos) return "USER-MATRIX-MODIFIED";
        if (e == 0) first = r;
        else if (r != first) {
            return vf::KS() << "NONDETERMINISTIC env(fill,prelude)=(" << ENV[e][0] << "," << ENV[e][1] << ") differs from env (0,0): "
                            << (r.compare(0, 4, "EXC:") == 0 ? r : std::string("result bytes differ")) << " vs " << (first.compare(0, 4, "EXC:") == 0 ? first : std::string("result"));
        }
    }
    hf::set_mode(0, 1);
    return std::string("OK") + (first.compare(0, 4, "EXC:") == 0 ? " exception" : " normal");
}

struct Case { const Mat *m; const Cfg *c; std::string key; };

static void judge(const Case &cs, const fr::Result &r, const std::string &text) {
    if (r.kind == fr::EXC) { vf::count("outcome_exception"); return; }     // exception escaped the case body cleanly: allowed outcome
    if (r.kind == fr::OK) {
        if (text.compare(0, 2, "OK") == 0) { vf::count(text == "OK exception" ? "outcome_exception" : "outcome_normal"); return; }
        std::string sub = text.compare(0, 4, "LEAK") == 0 ? "ledger.leak" : (text.compare(0, 4, "USER") == 0 ? "user_matrix_modified" : "determinism.depends_on_heap_contents");
        vf::fail(sub, cs.key, text + " matrix " + cs.m->name + " config " + cs.c->name);
        return;
    }
    std::string first_line = r.err.substr(0, 700);
    vf::fail("memory.crash_or_sanitizer_report", cs.key, vf::KS() << "child ended with " << r.kind_name() << " code " << r.code << " on matrix " << cs.m->name << " config " << cs.c->name << " :: " << first_line);
}

static void run_batch(std::vector<Case> &batch) {
    if (batch.empty()) return;
    fr::Result r = fr::run([&](fr::Out &o) {
        for (auto &cs : batch) { o << case_body(*cs.m, *cs.c) << "\n"; }
    }, 120.0);
    bool clean = (r.kind == fr::OK);
    std::vector<std::string> lines;
    if (clean) { std::istringstream is(r.text); std::string l; while (std::getline(is, l)) lines.push_back(l); clean = lines.size() == batch.size(); }
    if (clean) {
        for (size_t i = 0; i < batch.size(); ++i) judge(batch[i], r, lines[i]);
    } else {
        // attribute: every case in its own child
        vf::count("batches_rerun_case_by_case");
        for (auto &cs : batch) {
            fr::Result r1 = fr::run([&](fr::Out &o) { o << case_body(*cs.m, *cs.c); }, 60.0);
            judge(cs, r1, r1.text);
        }
    }
    batch.clear();
}

int main(int argc, char **argv) {
    vf::init(argc, argv, "C10");
    std::vector<Mat> mats;
    mats.push_back(make_mat(1, 0, 0)); mats.push_back(make_mat(1, 0, 2));
    for (int n = 2; n <= 3; ++n) for (uint64_t off = 0; off < (1ull << (n * (n - 1))); ++off) for (int rule = 0; rule < 3; ++rule) {
        if (off == 0 && rule > 0) continue;
        mats.push_back(make_mat(n, off, rule));
    }
    mats.push_back(diagonal(5)); mats.push_back(two_blocks()); mats.push_back(poisson1d(6, "poisson1d_6")); mats.push_back(poisson1d(9, "poisson1d_9")); mats.push_back(grid2d(3)); mats.push_back(grid2d(4));
    mats.push_back(tiny_offband(7, 1)); mats.push_back(tiny_offband(7, 3)); mats.push_back(tiny_offband(8, 3));
    // a few 4x4 patterns with positive rows
    for (uint64_t off : {0x111ull, 0xfffull, 0x842ull, 0x0f0ull, 0xa5aull}) for (int rule = 0; rule < 3; ++rule) mats.push_back(make_mat(4, off, rule));
    std::vector<Cfg> cfgs = configs(vf::quick());
#ifdef C10_FIBERS
    // unit "fibers17": the same oracle with every OpenMP region executed by a team of 17 (and 5) fibers, on a reduced product
    {
        std::vector<Mat> fm = { grid2d(4), grid2d(9), grid3d(3, 4, 5), poisson1d(9, "poisson1d_9"), two_blocks(), make_mat(3, 0x2d, 2) };
        std::vector<Cfg> fc;
        for (auto c : COARS) for (auto r : {"spai0", "gauss_seidel", "ilu0", "chebyshev"}) for (auto sv : {"cg", "idrs"}) {
            Cfg g; g.name = vf::KS() << "amg." << c << "." << r << "." << sv;
            g.p.put("precond.class", "amg"); g.p.put("precond.coarsening.type", c); g.p.put("precond.relax.type", r); g.p.put("precond.coarse_enough", 2);
            g.p.put("solver.type", sv); g.p.put("solver.maxiter", 10);
            fc.push_back(g);
        }
        if (vf::section("c10f")) {
            std::vector<Case> batch;
            for (int nt : {17, 5}) {
                vs::cfg().max_threads = nt;
                for (auto &m : fm) for (auto &c : fc) {
                    std::string key = vf::KS() << "c10f|" << nt << "|" << m.name << "|" << c.name;
                    if (!vf::take([&]{ return key; })) continue;
                    vf::nontrivial(vf::hstr(key));
                    batch.push_back(Case{&m, &c, key});
                    if (batch.size() >= 6) run_batch(batch);
                }
                run_batch(batch);
            }
            vs::cfg().max_threads = 1;
            vf::space("teams of 17 and 5 fibers (row-merge SpGEMM, level-scheduled Gauss-Seidel / ILU solves, thread-seeded IDR(s)): 6 matrices x 4 coarsenings x 4 relaxations x {cg, idrs} x 7 environment answers");
        }
        return vf::finish();
    }
#endif

    vf::sample_str("case: matrix " + mats[40].name + " (3x3 pattern, rule = sign assignment) x config " + cfgs[5].name + " x environments (fill,prelude) in {(00,none),(FF,A),(AA,B),(LCG,none),(LCG,A),(00,B),(00,none) again}");
    if (vf::section("c10")) {
        std::vector<Case> batch;
        const size_t BATCH = 24;
        long nm = 0;
        for (auto &m : mats) {
            ++nm;
            // quick tier: every second 3x3 pattern-rule for slice A is skipped by the config filter below
            for (auto &c : cfgs) {
                if (vf::quick() && m.n == 3 && c.name.compare(0, 4, "amg.") == 0 && (nm % 3) != 0) continue;
                std::string key = "c10|" + m.name + "|" + c.name;
                if (!vf::take([&]{ return key; })) continue;
                vf::nontrivial(vf::hstr(key));
                batch.push_back(Case{&m, &c, key});
                if (batch.size() >= BATCH) run_batch(batch);
            }
        }
        run_batch(batch);
        {
            // slice C
            static std::vector<Mat> big; static std::vector<Cfg> fc = fill_configs();
            if (big.empty()) { big.push_back(grid3d(4, 5, 6)); big.push_back(grid3d(3, 4, 5)); big.push_back(grid3d(6, 6, 6)); big.push_back(grid2d(9)); big.push_back(grid3d(5, 3, 7)); }
            for (auto &m : big) for (auto &c : fc) {
                std::string key = "c10|" + m.name + "|" + c.name;
                if (!vf::take([&]{ return key; })) continue;
                vf::nontrivial(vf::hstr(key));
                batch.push_back(Case{&m, &c, key});
                if (batch.size() >= 4) run_batch(batch);
            }
            run_batch(batch);
            vf::space("fill-producing smoothers (iluk k=1..3, ilup k=1,2, ilut p=2,4, ilu0, spai1, gauss_seidel, chebyshev) alone and inside amg on 3-D grids 4x5x6, 3x4x5, 6x6x6, 5x3x7 and a 9x9 grid x 7 environment answers");
        }
        vf::space(vf::KS() << mats.size() << " matrices (all patterns n<=3 x 3 sign rules incl. rows with only positive off-diagonals, 1x1, diagonal, disconnected, small grids) x " << cfgs.size()
                           << " run-time configurations x 7 environment answers (4 heap fill patterns x 3 allocation preludes subset + repetition)");
    }
    // zero-copy: user arrays are never copied, written or freed
    if (vf::section("zc")) {
        for (auto &m : mats) {
            std::string key = "zc|" + m.name;
            if (!vf::take([&]{ return key; })) continue;
            Case cs{&m, &cfgs[0], key};
            fr::Result r = fr::run([&](fr::Out &o) {
                std::vector<ptrdiff_t> ptr = m.ptr, col = m.col; std::vector<double> val = m.val;
                {
                    auto A = adapter::zero_copy((size_t)m.n, ptr.data(), col.data(), val.data());
                    if ((const void*)A->ptr != (const void*)ptr.data() || (const void*)A->col != (const void*)col.data() || (const void*)A->val != (const void*)val.data()) { o << "COPIED"; return; }
                    boost::property_tree::ptree p; p.put("coarse_enough", 1);
                    amg<B, runtime::coarsening::wrapper, runtime::relaxation::wrapper> a(A, p);
                    backend::numa_vector<double> f(m.n), x(m.n); for (int i = 0; i < m.n; ++i) f[i] = 1;
                    a.apply(f, x);
                }
                if (ptr != m.ptr || col != m.col || std::memcmp(val.data(), m.val.data(), val.size() * 8) != 0) { o << "USER-MATRIX-MODIFIED"; return; }
                // the by-reference entry points copy the view into a matrix of their own: that copy must own (and free) its
                // arrays and must leave the user's alone.  Sequence on one view: copy-construct, assign, amg(*view), rebuild(*view),
                // make_solver(*view) + solve; ledger: nothing allocated in here is still live afterwards.
                {
                    typedef amg<B, runtime::coarsening::wrapper, runtime::relaxation::wrapper> AMG;
                    typedef make_solver<AMG, runtime::solver::wrapper<B>> SLV;
                    auto A = adapter::zero_copy((size_t)m.n, ptr.data(), col.data(), val.data());
                    std::vector<double> fv(m.n, 1.0), xv(m.n, 0.0);
                    backend::numa_vector<double> f(m.n), x(m.n); for (int i = 0; i < m.n; ++i) f[i] = 1;
                    long long before = hf::live_blocks();
                    {
                        backend::crs<double, ptrdiff_t, ptrdiff_t> X(*A), Y; Y = *A;
                        if ((const void*)X.val == (const void*)val.data() || (const void*)Y.val == (const void*)val.data()) { o << "USER copy of a zero_copy view aliases the user's arrays"; return; }
                        boost::property_tree::ptree p; p.put("coarse_enough", 1); p.put("allow_rebuild", true);
                        AMG a(*A, p);
                        a.apply(f, x);
                        a.rebuild(*A);
                        a.apply(f, x);
                        boost::property_tree::ptree ps; ps.put("precond.coarse_enough", 1); ps.put("solver.maxiter", 3);
                        try { SLV s(*A, ps); s(fv, xv); } catch (const std::exception &) {}
                    }
                    long long leaked = hf::live_blocks() - before;
                    if (leaked != 0) { o << "LEAK zero_copy view passed by reference (copy, assign, amg, rebuild, make_solver): " << leaked << " block(s) still live after destruction"; return; }
                }
                if (ptr != m.ptr || col != m.col || std::memcmp(val.data(), m.val.data(), val.size() * 8) != 0) { o << "USER-MATRIX-MODIFIED after the by-reference operations on a zero_copy view"; return; }
                // user arrays whose rows are NOT sorted, adopted without copying (shared_ptr path) by amg and by a smoother used as
                // preconditioner: whatever order the library needs it has to establish on a copy; the user's arrays stay as they are
                {
                    std::vector<ptrdiff_t> rptr = m.ptr, rcol = m.col; std::vector<double> rval = m.val;
                    for (int i = 0; i < m.n; ++i) { std::reverse(rcol.begin() + rptr[i], rcol.begin() + rptr[i + 1]); std::reverse(rval.begin() + rptr[i], rval.begin() + rptr[i + 1]); }
                    const std::vector<ptrdiff_t> kcol = rcol; const std::vector<double> kval = rval;
                    {
                        auto V = adapter::zero_copy((size_t)m.n, rptr.data(), rcol.data(), rval.data());
                        backend::numa_vector<double> f(m.n), x(m.n); for (int i = 0; i < m.n; ++i) f[i] = 1;
                        try { boost::property_tree::ptree p; p.put("coarse_enough", 1); p.put("relax.type", "spai0");
                              amg<B, runtime::coarsening::wrapper, runtime::relaxation::wrapper> a(V, p); a.apply(f, x); } catch (const std::exception &) {}
                        try { boost::property_tree::ptree p; p.put("type", "spai0");
                              relaxation::as_preconditioner<B, runtime::relaxation::wrapper> r(V, p); r.apply(f, x); } catch (const std::exception &) {}
                        try { boost::property_tree::ptree p; p.put("type", "damped_jacobi");
                              relaxation::as_preconditioner<B, runtime::relaxation::wrapper> r(V, p); r.apply(f, x); } catch (const std::exception &) {}
                    }
                    if (rptr != m.ptr || rcol != kcol || std::memcmp(rval.data(), kval.data(), rval.size() * 8) != 0) { o << "USER-MATRIX-MODIFIED: unsorted user arrays adopted through a zero_copy view were reordered or rewritten"; return; }
                }
                // a view that is re-used as the target of an assignment: it must let go of the user's arrays (never free or
                // overwrite them) and own its new copy
                {
                    long long before = hf::live_blocks();
                    {
                        auto V = adapter::zero_copy((size_t)m.n, ptr.data(), col.data(), val.data());
                        backend::crs<double, ptrdiff_t, ptrdiff_t> other(*V);
                        for (size_t q = 0; q < other.nnz; ++q) other.val[q] *= 2;
                        *V = other;
                        if ((const void*)V->val == (const void*)val.data()) { o << "USER assignment into a zero_copy view wrote through to the user's arrays"; return; }
                        if (V->nnz != other.nnz || (V->nnz && V->val[0] != other.val[0])) { o << "USER assignment into a zero_copy view did not copy the source"; return; }
                    }
                    long long leaked = hf::live_blocks() - before;
                    if (leaked != 0) { o << "LEAK assignment into a zero_copy view: " << leaked << " block(s) still live (or the user's arrays were released: negative)"; return; }
                }
                if (ptr != m.ptr || col != m.col || std::memcmp(val.data(), m.val.data(), val.size() * 8) != 0) { o << "USER-MATRIX-MODIFIED"; return; }
                o << "OK normal";
            }, 60.0);
            std::string t = r.text; if (t == "COPIED") t = "USER zero_copy copied the arrays";
            judge(cs, r, t);
            vf::nontrivial(vf::hstr(key));
        }
        vf::space("zero_copy adapter over every matrix: shared_ptr path (pointer identity, arrays unchanged, no double free) and by-reference path (copy, assign, amg, rebuild, make_solver: private copies own and free their arrays, ledger empty)");
    }
    return vf::finish();
}
