// C07 unit "eigen" -- (1) the Eigen backend (Eigen::Map<SparseMatrix<RowMajor>> matrices, dense
// Eigen vectors): spmv, residual, axpby, axpbypcz, vmul, lin_comb, copy, clear, inner_product;
// (2) small fixed-size Eigen matrices as the *value type* of the builtin backend
// (amgcl/value_type/eigen.hpp).  Compiled without OpenMP (Eigen has its own OpenMP use).
#include <complex>
#include <Eigen/Dense>
#include <Eigen/SparseCore>
#define C07_WITH_EIGEN
#include "C07_common.hpp"
#include <amgcl/backend/eigen.hpp>
#include <amgcl/value_type/eigen.hpp>
#include "mk.hpp"

using namespace amgcl;

using namespace c07;

static std::string ckey(const char *op, const char *tn, int n, int ci) { return vf::KS() << op << "|" << tn << "|" << n << "|" << ci; }
static std::string pkey(const char *op, const char *tn, int m, int n, uint64_t mask) { return vf::KS() << op << "|" << tn << "|" << m << "x" << n << "|" << mask; }

template <class V> using EVec = Eigen::Matrix<V, Eigen::Dynamic, 1>;
template <class V> static EVec<V> evec(int n, int salt, int stride = 1) { EVec<V> v(n); for (int i = 0; i < n; ++i) v[i] = gen<V>::make(salt + stride * i); return v; }
template <class V> static EVec<V> epre(int n, int pf, int salt) { if (pf == FINITE) return evec<V>(n, salt); EVec<V> v(n); for (int i = 0; i < n; ++i) v[i] = gen<V>::special(pf, i); return v; }

// ------------------------------------------------------------------------------- Eigen backend, vectors
template <class V>
static void run_eigen_vectors() {
    const char *tn = tname<V>::get();
    const int nc = coefs<V>::n();
    for (int n : {0, 1, 2, 3, 4, 5, 7, 8, 9, 17, 66}) {
        // axpby, vmul: all coefficient pairs
        for (int ia = 0; ia < nc; ++ia) for (int ib = 0; ib < nc; ++ib) {
            if (!vf::take([&]{ return ckey("eigvec2", tn, n, ia * nc + ib); })) continue;
            std::string key = ckey("eigvec2", tn, n, ia * nc + ib);
            V a = coefs<V>::get(ia), b = coefs<V>::get(ib);
            bool bz = czero(b);
            if (n > 1) vf::nontrivial(vf::hstr(key));
            for (int pf = 0; pf <= (bz ? MIXED : FINITE); ++pf) {
                EVec<V> x = evec<V>(n, 1), w = evec<V>(n, 5, 3), y = epre<V>(n, pf, 4), y0 = y, z = epre<V>(n, pf, 4);
                backend::axpby(a, x, b, y);
                backend::vmul(a, x, w, b, z);
                if (bz && pf) vf::count("eigen_zero_coef_nonfinite_prefill");
                for (int i = 0; i < n; ++i) {
                    RM want = to_ref(a) * to_ref(x[i]); if (!bz) want = want + to_ref(b) * to_ref(y0[i]);
                    if (y.size() != n || !eq(y[i], want)) { vf::fail(std::string(pf ? "eigen.axpby.zero_coef_ignores_output[" : "eigen.axpby.formula[") + tn + "]", key, vf::KS() << "n=" << n << " a=" << show(a) << " b=" << show(b) << " prefill=" << special_name(pf) << " i=" << i << " got=" << show(y[i]) << " want=" << rshow(want)); break; }
                }
                for (int i = 0; i < n; ++i) {
                    RM want = to_ref(a) * (to_ref(x[i]) * to_ref(w[i])); if (!bz) want = want + to_ref(b) * to_ref(y0[i]);
                    if (z.size() != n || !eq(z[i], want)) { vf::fail(std::string(pf ? "eigen.vmul.zero_coef_ignores_output[" : "eigen.vmul.formula[") + tn + "]", key, vf::KS() << "n=" << n << " a=" << show(a) << " b=" << show(b) << " prefill=" << special_name(pf) << " i=" << i << " got=" << show(z[i]) << " want=" << rshow(want)); break; }
                }
            }
        }
        // axpbypcz: all triples
        for (int ia = 0; ia < nc; ++ia) for (int ib = 0; ib < nc; ++ib) for (int ic = 0; ic < nc; ++ic) {
            if (!vf::take([&]{ return ckey("eigvec3", tn, n, (ia * nc + ib) * nc + ic); })) continue;
            std::string key = ckey("eigvec3", tn, n, (ia * nc + ib) * nc + ic);
            V a = coefs<V>::get(ia), b = coefs<V>::get(ib), c = coefs<V>::get(ic);
            bool cz = czero(c);
            if (n > 1) vf::nontrivial(vf::hstr(key));
            for (int pf = 0; pf <= (cz ? MIXED : FINITE); ++pf) {
                EVec<V> x = evec<V>(n, 1), y = evec<V>(n, 3, 2), z = epre<V>(n, pf, 6), z0 = z;
                backend::axpbypcz(a, x, b, y, c, z);
                for (int i = 0; i < n; ++i) {
                    RM want = to_ref(a) * to_ref(x[i]) + to_ref(b) * to_ref(y[i]); if (!cz) want = want + to_ref(c) * to_ref(z0[i]);
                    if (z.size() != n || !eq(z[i], want)) { vf::fail(std::string(pf ? "eigen.axpbypcz.zero_coef_ignores_output[" : "eigen.axpbypcz.formula[") + tn + "]", key, vf::KS() << "n=" << n << " a=" << show(a) << " b=" << show(b) << " c=" << show(c) << " prefill=" << special_name(pf) << " i=" << i << " got=" << show(z[i]) << " want=" << rshow(want)); break; }
                }
            }
            // lin_comb with three vectors and alpha = c
            for (int pf = 0; pf <= (cz ? PINF : FINITE); ++pf) {
                EVec<V> v0 = evec<V>(n, 1), v1 = evec<V>(n, 3, 2), v2 = evec<V>(n, 2, 3), v3 = evec<V>(n, 6, 1), y = epre<V>(n, pf, 6), y0 = y;
                std::vector<V> cf = {a, b, coefs<V>::get((ia + ib) % nc), coefs<V>::get((ib + ic + 1) % nc)};
                std::vector<EVec<V>*> vv = {&v0, &v1, &v2, &v3};
                int k = 1 + (ia + ib + ic) % 4;
                backend::lin_comb(k, cf, vv, c, y);
                vf::count("eigen_lin_comb_k" + std::to_string(k));
                for (int i = 0; i < n; ++i) {
                    RM want = to_ref(cf[0]) * to_ref((*vv[0])[i]);
                    for (int q = 1; q < k; ++q) want = want + to_ref(cf[q]) * to_ref((*vv[q])[i]);
                    if (!cz) want = want + to_ref(c) * to_ref(y0[i]);
                    if (!eq(y[i], want)) { vf::fail(std::string(pf ? "eigen.lin_comb.zero_coef_ignores_output[" : "eigen.lin_comb.formula[") + tn + "]", key, vf::KS() << "n=" << n << " k=" << k << " alpha=" << show(c) << " prefill=" << special_name(pf) << " i=" << i << " got=" << show(y[i]) << " want=" << rshow(want)); break; }
                }
            }
        }
        // copy, clear, inner product
        for (int pf = 0; pf <= MIXED; ++pf) {
            if (!vf::take([&]{ return ckey("eigvec1", tn, n, pf); })) continue;
            std::string key = ckey("eigvec1", tn, n, pf);
            EVec<V> x = evec<V>(n, 3), y = epre<V>(n, pf, 2), z = epre<V>(n, pf, 2), w = evec<V>(n, 5, 3 + pf);
            backend::copy(x, y); backend::clear(z);
            for (int i = 0; i < n; ++i) {
                if (!eq(y[i], to_ref(x[i]))) { vf::fail(std::string("eigen.copy.value[") + tn + "]", key, vf::KS() << "n=" << n << " i=" << i); break; }
                RM zero; if (!eq(z[i], zero)) { vf::fail(std::string("eigen.clear.value[") + tn + "]", key, vf::KS() << "n=" << n << " i=" << i << " prefill=" << special_name(pf)); break; }
            }
            V got = backend::inner_product(x, w);
            CLD want(0, 0); for (int i = 0; i < n; ++i) want += rdot(to_ref(x[i]), to_ref(w[i]));
            RM wr; wr.a[0] = want;
            if (!eq(got, wr)) vf::fail(std::string("eigen.inner_product.formula[") + tn + "]", key, vf::KS() << "n=" << n << " got=" << show(got) << " want=" << rshow(wr) << " (sum x_i conj(y_i))");
            for (int ia = 1; ia < nc; ++ia) {
                V a = coefs<V>::get(ia);
                EVec<V> ax = a * x, aw = a * w;
                RM l = to_ref(a) * to_ref(got); RM cl; cl.a[0] = cmul(std::conj(to_ref(a).a[0]), to_ref(got).a[0]);
                if (!eq(backend::inner_product(ax, w), l)) vf::fail(std::string("eigen.inner_product.linear_in_first[") + tn + "]", key, vf::KS() << "n=" << n << " a=" << show(a));
                if (!eq(backend::inner_product(x, aw), cl)) vf::fail(std::string("eigen.inner_product.conjugate_linear_in_second[") + tn + "]", key, vf::KS() << "n=" << n << " a=" << show(a));
            }
        }
    }
    vf::space(vf::KS() << "Eigen backend vectors " << tn << ": lengths {0..5,7,8,9,17,66} x all coefficient pairs (axpby, vmul) / triples (axpbypcz, lin_comb 1..4 vectors) x prefill; copy/clear/inner_product");
}

// ------------------------------------------------------------------------------- Eigen backend, spmv
template <class V>
static void run_eigen_spmv(int all_bits_quick, int all_bits_thorough) {
    typedef backend::eigen<V> BK;
    const char *tn = tname<V>::get();
    const int nc = coefs<V>::n();
    int all_bits = vf::thorough() ? all_bits_thorough : all_bits_quick;
    for (int m = 0; m <= 5; ++m) for (int n = 0; n <= 5; ++n) {
        std::vector<uint64_t> masks;
        if (m * n <= all_bits) { for (uint64_t k = 0; k < (1ull << (m * n)); ++k) masks.push_back(k); } else masks = family_masks(m, n);
        for (uint64_t mask : masks) {
            if (!vf::take([&]{ return pkey("eigspmv", tn, m, n, mask); })) continue;
            std::string key = pkey("eigspmv", tn, m, n, mask);
            auto D = mk::from_mask<V>(m, n, mask, [](int i, int j) { return gen<V>::make(3 * i + 5 * j + 1); });
            auto As = mk::to_crs<V>(D);
            auto A = BK::copy_matrix(As, typename BK::params());
            if (D.nnz() > 1) vf::nontrivial(vf::hstr(key));
            EVec<V> x = evec<V>(n, 2, 3), f = evec<V>(m, 1, 2);
            std::vector<RM> Ax(m);
            for (int i = 0; i < m; ++i) { RM s; for (int j = 0; j < n; ++j) if (D.st(i, j)) s = s + to_ref(D(i, j)) * to_ref(x[j]); Ax[i] = s; }
            for (int ia = 0; ia < nc; ++ia) for (int ib = 0; ib < nc; ++ib) {
                V al = coefs<V>::get(ia), be = coefs<V>::get(ib);
                bool bz = czero(be);
                for (int pf = 0; pf <= (bz ? NINF : FINITE); ++pf) {
                    EVec<V> y = epre<V>(m, pf, 7), y0 = y;
                    backend::spmv(al, *A, x, be, y);
                    if (bz && pf) vf::count("eigen_spmv_beta0_nonfinite_prefill");
                    if (y.size() != m) { vf::fail(std::string("eigen.spmv.size[") + tn + "]", key, "output resized"); continue; }
                    for (int i = 0; i < m; ++i) {
                        RM want = to_ref(al) * Ax[i]; if (!bz) want = want + to_ref(be) * to_ref(y0[i]);
                        if (!eq(y[i], want)) { vf::fail(std::string(pf ? "eigen.spmv.beta0_ignores_output[" : "eigen.spmv.formula[") + tn + "]", key, vf::KS() << "A=" << m << "x" << n << " mask=" << mask << " alpha=" << show(al) << " beta=" << show(be) << " prefill=" << special_name(pf) << " row " << i << ": got=" << show(y[i]) << " want=" << rshow(want)); break; }
                    }
                }
            }
            for (int pf = 0; pf <= MIXED; ++pf) {
                EVec<V> r = epre<V>(m, pf, 5);
                backend::residual(f, *A, x, r);
                for (int i = 0; i < m; ++i) {
                    RM want = to_ref(f[i]) - Ax[i];
                    if (r.size() != m || !eq(r[i], want)) { vf::fail(std::string(pf ? "eigen.residual.ignores_output[" : "eigen.residual.formula[") + tn + "]", key, vf::KS() << "A=" << m << "x" << n << " mask=" << mask << " prefill=" << special_name(pf) << " row " << i << ": got=" << show(r[i]) << " want=" << rshow(want)); break; }
                }
            }
        }
    }
    vf::space(vf::KS() << "Eigen backend spmv/residual " << tn << ": shapes 0..5 x 0..5, all patterns with <= " << all_bits << " positions, families beyond; all coefficient pairs; prefill");
}

// --------------------------------------------------------- Eigen fixed-size matrices as builtin value type
template <class V>
static void run_eigen_value_type(int all_bits) {
    typedef typename math::rhs_of<V>::type R;
    typedef typename coef_of<V>::type C;
    const char *tn = tname<V>::get();
    const int nc = coefs<C>::n();
    for (int m = 0; m <= 3; ++m) for (int n = 0; n <= 3; ++n) {
        if (m * n > all_bits) continue;
        for (uint64_t mask = 0; mask < (1ull << (m * n)); ++mask) {
            if (!vf::take([&]{ return pkey("eigval", tn, m, n, mask); })) continue;
            std::string key = pkey("eigval", tn, m, n, mask);
            auto D = mk::from_mask<V>(m, n, mask, [](int i, int j) { return gen<V>::make(3 * i + 5 * j + 1); });
            auto A = mk::to_crs<V>(D);
            if (D.nnz() > 1) vf::nontrivial(vf::hstr(key));
            Holder<R, 1> x(n), f(m); fill(x, 2, 3); fill(f, 1, 2);
            std::vector<RM> Ax(m);
            for (int i = 0; i < m; ++i) { RM s = to_ref(R(R::Zero())); for (int j = 0; j < n; ++j) if (D.st(i, j)) s = s + to_ref(D(i, j)) * to_ref(x[j]); Ax[i] = s; }
            for (int ia = 0; ia < nc; ++ia) for (int ib = 0; ib < nc; ++ib) {
                C al = coefs<C>::get(ia), be = coefs<C>::get(ib);
                bool bz = czero(be);
                for (int pf = 0; pf <= (bz ? PINF : FINITE); ++pf) {
                    Holder<R, 1> y(m); Holder<R, 0> y0(m); prefill(y, pf, 7); prefill(y0, pf, 7);
                    backend::spmv(al, *A, x.vec(), be, y.vec());
                    for (int i = 0; i < m; ++i) {
                        RM want = to_ref(al) * Ax[i]; if (!bz) want = want + to_ref(be) * to_ref(y0[i]);
                        if (!eq(y[i], want)) { vf::fail(std::string(pf ? "eigen_value_type.spmv.beta0_ignores_output[" : "eigen_value_type.spmv.formula[") + tn + "]", key, vf::KS() << "A=" << m << "x" << n << " mask=" << mask << " alpha=" << show(al) << " beta=" << show(be) << " row " << i << ": got=" << show(y[i]) << " want=" << rshow(want)); break; }
                    }
                }
            }
            Holder<R, 1> r(m); prefill(r, QNAN, 0);
            backend::residual(f.vec(), *A, x.vec(), r.vec());
            for (int i = 0; i < m; ++i) { RM want = to_ref(f[i]) - Ax[i]; if (!eq(r[i], want)) { vf::fail(std::string("eigen_value_type.residual.formula[") + tn + "]", key, vf::KS() << "row " << i); break; } }
        }
    }
    // vectors of R: axpby / axpbypcz / vmul (x blocks) / inner_product
    for (int n : {0, 1, 2, 3, 5}) for (int ia = 0; ia < nc; ++ia) for (int ib = 0; ib < nc; ++ib) {
        if (!vf::take([&]{ return ckey("eigvalv", tn, n, ia * nc + ib); })) continue;
        std::string key = ckey("eigvalv", tn, n, ia * nc + ib);
        C a = coefs<C>::get(ia), b = coefs<C>::get(ib);
        bool bz = czero(b);
        for (int pf = 0; pf <= (bz ? PINF : FINITE); ++pf) {
            Holder<R, 1> x(n), w(n), y(n), z(n), t(n); Holder<R, 0> y0(n); Holder<V, 1> d(n);
            fill(x, 1); fill(w, 3, 2); fill(d, 2); prefill(y, pf, 4); prefill(z, pf, 4); prefill(t, pf, 4); prefill(y0, pf, 4);
            backend::axpby(a, x.vec(), b, y.vec());
            backend::axpbypcz(a, x.vec(), a, w.vec(), b, z.vec());
            backend::vmul(a, d.vec(), x.vec(), b, t.vec());
            for (int i = 0; i < n; ++i) {
                RM base = bz ? to_ref(R(R::Zero())) : to_ref(b) * to_ref(y0[i]);
                if (!eq(y[i], to_ref(a) * to_ref(x[i]) + base)) { vf::fail(std::string("eigen_value_type.axpby[") + tn + "]", key, vf::KS() << "n=" << n << " i=" << i << " prefill=" << special_name(pf)); break; }
                if (!eq(z[i], to_ref(a) * to_ref(x[i]) + to_ref(a) * to_ref(w[i]) + base)) { vf::fail(std::string("eigen_value_type.axpbypcz[") + tn + "]", key, vf::KS() << "n=" << n << " i=" << i << " prefill=" << special_name(pf)); break; }
                if (!eq(t[i], to_ref(a) * (to_ref(d[i]) * to_ref(x[i])) + base)) { vf::fail(std::string("eigen_value_type.vmul[") + tn + "]", key, vf::KS() << "n=" << n << " i=" << i << " prefill=" << special_name(pf)); break; }
            }
        }
        Holder<R, 1> x(n), w(n); fill(x, 1 + ia); fill(w, 3 + ib, 2);
        C got = backend::inner_product(x.vec(), w.vec());
        CLD want(0, 0); for (int i = 0; i < n; ++i) want += rdot(to_ref(x[i]), to_ref(w[i]));
        RM wr; wr.a[0] = want;
        if (n > 0) vf::nontrivial(vf::hstr(key));
        if (!eq(got, wr)) vf::fail(std::string("eigen_value_type.inner_product.formula[") + tn + "]", key, vf::KS() << "n=" << n << " x0=" << (n ? show(x[0]) : "") << " y0=" << (n ? show(w[0]) : "") << " got=" << show(got) << " want=" << rshow(wr) << " (sum over entries x conj(y): conjugate-linear in the second argument)");
    }
    vf::space(vf::KS() << "builtin backend with Eigen fixed-size value type " << tn << ": all patterns up to 3x3 (<= " << all_bits << " positions) spmv/residual; vector primitives lengths {0,1,2,3,5} x all coefficient pairs");
}

int main(int argc, char **argv) {
    vf::init(argc, argv, "C07");
    vf::sample_str("Eigen backend case: complex<double>, A 3x3 mask 0x1ab as Eigen::Map<SparseMatrix<RowMajor>>, alpha=i beta=0, y pre-filled with NaN");
    if (vf::section("eigvec1") || vf::section("eigvec2") || vf::section("eigvec3")) {
        run_eigen_vectors<float>(); run_eigen_vectors<double>(); run_eigen_vectors<long double>(); run_eigen_vectors<std::complex<double>>(); run_eigen_vectors<std::complex<float>>();
    }
    if (vf::section("eigspmv")) {
        run_eigen_spmv<double>(10, 16); run_eigen_spmv<float>(9, 12); run_eigen_spmv<long double>(9, 12); run_eigen_spmv<std::complex<double>>(9, 12);
    }
    if (vf::section("eigval") || vf::section("eigvalv")) {
        run_eigen_value_type<EB2>(9); run_eigen_value_type<EB3>(6); run_eigen_value_type<EBC2>(9);
    }
    return vf::finish();
}
