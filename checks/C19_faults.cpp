// C19 (faults) -- every truncation point and every single-byte corruption of valid MatrixMarket /
// binary files, plus hand-enumerated "inconsistent sizes" / "wrong value kind" files.  Every
// damaged file is read by the real amgcl readers inside a forked child (ASan + UBSan build); the
// outcome of a read is one of: exception, structurally valid matrix, structurally invalid matrix,
// sanitizer report, process death.  Only the first two are allowed by the property.
#include "C19_common.hpp"

// ---- memory-limit model: allocation requests above 64 MiB fail with std::bad_alloc ---------------
// (ASan's own operator new aborts the process instead of throwing; a real system would throw or be
// killed by the OOM killer depending on overcommit -- the model makes absurd sizes an exception.)
static const size_t ALLOC_LIMIT = (size_t)64 << 20;
void* operator new(size_t n) { if (n > ALLOC_LIMIT) throw std::bad_alloc(); void *p = std::malloc(n ? n : 1); if (!p) throw std::bad_alloc(); return p; }
void* operator new[](size_t n) { return operator new(n); }
void operator delete(void *p) noexcept { std::free(p); }
void operator delete[](void *p) noexcept { std::free(p); }
void operator delete(void *p, size_t) noexcept { std::free(p); }
void operator delete[](void *p, size_t) noexcept { std::free(p); }

static bt::Runner *RUN = nullptr;

// ---- the valid files ------------------------------------------------------------------------------
struct FF {
    std::string name, bytes;
    bool binary = false;
    size_t banner_len = 0;     // MatrixMarket: length of the banner line without its '\n'
    size_t last_data = 0;      // MatrixMarket: offset of the first byte of the last data line
    long nrows = 0;
    std::function<std::string(const std::string&, long, long)> read;
};

static void finish_mm(FF &f) {
    f.banner_len = f.bytes.find('\n');
    size_t e = f.bytes.size();
    if (f.bytes[e - 1] == '\n') --e;
    f.last_data = f.bytes.rfind('\n', e - 1) + 1;
}

static std::vector<FF> valid_files() {
    std::vector<FF> v;
    {   FF f; f.name = "mm_real"; f.nrows = 4;
        f.bytes =
            "%%MatrixMarket matrix coordinate real general\n"
            "4 5 9\n"
            "1 1 4.00000000000000000000e+00\n"
            "1 3 -1.00000000000000005551e-01\n"
            "2 2 3.33333333333333314830e-01\n"
            "2 5 2.22507385850720138309e-308\n"
            "3 1 -1.79769313486231570815e+308\n"
            "3 3 4.94065645841246544177e-324\n"
            "3 4 1.00000000000000022204e+00\n"
            "4 2 -0.00000000000000000000e+00\n"
            "4 5 6.02214075999999987123e+23\n";
        f.read = [](const std::string &p, long b, long e) { return rd_mm_sparse<ptrdiff_t, double>(p, b, e); };
        finish_mm(f); v.push_back(f); }
    {   FF f; f.name = "mm_sym"; f.nrows = 11;
        f.bytes =
            "%%MatrixMarket matrix coordinate real symmetric\n"
            "% lower triangle, entries in no particular order\n"
            "11 11 12\n"
            "1 1 2.0\n"
            "2 1 -1.0\n"
            "2 2 2.0\n"
            "3 2 -1\n"
            "5 5 4e0\n"
            "7 3 .5\n"
            "10 4 -2.5e-1\n"
            "10 10 1e1\n"
            "11 1 3\n"
            "11 10 -7.25\n"
            "6 6 1\n"
            "11 11 8\n";
        f.read = [](const std::string &p, long b, long e) { return rd_mm_sparse<ptrdiff_t, double>(p, b, e); };
        finish_mm(f); v.push_back(f); }
    {   FF f; f.name = "mm_cplx"; f.nrows = 3;
        f.bytes =
            "%%MatrixMarket matrix coordinate complex general\n"
            "3 3 4\n"
            "1 1 1.00000000000000000000e+00 -2.50000000000000000000e-01\n"
            "2 3 3.33333333333333314830e-01 0.00000000000000000000e+00\n"
            "3 1 -1.0e-300 7.5\n"
            "3 3 2 1e300\n";
        f.read = [](const std::string &p, long b, long e) { return rd_mm_sparse<int, cd>(p, b, e); };
        finish_mm(f); v.push_back(f); }
    {   FF f; f.name = "mm_int"; f.nrows = 3;
        f.bytes =
            "%%MatrixMarket matrix coordinate integer general\n"
            "3 4 6\n"
            "1 1 5\n"
            "1 4 -17\n"
            "2 2 2147483647\n"
            "3 1 0\n"
            "3 3 -2147483648\n"
            "3 4 42\n";
        f.read = [](const std::string &p, long b, long e) { return rd_mm_sparse<ptrdiff_t, int>(p, b, e); };
        finish_mm(f); v.push_back(f); }
    {   FF f; f.name = "mm_dense"; f.nrows = 3;
        f.bytes =
            "%%MatrixMarket matrix array real general\n"
            "3 2\n"
            "4.00000000000000000000e+00\n"
            "-1.00000000000000005551e-01\n"
            "3.33333333333333314830e-01\n"
            "2.22507385850720138309e-308\n"
            "-1.79769313486231570815e+308\n"
            "4.94065645841246544177e-324\n";
        f.read = [](const std::string &p, long b, long e) { return rd_mm_dense<double>(p, b, e); };
        finish_mm(f); v.push_back(f); }
    {   FF f; f.name = "mm_dense_cplx"; f.nrows = 12;
        f.bytes =
            "%%MatrixMarket matrix array complex general\n"
            "%\n"
            "12 1\n"
            "1 0\n0 1\n-1 0\n0 -1\n2.5 1e-3\n1e3 -2.5\n.5 .25\n7 7\n8 -8\n9e9 9\n1 1e1\n12 -12\n";
        f.read = [](const std::string &p, long b, long e) { return rd_mm_dense<cf>(p, b, e); };
        finish_mm(f); v.push_back(f); }
    {   FF f; f.name = "bin_crs"; f.binary = true; f.nrows = 4;
        std::vector<ptrdiff_t> ptr = {0, 2, 4, 7, 9}, col = {0, 2, 1, 4, 0, 2, 3, 1, 4};
        std::vector<double> val; for (int k = 0; k < 9; ++k) val.push_back(sval<double>(k, 0));
        app(f.bytes, (size_t)4); appv(f.bytes, ptr); appv(f.bytes, col); appv(f.bytes, val);
        f.read = [](const std::string &p, long b, long e) { return rd_bin_crs<size_t, ptrdiff_t, ptrdiff_t, double>(p, b, e); };
        v.push_back(f); }
    {   FF f; f.name = "bin_crs32"; f.binary = true; f.nrows = 5;      // rows stored unsorted: the reader sorts them
        std::vector<int> ptr = {0, 3, 3, 5, 7, 8}, col = {4, 0, 2, 3, 1, 2, 0, 4};
        std::vector<float> val; for (int k = 0; k < 8; ++k) val.push_back(sval<float>(k, 1));
        app(f.bytes, (int)5); appv(f.bytes, ptr); appv(f.bytes, col); appv(f.bytes, val);
        f.read = [](const std::string &p, long b, long e) { return rd_bin_crs<int, int, int, float>(p, b, e); };
        v.push_back(f); }
    {   FF f; f.name = "bin_dense"; f.binary = true; f.nrows = 3;
        std::vector<double> val; for (int k = 0; k < 6; ++k) val.push_back(sval<double>(k, 2));
        app(f.bytes, (size_t)3); app(f.bytes, (size_t)2); appv(f.bytes, val);
        f.read = [](const std::string &p, long b, long e) { return rd_bin_dense<size_t, double>(p, b, e); };
        v.push_back(f); }
    return v;
}

static std::string show_bytes(const FF &f, const std::string &bytes) { return f.binary ? "hex " + hexdump(bytes) : "\"" + printable(bytes) + "\""; }

static std::string exc_class(const std::string &what) {
    std::string w = what.substr(0, what.find('"'));
    if (w.size() > 60) w.resize(60);
    return squash(w);
}

// judge one outcome of reading a damaged file
static void judge(const std::string &fname, const std::string &key, const bt::Outcome &o, const std::string &must_sub,
                  const std::string &baseline, const std::string &input) {
    if (report_san("fault." + fname, key, o, input)) return;
    if (o.kind == bt::Outcome::EXC) { vf::fail("harness.exception_escaped", key, o.text); return; }
    const std::string &t = o.text;
    if (t.compare(0, 2, "X:") == 0) { vf::count("outcome.exception"); vf::count("exception." + exc_class(t.substr(2))); return; }
    if (t.compare(0, 2, "I:") == 0) {
        vf::count("outcome.invalid_matrix");
        std::string kind = t.substr(2, t.find(':', 2) - 2);
        vf::fail("fault." + fname + ".invalid." + kind, key, "reader returned a structurally invalid matrix: " + t.substr(2) + " | input: " + input);
    } else if (t.compare(0, 2, "V ") == 0) {
        vf::count(t == baseline ? "outcome.valid_same_as_undamaged" : "outcome.valid_but_different");
    } else { vf::fail("harness.bad_outcome", key, t); return; }
    if (!must_sub.empty()) vf::fail(must_sub, key, "reader did not throw (" + t.substr(0, 80) + ") | input: " + input);
}

struct Variant { long beg, end; };
static std::vector<Variant> variants(const FF &f) { return {{-1, -1}, {1, f.nrows - 1}}; }

static std::map<std::string, std::string> BASE;   // "<file>|<variant>" -> outcome of the undamaged file

static void baselines(const std::vector<FF> &files) {
    Batch b(*RUN);
    for (auto &f : files) { int vi = 0; for (auto v : variants(f)) {
        std::string id = f.name + "|" + std::to_string(vi++);
        b.add("base|" + id, [&f, v] { put_file(RUN->path("f"), f.bytes); return f.read(RUN->path("f"), v.beg, v.end); },
            [id](const bt::Outcome &o) {
                BASE[id] = o.text;
                if (o.kind != bt::Outcome::OK || o.text.compare(0, 2, "V ") != 0 || !o.san.empty())
                    vf::fail("valid_file.read", "base|" + id, "undamaged file not read cleanly: " + o.text + " " + o.crash + " " + printable(o.san, 600));
            });
    } }
}

// ---- truncations ----------------------------------------------------------------------------------
static void run_trunc(const std::vector<FF> &files) {
    for (auto &f : files) {
        int vi = 0;
        for (auto v : variants(f)) {
            std::string id = f.name + "|" + std::to_string(vi);
            if (vf::take_group()) {
                Batch b(*RUN);
                for (size_t L = 0; L < f.bytes.size(); ++L) {
                    std::string key = vf::KS() << "trunc|" << id << "|" << L;
                    if (!vf::take_in_group([&] { return key; })) continue;
                    std::string bytes = f.bytes.substr(0, L);
                    bool must = f.binary ? (vi == 0) : (L < f.last_data);
                    if (must) vf::count("truncations_that_must_throw");
                    vf::nontrivial(vf::hstr(key));
                    b.add(key, [&f, v, bytes] { put_file(RUN->path("f"), bytes); return f.read(RUN->path("f"), v.beg, v.end); },
                        [&f, key, must, id, bytes, L](const bt::Outcome &o) {
                            judge(f.name, key, o, must ? "truncated.must_throw." + f.name : "", BASE[id],
                                  vf::KS() << f.name << " truncated to " << L << " of " << f.bytes.size() << " bytes: " << show_bytes(f, bytes));
                        });
                }
            }
            ++vi;
        }
        vf::space(vf::KS() << "truncation: every length 0.." << f.bytes.size() - 1 << " of " << f.name << " (" << f.bytes.size() << " bytes) x {full read, rows [1,n-1)}");
    }
}

// ---- single byte corruptions ------------------------------------------------------------------------
static void run_corrupt(const std::vector<FF> &files) {
    for (auto &f : files) {
        int vi = 0;
        for (auto v : variants(f)) {
            std::string id = f.name + "|" + std::to_string(vi);
            // quick tier: the row-range read of corrupted files only for one file per reader (coordinate, array, binary CRS, binary dense)
            if (vi == 1 && vf::quick() && !vf::replaying() && f.name != "mm_sym" && f.name != "mm_dense" && f.name != "bin_crs" && f.name != "bin_dense") { ++vi; continue; }
            for (size_t pos = 0; pos < f.bytes.size(); ++pos) {
                if (!vf::take_group()) continue;
                Batch b(*RUN);
                unsigned char orig = (unsigned char)f.bytes[pos];
                bool header_tok = !f.binary && pos < f.banner_len && orig != ' ';
                for (int byte = 0; byte < 256; ++byte) {
                    if (byte == orig) continue;
                    std::string key = vf::KS() << "cor|" << id << "|" << pos << "|" << byte;
                    if (!vf::take_in_group([&] { return key; })) continue;
                    std::string bytes = f.bytes; bytes[pos] = (char)byte;
                    if (header_tok) vf::count("banner_corruptions_that_must_throw");
                    vf::nontrivial(vf::hstr(key));
                    b.add(key, [&f, v, bytes] { put_file(RUN->path("f"), bytes); return f.read(RUN->path("f"), v.beg, v.end); },
                        [&f, key, header_tok, id, bytes, pos, byte](const bt::Outcome &o) {
                            judge(f.name, key, o, header_tok ? "header_corrupt.must_throw." + f.name : "", BASE[id],
                                  vf::KS() << f.name << " with byte " << pos << " set to " << byte << ": " << show_bytes(f, bytes));
                        });
                }
            }
            ++vi;
        }
        bool both = vf::thorough() || f.name == "mm_sym" || f.name == "mm_dense" || f.name == "bin_crs" || f.name == "bin_dense";
        vf::space(vf::KS() << "corruption: every (position, byte value) of " << f.name << " (" << f.bytes.size() << " bytes x 255 values) x " << (both ? "{full read, rows [1,n-1)}" : "{full read}"));
    }
}

// ---- inconsistent sizes (hand-enumerated) ---------------------------------------------------------------
struct Ent { long i, j; std::string v; };
static std::string mm_text(const std::string &kind, const std::string &storage, const std::string &sizes, const std::vector<Ent> &e) {
    std::string s = "%%MatrixMarket matrix coordinate " + kind + " " + storage + "\n" + sizes + "\n";
    for (auto &x : e) s += std::to_string(x.i) + " " + std::to_string(x.j) + " " + x.v + "\n";
    return s;
}

static void sizes_case(Batch &b, const std::string &key, const std::string &text, const std::string &fname, bool must, const std::string &sub,
                       std::function<std::string(const std::string&, long, long)> rd) {
    if (!vf::take([&] { return key; })) return;
    vf::nontrivial(vf::hstr(key));
    if (must) vf::count("inconsistent_files_that_must_throw");
    b.add(key, [text, rd] { put_file(RUN->path("f"), text); return rd(RUN->path("f"), -1, -1); },
        [=](const bt::Outcome &o) { judge(fname, key, o, must ? sub : "", "", "\"" + printable(text) + "\""); });
}

static void run_sizes() {
    Batch b(*RUN);
    auto rds = [](const std::string &p, long bb, long e) { return rd_mm_sparse<ptrdiff_t, double>(p, bb, e); };
    auto rdd = [](const std::string &p, long bb, long e) { return rd_mm_dense<double>(p, bb, e); };
    for (int sym = 0; sym < 2; ++sym) {
        const long n = 3, m = 3;
        std::vector<Ent> base = sym ? std::vector<Ent>{{1,1,"2"},{2,1,"-1"},{3,2,"-1"},{3,3,"2"}}
                                    : std::vector<Ent>{{1,1,"1.0"},{2,2,"1.0"},{2,3,"1.0"},{3,1,"1.0"}};
        const char *st = sym ? "symmetric" : "general";
        std::string fname = sym ? "mm_sparse_sym" : "mm_sparse";
        // size line
        const long cand[] = {-2, -1, 0, 1, 2, 3, 4, 5, 99};
        for (int fld = 0; fld < 3; ++fld) for (long c : cand) {
            long sz[3] = {n, m, (long)base.size()}; sz[fld] = c;
            long maxi = 0, maxj = 0; for (auto &e : base) { maxi = std::max(maxi, e.i); maxj = std::max(maxj, e.j); }
            // entries actually read: the first sz[2] lines
            long used = std::min<long>(std::max<long>(sz[2], 0), (long)base.size());
            long ui = 0, uj = 0; for (long k = 0; k < used; ++k) { ui = std::max(ui, base[k].i); uj = std::max(uj, base[k].j); }
            if (sym) { ui = uj = std::max(ui, uj); }
            bool must = sz[0] < 0 || sz[1] < 0 || sz[2] < 0 || sz[2] > (long)base.size() || ui > sz[0] || uj > sz[1];
            std::string sizes = vf::KS() << sz[0] << " " << sz[1] << " " << sz[2];
            sizes_case(b, vf::KS() << "sizes|" << fname << "|sizeline|" << fld << "|" << c, mm_text("real", st, sizes, base), fname, must,
                       "inconsistent_sizes.must_throw." + fname + ".size_line", rds);
        }
        // indices outside the declared shape
        for (size_t k = 0; k < base.size(); ++k) for (int which = 0; which < 2; ++which) for (long c : {0L, 4L, 9L, -1L}) {
            auto e = base; (which ? e[k].j : e[k].i) = c;
            std::string sizes = vf::KS() << n << " " << m << " " << base.size();
            sizes_case(b, vf::KS() << "sizes|" << fname << "|" << (which ? "col" : "row") << "|" << k << "|" << c, mm_text("real", st, sizes, e), fname, true,
                       "inconsistent_sizes.must_throw." + fname + (which ? ".col_index" : ".row_index"), rds);
        }
    }
    vf::space("inconsistent sizes, coordinate files (general and symmetric 3x3, 4 entries): every size-line field in {-2,-1,0,1,2,3,4,5,99}; every entry's row / column index in {-1,0,4,9}");
    // dense: declared shape vs six data lines
    for (long n = -1; n <= 4; ++n) for (long m = -1; m <= 4; ++m) {
        std::string text = "%%MatrixMarket matrix array real general\n" + std::to_string(n) + " " + std::to_string(m) + "\n1\n2\n3\n4\n5\n6\n";
        bool must = n < 0 || m < 0 || n * m > 6;
        sizes_case(b, vf::KS() << "sizes|mm_dense|shape|" << n << "|" << m, text, "mm_dense", must, "inconsistent_sizes.must_throw.mm_dense.size_line", rdd);
    }
    vf::space("inconsistent sizes, array file with 6 data lines: every declared shape in {-1..4}x{-1..4}");
    // binary dense: declared shape vs six values
    for (long n = -1; n <= 4; ++n) for (long m = -1; m <= 4; ++m) {
        std::string bytes; app(bytes, (ptrdiff_t)n); app(bytes, (ptrdiff_t)m); for (int k = 0; k < 6; ++k) app(bytes, (double)(k + 1));
        bool must = n < 0 || m < 0 || n * m > 6;
        std::string key = vf::KS() << "sizes|bin_dense|shape|" << n << "|" << m;
        if (!vf::take([&] { return key; })) continue;
        vf::nontrivial(vf::hstr(key));
        if (must) vf::count("inconsistent_files_that_must_throw");
        b.add(key, [bytes] { put_file(RUN->path("f"), bytes); return rd_bin_dense<ptrdiff_t, double>(RUN->path("f"), -1, -1); },
            [=](const bt::Outcome &o) { judge("bin_dense", key, o, must ? "inconsistent_sizes.must_throw.bin_dense.shape" : "", "", "hex " + hexdump(bytes)); });
    }
    vf::space("inconsistent sizes, binary dense file with 6 values (ptrdiff_t sizes): every declared shape in {-1..4}x{-1..4}");
}

// ---- binary CRS: every ptr entry replaced by every value of a list -----------------------------------------
static void run_binptr() {
    Batch b(*RUN);
    const std::vector<ptrdiff_t> ptr0 = {0, 2, 4, 7, 9}, col = {0, 2, 1, 4, 0, 2, 3, 1, 4};
    std::vector<double> val; for (int k = 0; k < 9; ++k) val.push_back(k + 1);
    std::vector<ptrdiff_t> cand; for (ptrdiff_t c = -2; c <= 11; ++c) cand.push_back(c);
    for (ptrdiff_t c : {(ptrdiff_t)100, (ptrdiff_t)1 << 20, (ptrdiff_t)1 << 40, -((ptrdiff_t)1 << 40), PTRDIFF_MAX, PTRDIFF_MIN}) cand.push_back(c);
    for (ptrdiff_t n = -1; n <= 6; ++n) {      // n = 4 is the true row count; the others are inconsistent with the file length
        for (size_t i = 0; i < ptr0.size(); ++i) for (ptrdiff_t c : cand) for (int vi = 0; vi < 2; ++vi) {
            if (n != 4 && !(i == 0 && c == 0)) continue;        // row-count faults are enumerated once, with the unmodified ptr array
            std::vector<ptrdiff_t> ptr = ptr0; ptr[i] = c;
            std::string key = vf::KS() << "binptr|" << n << "|" << i << "|" << c << "|" << vi;
            if (!vf::take([&] { return key; })) continue;
            vf::nontrivial(vf::hstr(key));
            std::string bytes; app(bytes, (ptrdiff_t)n); appv(bytes, ptr); appv(bytes, col); appv(bytes, val);
            bool mono = true; for (size_t k = 0; k + 1 < ptr.size(); ++k) mono &= ptr[k] <= ptr[k + 1];
            bool must = vi == 0 && (n < 0 || n > 4 || !mono || ptr.back() > 9 || ptr[0] < 0);   // n < 4 is self-consistent from the reader's point of view
            if (must) vf::count("inconsistent_files_that_must_throw");
            long beg = vi ? 1 : -1, end = vi ? 3 : -1;
            b.add(key, [bytes, beg, end] { put_file(RUN->path("f"), bytes); return rd_bin_crs<ptrdiff_t, ptrdiff_t, ptrdiff_t, double>(RUN->path("f"), beg, end); },
                [=](const bt::Outcome &o) {
                    judge("bin_crs", key, o, must ? "inconsistent_sizes.must_throw.bin_crs" : "", "",
                          vf::KS() << "binary CRS, n=" << n << " ptr=[" << ptr[0] << "," << ptr[1] << "," << ptr[2] << "," << ptr[3] << "," << ptr[4] << "] (true: n=4 ptr=[0,2,4,7,9], 9 entries), rows " << beg << ".." << end);
                });
        }
    }
    vf::space("binary CRS 4x5 / 9 entries: every ptr entry replaced by every value in {-2..11, 100, 2^20, +-2^40, PTRDIFF_MAX, PTRDIFF_MIN}, and row count in {-1..6}, x {full read, rows [1,3)}");
}

// ---- wrong value kind / wrong storage ------------------------------------------------------------------
template <class Val> static void kind_case(Batch &b, const std::string &fkind, bool fsparse, const std::string &text, bool rsparse) {
    std::string key = vf::KS() << "kind|" << (fsparse ? "coordinate" : "array") << "|" << fkind << "|" << (rsparse ? "sparse" : "dense") << "|" << TN<Val>::name();
    if (!vf::take([&] { return key; })) return;
    vf::nontrivial(vf::hstr(key));
    bool match = fsparse == rsparse && fkind == TN<Val>::kind();
    if (!match) vf::count("wrong_kind_reads_that_must_throw"); else vf::count("matching_kind_reads");
    b.add(key, [text, rsparse] { put_file(RUN->path("f"), text); return rsparse ? rd_mm_sparse<ptrdiff_t, Val>(RUN->path("f"), -1, -1) : rd_mm_dense<Val>(RUN->path("f"), -1, -1); },
        [=](const bt::Outcome &o) {
            judge("mm_kind", key, o, match ? "" : "wrong_kind.must_throw", "", "\"" + printable(text) + "\" read as " + (rsparse ? "sparse " : "dense ") + TN<Val>::name());
            if (match && o.kind == bt::Outcome::OK && o.text.compare(0, 2, "V ") != 0) vf::fail("wrong_kind.matching_kind_rejected", key, o.text);
        });
}
static void run_kind() {
    Batch b(*RUN);
    const char *kinds[3] = {"real", "complex", "integer"};
    const char *v1[3] = {"1.5", "1.5 -2", "7"};
    for (int k = 0; k < 3; ++k) for (int sp = 0; sp < 2; ++sp) {
        std::string text = std::string("%%MatrixMarket matrix ") + (sp ? "coordinate " : "array ") + kinds[k] + " general\n";
        if (sp) text += std::string("2 2 2\n1 1 ") + v1[k] + "\n2 2 " + v1[k] + "\n";
        else    text += std::string("2 1\n") + v1[k] + "\n" + v1[k] + "\n";
        for (int rs = 0; rs < 2; ++rs) {
            kind_case<double>(b, kinds[k], sp, text, rs);    kind_case<float>(b, kinds[k], sp, text, rs);
            kind_case<cd>(b, kinds[k], sp, text, rs);        kind_case<cf>(b, kinds[k], sp, text, rs);
            kind_case<int>(b, kinds[k], sp, text, rs);       kind_case<long long>(b, kinds[k], sp, text, rs);
            kind_case<char>(b, kinds[k], sp, text, rs);
        }
    }
    vf::space("value kind: files {coordinate, array} x {real, complex, integer} read with {sparse, dense} reader x value type {double, float, complex<double>, complex<float>, int, long long, char}");
    // unsupported banner words
    const char *bad[] = {
        "%%MatrixMarket matrix coordinate pattern general\n2 2 1\n1 1\n",
        "%%MatrixMarket matrix coordinate real hermitian\n2 2 1\n1 1 1\n",
        "%%MatrixMarket matrix coordinate real skew-symmetric\n2 2 1\n2 1 1\n",
        "%%MatrixMarket vector coordinate real general\n2 2 1\n1 1 1\n",
        "%MatrixMarket matrix coordinate real general\n2 2 1\n1 1 1\n",
        "%%MatrixMarket matrix coordinate real\n2 2 1\n1 1 1\n",
        "%%MatrixMarket matrix elemental real general\n2 2 1\n1 1 1\n",
        "", "\n", "%%MatrixMarket matrix coordinate real general", "%%MatrixMarket matrix coordinate real general\n% only comments\n",
        "%%MatrixMarket matrix coordinate real general\n2 2\n", "%%MatrixMarket matrix coordinate real general\nx y z\n",
    };
    int idx = 0;
    for (const char *t : bad) {
        std::string text = t, key = vf::KS() << "kind|banner|" << idx++;
        if (!vf::take([&] { return key; })) continue;
        vf::nontrivial(vf::hstr(key));
        vf::count("bad_headers_that_must_throw");
        b.add(key, [text] { put_file(RUN->path("f"), text); return rd_mm_sparse<ptrdiff_t, double>(RUN->path("f"), -1, -1); },
            [=](const bt::Outcome &o) { judge("mm_header", key, o, "header_corrupt.must_throw.handwritten", "", "\"" + printable(text) + "\""); });
    }
    // missing file
    if (vf::take([] { return std::string("kind|missing_file|0"); })) {
        std::string key = "kind|missing_file|0";
        b.add(key, [] { return rd_mm_sparse<ptrdiff_t, double>(RUN->path("does-not-exist"), -1, -1) + rd_bin_crs<size_t, ptrdiff_t, ptrdiff_t, double>(RUN->path("does-not-exist"), -1, -1).substr(0, 1)
                            + rd_bin_dense<size_t, double>(RUN->path("does-not-exist"), -1, -1).substr(0, 1); },
            [=](const bt::Outcome &o) {
                if (report_san("fault.missing_file", key, o, "missing file")) return;
                if (o.text.compare(0, 2, "X:") != 0 || o.text.substr(o.text.size() - 2) != "XX") vf::fail("missing_file.must_throw", key, o.text);
            });
    }
    vf::space("13 hand-written unsupported / malformed headers and a missing file");
}

int main(int argc, char **argv) {
    vf::init(argc, argv, "C19");
    bt::Runner runner("/tmp/C19");
    RUN = &runner;
    auto files = valid_files();
    vf::sample_str("valid file mm_sym: " + printable(files[1].bytes, 400));
    vf::sample_str("valid file bin_crs32 (int32 sizes, float values, unsorted rows): hex " + hexdump(files[7].bytes, 200));
    baselines(files);
    if (vf::section("trunc")) run_trunc(files);
    if (vf::section("sizes")) run_sizes();
    if (vf::section("binptr")) run_binptr();
    if (vf::section("kind")) run_kind();
    if (vf::section("cor")) run_corrupt(files);
    vf::count("forks", runner.forks);
    vf::count("child_deaths", runner.crashes);
    return vf::finish();
}
