// C11 (unit "conf") -- conformance of the mini-MPI model to a real MPI runtime: a deterministic subset of the
// enumerated cases is executed (a) with ranks as fibers under the model (default schedule) and (b) by the same
// rank body compiled against OpenMPI under `mpirun -np k`; the per-rank digests of everything a rank observes
// must be identical.  A mismatch means the MODEL misrepresents MPI (or the code is schedule dependent).
#include <mpi.h>
#include <fstream>
#include <cstdlib>
#include "C11_body.hpp"

int main(int argc, char **argv) {
    vf::init(argc, argv, "C11");
    const char *real = getenv("AUX_CONF_REAL");
    if (!real) { std::cerr << "AUX_CONF_REAL not set\n"; return 2; }
    int shard = vf::S().shard, nsh = vf::S().nshards;
    if (vf::replaying()) { shard = 0; nsh = 1; }
    std::string prefix = std::string("conf_out.") + std::to_string(shard);
    vf::sample_str("conformance case conf|3x3|187|3|0,1,1,3|0,2,3,3: per-rank digests under the fiber model == under OpenMPI (mpirun -np 3)");
    const int stride = vf::quick() ? 211 : 23;
    setenv("OMPI_MCA_mpi_yield_when_idle", "1", 1);
    for (int k = 1; k <= 4; ++k) {
        auto cases = conformance_cases(k, stride);
        // (b) real runtime first
        std::string cmd = std::string("mpirun --allow-run-as-root --oversubscribe -np ") + std::to_string(k) + " " + real + " " + prefix + " " + std::to_string(shard) + " " + std::to_string(nsh) + " " + std::to_string(stride) + " > /dev/null 2>" + prefix + ".err";
        int rc = std::system(cmd.c_str());
        if (rc != 0) { vf::fail("conformance.mpirun_failed", vf::KS() << "conf|mpirun|" << k, vf::KS() << "mpirun exit status " << rc << " for " << cmd); continue; }
        std::vector<std::map<std::string, std::string>> realdig(k);
        for (int r = 0; r < k; ++r) { std::ifstream f(prefix + "." + std::to_string(k) + "." + std::to_string(r)); std::string key, d; while (f >> key >> d) realdig[r][key] = d; }
        // (a) model
        for (size_t i = 0; i < cases.size(); ++i) {
            if ((int)(i % nsh) != shard) continue;
            const std::string &key = cases[i].key;
            vf::S().idx++; vf::S().evals++;
            if (vf::replaying() && key != vf::S().replay_key) continue;
            Out o = fresh_out(cases[i].cs);
            vs::cfg().default_policy = 0; vs::cfg().max_threads = 1; vs::cfg().prefix.clear();
            mm::cfg() = mm::Config();
            vs::begin_execution();
            try { mm::run(k, [&](int r) { rank_body(r, cases[i].cs, o); }); }
            catch (const std::exception &e) { vf::fail("conformance.model_run_failed", key, e.what()); continue; }
            bool ok = true;
            for (int r = 0; r < k; ++r) {
                std::string md = std::to_string(rank_digest(r, cases[i].cs, o));
                auto it = realdig[r].find(key);
                if (it == realdig[r].end()) { vf::fail("conformance.missing_real_result", key, vf::KS() << "rank " << r << " of the mpirun execution produced no digest"); ok = false; break; }
                if (it->second != md) { vf::fail("conformance.minimpi_vs_openmpi", key, vf::KS() << "rank " << r << ": digest under the model " << md << " != under OpenMPI " << it->second << " ; G=" << mk::show(cases[i].cs.G) << " rows " << pshow(cases[i].cs.rp) << " cols " << pshow(cases[i].cs.cp)); ok = false; break; }
            }
            if (ok) { vf::S().traces_validated += 1; if (k > 1) vf::nontrivial(vf::hstr(key)); }
            vf::S().states += 1; vf::S().transitions += 1;
        }
        vf::space(vf::KS() << "conformance subset (every " << stride << "th of all patterns<=3x3 x all partitions) for " << k << " ranks: model digests == OpenMPI digests");
    }
    return vf::finish();
}
