// C13 unit "solve" -- every block formulation returns a solution of the SCALAR system with a truthful residual.
//
// case = (b, system, coarsening, relaxation, solver); inside a case the scalar reference formulation (builtin<double>, the same
// run-time configuration, aggr.block_size = b) is solved first, then every registered path of that block size (see
// C13_solve_paths.cpp: block, block_solver, as_scalar_rt, as_scalar_ct, as_block, hybrid, hybrid_mixed, mixed_block; each for
// static_matrix ("s") and Eigen ("e") blocks), each in both call forms S(rhs,x) and S(A,rhs,x).
//
// sub-checks (suffix .<s|e><b>.<path>):
//   path.operator    the level-0 matrix held by the solver, expanded to scalars, == the scalar matrix (exact, dyadic values)
//   path.truthful    |reported - true| <= bound; true = ||f - A x||/||f|| in long double from the scalar arrays;
//                    bound = 32 u (iters+2) sqrt(n) kappa2(A) (1 + ||A||2 max(||x0||,||x||)/||f||) + 1e-12 reported  (DESIGN C01/FA; SVD by Eigen)
//                    judged on the full run unless both values are below tol (then only path.tol matters), and on an early-stopped
//                    run (maxiter = 2: path.truthful_early) where the bound applies as derived
//   path.tol         reported < 1e-8  =>  true <= 1e-8 (1+1e-6) + bound
//   path.iters       iters <= maxiter (+L-1 for bicgstabl)
//   path.solves      the scalar reference formulation converged (reported and true residual < tol) but this formulation did not
//                    return a solution (did not reach tol within maxiter, non-finite result, or an exception other than a documented
//                    Krylov breakdown / "not supported by the backend")
//   path.exception   exception that is neither a Krylov breakdown precondition nor "not supported", while the reference did not throw it
#include "C13_solve.hpp"
#include <tuple>
#include <map>
#include <amgcl/backend/builtin.hpp>
#include <amgcl/adapter/crs_tuple.hpp>
#include <amgcl/make_solver.hpp>
#include <amgcl/amg.hpp>
#include <amgcl/coarsening/runtime.hpp>
#include <amgcl/relaxation/runtime.hpp>
#include <amgcl/solver/runtime.hpp>
#include "vf.hpp"

namespace c13 { std::vector<Path> &paths() { static std::vector<Path> p; return p; } }
using namespace c13;
typedef amgcl::backend::builtin<double> SB;
typedef amgcl::make_solver<amgcl::amg<SB, amgcl::runtime::coarsening::wrapper, amgcl::runtime::relaxation::wrapper>, amgcl::runtime::solver::wrapper<SB>> SRef;

static Out run_scalar(const Req &r) {
    Out o; o.ran = true;
    try {
        int n = r.A->n; std::vector<ptrdiff_t> ptr = r.A->ptr, col = r.A->col; std::vector<double> val = r.A->val;
        auto At = std::tie(n, ptr, col, val);
        ptree p = base_params(r, true, true, true);
        SRef S(At, p);
        { std::ostringstream os; os << S.precond(); o.levels = parse_levels(os.str()); }
        { std::vector<double> z(r.f.size(), 0.0); S.precond().apply(r.f, z); o.pact = z; }
        o.x = r.x0;
        std::tie(o.iters, o.resid) = S(r.f, o.x);
    } catch (const std::exception &e) { o.threw = true; o.what = e.what(); }
    return o;
}

struct Sys {
    std::string id;            // key component
    std::string descr;
    sg::Crs<double> A;
    bool sym = false;
    bool full_rank_coupling = false;   // measured: every stored off-diagonal b x b block has rank b
    bool have_sv = false; sg::SvdInfo sv;
    std::vector<double> f;
    ld fn = 0;
    void prepare() { if (!have_sv) { sv = sg::svd_info(A); have_sv = true; f = gen_rhs<double>(A.n); fn = sg::norm2_ld(f); } }
};

static std::vector<Sys> systems_for(int b, bool T) {
    std::vector<Sys> out;
    auto add = [&](const std::string &id, const std::string &descr, sg::Crs<double> A) {
        Sys s; s.id = id; s.descr = descr; s.A = std::move(A); s.sym = c13::symmetric(s.A);
        auto D = sg::dense(s.A); int nn = s.A.n / b; s.full_rank_coupling = true;
        for (int I = 0; I < nn; ++I) for (int J = 0; J < nn; ++J) if (I != J) {
            Eigen::MatrixXd Bk = D.block(I * b, J * b, b, b);
            if (Bk.isZero(0)) continue;
            if (Eigen::FullPivLU<Eigen::MatrixXd>(Bk).rank() < b) s.full_rank_coupling = false;
        }
        out.push_back(std::move(s)); };
    // (a) structurally incomplete blocks: all 64 full-diagonal 3-node patterns x fill schemes, nonsymmetric dominant values;
    //     the 8 symmetric node patterns x fill schemes with SPD values
    for (uint32_t off = 0; off < 64; ++off) {
        auto adj = node_adj_mask(3, node3_from_offdiag(3, off));
        bool nsym = node_symmetric(3, adj);
        for (int sc = 0; sc < NSCHEMES; ++sc) {
            if (!T && (sc % 5) != (int)(off % 5) && !(nsym && sc % 2 == 0)) continue;              // quick: 2 schemes per node pattern, 5 for symmetric ones
            add(vf::KS() << "p" << off << "s" << sc << "n", vf::KS() << "3 nodes, off-diagonal node mask " << off << ", fill scheme " << scheme_name(sc) << ", nonsymmetric dominant values", block_pattern(3, adj, b, sc, 1));
            if (nsym) add(vf::KS() << "p" << off << "s" << sc << "y", vf::KS() << "3 nodes, off-diagonal node mask " << off << ", fill scheme " << scheme_name(sc) << ", SPD values", block_pattern(3, adj, b, sc, 2));
        }
    }
    // (b) A (x) B on the same node patterns (A scalar dominant nonsymmetric / SPD) x coupling blocks
    for (uint32_t off = 0; off < 64; ++off) {
        auto adj = node_adj_mask(3, node3_from_offdiag(3, off));
        bool nsym = node_symmetric(3, adj);
        for (int kb = 0; kb < NKRON; ++kb) {
            if (!T && (kb % 5) != (int)(off % 5) && !nsym) continue;
            add(vf::KS() << "k" << off << "b" << kb << "n", vf::KS() << "A (x) " << kron_name(kb) << ", A = 3x3 node mask " << off << " nonsymmetric dominant", sg::kron(block_pattern(3, adj, 1, 0, 1), kron_block(kb, b), b));
            if (nsym) add(vf::KS() << "k" << off << "b" << kb << "y", vf::KS() << "A (x) " << kron_name(kb) << ", A = 3x3 node mask " << off << " SPD", sg::kron(block_pattern(3, adj, 1, 0, 2), kron_block(kb, b), b));
        }
    }
    // (c) small grids: diffusion (x) B and grid node patterns x fill schemes
    std::vector<std::array<int, 2>> grids = {{3, 3}, {6, 1}};
    if (T) { grids.push_back({4, 4}); grids.push_back({5, 3}); }
    for (auto g : grids) {
        auto G = sg::grid_diffusion(g[0], g[1], 1, sg::coef_mask(sg::COEF_UNIFORM, 1));
        for (int kb = 0; kb < NKRON; ++kb) add(vf::KS() << "g" << g[0] << "x" << g[1] << "b" << kb, vf::KS() << "grid diffusion " << g[0] << "x" << g[1] << " (x) " << kron_name(kb), sg::kron(G, kron_block(kb, b), b));
        if (T) { auto G2 = sg::grid_diffusion(g[0], g[1], 1, sg::coef_mask(sg::COEF_CHECKER, 10)); add(vf::KS() << "g" << g[0] << "x" << g[1] << "c10b1", vf::KS() << "grid diffusion checker contrast 10 " << g[0] << "x" << g[1] << " (x) spd_dense", sg::kron(G2, kron_block(1, b), b)); }
        auto adj = node_adj_grid(g[0], g[1]);
        for (int sc = 0; sc < NSCHEMES; ++sc) {
            if (!T && sc % 3 != 1) continue;
            add(vf::KS() << "g" << g[0] << "x" << g[1] << "s" << sc << "n", vf::KS() << "grid node pattern " << g[0] << "x" << g[1] << ", fill scheme " << scheme_name(sc) << ", nonsymmetric dominant", block_pattern(g[0] * g[1], adj, b, sc, 1));
            add(vf::KS() << "g" << g[0] << "x" << g[1] << "s" << sc << "y", vf::KS() << "grid node pattern " << g[0] << "x" << g[1] << ", fill scheme " << scheme_name(sc) << ", SPD", block_pattern(g[0] * g[1], adj, b, sc, 2));
        }
    }
    return out;
}

// C13_LOG=<file>: one line per noteworthy outcome (event, tag, key, detail); development aid, not part of the result
#include <fcntl.h>
#include <unistd.h>
static void logev(const std::string &ev, const std::string &tag, const std::string &key, const std::string &detail) {
    static const char *path = getenv("C13_LOG");
    if (!path) return;
    int fd = ::open(path, O_WRONLY | O_APPEND | O_CREAT, 0644);
    if (fd < 0) return;
    std::string l = ev + "\t" + tag + "\t" + key + "\t" + detail + "\n";
    if (::write(fd, l.data(), l.size()) < 0) {}
    ::close(fd);
}
static void cfail(const std::string &sub, const std::string &key, const std::string &detail) { vf::fail(sub, key, detail); logev("FAIL", sub, key, detail.substr(0, 300)); }
static bool allowed_breakdown(const std::string &w) { return w.find("Zero rho") != std::string::npos || w.find("Zero omega") != std::string::npos || w.find("breakdown") != std::string::npos; }
static bool unsupported(const std::string &w) { return w.find("not supported") != std::string::npos; }

static std::string refconvstr(const Out &ref, bool conv) { return std::string(vf::KS() << "ref " << (conv ? "converged" : "not converged") << " its=" << ref.iters << " res=" << ref.resid); }
static void judge(const std::string &key, const std::string &subtag, Sys &S, const Req &rq, const Out &o, const Out &ref, bool ref_converged) {
    // sub-check names carry the call form (".A" = S(A,rhs,x)); the vacuity counters do not
    const std::string tag = (subtag.size() > 2 && subtag.compare(subtag.size() - 2, 2, ".A") == 0) ? subtag.substr(0, subtag.size() - 2) : subtag;
    const std::string in = vf::KS() << " :: form=" << (rq.form ? "S(A,rhs,x)" : "S(rhs,x)") << " " << rq.coarsening << "+" << rq.relax << "+" << rq.solver << " :: " << S.descr << " A=" << sg::show(S.A);
    if (!o.ran) { vf::count("skipped_not_offered_by_path"); return; }
    vf::count("runs." + tag);
    // smoothed_aggr_emin: the energy-minimising prolongation P = P_tent - D^-1 A P_tent Omega loses rank (singular / garbage coarse
    // operator, in the scalar formulation too) on non-symmetric matrices and, with matrix-valued Omega, when a coupling block is rank
    // deficient (a direction in which the nodes of an aggregate are uncoupled).  Outside "symmetric with full-rank couplings" only the
    // operator and iteration-count clauses are judged for this coarsening.
    const bool emin_nj = rq.coarsening == "smoothed_aggr_emin" && !(S.sym && S.full_rank_coupling);
    if (o.threw) {
        if (emin_nj && !unsupported(o.what) && o.what.find("HARNESS") == std::string::npos) { vf::count("emin_not_judged." + tag); return; }
        if (unsupported(o.what)) { vf::count("unsupported." + tag); return; }
        if (o.what.find("HARNESS") != std::string::npos) { vf::fail("harness.param", key, o.what + in); return; }
        if (allowed_breakdown(o.what)) { vf::count("breakdown_exception." + tag); return; }
        if (ref.threw && ref.what == o.what) { vf::count("same_exception_as_scalar." + tag); logev("SAMEEXC", tag, key, o.what); return; }
        // a scalar coarsening (ruge_stuben) under a formulation that converts every scalar level to b x b blocks (as_block, hybrid):
        // the number of C-points need not be a multiple of b; amgcl refuses with a precondition, which is a clean outcome
        if (rq.coarsening == "ruge_stuben" && o.what.find("not divisible by block size") != std::string::npos) { vf::count("ruge_stuben_level_not_divisible." + tag); return; }
        cfail("path.exception." + subtag, key, "exception '" + o.what + "'" + (ref.threw ? " (scalar reference threw '" + ref.what + "')" : " (scalar reference did not throw)") + in);
        return;
    }
    if (o.levels >= 2) vf::count("levels_ge_2." + tag);
    if (!o.opdiff.empty()) cfail("path.operator." + subtag, key, o.opdiff + in);
    size_t cap = (size_t)rq.maxiter + (rq.solver == "bicgstabl" ? 1 : 0);   // default L = 2
    if (o.iters > cap) cfail("path.iters." + subtag, key, vf::KS() << "iters=" << o.iters << " maxiter=" << rq.maxiter << in);
    if (emin_nj) { vf::count("emin_not_judged." + tag); return; }
    bool fin = all_finite(o.x) && std::isfinite(o.resid);
    if (!fin) {
        vf::count("nonfinite." + tag); logev("NONFINITE", tag, key, ref.threw ? "ref threw " + ref.what : refconvstr(ref, ref_converged));
        if (ref_converged) cfail("path.solves." + subtag, key, vf::KS() << "non-finite result (reported " << o.resid << ") while the scalar formulation converged (" << ref.iters << " its, " << ref.resid << ")" << in);
        return;
    }
    ld tr = truth(S.A, S.f, o.x);
    ld bd = bound(o.iters, S.A.n, S.sv, sg::norm2_ld(rq.x0), sg::norm2_ld(o.x), S.fn, o.resid);
    ld diff = fabsl((ld)o.resid - tr);
    // a run that ended above its starting residual (x0 = 0: relative residual 1) returned no solution and claims none; the bound
    // below is in terms of max(||x0||,||x||) and does not cover the intermediate growth of a diverging BiCGStab-type recurrence
    if (o.resid > 1 || tr > 1) { vf::count("diverged_not_judged_for_truthfulness." + tag); logev("DIVERGED", tag, key, vf::KS() << "reported=" << o.resid << " true=" << (double)tr << " " << refconvstr(ref, ref_converged)); }
    else if (o.resid < 1e-8 && !(tr <= 1e-8L * (1 + 1e-6L) + bd)) cfail("path.tol." + subtag, key, vf::KS() << "reported=" << o.resid << " < tol but true=" << (double)tr << " bound=" << (double)bd << " iters=" << o.iters << in);
    else if (!(diff <= bd) && !(o.resid < 1e-8 && tr < 1e-8L)) cfail("path.truthful." + subtag, key, vf::KS() << "reported=" << o.resid << " true=" << (double)tr << " |diff|=" << (double)diff << " > bound=" << (double)bd << " iters=" << o.iters << " kappa=" << S.sv.kappa << in);
    else if (!(diff <= bd)) vf::count("margin.gap_above_bound_but_both_below_tol");
    else { ld q = bd > 0 ? diff / bd : 0; vf::count(q <= 1e-3L ? "margin.diff_over_bound_le_1e-3" : q <= 1e-1L ? "margin.diff_over_bound_le_1e-1" : "margin.diff_over_bound_le_1"); }
    bool conv = o.resid < 1e-8;
    if (conv) vf::count("converged." + tag);
    if (o.iters >= 2) vf::count("iters_ge_2." + tag);
    if (ref_converged && !conv) cfail("path.solves." + subtag, key, vf::KS() << "not converged: reported=" << o.resid << " true=" << (double)tr << " after " << o.iters << " its; scalar formulation: " << ref.iters << " its, " << ref.resid << in);
}

// early-stopped probe (maxiter = 2): residuals are far above the rounding floor and no history of intermediate iterates exists, so the
// two-sided bound of DESIGN C01/FA applies as derived; a mis-scaled / stale / wrong-system residual shows as an O(1) discrepancy
static void judge_early(const std::string &key, const std::string &subtag, Sys &S, const Req &rq, const Out &o) {
    if (!o.ran || o.threw) return;
    if (rq.coarsening == "smoothed_aggr_emin" && !(S.sym && S.full_rank_coupling)) return;
    const std::string tag = (subtag.size() > 2 && subtag.compare(subtag.size() - 2, 2, ".A") == 0) ? subtag.substr(0, subtag.size() - 2) : subtag;
    const std::string in = vf::KS() << " :: maxiter=2 form=" << (rq.form ? "S(A,rhs,x)" : "S(rhs,x)") << " " << rq.coarsening << "+" << rq.relax << "+" << rq.solver << " :: " << S.descr << " A=" << sg::show(S.A);
    size_t cap = (size_t)rq.maxiter + (rq.solver == "bicgstabl" ? 1 : 0);
    if (o.iters > cap) cfail("path.iters." + subtag, key, vf::KS() << "iters=" << o.iters << " maxiter=" << rq.maxiter << in);
    if (!all_finite(o.x) || !std::isfinite(o.resid)) { vf::count("early.nonfinite." + tag); return; }
    ld tr = truth(S.A, S.f, o.x);
    ld bd = bound(o.iters, S.A.n, S.sv, sg::norm2_ld(rq.x0), sg::norm2_ld(o.x), S.fn, o.resid);
    ld diff = fabsl((ld)o.resid - tr);
    vf::count(tr > 1e-6L ? "early.residual_above_1e-6" : "early.residual_below_1e-6");
    if (o.resid > 1 || tr > 1) { vf::count("early.diverged_not_judged." + tag); return; }
    if (!(diff <= bd)) cfail("path.truthful_early." + subtag, key, vf::KS() << "reported=" << o.resid << " true=" << (double)tr << " |diff|=" << (double)diff << " > bound=" << (double)bd << " iters=" << o.iters << " kappa=" << S.sv.kappa << in);
}

// The hybrid backend builds its hierarchy in scalar arithmetic with exactly the parameters of the scalar reference and only
// converts every level to b x b blocks: with a smoother that is applied pointwise / as a sparse product (spai0, damped_jacobi,
// chebyshev, spai1) its preconditioner is the same linear map as the scalar one, up to summation-order rounding.
static void judge_hybrid_action(const std::string &key, const std::string &subtag, const std::string &pname, Sys &S, const Req &rq, const Out &o, const Out &ref) {
    if (pname != "hybrid" || rq.form != 0 || !o.ran || o.threw || ref.threw || o.pact.empty() || ref.pact.size() != o.pact.size()) return;
    if (!(rq.relax == "spai0" || rq.relax == "damped_jacobi" || rq.relax == "chebyshev" || rq.relax == "spai1")) { vf::count("hybrid_action.not_compared_block_smoother"); return; }
    if (!all_finite(ref.pact) || !all_finite(o.pact)) { vf::count("hybrid_action.nonfinite_not_compared"); return; }
    if (o.levels != ref.levels) { cfail("hybrid.levels." + subtag, key, vf::KS() << "hybrid hierarchy has " << o.levels << " levels, scalar hierarchy built with the same parameters " << ref.levels << " :: " << rq.coarsening << "+" << rq.relax << " :: " << S.descr); return; }
    ld worst = 0, scale = 0;
    for (size_t i = 0; i < o.pact.size(); ++i) { worst = std::max<ld>(worst, fabsl((ld)o.pact[i] - ref.pact[i])); scale = std::max<ld>(scale, fabsl((ld)ref.pact[i])); }
    ld tol = std::max<ld>(1e-10L, 64.0L * S.A.n * 1.1e-16L * S.sv.kappa) * scale;
    if (std::getenv("C13_HYBRID_STATS")) fprintf(stderr, "HYBSTAT %s %s %s rel=%Lg tolrel=%Lg levels=%d\n", key.c_str(), rq.coarsening.c_str(), rq.relax.c_str(), scale > 0 ? worst / scale : worst, scale > 0 ? tol / scale : tol, o.levels);
    if (worst > tol) cfail("hybrid.preconditioner_action." + subtag, key, vf::KS() << "max |B_hybrid f - B_scalar f| = " << (double)worst << " (scale " << (double)scale << ", allowed " << (double)tol << "), levels " << o.levels << " :: " << rq.coarsening << "+" << rq.relax << " :: " << S.descr << " A=" << sg::show(S.A));
    else vf::count(o.levels >= 2 ? "hybrid_action.compared_multilevel" : "hybrid_action.compared_single_level");
}

int main(int argc, char **argv) {
    vf::init(argc, argv, "C13");
    const bool T = vf::thorough();
    std::sort(paths().begin(), paths().end(), [](const Path &a, const Path &b) { return std::tie(a.b, a.btype, a.name) < std::tie(b.b, b.btype, b.name); });
    std::vector<std::string> coars = {"aggregation", "smoothed_aggregation", "smoothed_aggr_emin", "ruge_stuben"};
    std::vector<std::string> relax = {"spai0", "damped_jacobi", "gauss_seidel", "ilu0", "iluk", "ilut", "ilup", "chebyshev", "spai1"};
    if (vf::section("sv")) {
        for (int b = 2; b <= 4; ++b) {
            std::vector<Path> ps; for (auto &p : paths()) if (p.b == b) ps.push_back(p);
            if (ps.empty()) continue;
            auto sys = systems_for(b, T);
            size_t ncfg = 0;
            for (auto &S : sys) {
                std::vector<std::string> solvers = S.sym ? std::vector<std::string>{"cg", "bicgstab", "gmres"} : std::vector<std::string>{"bicgstab", "gmres"};
                // idrs (recursive residual gap: C01's subject) and richardson (rate = rho(I - BA): C02's subject) are left to those checks
                if (T) { solvers.push_back("lgmres"); solvers.push_back("fgmres"); solvers.push_back("bicgstabl"); }
                int ci = 0;
                for (auto &c : coars) for (auto &rl : relax) for (auto &sv : solvers) {
                    ++ci;
                    // quick: a third of the configuration product per system, rotating with the system
                    if (!T && !vf::replaying() && (ci + (int)(vf::hstr(S.id) % 3)) % 3 != 0) continue;
                    ++ncfg;
                    if (!vf::take([&] { return std::string(vf::KS() << "sv|" << b << "|" << S.id << "|" << c << "|" << rl << "|" << sv); })) continue;
                    std::string key = vf::KS() << "sv|" << b << "|" << S.id << "|" << c << "|" << rl << "|" << sv;
                    S.prepare();
                    Req rq; rq.A = &S.A; rq.b = b; rq.coarsening = c; rq.relax = rl; rq.solver = sv; rq.f = S.f; rq.x0.assign(S.A.n, 0.0);
                    rq.coarse_enough_nodes = S.A.n / b <= 3 ? 1 : 2;
                    Out ref = run_scalar(rq);
                    bool refconv = false;
                    if (!ref.threw && all_finite(ref.x) && std::isfinite(ref.resid)) { ld tr = truth(S.A, S.f, ref.x); refconv = ref.resid < 1e-8 && tr < 1e-8L * (1 + 1e-6L) + bound(ref.iters, S.A.n, S.sv, 0, sg::norm2_ld(ref.x), S.fn, ref.resid); }
                    vf::count(ref.threw ? "scalar_reference.threw" : refconv ? "scalar_reference.converged" : "scalar_reference.not_converged");
                    if (ref.threw) logev("REFTHREW", "scalar", key, ref.what); else if (!refconv) logev("REFNOTCONV", "scalar", key, refconvstr(ref, false));
                    bool any2 = false;
                    for (auto &p : ps) for (int form = 0; form < 2; ++form) {
                        // single-precision preconditioner: only the documented call form S(A, rhs, x) with the user's double-precision
                        // matrix; S(rhs, x) would iterate on the preconditioner's single-precision copy of the matrix
                        if (form == 0 && p.name.find("mixed") != std::string::npos) continue;
                        rq.form = form; rq.maxiter = 100;
                        Out o = p.run(rq);
                        if (o.ran && !o.threw && (o.levels >= 2 || o.iters >= 2)) any2 = true;
                        const std::string subtag = p.btype + std::to_string(b) + "." + p.name + (form ? ".A" : "");
                        judge(key, subtag, S, rq, o, ref, refconv);
                        judge_hybrid_action(key, subtag, p.name, S, rq, o, ref);
                        if (o.ran && !o.threw && o.second && all_finite(o.x2) && std::isfinite(o.resid2)) {
                            // true residual of the second solve against the UPDATED matrix (diagonal times 1.25)
                            ld rr = 0;
                            for (int i = 0; i < S.A.n; ++i) { ld a = S.f[i]; for (ptrdiff_t j = S.A.ptr[i]; j < S.A.ptr[i + 1]; ++j) a -= (ld)(S.A.col[j] == i ? S.A.val[j] * 1.25 : S.A.val[j]) * o.x2[S.A.col[j]]; rr += a * a; }
                            ld tr2 = sqrtl(rr) / S.fn;
                            vf::count("second_solve_after_inplace_update." + p.name);
                            if (o.resid2 < 1e-8 && !(tr2 < 1e-6L)) cfail("path.inplace_update." + subtag, key, vf::KS() << "second S(A,rhs,x) after the values of A were updated in place: reported " << o.resid2 << " but the residual against the updated matrix is " << (double)tr2 << " (iters " << o.iters2 << ") :: " << rq.coarsening << "+" << rq.relax << "+" << rq.solver << " :: " << S.descr);
                        }
                        if (o.ran && !o.threw && o.iters > 2) { rq.maxiter = 2; Out oe = p.run(rq); judge_early(key, subtag, S, rq, oe); rq.maxiter = 100; }
                        else if (o.ran && !o.threw) { judge_early(key, subtag, S, rq, o); }      // the full run stopped within 2 iterations: it is its own early probe
                    }
                    if (any2) vf::nontrivial(vf::hstr(key));
                }
            }
            vf::space(vf::KS() << "b=" << b << ": " << sys.size() << " systems (3-node patterns x fill schemes, A (x) B, grids) x " << (T ? "all" : "a third of the") << " 4 coarsenings x 9 relaxations x solvers = " << ncfg << " cases x " << ps.size() << " paths x 2 call forms");
        }
    }
    vf::sample_str("sv|3|p21s7n: " + sg::show(block_pattern(3, node_adj_mask(3, node3_from_offdiag(3, 21)), 3, 7, 1)));
    return vf::finish();
}
