// C11 -- distributed matrix algebra equals serial algebra for every partition.
// Ranks are fibers under the in-process mini-MPI; for every (matrix, rank count, row partition,
// column partition) the real amgcl::mpi code runs under several schedules / completion modes
// (all cases) and under a preemption- and deviation-bounded DFS over rank interleavings and
// eager/late completions (a slice of the cases).  Integer values => oracle is ==.
#include <mpi.h>
#include <amgcl/backend/builtin.hpp>
#include <amgcl/adapter/crs_tuple.hpp>
#include <amgcl/mpi/util.hpp>
#include <amgcl/mpi/distributed_matrix.hpp>
#include <amgcl/mpi/inner_product.hpp>
#include <cstring>
#include "vf.hpp"
#include "mk.hpp"
#include "vsched.hpp"

using namespace amgcl;
typedef backend::builtin<double> B;
typedef backend::crs<double> Crs;
typedef mpi::distributed_matrix<B> DM;

static inline double ival(int i, int j, int salt) { int v = 1 + (3 * i + 5 * j + salt) % 4; return ((i + 2 * j + salt) & 1) ? -v : v; }

struct Part { std::vector<int> b; int k() const { return (int)b.size() - 1; } };   // b[0]=0 .. b[k]=n
static void compositions(int n, int k, std::vector<Part> &out) {
    std::vector<int> cut(k + 1, 0); cut[k] = n;
    std::function<void(int)> rec = [&](int i) {
        if (i == k) { Part p; p.b = cut; out.push_back(p); return; }
        for (int c = cut[i - 1]; c <= n; ++c) { cut[i] = c; rec(i + 1); }
    };
    if (k == 1) { Part p; p.b = {0, n}; out.push_back(p); return; }
    rec(1);
}
static std::string pshow(const Part &p) { vf::KS k; for (size_t i = 0; i < p.b.size(); ++i) k << (i ? "," : "") << p.b[i]; return k; }

// results written by the ranks, read by the harness after the run
struct Out {
    mk::Dense<double> T, AAt, AtA, S, Cp;      // assembled global results
    std::vector<std::string> err;               // structural errors seen by ranks
    std::vector<double> y, r;                   // spmv / residual (by global row)
    std::vector<double> ip, gersh, power;       // per rank scalars
    std::vector<long> grows, gcols, gnnz;
    std::vector<std::string> rr;                // remote_rows verdict per rank
    std::vector<std::string> exc;
};

static void assemble(const DM &D, int rbeg, mk::Dense<double> &G, std::vector<std::string> &err, const char *what) {
    const Crs &L = *D.local(); const Crs &R = *D.remote();
    ptrdiff_t shift = D.loc_col_shift();
    for (size_t i = 0; i < L.nrows; ++i) {
        for (auto j = L.ptr[i]; j < L.ptr[i+1]; ++j) {
            long c = L.col[j] + shift;
            if (c < 0 || c >= G.n || rbeg + (int)i >= G.m) { err.push_back(std::string(what) + ": local column/row out of range"); continue; }
            if (G.st(rbeg + i, c)) err.push_back(std::string(what) + ": duplicate entry");
            G.st(rbeg + i, c) = 1; G(rbeg + i, c) = L.val[j];
        }
        for (auto j = R.ptr[i]; j < R.ptr[i+1]; ++j) {
            long c = R.col[j];
            if (c < 0 || c >= G.n) { err.push_back(std::string(what) + ": remote column out of range"); continue; }
            if (c >= shift && c < shift + (long)L.ncols) err.push_back(std::string(what) + ": remote part holds a locally owned column");
            if (G.st(rbeg + i, c)) err.push_back(std::string(what) + ": duplicate entry");
            G.st(rbeg + i, c) = 1; G(rbeg + i, c) = R.val[j];
        }
    }
}

struct Case { int m, n; uint64_t mask; Part rp, cp; mk::Dense<double> G; bool square_diag; int ops = 31; };
// ops bits: 1 transpose+remote_rows, 2 products, 4 scale/sort/backend copy, 8 spectral radius, 16 spmv/residual/inner product

static void rank_body(int rank, const Case &cs, Out &o) {
    try {
        mpi::communicator comm(MPI_COMM_WORLD);
        int rb = cs.rp.b[rank], re = cs.rp.b[rank + 1], cb = cs.cp.b[rank], ce = cs.cp.b[rank + 1];
        // local strip with global column numbers
        mk::Dense<double> strip(re - rb, cs.n);
        for (int i = rb; i < re; ++i) for (int j = 0; j < cs.n; ++j) if (cs.G.st(i, j)) { strip.st(i - rb, j) = 1; strip(i - rb, j) = cs.G(i, j); }
        auto Sm = mk::to_crs<double>(strip);
        auto A = std::make_shared<DM>(comm, *Sm, (ptrdiff_t)(ce - cb));
        o.grows[rank] = A->glob_rows(); o.gcols[rank] = A->glob_cols(); o.gnnz[rank] = A->glob_nonzeros();
        // transpose: rows of A^T are distributed like the columns of A
        std::shared_ptr<DM> At;
        if (cs.ops & 3) { At = mpi::transpose(*A); assemble(*At, cb, o.T, o.err, "transpose"); }
        // products
        if (cs.ops & 2) {
            auto P1 = mpi::product(*A, *At);  assemble(*P1, rb, o.AAt, o.err, "A*At");
            auto P2 = mpi::product(*At, *A);  assemble(*P2, cb, o.AtA, o.err, "At*A");
        }
        // scale + sort_rows on a copy built from the same strip
        if (cs.ops & 4) {
            auto A2 = std::make_shared<DM>(comm, *Sm, (ptrdiff_t)(ce - cb));
            mpi::scale(*A2, 2.0); mpi::sort_rows(*A2);
            assemble(*A2, rb, o.S, o.err, "scale");
            for (auto M : {A2->local().get(), A2->remote().get()})
                for (size_t i = 0; i < M->nrows; ++i) for (auto j = M->ptr[i] + 1; j < M->ptr[i+1]; ++j) if (M->col[j-1] >= M->col[j]) o.err.push_back("sort_rows: row not sorted");
        }
        // copy between backends (other index types)
        if (cs.ops & 4) {
            typedef backend::builtin<double, int, int> B2;
            mpi::distributed_matrix<B2> A3(*A);
            if (A3.glob_rows() != A->glob_rows() || A3.glob_cols() != A->glob_cols() || A3.glob_nonzeros() != A->glob_nonzeros() || A3.loc_rows() != A->loc_rows()) o.err.push_back("backend copy: sizes differ");
            const auto &L3 = *A3.local(); const Crs &L = *A->local();
            if (L3.nnz != L.nnz) o.err.push_back("backend copy: local nnz differs");
            else for (size_t j = 0; j < L.nnz; ++j) if (L3.col[j] != L.col[j] || L3.val[j] != L.val[j]) { o.err.push_back("backend copy: local entries differ"); break; }
            const auto &R3 = *A3.remote(); const Crs &R = *A->remote();
            if (R3.nnz != R.nnz) o.err.push_back("backend copy: remote nnz differs");
            else for (size_t j = 0; j < R.nnz; ++j) if (R3.col[j] != R.col[j] || R3.val[j] != R.val[j]) { o.err.push_back("backend copy: remote entries differ"); break; }
            for (size_t i = 0; i < L.nrows; ++i) for (auto j = L3.ptr[i]; j < L3.ptr[i+1]; ++j) {
                long c = L3.col[j] + A3.loc_col_shift();
                if (o.Cp.st(rb + i, c)) o.err.push_back("backend copy: duplicate");
                o.Cp.st(rb + i, c) = 1; o.Cp(rb + i, c) = L3.val[j];
            }
            for (size_t i = 0; i < R.nrows; ++i) for (auto j = R3.ptr[i]; j < R3.ptr[i+1]; ++j) { o.Cp.st(rb + i, R3.col[j]) = 1; o.Cp(rb + i, R3.col[j]) = R3.val[j]; }
        }
        // remote_rows: rows of At that correspond to the remote columns of A
        if (cs.ops & 1) {
            auto Rr = mpi::remote_rows(A->cpat(), *At);
            std::vector<ptrdiff_t> need(A->remote()->col, A->remote()->col + A->remote()->nnz);
            std::sort(need.begin(), need.end()); need.erase(std::unique(need.begin(), need.end()), need.end());
            std::string v = "ok";
            if (Rr->nrows != need.size()) v = "row count";
            else for (size_t i = 0; i < need.size() && v == "ok"; ++i) {
                // row need[i] of A^T = column need[i] of A
                std::vector<std::pair<long,double>> want, got;
                for (int q = 0; q < cs.m; ++q) if (cs.G.st(q, need[i])) want.push_back({q, cs.G(q, need[i])});
                for (auto j = Rr->ptr[i]; j < Rr->ptr[i+1]; ++j) got.push_back({Rr->col[j], Rr->val[j]});
                std::sort(got.begin(), got.end());
                if (want != got) v = "row content";
            }
            o.rr[rank] = v;
        }
        // spectral radius
        if ((cs.ops & 8) && cs.square_diag && cs.rp.b == cs.cp.b) {
            o.gersh[rank] = backend::spectral_radius<true>(*A, 0);
            o.power[rank] = backend::spectral_radius<true>(*A, 3);
        }
        // spmv / residual / inner product on the backend copy
        if (!(cs.ops & 16)) return;
        A->move_to_backend(B::params(), true);
        int nr = re - rb, nc = ce - cb;
        backend::numa_vector<double> x(nc), y(nr), f(nr), r(nr);
        for (int j = 0; j < nc; ++j) x[j] = 1 + ((cb + j) * 3) % 5;
        for (int i = 0; i < nr; ++i) { y[i] = 2 - ((rb + i) % 3); f[i] = 7 + (rb + i); }
        backend::spmv(2.0, *A, x, -1.0, y);
        backend::residual(f, *A, x, r);
        for (int i = 0; i < nr; ++i) { o.y[rb + i] = y[i]; o.r[rb + i] = r[i]; }
        // beta = 0 must ignore previous content
        { backend::numa_vector<double> z(nr); for (int i = 0; i < nr; ++i) z[i] = std::numeric_limits<double>::quiet_NaN(); backend::spmv(1.0, *A, x, 0.0, z);
          for (int i = 0; i < nr; ++i) if (!(z[i] == (o.y[rb + i] + (2 - ((rb + i) % 3))) / 2.0)) { o.err.push_back("spmv beta=0 depends on previous output content"); break; } }
        if (cs.m == cs.n) {
            // inner product of two vectors distributed like the rows (needs equal lengths)
            backend::numa_vector<double> u(nr), w(nr);
            for (int i = 0; i < nr; ++i) { u[i] = 1 + (rb + i) % 4; w[i] = 3 - (rb + i) % 5; }
            mpi::inner_product ip(comm);
            o.ip[rank] = ip(u, w);
        }
    } catch (const vs::Deadlock &) { throw; }
    catch (const std::exception &e) { o.exc[rank] = e.what(); }
}

struct Env { int policy, send_mode, recv_mode; bool reverse; const char *name; };
static const Env ENVS[] = {{0,0,0,false,"fifo/eager"}, {1,0,0,true,"reverse/eager"}, {0,1,1,false,"fifo/late"}, {2,1,0,true,"preempt-always/late-send"}};

static std::string judge(const Case &cs, const Out &o) {
    int k = cs.rp.k();
    for (auto &e : o.exc) if (!e.empty()) return "exception on a rank: " + e;
    if (!o.err.empty()) return o.err[0];
    std::string why;
    mk::Dense<double> T(cs.n, cs.m);
    for (int i = 0; i < cs.m; ++i) for (int j = 0; j < cs.n; ++j) if (cs.G.st(i, j)) { T.st(j, i) = 1; T(j, i) = cs.G(i, j); }
    if ((cs.ops & 3) && !mk::same(o.T, T, why)) return "transpose: " + why;
    auto prod = [](const mk::Dense<double> &X, const mk::Dense<double> &Y) { mk::Dense<double> C(X.m, Y.n);
        for (int i = 0; i < X.m; ++i) for (int q = 0; q < X.n; ++q) if (X.st(i, q)) for (int j = 0; j < Y.n; ++j) if (Y.st(q, j)) { if (!C.st(i, j)) { C.st(i, j) = 1; C(i, j) = X(i, q) * Y(q, j); } else C(i, j) += X(i, q) * Y(q, j); } return C; };
    if ((cs.ops & 2) && !mk::same(o.AAt, prod(cs.G, T), why)) return "product A*At: " + why;
    if ((cs.ops & 2) && !mk::same(o.AtA, prod(T, cs.G), why)) return "product At*A: " + why;
    mk::Dense<double> S = cs.G; for (auto &v : S.a) v *= 2;
    if ((cs.ops & 4) && !mk::same(o.S, S, why)) return "scale: " + why;
    if ((cs.ops & 4) && !mk::same(o.Cp, cs.G, why)) return "backend copy: " + why;
    for (int r = 0; r < k; ++r) {
        if ((cs.ops & 1) && o.rr[r] != "ok") return "remote_rows on rank " + std::to_string(r) + ": " + o.rr[r];
        if (o.grows[r] != cs.m || o.gcols[r] != cs.n || o.gnnz[r] != cs.G.nnz()) return "global sizes wrong on rank " + std::to_string(r);
    }
    for (int i = 0; i < cs.m && (cs.ops & 16); ++i) {
        double s = 0; for (int j = 0; j < cs.n; ++j) if (cs.G.st(i, j)) s += cs.G(i, j) * (1 + (j * 3) % 5);
        double y = 2 * s - (2 - (i % 3)), r = (7 + i) - s;
        if (o.y[i] != y) return vf::KS() << "spmv row " << i << " got " << o.y[i] << " want " << y;
        if (o.r[i] != r) return vf::KS() << "residual row " << i << " got " << o.r[i] << " want " << r;
    }
    if (cs.m == cs.n && (cs.ops & 16)) {
        double s = 0; for (int i = 0; i < cs.m; ++i) s += (1 + i % 4) * (3 - i % 5);
        for (int r = 0; r < k; ++r) if (o.ip[r] != s) return vf::KS() << "inner product on rank " << r << " = " << o.ip[r] << " want " << s;
    }
    if ((cs.ops & 8) && cs.square_diag && cs.rp.b == cs.cp.b) {   // the scaled estimate needs the diagonal to be local: same row and column partition
        double g = 0; for (int i = 0; i < cs.m; ++i) { double s = 0; for (int j = 0; j < cs.n; ++j) s += std::abs(cs.G(i, j)); s *= std::abs(1.0 / cs.G(i, i)); g = std::max(g, s); }
        for (int r = 0; r < k; ++r) {
            if (o.gersh[r] != g) return vf::KS() << "Gershgorin on rank " << r << " = " << o.gersh[r] << " serial " << g;
            if (std::memcmp(&o.power[r], &o.power[0], 8) != 0) return vf::KS() << "power-method estimate differs between ranks: " << o.power[r] << " vs " << o.power[0];
        }
    }
    return "";
}

static Out fresh_out(const Case &cs) {
    int k = cs.rp.k();
    Out o; o.T = mk::Dense<double>(cs.n, cs.m); o.AAt = mk::Dense<double>(cs.m, cs.m); o.AtA = mk::Dense<double>(cs.n, cs.n); o.S = mk::Dense<double>(cs.m, cs.n); o.Cp = mk::Dense<double>(cs.m, cs.n);
    o.y.assign(cs.m, 0); o.r.assign(cs.m, 0); o.ip.assign(k, 0); o.gersh.assign(k, 0); o.power.assign(k, 0);
    o.grows.assign(k, -1); o.gcols.assign(k, -1); o.gnnz.assign(k, -1); o.rr.assign(k, "not run"); o.exc.assign(k, "");
    return o;
}

static std::string run_env(const Case &cs, const Env &e, const std::vector<int> *prefix = nullptr, bool explore_completion = false) {
    vs::cfg().default_policy = e.policy; vs::cfg().max_threads = 1;
    vs::cfg().prefix = prefix ? *prefix : std::vector<int>();
    mm::cfg().send_mode = e.send_mode; mm::cfg().recv_mode = e.recv_mode; mm::cfg().reduce_reverse = e.reverse; mm::cfg().explore_completion = explore_completion;
    Out o = fresh_out(cs);
    if (!prefix) vs::begin_execution();
    try { mm::run(cs.rp.k(), [&](int r) { rank_body(r, cs, o); }); }
    catch (const vs::Deadlock &d) { return std::string("DEADLOCK: ") + d.what(); }
    catch (const std::exception &x) { return std::string("exception escaped: ") + x.what(); }
    return judge(cs, o);
}

static void run_case(const Case &cs, const std::string &key, bool explore) {
    for (auto &e : ENVS) {
        std::string v = run_env(cs, e);
        vf::count("executions");
        vf::S().transitions += 1;
        if (!v.empty()) { vf::fail("dist.fixed_schedules", key, vf::KS() << "schedule " << e.name << ": " << v << " ; G=" << mk::show(cs.G) << " rows " << pshow(cs.rp) << " cols " << pshow(cs.cp)); return; }
    }
    vf::S().states += 1;
    if (mm::stats().p2p_messages > 0) vf::nontrivial(vf::hstr(key));
    if (explore) {
        // DFS over rank interleavings and completion modes, delay bounded: at most 1 (thorough: 2) departures
        // from the default schedule (any non-default choice of the next rank or of a completion mode).
        // The operations are explored in five separate scenarios so that each bounded search completes.
        for (int ops : {1, 3, 4, 8, 16}) {
            Case c2 = cs; c2.ops = ops;
            std::string bad; std::vector<int> badc;
            Env e = ENVS[0];
            auto st = vs::explore([&]() -> uint64_t {
                std::vector<int> pf = vs::cfg().prefix;
                std::string v = run_env(c2, e, &pf, true);
                if (!v.empty() && bad.empty()) bad = v;
                return vf::hstr(v);
            }, vf::quick() ? 1 : 2, 60000, [&](const std::vector<int> &ch, uint64_t) { if (!bad.empty() && badc.empty()) badc = ch; }, true);
            vf::S().states += st.states; vf::S().transitions += st.transitions + st.executions;
            vf::count("explored_scenarios"); vf::count("executions", st.executions);
            if (st.capped) { vf::count("explore_capped"); vf::cap("bounded DFS hit the per-scenario execution cap (60000) on some cases"); }
            if (!bad.empty()) {
                int same = 0; for (int q = 0; q < 2; ++q) { vs::begin_execution(); std::string v = run_env(c2, e, &badc, true); if (v == bad) ++same; }
                vf::S().traces_validated += same;
                vf::KS k; for (size_t i = 0; i < badc.size(); ++i) k << (i ? "," : "") << badc[i];
                vf::fail("dist.explored_schedule", key, vf::KS() << "ops=" << ops << ": " << bad << " under choice list [" << k.str() << "] (replayed " << same << "/2) ; G=" << mk::show(cs.G) << " rows " << pshow(cs.rp) << " cols " << pshow(cs.cp));
                break;
            }
        }
    }
}

int main(int argc, char **argv) {
    vf::init(argc, argv, "C11");
    vf::sample_str("case: G = 3x3 pattern mask 0x1b7 with integer values, 3 ranks, row partition 0,1,1,3 (rank 1 owns nothing), column partition 0,2,3,3; operations: construct, transpose, A*At, At*A, scale, sort_rows, backend copy, remote_rows, spectral radius, spmv, residual, inner product; schedules fifo/eager, reverse/eager, fifo/late, preempt-always/late-send (+ bounded DFS on a slice)");
    long long cidx = 0;
    if (vf::section("d")) {
        int maxk = 4;
        struct Shape { int m, n; };
        std::vector<Shape> shapes = {{1,1},{1,2},{2,1},{2,2},{2,3},{3,2},{3,3}};
        if (vf::thorough()) { shapes.push_back({3,4}); shapes.push_back({4,3}); }
        for (auto sh : shapes) for (int k = 1; k <= maxk; ++k) {
            std::vector<Part> rps, cps; compositions(sh.m, k, rps); compositions(sh.n, k, cps);
            for (uint64_t mask = 0; mask < (1ull << (sh.m * sh.n)); ++mask) {
                if (!vf::take_group()) continue;
                Case cs; cs.m = sh.m; cs.n = sh.n; cs.mask = mask;
                cs.G = mk::from_mask<double>(sh.m, sh.n, mask, [](int i, int j) { return ival(i, j, 0); });
                cs.square_diag = sh.m == sh.n; for (int i = 0; i < sh.m && cs.square_diag; ++i) cs.square_diag = cs.G.st(i, i);
                for (auto &rp : rps) for (auto &cp : cps) {
                    // quick tier: independent row/column partitions only for k <= 3
                    if (vf::quick() && k == 4 && sh.m == sh.n && pshow(rp) != pshow(cp) && (mask % 4) != 1) continue;
                    std::string key = vf::KS() << "d|" << sh.m << "x" << sh.n << "|" << mask << "|" << k << "|" << pshow(rp) << "|" << pshow(cp);
                    if (!vf::take_in_group([&]{ return key; })) continue;
                    cs.rp = rp; cs.cp = cp;
                    ++cidx;
                    bool explore = (k >= 2 && k <= 3 && (cidx % (vf::quick() ? 97 : 61)) == 0) || vf::replaying();
                    run_case(cs, key, explore);
                }
            }
            vf::space(vf::KS() << "all patterns " << sh.m << "x" << sh.n << " x " << k << " ranks x all contiguous row partitions x all column partitions (empty ranks included)");
        }
    }
    // structured larger matrices: banded / arrow, square, same partition for rows and columns, all compositions
    if (vf::section("s")) {
        for (int n : {5, 6, (vf::thorough() ? 8 : 6)}) for (int kind = 0; kind < 3; ++kind) for (int k = 1; k <= 4; ++k) {
            std::vector<Part> ps; compositions(n, k, ps);
            for (auto &p : ps) {
                std::string key = vf::KS() << "s|" << n << "|" << kind << "|" << k << "|" << pshow(p);
                if (!vf::take([&]{ return key; })) continue;
                Case cs; cs.m = cs.n = n; cs.mask = 0; cs.rp = p; cs.cp = p; cs.G = mk::Dense<double>(n, n);
                for (int i = 0; i < n; ++i) for (int j = 0; j < n; ++j) {
                    bool st = (i == j) || (kind == 0 && std::abs(i - j) <= 2) || (kind == 1 && (i == 0 || j == 0 || std::abs(i - j) == 1)) || (kind == 2 && (j == (i * 2 + 1) % n || j == (i + 3) % n));
                    if (st) { cs.G.st(i, j) = 1; cs.G(i, j) = i == j ? 8 : ival(i, j, kind); }
                }
                cs.square_diag = true;
                run_case(cs, key, k >= 2 && k <= 3 && n <= 6 && ((p.b[1] * 7 + p.b[k-1]) % (vf::quick() ? 13 : 3) == 0));
            }
            vf::space(vf::KS() << "structured " << n << "x" << n << " kind " << kind << " (band/arrow/scattered nonsymmetric) x " << k << " ranks x all contiguous partitions");
        }
    }
    return vf::finish();
}
