// C11 -- distributed matrix algebra equals serial algebra for every partition.
// Ranks are fibers under the in-process mini-MPI; for every (matrix, rank count, row partition,
// column partition) the real amgcl::mpi code runs under several schedules / completion modes
// (all cases) and under a preemption- and deviation-bounded DFS over rank interleavings and
// eager/late completions (a slice of the cases).  Integer values => oracle is ==.
#include "C11_body.hpp"

struct Env { int policy, send_mode, recv_mode; bool reverse; const char *name; int threads = 1; };
// the last schedule gives every rank an OpenMP team of 3 (fibers inside the rank fiber) under the reverse policy, so that the chunk
// of the highest thread runs first: state that a parallel loop shares between its iterations by mistake is met in the "wrong" order
static const Env ENVS[] = {{0,0,0,false,"fifo/eager"}, {1,0,0,true,"reverse/eager"}, {0,1,1,false,"fifo/late"}, {2,1,0,true,"preempt-always/late-send"}, {1,0,0,false,"reverse/eager/3-threads-per-rank",3}};

static std::string judge(const Case &cs, const Out &o) {
    int k = cs.rp.k();
    for (auto &e : o.exc) if (!e.empty()) return "exception on a rank: " + e;
    if (!o.err.empty()) return o.err[0];
    std::string why;
    mk::Dense<double> T(cs.n, cs.m);
    for (int i = 0; i < cs.m; ++i) for (int j = 0; j < cs.n; ++j) if (cs.G.st(i, j)) { T.st(j, i) = 1; T(j, i) = cs.G(i, j); }
    if ((cs.ops & 3) && !mk::same(o.T, T, why)) return "transpose: " + why;
    auto prod = [](const mk::Dense<double> &X, const mk::Dense<double> &Y) { mk::Dense<double> C(X.m, Y.n);
        for (int i = 0; i < X.m; ++i) for (int q = 0; q < X.n; ++q) if (X.st(i, q)) for (int j = 0; j < Y.n; ++j) if (Y.st(q, j)) { if (!C.st(i, j)) { C.st(i, j) = 1; C(i, j) = X(i, q) * Y(q, j); } else C(i, j) += X(i, q) * Y(q, j); } return C; };
    if ((cs.ops & 2) && !mk::same(o.AAt, prod(cs.G, T), why)) return "product A*At: " + why;
    if ((cs.ops & 2) && !mk::same(o.AtA, prod(T, cs.G), why)) return "product At*A: " + why;
    mk::Dense<double> S = cs.G; for (auto &v : S.a) v *= 2;
    if ((cs.ops & 4) && !mk::same(o.S, S, why)) return "scale: " + why;
    if ((cs.ops & 4) && !mk::same(o.Cp, cs.G, why)) return "backend copy: " + why;
    for (int r = 0; r < k; ++r) {
        if ((cs.ops & 1) && o.rr[r] != "ok") return "remote_rows on rank " + std::to_string(r) + ": " + o.rr[r];
        if (o.grows[r] != cs.m || o.gcols[r] != cs.n || o.gnnz[r] != cs.G.nnz()) return "global sizes wrong on rank " + std::to_string(r);
    }
    if (cs.ops & 16) {
        if (!mk::same(o.K, cs.G, why)) return "source kept by move_to_backend(keep_src): " + why;
        if (!mk::same(o.T2, T, why)) return "transpose of the kept source: " + why;
    }
    for (int i = 0; i < cs.m && (cs.ops & 16); ++i) {
        double s = 0; for (int j = 0; j < cs.n; ++j) if (cs.G.st(i, j)) s += cs.G(i, j) * (1 + (j * 3) % 5);
        double y = 2 * s - (2 - (i % 3)), r = (7 + i) - s;
        double s0 = 0; for (int j = 0; j < cs.n; ++j) if (cs.G.st(i, j)) s0 += cs.G(i, j) * (2 - (j % 4));
        if (o.y0[i] != s0) return vf::KS() << "first of two consecutive products on one object: row " << i << " got " << o.y0[i] << " want " << s0 << " (the product with the second vector gives " << s << ")";
        if (o.y[i] != y) return vf::KS() << "spmv row " << i << " got " << o.y[i] << " want " << y;
        if (o.r[i] != r) return vf::KS() << "residual row " << i << " got " << o.r[i] << " want " << r;
    }
    if (cs.m == cs.n && (cs.ops & 16)) {
        double s = 0; for (int i = 0; i < cs.m; ++i) s += (1 + i % 4) * (3 - i % 5);
        for (int r = 0; r < k; ++r) if (o.ip[r] != s) return vf::KS() << "inner product on rank " << r << " = " << o.ip[r] << " want " << s;
        std::complex<double> sc(0, 0);
        for (int i = 0; i < cs.m; ++i) sc += std::complex<double>(1 + i % 4, 2 - i % 3) * std::conj(std::complex<double>(3 - i % 5, 1 + i % 2));
        for (int r = 0; r < k; ++r) if (o.ipc[r] != sc) return vf::KS() << "complex inner product on rank " << r << " = " << o.ipc[r] << " want sum x_i conj(y_i) = " << sc;
    }
    if ((cs.ops & 8) && cs.square_diag && cs.rp.b == cs.cp.b) {   // the scaled estimate needs the diagonal to be local: same row and column partition
        double g = 0; for (int i = 0; i < cs.m; ++i) { double s = 0; for (int j = 0; j < cs.n; ++j) s += std::abs(cs.G(i, j)); s *= std::abs(1.0 / cs.G(i, i)); g = std::max(g, s); }
        for (int r = 0; r < k; ++r) {
            if (o.gersh[r] != g) return vf::KS() << "Gershgorin on rank " << r << " = " << o.gersh[r] << " serial " << g;
            if (std::memcmp(&o.power[r], &o.power[0], 8) != 0) return vf::KS() << "power-method estimate differs between ranks: " << o.power[r] << " vs " << o.power[0];
        }
    }
    return "";
}

static std::string run_env(const Case &cs, const Env &e, const std::vector<int> *prefix = nullptr, bool explore_completion = false) {
    vs::cfg().default_policy = e.policy; vs::cfg().max_threads = e.threads;
    vs::cfg().prefix = prefix ? *prefix : std::vector<int>();
    mm::cfg().send_mode = e.send_mode; mm::cfg().recv_mode = e.recv_mode; mm::cfg().reduce_reverse = e.reverse; mm::cfg().explore_completion = explore_completion;
    Out o = fresh_out(cs);
    if (!prefix) vs::begin_execution();
    try { mm::run(cs.rp.k(), [&](int r) { rank_body(r, cs, o); }); }
    catch (const vs::Deadlock &d) { return std::string("DEADLOCK: ") + d.what(); }
    catch (const std::exception &x) { return std::string("exception escaped: ") + x.what(); }
    return judge(cs, o);
}

static void run_case(const Case &cs, const std::string &key, int explore) {   // explore: 0 none, 1 delay bound 1, 2 delay bound 2
    for (auto &e : ENVS) {
        std::string v = run_env(cs, e);
        vf::count("executions");
        vf::S().transitions += 1;
        if (!v.empty()) { vf::fail("dist.fixed_schedules", key, vf::KS() << "schedule " << e.name << ": " << v << " ; G=" << mk::show(cs.G) << " rows " << pshow(cs.rp) << " cols " << pshow(cs.cp)); return; }
    }
    vf::S().states += 1;
    if (mm::stats().p2p_messages > 0) vf::nontrivial(vf::hstr(key));
    if (explore) {
        // DFS over rank interleavings and completion modes, delay bounded: at most `explore` (1; on a thin slice of the thorough tier 2) departures
        // from the default schedule (any non-default choice of the next rank or of a completion mode).
        // The operations are explored in five separate scenarios so that each bounded search completes.
        for (int ops : {1, 3, 4, 8, 16}) {
            Case c2 = cs; c2.ops = ops;
            std::string bad; std::vector<int> badc;
            Env e = ENVS[0];
            auto st = vs::explore([&]() -> uint64_t {
                std::vector<int> pf = vs::cfg().prefix;
                std::string v = run_env(c2, e, &pf, true);
                if (!v.empty() && bad.empty()) bad = v;
                return vf::hstr(v);
            }, explore, explore >= 2 ? 1500000 : 60000, [&](const std::vector<int> &ch, uint64_t) { if (!bad.empty() && badc.empty()) badc = ch; }, true);
            vf::S().states += st.states; vf::S().transitions += st.transitions + st.executions;
            vf::count("explored_scenarios"); vf::count("executions", st.executions);
            if (st.capped) { vf::count("explore_capped"); vf::cap("bounded DFS hit the per-scenario execution cap (60000 for bound 1, 1500000 for bound 2) on some cases"); }
            if (!bad.empty()) {
                int same = 0; for (int q = 0; q < 2; ++q) { vs::begin_execution(); std::string v = run_env(c2, e, &badc, true); if (v == bad) ++same; }
                vf::S().traces_validated += same;
                vf::KS k; for (size_t i = 0; i < badc.size(); ++i) k << (i ? "," : "") << badc[i];
                vf::fail("dist.explored_schedule", key, vf::KS() << "ops=" << ops << ": " << bad << " under choice list [" << k.str() << "] (replayed " << same << "/2) ; G=" << mk::show(cs.G) << " rows " << pshow(cs.rp) << " cols " << pshow(cs.cp));
                break;
            }
        }
    }
}

int main(int argc, char **argv) {
    vf::init(argc, argv, "C11");
    vf::sample_str("case: G = 3x3 pattern mask 0x1b7 with integer values, 3 ranks, row partition 0,1,1,3 (rank 1 owns nothing), column partition 0,2,3,3; operations: construct, transpose, A*At, At*A, scale, sort_rows, backend copy, remote_rows, spectral radius, spmv, residual, inner product; schedules fifo/eager, reverse/eager, fifo/late, preempt-always/late-send (+ bounded DFS on a slice)");
    long long cidx = 0;
    if (vf::section("d")) {
        int maxk = 4;
        struct Shape { int m, n; };
        std::vector<Shape> shapes = {{1,1},{1,2},{2,1},{2,2},{2,3},{3,2},{3,3}};
        if (vf::thorough()) { shapes.push_back({3,4}); shapes.push_back({4,3}); }
        for (auto sh : shapes) for (int k = 1; k <= maxk; ++k) {
            std::vector<Part> rps, cps; compositions(sh.m, k, rps); compositions(sh.n, k, cps);
            for (uint64_t mask = 0; mask < (1ull << (sh.m * sh.n)); ++mask) {
                if (!vf::take_group()) continue;
                Case cs; cs.m = sh.m; cs.n = sh.n; cs.mask = mask;
                cs.G = mk::from_mask<double>(sh.m, sh.n, mask, [](int i, int j) { return ival(i, j, 0); });
                cs.square_diag = sh.m == sh.n; for (int i = 0; i < sh.m && cs.square_diag; ++i) cs.square_diag = cs.G.st(i, i);
                for (auto &rp : rps) for (auto &cp : cps) {
                    // quick tier: independent row/column partitions only for k <= 3
                    if (vf::quick() && k == 4 && sh.m == sh.n && pshow(rp) != pshow(cp) && (mask % 4) != 1) continue;
                    std::string key = vf::KS() << "d|" << sh.m << "x" << sh.n << "|" << mask << "|" << k << "|" << pshow(rp) << "|" << pshow(cp);
                    if (!vf::take_in_group([&]{ return key; })) continue;
                    cs.rp = rp; cs.cp = cp;
                    ++cidx;
                    int explore = (k >= 2 && k <= 3 && (cidx % (vf::quick() ? 97 : 61)) == 0) ? 1 : 0;
                    if (vf::thorough() && k >= 2 && k <= 3 && (cidx % 30011) == 0) explore = 2;
                    if (vf::replaying()) explore = 2;
                    run_case(cs, key, explore);
                }
            }
            vf::space(vf::KS() << "all patterns " << sh.m << "x" << sh.n << " x " << k << " ranks x all contiguous row partitions x all column partitions (empty ranks included)");
        }
    }
    // structured larger matrices: banded / arrow, square, same partition for rows and columns, all compositions
    if (vf::section("s")) {
        for (int n : {5, 6, (vf::thorough() ? 8 : 6)}) for (int kind = 0; kind < 3; ++kind) for (int k = 1; k <= 4; ++k) {
            std::vector<Part> ps; compositions(n, k, ps);
            for (auto &p : ps) {
                std::string key = vf::KS() << "s|" << n << "|" << kind << "|" << k << "|" << pshow(p);
                if (!vf::take([&]{ return key; })) continue;
                Case cs; cs.m = cs.n = n; cs.mask = 0; cs.rp = p; cs.cp = p; cs.G = mk::Dense<double>(n, n);
                for (int i = 0; i < n; ++i) for (int j = 0; j < n; ++j) {
                    bool st = (i == j) || (kind == 0 && std::abs(i - j) <= 2) || (kind == 1 && (i == 0 || j == 0 || std::abs(i - j) == 1)) || (kind == 2 && (j == (i * 2 + 1) % n || j == (i + 3) % n));
                    if (st) { cs.G.st(i, j) = 1; cs.G(i, j) = i == j ? 8 : ival(i, j, kind); }
                }
                cs.square_diag = true;
                run_case(cs, key, (k >= 2 && k <= 3 && n <= 6 && ((p.b[1] * 7 + p.b[k-1]) % (vf::quick() ? 13 : 3) == 0)) ? 1 : 0);
            }
            vf::space(vf::KS() << "structured " << n << "x" << n << " kind " << kind << " (band/arrow/scattered nonsymmetric) x " << k << " ranks x all contiguous partitions");
        }
    }
    return vf::finish();
}

