// C06_common.hpp -- exact rational helpers, pattern/value enumerators and symbolic ILU patterns
// shared by the C06 units.
#ifndef VERIF_C06_COMMON_HPP
#define VERIF_C06_COMMON_HPP

#include <vector>
#include <string>
#include <random>
#include <cstdlib>
#include <cstdint>
#include <boost/multiprecision/cpp_int.hpp>

namespace c06 {
typedef boost::multiprecision::number<boost::multiprecision::cpp_rational_backend, boost::multiprecision::et_off> Q;
}

// amgcl's power-iteration branch of spectral_radius is instantiated (never executed: power_iters = 0)
// together with the Gershgorin branch; it needs these two names to exist for the rational type.
namespace std { template <> class uniform_real_distribution<c06::Q> { public: uniform_real_distribution(c06::Q, c06::Q) {} template <class G> c06::Q operator()(G&) { std::abort(); } }; }
namespace boost { namespace multiprecision { inline c06::Q sqrt(const c06::Q&) { std::abort(); } } }

#include <amgcl/value_type/interface.hpp>
namespace amgcl { namespace math {
template <> struct norm_impl<c06::Q> { static c06::Q get(const c06::Q &x) { return x < 0 ? c06::Q(-x) : x; } };
}}
#include <amgcl/backend/builtin.hpp>
#include "vf.hpp"
#include "vsched.hpp"

namespace c06 {

static const double U = 1.1102230246251565e-16;   // unit roundoff of double

inline Q qabs(const Q &x) { return x < 0 ? Q(-x) : x; }
inline Q qd(double x) { return Q(x); }                                        // exact
inline double dq(const Q &x) { return x.convert_to<double>(); }
inline long double ldq(const Q &x) { return x.convert_to<long double>(); }

// ---- dense rational matrices -------------------------------------------------------------------
struct QM {
    int m = 0, n = 0; std::vector<Q> a;
    QM() {}
    QM(int m, int n) : m(m), n(n), a((size_t)m * n, Q(0)) {}
    Q& operator()(int i, int j) { return a[(size_t)i * n + j]; }
    const Q& operator()(int i, int j) const { return a[(size_t)i * n + j]; }
    static QM eye(int n) { QM I(n, n); for (int i = 0; i < n; ++i) I(i, i) = 1; return I; }
};
typedef std::vector<Q> QV;

inline QM operator*(const QM &A, const QM &B) {
    QM C(A.m, B.n);
    for (int i = 0; i < A.m; ++i) for (int k = 0; k < A.n; ++k) { if (A(i, k) == 0) continue; for (int j = 0; j < B.n; ++j) C(i, j) += A(i, k) * B(k, j); }
    return C;
}
inline QM operator-(const QM &A, const QM &B) { QM C(A.m, A.n); for (size_t i = 0; i < C.a.size(); ++i) C.a[i] = A.a[i] - B.a[i]; return C; }
inline QM operator+(const QM &A, const QM &B) { QM C(A.m, A.n); for (size_t i = 0; i < C.a.size(); ++i) C.a[i] = A.a[i] + B.a[i]; return C; }
inline QM scaled(const QM &A, const Q &s) { QM C(A.m, A.n); for (size_t i = 0; i < C.a.size(); ++i) C.a[i] = A.a[i] * s; return C; }
inline QM absm(const QM &A) { QM C(A.m, A.n); for (size_t i = 0; i < C.a.size(); ++i) C.a[i] = qabs(A.a[i]); return C; }
inline QV operator*(const QM &A, const QV &x) { QV y(A.m, Q(0)); for (int i = 0; i < A.m; ++i) for (int j = 0; j < A.n; ++j) if (!(A(i, j) == 0)) y[i] += A(i, j) * x[j]; return y; }
inline QV operator-(const QV &a, const QV &b) { QV c(a.size()); for (size_t i = 0; i < a.size(); ++i) c[i] = a[i] - b[i]; return c; }
inline QV operator+(const QV &a, const QV &b) { QV c(a.size()); for (size_t i = 0; i < a.size(); ++i) c[i] = a[i] + b[i]; return c; }
inline QV absv(const QV &a) { QV c(a.size()); for (size_t i = 0; i < a.size(); ++i) c[i] = qabs(a[i]); return c; }

// Gauss-Jordan inverse; returns false when singular
inline bool inverse(const QM &A, QM &X) {
    int n = A.n; QM W = A; X = QM::eye(n);
    for (int c = 0; c < n; ++c) {
        int p = -1; for (int r = c; r < n; ++r) if (!(W(r, c) == 0)) { p = r; break; }
        if (p < 0) return false;
        if (p != c) for (int j = 0; j < n; ++j) { std::swap(W(p, j), W(c, j)); std::swap(X(p, j), X(c, j)); }
        Q inv = Q(1) / W(c, c);
        for (int j = 0; j < n; ++j) { W(c, j) *= inv; X(c, j) *= inv; }
        for (int r = 0; r < n; ++r) if (r != c && !(W(r, c) == 0)) { Q f = W(r, c); for (int j = 0; j < n; ++j) { W(r, j) -= f * W(c, j); X(r, j) -= f * X(c, j); } }
    }
    return true;
}

inline std::string show(const QM &A) {
    vf::KS k; k << A.m << "x" << A.n << "[";
    for (int i = 0; i < A.m; ++i) { k << (i ? ";" : ""); for (int j = 0; j < A.n; ++j) k << (j ? " " : "") << A(i, j); }
    k << "]"; return k;
}
inline std::string show(const QV &v) { vf::KS k; k << "("; for (size_t i = 0; i < v.size(); ++i) k << (i ? " " : "") << v[i]; k << ")"; return k; }

// ---- patterns and value rules ---------------------------------------------------------------------
// off-diagonal bit of (i,j), i != j :  i*(n-1) + (j < i ? j : j-1); diagonal always stored.
inline bool offbit(uint64_t mask, int n, int i, int j) { return (mask >> (i * (n - 1) + (j < i ? j : j - 1))) & 1; }
inline int popc(uint64_t m) { return __builtin_popcountll(m); }

struct IMat {            // integer matrix with structural pattern
    int n; std::vector<int> v; std::vector<char> s;
    IMat(int n) : n(n), v(n * n, 0), s(n * n, 0) {}
    int& operator()(int i, int j) { return v[i * n + j]; }
    int operator()(int i, int j) const { return v[i * n + j]; }
    char& st(int i, int j) { return s[i * n + j]; }
    char st(int i, int j) const { return s[i * n + j]; }
};

// rule 0: M-matrix (-1 off-diagonals), rule 1: diagonally dominant mixed sign, rule 2: non-symmetric values.
// The diagonal is strictly dominant (H-matrix: every ILU exists, A is non-singular).
inline int offval(int rule, int i, int j) {
    switch (rule) {
        case 0: return -1;
        case 1: { int w = 1 + (3 * i + 5 * j) % 3; return ((i + 2 * j) & 1) ? -w : w; }
        default: return (i < j) ? -(1 + (i + j) % 2) : (2 + (i * j) % 3);
    }
}
inline IMat make_imat(int n, uint64_t mask, int rule) {
    IMat A(n);
    for (int i = 0; i < n; ++i) {
        int sa = 0;
        for (int j = 0; j < n; ++j) if (i != j && offbit(mask, n, i, j)) { A.st(i, j) = 1; A(i, j) = offval(rule, i, j); sa += std::abs(A(i, j)); }
        A.st(i, i) = 1; A(i, i) = sa + 1 + (rule == 2 ? (i & 1) : 0);
    }
    return A;
}
inline QM to_qm(const IMat &A) { QM M(A.n, A.n); for (int i = 0; i < A.n; ++i) for (int j = 0; j < A.n; ++j) if (A.st(i, j)) M(i, j) = A(i, j); return M; }
inline std::string show(const IMat &A) {
    vf::KS k; k << A.n << "x" << A.n << "[";
    for (int i = 0; i < A.n; ++i) { k << (i ? ";" : ""); for (int j = 0; j < A.n; ++j) { k << (j ? " " : ""); if (A.st(i, j)) k << A(i, j); else k << "."; } }
    k << "]"; return k;
}

template <class V, class Conv>
std::shared_ptr< amgcl::backend::crs<V, ptrdiff_t, ptrdiff_t> > to_crs(const IMat &A, Conv conv) {
    auto M = std::make_shared< amgcl::backend::crs<V, ptrdiff_t, ptrdiff_t> >();
    M->set_size(A.n, A.n, true);
    for (int i = 0; i < A.n; ++i) { int w = 0; for (int j = 0; j < A.n; ++j) w += A.st(i, j); M->ptr[i + 1] = w; }
    M->set_nonzeros(M->scan_row_sizes());
    for (int i = 0; i < A.n; ++i) { auto h = M->ptr[i]; for (int j = 0; j < A.n; ++j) if (A.st(i, j)) { M->col[h] = j; M->val[h] = conv(i, j, A(i, j)); ++h; } }
    return M;
}

// ---- symbolic patterns ------------------------------------------------------------------------------
typedef std::vector<char> Pat;   // n*n
inline Pat pattern_of(const IMat &A) { return Pat(A.s.begin(), A.s.end()); }
inline bool subset(const Pat &a, const Pat &b) { for (size_t i = 0; i < a.size(); ++i) if (a[i] && !b[i]) return false; return true; }

// ILU(k) as documented: P_0 = pattern(A), P_{m+1} = pattern of the product L_m U_m of the factors of level m
inline Pat iluk_pattern(const Pat &P0, int n, int k) {
    Pat P = P0;
    for (int m = 0; m < k; ++m) {
        Pat N = P;
        for (int i = 0; i < n; ++i) for (int j = 0; j < n; ++j) {
            if (N[i * n + j]) continue;
            for (int t = 0; t < std::min(i, j); ++t) if (P[i * n + t] && P[t * n + j]) { N[i * n + j] = 1; break; }
        }
        if (N == P) break;
        P = N;
    }
    return P;
}
// ILUP(k): pattern of the boolean power S^(k+1)
inline Pat ilup_pattern(const Pat &S, int n, int k) {
    Pat P = S;
    for (int m = 0; m < k; ++m) {
        Pat N(n * n, 0);
        for (int i = 0; i < n; ++i) for (int t = 0; t < n; ++t) if (P[i * n + t]) for (int j = 0; j < n; ++j) if (S[t * n + j]) N[i * n + j] = 1;
        P = N;
    }
    return P;
}
// complete symbolic elimination (fill of the exact LU factors, no cancellation assumed)
inline Pat full_fill(const Pat &P0, int n) {
    Pat P = P0;
    for (int t = 0; t < n; ++t) for (int i = t + 1; i < n; ++i) if (P[i * n + t]) for (int j = t + 1; j < n; ++j) if (P[t * n + j]) P[i * n + j] = 1;
    return P;
}

// ---- running amgcl under a given logical thread count --------------------------------------------------
template <class F> auto with_threads(int nt, F &&f) -> decltype(f()) {
    int old = vs::cfg().max_threads;
    vs::cfg().max_threads = nt;
    vs::cfg().prefix.clear();
    vs::begin_execution();
    struct R { int o; ~R() { vs::cfg().max_threads = o; } } r{old};
    return f();
}

} // namespace c06
#endif
