// C14 (unit params) -- every parameter structure of amgcl, enumerated from the source by
// C14_scan.py (table C14_table.inc), is imported from / exported to a property tree.
//
// sections (key prefixes)
//   table|current          the committed table is what the scanner produces from the tree under test
//   struct|<id>            import -> member has the value -> export -> equals input, for every value member
//                          reachable from the structure (own + nested by dotted path), two non-default values
//                          (thorough: boundary values as well); unknown key at every nesting level; invalid
//                          enumeration string; static consistency of the import/export lists
//   probe|<id>             compile probe: params(ptree), params::get(), get_params() instantiate
//                          (deflated_solver: built and run, because the main harness cannot call its get())
//   enum|<id>|<string>     every enumerator name reads/writes; malformed names raise
//   irregular|<case>       pointer-valued parameters (nullspace B, cpr_drs weights, schur pmask, deflation vectors)
#include "C14_roundtrip.hpp"
#include "vf.hpp"
#include <cstdio>
#include <unistd.h>
#include <sys/wait.h>

using c14::ptree;

static std::string g_repo, g_dir, g_cxx;

struct VR : c14::Report {
    std::string key;
    void fail(const std::string &sub, const std::string &detail) override { vf::fail(sub, key, detail); }
    void count(const std::string &name, long long n) override { vf::count(name, n); }
};

static std::string run_cmd(const std::string &cmd, int &rc) {
    std::string out;
    FILE *f = popen((cmd + " 2>&1").c_str(), "r");
    if (!f) { rc = -1; return "popen failed"; }
    char buf[4096]; size_t n;
    while ((n = fread(buf, 1, sizeof buf, f)) > 0) out.append(buf, n);
    int st = pclose(f);
    rc = WIFEXITED(st) ? WEXITSTATUS(st) : -2;
    return out;
}

static std::string first_lines(const std::string &s, const char *needle, int maxn) {
    std::istringstream in(s); std::string l, o; int n = 0;
    while (std::getline(in, l) && n < maxn) if (!needle || l.find(needle) != std::string::npos) { o += l + " // "; ++n; }
    return o;
}

// ------------------------------------------------------------------------------------------------
static const std::set<std::string>& handled_irregular() {
    // "<defining struct id>.<name>" of every POINTER / VECTOR / manual KEY row that run_irregular() covers by hand
    static const std::set<std::string> s = {
        "coarsening_tentative_prolongation_nullspace_params.cols",
        "coarsening_tentative_prolongation_nullspace_params.B",
        "coarsening_tentative_prolongation_nullspace_params.rows",
        "preconditioner_cpr_drs.weights", "preconditioner_cpr_drs.weights_size",
        "preconditioner_schur_pressure_correction.pmask", "preconditioner_schur_pressure_correction.pmask_size",
        "preconditioner_schur_pressure_correction.pmask_pattern",
        "deflated_solver.vec",
#ifdef C14_WITH_MPI
        "mpi_schur_pressure_correction.pmask", "mpi_schur_pressure_correction.pmask_size",
        "mpi_schur_pressure_correction.pmask_pattern", "mpi_subdomain_deflation.def_vec",
#endif
    };
    return s;
}

// structures whose get() does not compile on the tree as first measured: get() is never instantiated in
// this TU; the probe section builds and runs the round trip for them in a separate program instead
//   deflated_solver   : nvec / vec exported with the CHILD macro (amgcl/deflated_solver.hpp:90-91)
//   relaxation_ilut   : the member `p` is shadowed by the function parameter `p` of get() (amgcl/relaxation/ilut.hpp:95)
static bool export_in_probe_only(const std::string &id) { return id == "deflated_solver" || id == "relaxation_ilut"; }
template <class T> struct ExportOk : std::true_type {};
template <> struct ExportOk<C14_T_deflated_solver> : std::false_type {};
template <> struct ExportOk<C14_T_relaxation_ilut> : std::false_type {};

static const char *probe_class_of(const std::string &id) {
    if (id == "make_solver") return "c14::MS";
    if (id == "deflated_solver") return "amgcl::deflated_solver<c14::AMG,c14::CG>";
    if (id == "mpi_make_solver") return "c14::MPI_MS";
    return nullptr;
}

struct StaticCheck {
    VR &R; std::string sid; bool hasget;
    void row(const c14::Meta &m, bool is_child) {
        std::string imp = m.imp, exp = m.exp;
        auto strip = [](std::string s) { return s.compare(0, 5, "base_") == 0 ? s.substr(5) : s; };
        imp = strip(imp); exp = strip(exp);
        if ((imp == "value" && exp == "child") || (imp == "child" && exp == "value"))
            R.fail("static.import_export_kind_mismatch", sid + "." + m.name + " (" + m.type + "): imported with the " + imp + " macro, exported with the " + exp + " macro");
        (void)is_child;
        vf::count("table_rows");
    }
    template <class FA> void value(FA, const c14::Meta &m) { row(m, false); }
    template <class FA> void child(FA, const c14::Meta &m) { row(m, true); }
    template <class FA> void pointer(FA, const c14::Meta &m) { row(m, false); }
    template <class FA> void vector(FA, const c14::Meta &m) { row(m, false); }
    void key(const c14::Meta &) { vf::count("table_rows"); }
    void unparsed(const char *, const char *) {}
};

template <class S, bool DoExport>
static void run_struct(const std::string &key, const char *id, const char *file, int hasctor, int hasget) {
    VR R; R.key = key;
    vf::count("structs_mapped");
    if (!hasctor) R.fail("table.no_ptree_ctor", std::string(id) + " (" + file + ") has no property-tree constructor");
    if (!hasget) R.fail("table.no_get", std::string(id) + " (" + file + ") has no get()");
    { S tmp; StaticCheck sc{R, id, hasget != 0}; c14::c14_fields(tmp, sc); }
    std::vector<std::string> irregular, ignored;
    c14::roundtrip_struct<S, DoExport>(R, id, vf::thorough(), &irregular, &ignored);
    if (DoExport == export_in_probe_only(id)) R.fail("harness.export_list", "ExportOk and export_in_probe_only disagree");
    for (auto &row : irregular) {
        // "path KIND sid"
        std::istringstream in(row); std::string path, kind, sid; in >> path >> kind >> sid;
        std::string name = path.substr(path.rfind('.') == std::string::npos ? 0 : path.rfind('.') + 1);
        vf::count("irregular_rows_seen");
        if (!handled_irregular().count(sid + "." + name))
            R.fail("table.irregular_member_unhandled", std::string(id) + ": " + row + " is neither a plain value nor covered by a hand-written case");
    }
    for (auto &k : ignored) { vf::count("keys_accepted_by_check_params_but_not_members"); (void)k; }
    vf::nontrivial(vf::hstr(key));
}

// the unit params_mpi (built with the MPI headers) only handles the amgcl/mpi structures; the unit params all others
static bool in_scope(const std::string &id) {
#ifdef C14_WITH_MPI
    return id.compare(0, 4, "mpi_") == 0;
#else
    (void)id; return true;
#endif
}

// compile-time twin of in_scope(): structures out of scope are not even instantiated
constexpr bool in_scope_ct(const char *id) {
#ifdef C14_WITH_MPI
    return id[0] == 'm' && id[1] == 'p' && id[2] == 'i' && id[3] == '_';
#else
    (void)id; return true;
#endif
}
template <bool InScope> struct RunIf {
    template <class S, bool DoExport> static void go(const std::string &key, const char *id, const char *file, int hc, int hg) { run_struct<S, DoExport>(key, id, file, hc, hg); }
};
template <> struct RunIf<false> {
    template <class S, bool DoExport> static void go(const std::string &, const char *, const char *, int, int) {}
};

static void run_unmapped(const std::string &key, const char *id, const char *file) {
    vf::count("structs_not_instantiable");
    if (!c14::not_instantiable(id))
        { vf::count("unmapped_structs"); vf::cap(std::string("parameter structure ") + id + " in " + file + " is in the scanned table but the harness has no C++ type for it: not covered"); }
}

static void run_structs() {
#define C14_TAKE(id) std::string key = std::string("struct|") + #id; if (in_scope(#id) && vf::take([&]{ return key; }))
#define C14_STRUCT(id, file, sname, encl, base, hasctor, hasget) { C14_TAKE(id) \
        RunIf<in_scope_ct(#id)>::template go<C14_T_##id, ExportOk<C14_T_##id>::value>(key, #id, file, hasctor, hasget); }
#define C14_VALUE(id, name, type, imp, exp, chk)
#define C14_CHILD(id, name, type, imp, exp, chk)
#define C14_POINTER(id, name, type, imp, exp, chk)
#define C14_VECTOR(id, name, type, imp, exp, chk)
#define C14_KEY(id, name, type, imp, exp, chk)
#define C14_UNPARSED(id, text)
#define C14_STRUCT_END(id)
#define C14_UNMAPPED(id, file) { C14_TAKE(id) run_unmapped(key, #id, file); }
#define C14_ENUM(id, file, type)
#define C14_ENUMERATOR(id, value, name)
#define C14_ENUM_END(id)
#define C14_ENUM_UNMAPPED(id, file)
#include "C14_table.inc"
#undef C14_STRUCT
#undef C14_UNMAPPED
    vf::space("every `struct *params` found by the scanner under amgcl/** x every value member reachable by a dotted path x {two non-default values | all other enumerators | !default} (thorough: + boundary values)");
}

// ------------------------------------------------------------------------------------------------
static std::string probe_flags() {
    return g_cxx + " -std=c++17 -DAMGCL_VERIF -I" + g_repo + " -I/verif/engine -I" + g_dir + " -I" + g_dir + "/../build/C14/gen -I/usr/include/eigen3 -w"
#ifdef C14_WITH_MPI
        " -DC14_WITH_MPI " C14_MPI_CXXFLAGS
#endif
        ;
}

static void run_probe(const char *id, const char *cls) {
    std::string key = std::string("probe|") + id;
    if (!in_scope(id) || !vf::take([&]{ return key; })) return;
    std::string cmd = probe_flags() + " -DC14_PROBE_T=C14_T_" + id + " -DC14_PROBE_ID='\"" + id + "\"'";
    if (cls) cmd += std::string(" -DC14_PROBE_CLASS='") + cls + "'";
    int rc = 0;
    vf::count("compile_probes");
    if (!export_in_probe_only(id)) {
        std::string out = run_cmd(cmd + " -fsyntax-only " + g_dir + "/C14_probe.cpp", rc);
        if (rc != 0) vf::fail(cls ? "compile.get_params" : "compile.params_get", key,
                std::string("params(ptree) / params::get()") + (cls ? " / get_params()" : "") + " of " + id + " does not compile: " + first_lines(out, "error", 3));
        return;
    }
    // build and run
    std::string exe = "./c14_probe_" + std::string(id) + "_" + std::to_string((long)getpid());
    std::string out = run_cmd(cmd + " -O0 -o " + exe + " " + g_dir + "/C14_probe.cpp", rc);
    if (rc != 0) {
        // which of the two? try without the class member
        std::string cmd2 = probe_flags() + " -DC14_PROBE_T=C14_T_" + id + " -DC14_PROBE_ID='\"" + id + "\"' -fsyntax-only " + g_dir + "/C14_probe.cpp";
        int rc2 = 0;
        run_cmd(cmd2, rc2);
        vf::fail(rc2 != 0 ? "compile.params_get" : "compile.get_params", key,
                std::string(rc2 != 0 ? "params::get()" : "get_params()") + " of " + id + " does not compile"
                + (cls && rc2 != 0 ? " (hence get_params() of the class does not either)" : "") + ": " + first_lines(out, "error", 3));
        return;
    }
    out = run_cmd(exe + (vf::thorough() ? " thorough" : " quick"), rc);
    unlink(exe.c_str());
    bool done = false;
    std::istringstream in(out); std::string l;
    while (std::getline(in, l)) {
        if (l == "DONE") { done = true; continue; }
        size_t a = l.find('\t'), b = a == std::string::npos ? a : l.find('\t', a + 1);
        if (l.compare(0, 5, "FAIL\t") == 0 && b != std::string::npos) vf::fail(l.substr(a + 1, b - a - 1), key, "[probe program] " + l.substr(b + 1));
        else if (l.compare(0, 6, "COUNT\t") == 0 && b != std::string::npos) vf::count("probe_run." + l.substr(a + 1, b - a - 1), std::atoll(l.c_str() + b + 1));
    }
    if (rc != 0 || !done) vf::fail("probe.abnormal_exit", key, "probe program exit " + std::to_string(rc) + ": " + out.substr(0, 400));
    vf::count("probes_built_and_run");
}

static void run_probes() {
#define C14_STRUCT(id, file, sname, encl, base, hasctor, hasget) run_probe(#id, probe_class_of(#id));
#define C14_UNMAPPED(id, file)
#include "C14_table.inc"
#undef C14_STRUCT
#undef C14_UNMAPPED
    vf::space("compile probe of params(ptree)/params::get() for every instantiable parameter structure, and of get_params() for make_solver and deflated_solver");
}

// ------------------------------------------------------------------------------------------------
template <class E>
static void enum_case(const std::string &key, const std::string &text, bool valid, E expect) {
    if (valid) {
        E e = (E)-1;
        std::istringstream in(text);
        try { in >> e; } catch (const std::exception &ex) { vf::fail("enum.valid_name_rejected", key, text + ": " + ex.what()); return; }
        if (e != expect) vf::fail("enum.read", key, text + " read as " + std::to_string((int)e));
        std::ostringstream o; o << expect;
        if (o.str() != text) vf::fail("enum.write", key, "enumerator " + text + " written as " + o.str());
        ptree p; p.put("k", expect);
        if (p.get<std::string>("k") != text || p.get<E>("k") != expect) vf::fail("enum.ptree_roundtrip", key, text);
        vf::count("enum_valid_names");
    } else {
        bool thrown = false; E e = (E)-1;
        std::istringstream in(text);
        try { in >> e; } catch (const std::exception &) { thrown = true; }
        if (!thrown) vf::fail("enum.invalid_accepted", key, "stream extraction of '" + text + "' did not raise; value " + std::to_string((int)e));
        ptree p; p.put("k", text);
        thrown = false;
        try { e = p.get("k", expect); } catch (const std::exception &) { thrown = true; }
        if (!thrown) vf::fail("enum.invalid_accepted", key, "ptree.get of '" + text + "' did not raise; value " + std::to_string((int)e));
        vf::count("enum_invalid_strings");
    }
}

template <class E>
static void run_enum(const char *id) {
    if (!in_scope(id)) return;
    auto &items = c14::enum_items(E());
    std::set<std::string> names; for (auto &it : items) names.insert(it.second);
    vf::count("enums");
    for (auto &it : items) {
        std::string key = std::string("enum|") + id + "|" + it.second;
        if (vf::take([&]{ return key; })) { enum_case<E>(key, it.second, true, it.first); vf::nontrivial(vf::hstr(key)); }
        std::vector<std::string> bad = {it.second + "x", it.second.substr(0, it.second.size() - 1), "x" + it.second, it.second + "_"};
        std::string up = it.second; up[0] = (char)std::toupper(up[0]); bad.push_back(up);
        for (auto &b : bad) {
            if (names.count(b)) continue;
            std::string k2 = std::string("enum|") + id + "|" + b;
            if (vf::take([&]{ return k2; })) { enum_case<E>(k2, b, false, items[0].first); vf::nontrivial(vf::hstr(k2)); }
        }
    }
    for (std::string b : {"", "c14_bogus", "0", "1", "???"}) {
        std::string k2 = std::string("enum|") + id + "|" + b;
        if (vf::take([&]{ return k2; })) enum_case<E>(k2, b, false, items[0].first);
    }
}

static void run_enums() {
#define C14_STRUCT(id, file, sname, encl, base, hasctor, hasget)
#define C14_UNMAPPED(id, file)
#undef C14_ENUM
#undef C14_ENUM_UNMAPPED
#define C14_ENUM(id, file, type) run_enum<type>(#id);
#define C14_ENUM_UNMAPPED(id, file) { std::string key = std::string("enum|") + #id + "|-"; if (in_scope(#id) && vf::take([&]{ return key; }) && !c14::not_instantiable(#id)) { vf::count("unmapped_enums"); vf::cap(std::string("enumeration ") + #id + " in " + file + " has no mapping in the harness: not covered"); } }
#include "C14_table.inc"
#undef C14_STRUCT
#undef C14_UNMAPPED
    vf::space("every stream-readable `enum type` found by the scanner x {every enumerator name; name+x, name-1 char, x+name, name_, Capitalised; '', bogus, 0, 1, ???}");
}

// ------------------------------------------------------------------------------------------------
template <class SchurParams>
static void schur_cases(const char *tag) {
    {
        struct Pat { const char *text; int kind, a, b; };
        const Pat pats[] = {{"%0:2", 0, 0, 2}, {"%1:2", 0, 1, 2}, {"%2:3", 0, 2, 3}, {"<2", 1, 2, 0}, {"<0", 1, 0, 0}, {">2", 2, 2, 0}, {">9", 2, 9, 0}};
        for (int n : {4, 7}) {
            for (auto &pt : pats) {
                std::string key = vf::KS() << "irregular|" << tag << "_pmask_pattern|" << n << "|" << pt.text;
                if (!vf::take([&]{ return key; })) continue;
                ptree p; p.put("pmask_size", n); p.put("pmask_pattern", pt.text);
                std::vector<char> want(n, 0);
                for (int i = 0; i < n; ++i) want[i] = pt.kind == 0 ? (i >= pt.a && (i - pt.a) % pt.b == 0) : (pt.kind == 1 ? i < pt.a : i >= pt.a);
                c14::unknown_log().clear();
                try {
                    SchurParams s(p);
                    if (s.pmask != want) vf::fail("import.pmask_pattern", key, "mask differs from the documented pattern meaning");
                } catch (const std::exception &ex) { vf::fail("import.exception", key, ex.what()); }
                if (!c14::unknown_log().empty()) vf::fail("unknown.false_report", key, c14::unknown_log()[0]);
                vf::count("pointer_param_cases");
                vf::nontrivial(vf::hstr(key));
            }
            for (unsigned mask = 0; mask < (1u << n) && mask < 16; ++mask) {
                std::string key = vf::KS() << "irregular|" << tag << "_pmask_pointer|" << n << "|" << mask;
                if (!vf::take([&]{ return key; })) continue;
                std::vector<char> pm(n); for (int i = 0; i < n; ++i) pm[i] = (mask >> (i % 4)) & 1;
                ptree p; p.put("pmask_size", n); p.put("pmask", (void*)pm.data());
                try {
                    SchurParams s(p);
                    if (s.pmask != pm) vf::fail("import.pointer_array", key, "pmask differs from the user's array");
                } catch (const std::exception &ex) { vf::fail("import.exception", key, ex.what()); }
                vf::count("pointer_param_cases");
            }
        }
    }

}

#ifdef C14_WITH_MPI
static void run_irregular() {
    schur_cases<C14_T_mpi_schur_pressure_correction>("mpi_schur");
    for (unsigned ndv : {1u, 3u}) {
        std::string key = vf::KS() << "irregular|mpi_subdomain_deflation_def_vec|" << ndv;
        if (!vf::take([&]{ return key; })) continue;
        std::function<double(ptrdiff_t, unsigned)> fn = [](ptrdiff_t i, unsigned j) { return 0.5 * i - 3.0 * j; };
        ptree p; p.put("def_vec", (void*)&fn); p.put("num_def_vec", ndv);
        c14::unknown_log().clear();
        try {
            C14_T_mpi_subdomain_deflation s(p);
            if (s.num_def_vec != ndv) vf::fail("import.field_value", key, "num_def_vec");
            if (!s.def_vec || s.def_vec(7, 2) != fn(7, 2)) vf::fail("import.pointer", key, "def_vec callback not transported");
        } catch (const std::exception &ex) { vf::fail("import.exception", key, ex.what()); }
        if (!c14::unknown_log().empty()) vf::fail("unknown.false_report", key, c14::unknown_log()[0]);
        bool t = false; try { ptree q; q.put("num_def_vec", 1); C14_T_mpi_subdomain_deflation s(q); } catch (const std::exception &) { t = true; }
        if (!t) vf::fail("import.precondition", key, "missing def_vec was accepted");
        vf::count("pointer_param_cases");
        vf::nontrivial(vf::hstr(key));
    }
    vf::space("MPI: schur pmask patterns/pointers as in the serial unit; subdomain_deflation def_vec callback pointer, num_def_vec in {1,3}");
}
#else
static void run_irregular() {
    // nullspace: cols, rows, B (pointer)
    for (int cols = 1; cols <= 3; ++cols) for (int rows : {1, 2, 5}) for (int nest = 0; nest < 4; ++nest) {
        std::string key = vf::KS() << "irregular|nullspace|" << cols << "x" << rows << "|" << nest;
        if (!vf::take([&]{ return key; })) continue;
        std::vector<double> Bv(rows * cols);
        for (int i = 0; i < rows * cols; ++i) Bv[i] = 0.1 * (i + 1) - 0.35;
        static const char *pre[4] = {"", "nullspace.", "nullspace.", "nullspace."};
        ptree p;
        p.put(std::string(pre[nest]) + "cols", cols);
        p.put(std::string(pre[nest]) + "rows", rows);
        p.put(std::string(pre[nest]) + "B", Bv.data());
        c14::unknown_log().clear();
        auto chk = [&](const amgcl::coarsening::nullspace_params &ns, const char *where) {
            if (ns.cols != cols) vf::fail("import.field_value", key, vf::KS() << where << ": cols " << ns.cols << " want " << cols);
            if (ns.B.size() != Bv.size() || std::memcmp(ns.B.data(), Bv.data(), Bv.size() * sizeof(double)))
                vf::fail("import.pointer_array", key, vf::KS() << where << ": B has " << ns.B.size() << " entries, want " << Bv.size() << " equal to the user's array");
        };
        try {
            switch (nest) {
                case 0: { amgcl::coarsening::nullspace_params ns(p); chk(ns, "nullspace_params"); } break;
                case 1: { C14_T_coarsening_aggregation s(p); chk(s.nullspace, "aggregation"); } break;
                case 2: { C14_T_coarsening_smoothed_aggregation s(p); chk(s.nullspace, "smoothed_aggregation"); } break;
                case 3: { C14_T_coarsening_smoothed_aggr_emin s(p); chk(s.nullspace, "smoothed_aggr_emin"); } break;
            }
        } catch (const std::exception &ex) { vf::fail("import.exception", key, ex.what()); }
        if (!c14::unknown_log().empty()) vf::fail("unknown.false_report", key, c14::unknown_log()[0]);
        vf::count("pointer_param_cases");
        vf::nontrivial(vf::hstr(key));
        if (nest == 0 && cols == 1 && rows == 1) {
            // documented preconditions: B without cols, cols without B
            ptree q; q.put("B", Bv.data()); q.put("rows", 1);
            bool t = false; try { amgcl::coarsening::nullspace_params ns(q); } catch (const std::exception &) { t = true; }
            if (!t) vf::fail("import.precondition", key, "B set but cols missing was accepted");
            ptree q2; q2.put("cols", 2);
            t = false; try { amgcl::coarsening::nullspace_params ns(q2); } catch (const std::exception &) { t = true; }
            if (!t) vf::fail("import.precondition", key, "cols > 0 without B was accepted");
            // unknown key
            ptree q3 = p; q3.put("c14_no_such_key", 1);
            c14::unknown_log().clear();
            amgcl::coarsening::nullspace_params ns(q3);
            if (c14::unknown_log() != std::vector<std::string>{"c14_no_such_key"}) vf::fail("unknown.not_reported", key, "nullspace_params with an extra key");
        }
    }
    vf::space("nullspace (cols,rows,B pointer): cols 1..3 x rows {1,2,5} x {directly, inside aggregation, smoothed_aggregation, smoothed_aggr_emin}");

    for (int n : {1, 2, 6}) {
        std::string key = vf::KS() << "irregular|cpr_drs_weights|" << n;
        if (!vf::take([&]{ return key; })) continue;
        std::vector<double> w(n); for (int i = 0; i < n; ++i) w[i] = 1.0 / (i + 3);
        ptree p; p.put("weights", (void*)w.data()); p.put("weights_size", n);
        c14::unknown_log().clear();
        try {
            C14_T_preconditioner_cpr_drs s(p);
            if (s.weights.size() != w.size() || std::memcmp(s.weights.data(), w.data(), n * sizeof(double)))
                vf::fail("import.pointer_array", key, "weights differ from the user's array");
        } catch (const std::exception &ex) { vf::fail("import.exception", key, ex.what()); }
        if (!c14::unknown_log().empty()) vf::fail("unknown.false_report", key, c14::unknown_log()[0]);
        vf::count("pointer_param_cases");
        vf::nontrivial(vf::hstr(key));
    }

    schur_cases<C14_T_preconditioner_schur_pressure_correction>("schur");

    for (int nvec : {1, 2, 5}) {
        std::string key = vf::KS() << "irregular|deflated_vec|" << nvec;
        if (!vf::take([&]{ return key; })) continue;
        std::vector<double> Z(nvec * 4, 1.0);
        ptree p; p.put("nvec", nvec); p.put("vec", Z.data());
        c14::unknown_log().clear();
        try {
            C14_T_deflated_solver s(p);
            if (s.nvec != nvec) vf::fail("import.field_value", key, vf::KS() << "nvec " << s.nvec);
            if (s.vec != Z.data()) vf::fail("import.pointer", key, "vec pointer not transported");
        } catch (const std::exception &ex) { vf::fail("import.exception", key, ex.what()); }
        if (!c14::unknown_log().empty()) vf::fail("unknown.false_report", key, c14::unknown_log()[0]);
        vf::count("pointer_param_cases");
        vf::nontrivial(vf::hstr(key));
    }
    vf::space("pointer-valued parameters: cpr_drs weights n in {1,2,6}; schur pmask patterns {%0:2,%1:2,%2:3,<2,<0,>2,>9} x n in {4,7} and 16 explicit masks by pointer; deflated_solver nvec in {1,2,5}");
}
#endif

// ------------------------------------------------------------------------------------------------
static void run_table_current() {
    std::string key = "table|current";
    if (!vf::take([&]{ return key; })) return;
    int rc = 0;
    std::string out = run_cmd("python3 " + g_dir + "/C14_scan.py --check --repo " + g_repo + " --table " + g_dir + "/C14_table.committed.inc", rc);
    // The table compiled into this harness is ALWAYS regenerated from the tree under test (pre step of the build).
    // A difference from the committed reference table means the set of parameter structures/members changed; that
    // is a coverage notice (new members are covered automatically, new structures need a type mapping), not a
    // violation of the property.
    if (rc != 0) { vf::count("table_differs_from_committed_reference"); vf::cap("parameter table extracted from the tree differs from the committed reference table (checks/C14_table.committed.inc): review C14_common.hpp type map"); }
    else vf::count("table_is_current");
    vf::sample_str("scanner: " + out.substr(0, 200));
}

int main(int argc, char **argv) {
    vf::init(argc, argv, "C14");
    g_repo = getenv("VERIF_REPO") ? getenv("VERIF_REPO") : "/repo";
    g_cxx = getenv("VERIF_CXX") ? getenv("VERIF_CXX") : "g++";
    g_dir = __FILE__;
    g_dir = g_dir.substr(0, g_dir.rfind('/'));
#ifndef C14_WITH_MPI
    if (vf::section("table")) run_table_current();
#endif
    if (vf::section("struct")) run_structs();
    if (vf::section("enum")) run_enums();
    if (vf::section("irregular")) run_irregular();
    if (vf::section("probe")) run_probes();
    return vf::finish();
}
