// C07 unit "spmv" -- spmv / residual of the builtin backend (crs with scalar, complex and block
// values), the mixed scalar-vector / block-matrix path (reinterpret_as_rhs) and the
// builtin_hybrid backend (scalar matrix converted to blocks, scalar vectors).
#include <complex>
#include "vsched.hpp"
#include "C07_common.hpp"
#include <amgcl/backend/builtin_hybrid.hpp>
#include "mk.hpp"

using namespace amgcl;
using namespace c07;

static const int NTS[] = {1, 2, 3, 5};

static std::string pkey(const char *op, const char *tn, int m, int n, uint64_t mask) {
    return vf::KS() << op << "|" << tn << "|" << m << "x" << n << "|" << mask;
}

template <class V> static mk::Dense<V> dense(int m, int n, uint64_t mask) {
    return mk::from_mask<V>(m, n, mask, [](int i, int j) { return gen<V>::make(3 * i + 5 * j + 1); });
}

static std::vector<uint64_t> masks_for(int m, int n, int all_bits) {
    std::vector<uint64_t> out;
    if (m * n <= all_bits) { for (uint64_t k = 0; k < (1ull << (m * n)); ++k) out.push_back(k); }
    else out = family_masks(m, n);
    return out;
}

// copies the scalars of a block vector into a scalar vector and back
template <class R, class S> static void to_scalars(Holder<R, 1> &b, Holder<S, 1> &s) { if (b.size()) std::memcpy(&s[0], &b[0], b.size() * sizeof(R)); }

// --------------------------------------------------------------------------------------------
// V: matrix value type;  K: holder kind of the vectors
template <class V, int K, bool MIXED_OK = true>
static void run_builtin(int all_bits_quick, int all_bits_thorough) {
    typedef typename math::rhs_of<V>::type R;
    typedef typename coef_of<V>::type C;
    typedef typename math::element_of<R>::type S;       // scalar stored in rhs entries (double or complex)
    constexpr bool do_mixed = MIXED_OK && K == 1 && (math::static_rows<V>::value > 1);
    const int B = math::static_rows<V>::value;
    const std::string tn = std::string(tname<V>::get()) + "/" + Holder<R, K>::kind();
    const int nc = coefs<C>::n();
    int all_bits = vf::thorough() ? all_bits_thorough : all_bits_quick;
    for (int m = 0; m <= 5; ++m) for (int n = 0; n <= 5; ++n) {
        for (uint64_t mask : masks_for(m, n, all_bits)) {
            if (!vf::take([&]{ return pkey("spmv", tn.c_str(), m, n, mask); })) continue;
            std::string key = pkey("spmv", tn.c_str(), m, n, mask);
            auto D = dense<V>(m, n, mask);
            auto A = mk::to_crs<V>(D);
            if (D.nnz() > 1) vf::nontrivial(vf::hstr(key));
            bool empty_row = false; for (int i = 0; i < m; ++i) { bool e = true; for (int j = 0; j < n; ++j) e &= !D.st(i, j); empty_row |= e; }
            if (empty_row && D.nnz()) vf::count("spmv_patterns_with_an_empty_row");
            if (m != n) vf::count("spmv_rectangular_patterns");
            Holder<R, K> x(n), f(m);
            fill(x, 2, 3); fill(f, 1, 2);
            // row sums  sum_j A_ij x_j
            std::vector<RM> Ax(m);
            for (int i = 0; i < m; ++i) {
                RM s = to_ref(R()); for (auto &q : s.a) q = CLD(0, 0);
                for (int j = 0; j < n; ++j) if (D.st(i, j)) s = s + to_ref(D(i, j)) * to_ref(x[j]);
                Ax[i] = s;
            }
            for (int nt : NTS) {
                if (m * n > 16 && m * n <= all_bits && (nt == 2 || nt == 5)) continue;   // the 2^17..2^20-pattern shapes of the thorough tier: threads {1,3}
                for (int ia = 0; ia < nc; ++ia) for (int ib = 0; ib < nc; ++ib) {
                    C al = coefs<C>::get(ia), be = coefs<C>::get(ib);
                    bool bz = czero(be);
                    for (int pf = 0; pf <= (bz ? NINF : FINITE); ++pf) {
                        Holder<R, K> y(m); Holder<R, 0> y0(m);
                        prefill(y, pf, 7); prefill(y0, pf, 7);
                        with_threads(nt, [&]{ backend::spmv(al, *A, x.vec(), be, y.vec()); });
                        if (bz && pf) vf::count("spmv_beta0_nonfinite_prefill");
                        for (int i = 0; i < m; ++i) {
                            RM want = to_ref(al) * Ax[i];
                            if (!bz) want = want + to_ref(be) * to_ref(y0[i]);
                            if (!eq(y[i], want)) {
                                vf::fail(std::string(pf ? "spmv.beta0_ignores_output[" : "spmv.formula[") + tn + "]", key,
                                    vf::KS() << "A=" << m << "x" << n << " mask=" << mask << " alpha=" << show(al) << " beta=" << show(be) << " prefill=" << special_name(pf)
                                             << " threads=" << nt << " row " << i << ": got=" << show(y[i]) << " want=" << rshow(want) << " y_before=" << show(y0[i]));
                                break;
                            }
                        }
                        // scalar vectors where block vectors are expected: identical bytes
                        if constexpr (do_mixed) if (nt <= 2) {
                            for (int var = 1; var < 4; ++var) {
                                Holder<S, 1> xs(n * B), ys(m * B); Holder<R, 1> xb(n), yb(m);
                                fill(xb, 2, 3); to_scalars(xb, xs);
                                prefill(yb, pf, 7); to_scalars(yb, ys);
                                with_threads(nt, [&]{
                                    if (var == 1) backend::spmv(al, *A, xs.vec(), be, ys.vec());
                                    if (var == 2) backend::spmv(al, *A, xs.vec(), be, yb.vec());
                                    if (var == 3) backend::spmv(al, *A, xb.vec(), be, ys.vec());
                                });
                                const void *res = (var == 2) ? (const void*)&yb[0] : (const void*)&ys[0];
                                vf::count("spmv_scalar_vectors_for_block_vectors");
                                if (m && std::memcmp(res, &y[0], m * sizeof(R)) != 0) {
                                    vf::fail(std::string("spmv.scalar_vectors_identical[") + tn + "]", key,
                                        vf::KS() << "A=" << m << "x" << n << " mask=" << mask << " alpha=" << show(al) << " beta=" << show(be) << " prefill=" << special_name(pf)
                                                 << " variant=" << (var == 1 ? "x,y scalar" : var == 2 ? "x scalar" : "y scalar") << ": bytes differ from the block-vector call");
                                }
                            }
                        }
                    }
                }
                // residual: r = f - A x, r always overwritten
                for (int pf = 0; pf <= MIXED; ++pf) {
                    Holder<R, K> r(m);
                    prefill(r, pf, 5);
                    with_threads(nt, [&]{ backend::residual(f.vec(), *A, x.vec(), r.vec()); });
                    for (int i = 0; i < m; ++i) {
                        RM want = to_ref(f[i]) - Ax[i];
                        if (!eq(r[i], want)) {
                            vf::fail(std::string(pf ? "residual.ignores_output[" : "residual.formula[") + tn + "]", key,
                                vf::KS() << "A=" << m << "x" << n << " mask=" << mask << " prefill=" << special_name(pf) << " threads=" << nt << " row " << i << ": got=" << show(r[i]) << " want=" << rshow(want));
                            break;
                        }
                    }
                    if constexpr (do_mixed) if (nt <= 2) {
                        for (int var = 1; var < 8; ++var) {   // bit0: f scalar, bit1: x scalar, bit2: r scalar
                            Holder<S, 1> fs(m * B), xs(n * B), rs(m * B); Holder<R, 1> fb(m), xb(n), rb(m);
                            fill(xb, 2, 3); to_scalars(xb, xs); fill(fb, 1, 2); to_scalars(fb, fs);
                            prefill(rb, pf, 5); to_scalars(rb, rs);
                            with_threads(nt, [&]{
                                switch (var) {
                                    case 1: backend::residual(fs.vec(), *A, xb.vec(), rb.vec()); break;
                                    case 2: backend::residual(fb.vec(), *A, xs.vec(), rb.vec()); break;
                                    case 3: backend::residual(fs.vec(), *A, xs.vec(), rb.vec()); break;
                                    case 4: backend::residual(fb.vec(), *A, xb.vec(), rs.vec()); break;
                                    case 5: backend::residual(fs.vec(), *A, xb.vec(), rs.vec()); break;
                                    case 6: backend::residual(fb.vec(), *A, xs.vec(), rs.vec()); break;
                                    case 7: backend::residual(fs.vec(), *A, xs.vec(), rs.vec()); break;
                                }
                            });
                            const void *res = (var & 4) ? (const void*)&rs[0] : (const void*)&rb[0];
                            vf::count("residual_scalar_vectors_for_block_vectors");
                            if (m && std::memcmp(res, &r[0], m * sizeof(R)) != 0)
                                vf::fail(std::string("residual.scalar_vectors_identical[") + tn + "]", key,
                                    vf::KS() << "A=" << m << "x" << n << " mask=" << mask << " prefill=" << special_name(pf) << " scalar-vector bits (f,x,r)=" << var << ": bytes differ from the block-vector call");
                        }
                    }
                }
            }
        }
    }
    vf::space(vf::KS() << "builtin spmv/residual " << tn << ": shapes 0..5 x 0..5, all patterns with <= " << all_bits << " positions, circulant/equal-rows/single-row families beyond; all coefficient pairs; threads {1,2,3,5} ({1,3} for the exhaustively enumerated shapes with more than 16 positions); prefill {finite; NaN,+Inf,-Inf when beta=0}");
}

// --------------------------------------------------------------------------------------------
// builtin_hybrid: scalar matrix -> block matrix via copy_matrix, scalar vectors
template <class BT>
static void run_hybrid(int all_bits_quick, int all_bits_thorough) {
    typedef typename math::scalar_of<BT>::type S;
    typedef backend::builtin_hybrid<BT> HB;
    const int B = math::static_rows<BT>::value;
    const char *tn = tname<BT>::get();
    int all_bits = vf::thorough() ? all_bits_thorough : all_bits_quick;
    const int nc = coefs<S>::n();
    for (int p = 0; p <= 2; ++p) for (int q = 0; q <= 2; ++q) {
        int m = p * B, n = q * B;
        for (uint64_t mask : masks_for(m, n, all_bits)) {
            if (!vf::take([&]{ return pkey("hybrid", tn, m, n, mask); })) continue;
            std::string key = pkey("hybrid", tn, m, n, mask);
            auto D = dense<S>(m, n, mask);
            auto As = mk::to_crs<S>(D);
            if (D.nnz() > 1) vf::nontrivial(vf::hstr(key));
            Holder<S, 1> x(n), f(m);
            fill(x, 2, 3); fill(f, 1, 2);
            std::vector<LD> Ax(m, 0);
            for (int i = 0; i < m; ++i) for (int j = 0; j < n; ++j) if (D.st(i, j)) Ax[i] += (LD)D(i, j) * (LD)x[j];
            for (int nt : {1, 3}) {
                std::shared_ptr<typename HB::matrix> Ab = with_threads(nt, [&]{ return HB::copy_matrix(As, typename HB::params()); });
                if (backend::rows(*Ab) != (size_t)p || backend::cols(*Ab) != (size_t)q) { vf::fail(std::string("hybrid.copy_matrix.shape[") + tn + "]", key, "block matrix has wrong dimensions"); continue; }
                vf::count("hybrid_matrices_converted");
                for (int ia = 0; ia < nc; ++ia) for (int ib = 0; ib < nc; ++ib) {
                    S al = coefs<S>::get(ia), be = coefs<S>::get(ib);
                    bool bz = czero(be);
                    for (int pf = 0; pf <= (bz ? PINF : FINITE); ++pf) {
                        Holder<S, 1> y(m); Holder<S, 0> y0(m);
                        prefill(y, pf, 7); prefill(y0, pf, 7);
                        with_threads(nt, [&]{ backend::spmv(al, *Ab, x.vec(), be, y.vec()); });
                        for (int i = 0; i < m; ++i) {
                            LD want = (LD)al * Ax[i] + (bz ? 0 : (LD)be * (LD)y0[i]);
                            if (!((LD)y[i] == want)) {
                                vf::fail(std::string(pf ? "hybrid.spmv.beta0_ignores_output[" : "hybrid.spmv.formula[") + tn + "]", key,
                                    vf::KS() << "A=" << mk::show(D) << " alpha=" << (double)al << " beta=" << (double)be << " prefill=" << special_name(pf) << " threads=" << nt << " row " << i << ": got=" << (double)y[i] << " want=" << (double)want);
                                break;
                            }
                        }
                    }
                }
                for (int pf = 0; pf <= MIXED; ++pf) {
                    Holder<S, 1> r(m);
                    prefill(r, pf, 5);
                    with_threads(nt, [&]{ backend::residual(f.vec(), *Ab, x.vec(), r.vec()); });
                    for (int i = 0; i < m; ++i) {
                        LD want = (LD)f[i] - Ax[i];
                        if (!((LD)r[i] == want)) { vf::fail(std::string(pf ? "hybrid.residual.ignores_output[" : "hybrid.residual.formula[") + tn + "]", key, vf::KS() << "A=" << mk::show(D) << " prefill=" << special_name(pf) << " threads=" << nt << " row " << i << ": got=" << (double)r[i] << " want=" << (double)want); break; }
                    }
                }
            }
        }
    }
    vf::space(vf::KS() << "builtin_hybrid " << tn << ": scalar shapes {0," << B << "," << 2 * B << "}^2, all patterns with <= " << all_bits << " positions, families beyond; copy_matrix + spmv (all coefficient pairs) + residual with scalar vectors; threads {1,3}");
}

// --------------------------------------------------------------------------------------------
// reinterpret_as_rhs<V>(vector of E): the mechanism behind "scalar vectors may be passed where
// block vectors are expected".  For a block value type V with N rows and a vector whose entries
// have the element type E (E = element type of V, or the same in another precision) the result
// must be a range of vec.size()/N blocks static_matrix<E,N,1> over the same memory.
template <class V, class E>
static void reinterp_case(const char *vn, const char *en) {
    const int N = math::static_rows<V>::value;
    typedef amgcl::static_matrix<E, N, 1> want_t;
    for (int nb = 0; nb <= 3; ++nb) for (int cst = 0; cst < 2; ++cst) {
        if (!vf::take([&]{ return std::string(vf::KS() << "reinterp|" << vn << "|" << en << "|" << nb << "|" << cst); })) continue;
        std::string key = vf::KS() << "reinterp|" << vn << "|" << en << "|" << nb << "|" << cst;
        std::vector<E> v(nb * N);
        for (int i = 0; i < nb * N; ++i) v[i] = gen<E>::make(i + 1);
        vf::nontrivial(vf::hstr(key));
        size_t got_size, got_elem_bytes; bool same_type; const void *first = nullptr;
        if (cst) {
            const std::vector<E> &cv = v;
            auto r = backend::reinterpret_as_rhs<V>(cv);
            typedef typename std::decay<decltype(r[0])>::type got_t;
            got_size = r.size(); got_elem_bytes = sizeof(got_t); same_type = std::is_same<got_t, want_t>::value; if (nb) first = &r[0];
        } else {
            auto r = backend::reinterpret_as_rhs<V>(v);
            typedef typename std::decay<decltype(r[0])>::type got_t;
            got_size = r.size(); got_elem_bytes = sizeof(got_t); same_type = std::is_same<got_t, want_t>::value; if (nb) first = &r[0];
        }
        std::string sub = std::string("scalar_as_block.reinterpret[") + vn + "<-" + en + "]";
        if (!same_type || got_size != (size_t)nb || got_elem_bytes != sizeof(want_t) || (nb && first != (const void*)&v[0]))
            vf::fail(sub, key, vf::KS() << "vector of " << nb * N << " x " << en << " reinterpreted for matrix value type " << vn << ": got " << got_size << " elements of " << got_elem_bytes
                     << " bytes, element type " << (same_type ? "as expected" : "NOT static_matrix<E,N,1>") << "; want " << nb << " elements of " << sizeof(want_t) << " bytes (static_matrix<" << en << "," << N << ",1>)");
    }
}
static void run_reinterp() {
    reinterp_case<B2, double>("block2", "double");
    reinterp_case<B3, double>("block3", "double");
    reinterp_case<B4, double>("block4", "double");
    reinterp_case<B2f, float>("block2f", "float");
    reinterp_case<B2f, double>("block2f", "double");
    reinterp_case<B2, float>("block2", "float");
    reinterp_case<BC2, std::complex<double>>("cblock2", "cdouble");
    reinterp_case<amgcl::static_matrix<std::complex<float>, 2, 2>, std::complex<double>>("cblock2f", "cdouble");
    vf::space("reinterpret_as_rhs: block value types {2x2,3x3,4x4 double, 2x2 float, 2x2 complex<double>, 2x2 complex<float>} x vector element types (same / other precision) x 0..3 blocks x const/non-const");
}

int main(int argc, char **argv) {
    vf::init(argc, argv, "C07");
    vf::sample_str("spmv case: A = " + mk::show(dense<double>(3, 3, 0x1ab)) + " x=(" + show(gen<double>::make(2)) + "," + show(gen<double>::make(5)) + "," + show(gen<double>::make(8)) + ") alpha=2 beta=0 y pre-filled with NaN");
    vf::sample_str("hybrid case: scalar A = " + mk::show(dense<double>(4, 4, 0x9a5b)) + " converted to 2x2 blocks of static_matrix<double,2,2>, scalar vectors of length 4");
    if (vf::section("spmv")) {
        run_builtin<double, 1>(12, 20);
        run_builtin<float, 1>(10, 12);
        run_builtin<long double, 1>(10, 12);
        run_builtin<std::complex<double>, 1>(10, 12);
        run_builtin<std::complex<float>, 0>(6, 9);
        run_builtin<B2, 1>(10, 12);
        run_builtin<B3, 1>(9, 10);
        run_builtin<B4, 1>(6, 9);
#ifdef C07_CBLOCK_MIXED   /* compiles only once reinterpret_as_rhs handles complex blocks (see sub-check scalar_as_block.reinterpret[cblock2<-cdouble]) */
        run_builtin<BC2, 1, true>(6, 9);
#else
        run_builtin<BC2, 1, false>(6, 9);
#endif
        run_builtin<B2f, 1>(6, 9);
        run_builtin<double, 0>(9, 10);
        run_builtin<double, 2>(9, 10);
        run_builtin<B2, 0>(6, 9);
    }
    if (vf::section("reinterp")) run_reinterp();
    if (vf::section("hybrid")) {
        run_hybrid<B2>(16, 16);
        run_hybrid<B3>(9, 18);
        run_hybrid<B2f>(8, 16);
    }
    return vf::finish();
}
