// C13 unit "oper" -- every block / complex re-formulation represents the SAME OPERATOR as the scalar matrix.
// Integer (Gaussian integer) values everywhere, so the dense definition is exact and the oracle is ==.
//
// sub-checks (the block value type is part of the name: s2,s3,s4 = static_matrix<double,b,b>, e2,e3,e4 = Eigen::Matrix<double,b,b>,
// f2 = static_matrix<float,2,2>):
//   adapter.shape.<T>        rows()/cols() of adapter::block_matrix and of the crs<Block> built from it
//   adapter.entries.<T>      crs<Block>(block_matrix<Block>(A)): a block is stored iff the scalar matrix stores an entry in its
//                            b x b region; its entries == the scalar entries, 0 where nothing is stored; block columns strictly ascending
//   adapter.tuple.<T>        the same through the std::tie(n,ptr,col,val) adapter as source matrix
//   unblock.entries.<T>      adapter::unblock_matrix(B) is well formed and densely == A
//   unblock.roundtrip.<T>    block_matrix(unblock_matrix(B)) == B
//   spmv.block.<T>           backend::spmv(alpha, B, X, beta, Y) on reinterpret_as_rhs<Block> vectors == dense scalar definition
//   spmv.mixed.<T>           the same with plain std::vector<double> vectors (the mixed scalar/block dispatch of matrix_ops.hpp)
//   spmv.adapter.<T>         backend::spmv directly on the adapter object (no copy)
//   residual.block/mixed.<T> backend::residual(f, B, x, r) == f - A x
//   hybrid.copy_matrix.<T>   backend::builtin_hybrid<Block>::copy_matrix(scalar crs) gives the same block matrix
//   reinterpret.<T>          backend::reinterpret_as_rhs<Block>(vector<double>) aliases the same memory, size n/b, element k = x[k*b..k*b+b-1]
//   complex.shape / complex.entries / complex.spmv / complex.range / complex.block2
//                            adapter::complex_matrix: 2n x 2n, entry (re,-im;im,re) in interleaved ordering; spmv on the adapter with
//                            adapter::complex_range vectors == complex product; as 2x2 blocks through block_matrix
//   as_scalar.transfer.<T>   coarsening::as_scalar<C>::transfer_operators(B): P and R are the block forms of the transfer operators the
//                            base coarsening C returns for the scalar matrix (C in aggregation, smoothed_aggregation; aggr.block_size=b)
#include <complex>
#include <tuple>
#include <amgcl/backend/builtin.hpp>
#include <amgcl/backend/builtin_hybrid.hpp>
#include <amgcl/value_type/static_matrix.hpp>
#include <amgcl/value_type/eigen.hpp>
#include <amgcl/value_type/complex.hpp>
#include <amgcl/adapter/crs_tuple.hpp>
#include <amgcl/adapter/block_matrix.hpp>
#include <amgcl/adapter/complex.hpp>
#include <amgcl/coarsening/aggregation.hpp>
#include <amgcl/coarsening/smoothed_aggregation.hpp>
#include <amgcl/coarsening/as_scalar.hpp>
#include "vf.hpp"
#include "C13_common.hpp"

using namespace amgcl;
typedef backend::crs<double, ptrdiff_t, ptrdiff_t> SCrs;

// dense scalar description with structural flags
struct SD {
    int m = 0, n = 0; std::vector<double> a; std::vector<char> s;
    SD() {} SD(int m, int n) : m(m), n(n), a((size_t)m * n, 0.0), s((size_t)m * n, 0) {}
    double &operator()(int i, int j) { return a[(size_t)i * n + j]; } double operator()(int i, int j) const { return a[(size_t)i * n + j]; }
    char &st(int i, int j) { return s[(size_t)i * n + j]; } char st(int i, int j) const { return s[(size_t)i * n + j]; }
    int nnz() const { int c = 0; for (char x : s) c += x; return c; }
};
static std::string show(const SD &D) {
    std::ostringstream o; o << D.m << "x" << D.n << "[";
    for (int i = 0; i < D.m; ++i) { o << (i ? ";" : ""); for (int j = 0; j < D.n; ++j) { o << (j ? " " : ""); if (D.st(i, j)) o << D(i, j); else o << "."; } }
    o << "]"; return o.str();
}
static std::shared_ptr<SCrs> to_crs(const SD &D) {
    auto A = std::make_shared<SCrs>();
    A->set_size(D.m, D.n, true);
    for (int i = 0; i < D.m; ++i) { int w = 0; for (int j = 0; j < D.n; ++j) w += D.st(i, j); A->ptr[i + 1] = w; }
    A->set_nonzeros(A->scan_row_sizes());
    for (int i = 0; i < D.m; ++i) { ptrdiff_t h = A->ptr[i]; for (int j = 0; j < D.n; ++j) if (D.st(i, j)) { A->col[h] = j; A->val[h] = D(i, j); ++h; } }
    return A;
}
static SD from_scalar_pattern(int m, int n, uint64_t mask, int salt, bool zeros) {
    SD D(m, n);
    for (int i = 0; i < m; ++i) for (int j = 0; j < n; ++j) if ((mask >> (i * n + j)) & 1ull) {
        D.st(i, j) = 1; D(i, j) = (zeros && (i + 2 * j) % 3 == 0) ? 0.0 : c13::ival(i, j, salt);
    }
    return D;
}
static SD from_crs_data(const sg::Crs<double> &A) {
    SD D(A.n, A.n);
    for (int i = 0; i < A.n; ++i) for (ptrdiff_t j = A.ptr[i]; j < A.ptr[i + 1]; ++j) { D.st(i, (int)A.col[j]) = 1; D(i, (int)A.col[j]) = A.val[j]; }
    return D;
}

template <class Block> struct BT;
template <class T, int N> struct BT<static_matrix<T, N, N>> { static const int b = N; typedef T scalar; static std::string name() { return std::string(sizeof(T) == 4 ? "f" : "s") + std::to_string(N); } };
template <class T, int N> struct BT<Eigen::Matrix<T, N, N>> { static const int b = N; typedef T scalar; static std::string name() { return "e" + std::to_string(N); } };

// structural + value comparison of a block crs against the scalar dense description; "" when equal
template <class BM>
static std::string cmp_block(const BM &B, const SD &D) {
    typedef typename BM::val_type Block; const int b = BT<Block>::b;
    std::ostringstream e;
    if ((int)B.nrows != D.m / b || (int)B.ncols != D.n / b) { e << "shape " << B.nrows << "x" << B.ncols << " expected " << D.m / b << "x" << D.n / b; return e.str(); }
    if (B.nrows == 0) return "";
    if (B.ptr[0] != 0) return "ptr[0] != 0";
    for (int I = 0; I < (int)B.nrows; ++I) {
        if (B.ptr[I + 1] < B.ptr[I]) { e << "ptr not monotone at block row " << I; return e.str(); }
        std::vector<int> want;
        for (int J = 0; J < D.n / b; ++J) { bool any = false; for (int p = 0; p < b; ++p) for (int q = 0; q < b; ++q) any |= D.st(I * b + p, J * b + q); if (any) want.push_back(J); }
        if ((size_t)(B.ptr[I + 1] - B.ptr[I]) != want.size()) { e << "block row " << I << " stores " << (B.ptr[I + 1] - B.ptr[I]) << " blocks, expected " << want.size(); return e.str(); }
        for (size_t k = 0; k < want.size(); ++k) {
            ptrdiff_t j = B.ptr[I] + (ptrdiff_t)k;
            if ((int)B.col[j] != want[k]) { e << "block row " << I << " entry " << k << " has block column " << B.col[j] << ", expected " << want[k]; return e.str(); }
            for (int p = 0; p < b; ++p) for (int q = 0; q < b; ++q) {
                double got = (double)B.val[j](p, q), ref = D.st(I * b + p, want[k] * b + q) ? D(I * b + p, want[k] * b + q) : 0.0;
                if (!(got == ref)) { e << "block (" << I << "," << want[k] << ") entry (" << p << "," << q << ") = " << got << ", scalar matrix has " << ref; return e.str(); }
            }
        }
    }
    if ((size_t)B.ptr[B.nrows] != B.nnz) { e << "nnz=" << B.nnz << " ptr[n]=" << B.ptr[B.nrows]; return e.str(); }
    return "";
}
template <class BM> static std::string cmp_block_block(const BM &X, const BM &Y) {
    typedef typename BM::val_type Block; const int b = BT<Block>::b;
    if (X.nrows != Y.nrows || X.ncols != Y.ncols) return "shape differs";
    for (size_t I = 0; I < X.nrows; ++I) {
        if (X.ptr[I + 1] - X.ptr[I] != Y.ptr[I + 1] - Y.ptr[I]) return "row width differs in block row " + std::to_string(I);
        for (ptrdiff_t j = X.ptr[I], k = Y.ptr[I]; j < X.ptr[I + 1]; ++j, ++k) {
            if (X.col[j] != Y.col[k]) return "block column differs in block row " + std::to_string(I);
            for (int p = 0; p < b; ++p) for (int q = 0; q < b; ++q) if (!(X.val[j](p, q) == Y.val[k](p, q))) return "block value differs in block row " + std::to_string(I);
        }
    }
    return "";
}
// well-formedness + dense equality of a scalar crs against D (explicit zeros allowed where D stores nothing)
template <class M> static std::string cmp_scalar_dense(const M &A, const SD &D, bool sorted) {
    std::ostringstream e;
    if ((int)A.nrows != D.m || (int)A.ncols != D.n) { e << "shape " << A.nrows << "x" << A.ncols << " expected " << D.m << "x" << D.n; return e.str(); }
    if (A.nrows == 0) return "";
    if (A.ptr[0] != 0) return "ptr[0] != 0";
    std::vector<double> row(D.n); std::vector<char> seen(D.n);
    for (int i = 0; i < D.m; ++i) {
        if (A.ptr[i + 1] < A.ptr[i]) { e << "ptr not monotone at row " << i; return e.str(); }
        std::fill(row.begin(), row.end(), 0.0); std::fill(seen.begin(), seen.end(), 0);
        long long prev = -1;
        for (ptrdiff_t j = A.ptr[i]; j < A.ptr[i + 1]; ++j) {
            long long c = A.col[j];
            if (c < 0 || c >= D.n) { e << "column " << c << " out of range in row " << i; return e.str(); }
            if (seen[c]) { e << "duplicate column " << c << " in row " << i; return e.str(); }
            if (sorted && c <= prev) { e << "row " << i << " not sorted"; return e.str(); }
            prev = c; seen[c] = 1; row[c] = (double)A.val[j];
        }
        for (int j = 0; j < D.n; ++j) {
            double ref = D.st(i, j) ? D(i, j) : 0.0;
            if (!(row[j] == ref)) { e << "entry (" << i << "," << j << ") = " << row[j] << ", expected " << ref; return e.str(); }
            if (D.st(i, j) && !seen[j]) { e << "entry (" << i << "," << j << ") not stored"; return e.str(); }
        }
    }
    return "";
}

static std::vector<double> ivec(int n, int salt) { std::vector<double> x(n); for (int i = 0; i < n; ++i) x[i] = c13::ival(i, 2 * i + 1, salt); return x; }
static std::string showv(const std::vector<double> &v) { std::ostringstream o; o << "["; for (size_t i = 0; i < v.size(); ++i) o << (i ? " " : "") << v[i]; o << "]"; return o.str(); }

// ---------------------------------------------------------------------------------------------
// all operator-level checks of one scalar matrix for one block type
template <class Block>
static void oper_case(const std::string &key, const SD &D, bool heavy) {
    const int b = BT<Block>::b; const std::string T = BT<Block>::name();
    typedef typename BT<Block>::scalar S;
    typedef backend::crs<Block, ptrdiff_t, ptrdiff_t> BCrs;
    auto A = to_crs(D);
    const std::string in = " A=" + show(D);
    int nbr = D.m / b, nbc = D.n / b;

    auto ad = adapter::block_matrix<Block>(*A);
    if ((int)backend::rows(ad) != nbr || (int)backend::cols(ad) != nbc)
        vf::fail("adapter.shape." + T, key, vf::KS() << "adapter reports " << backend::rows(ad) << "x" << backend::cols(ad) << " expected " << nbr << "x" << nbc << in);
    BCrs B(ad);
    { std::string err = cmp_block(B, D); if (!err.empty()) { vf::fail("adapter.entries." + T, key, err + in); return; } }
    if (B.nnz > 1) vf::nontrivial(vf::hstr(key + T));
    { bool incomplete = false; for (size_t I = 0; I < B.nrows && !incomplete; ++I) for (ptrdiff_t j = B.ptr[I]; j < B.ptr[I + 1] && !incomplete; ++j) for (int p = 0; p < b; ++p) for (int q = 0; q < b; ++q) if (!D.st((int)I * b + p, (int)B.col[j] * b + q)) incomplete = true;
      if (incomplete) vf::count("oper.cases_with_structurally_incomplete_blocks." + T); }

    if (D.m == D.n) {       // tuple adapter describes square matrices
        std::vector<ptrdiff_t> ptr(A->ptr, A->ptr + D.m + 1), col(A->col, A->col + A->nnz); std::vector<double> val(A->val, A->val + A->nnz);
        int n = D.m; auto At = std::tie(n, ptr, col, val);
        BCrs B2(adapter::block_matrix<Block>(At));
        std::string err = cmp_block(B2, D); if (!err.empty()) vf::fail("adapter.tuple." + T, key, err + in);
    }
    // unblock
    {
        auto Us = adapter::unblock_matrix(B);
        SD Dc(D.m, D.n);                                 // compare as doubles
        std::string err = cmp_scalar_dense(*Us, D, true);
        if (!err.empty()) vf::fail("unblock.entries." + T, key, err + in);
        else {
            BCrs B3(adapter::block_matrix<Block>(*Us));
            std::string e2 = cmp_block_block(B3, B); if (!e2.empty()) vf::fail("unblock.roundtrip." + T, key, e2 + in);
        }
    }
    // hybrid backend conversion (double blocks only: the hybrid base backend has the block's scalar type)
    if constexpr (std::is_same<S, double>::value) if (D.m == D.n) {
        typedef backend::builtin_hybrid<Block> HB;
        auto Bh = HB::copy_matrix(A, typename HB::params());
        std::string err = cmp_block(*Bh, D); if (!err.empty()) vf::fail("hybrid.copy_matrix." + T, key, err + in);
    }
    // matrix-vector products
    std::vector<std::pair<double, double>> ab = {{1, 0}, {2, -1}};
    if (heavy) { ab.push_back({-1, 1}); ab.push_back({3, 2}); }
    for (auto c : ab) {
        double alpha = c.first, beta = c.second;
        std::vector<S> x(D.n), y0(D.m);
        { auto xi = ivec(D.n, 1), yi = ivec(D.m, 2); for (int i = 0; i < D.n; ++i) x[i] = (S)xi[i]; for (int i = 0; i < D.m; ++i) y0[i] = (S)yi[i]; }
        std::vector<double> ref(D.m);
        for (int i = 0; i < D.m; ++i) { double s = 0; for (int j = 0; j < D.n; ++j) if (D.st(i, j)) s += D(i, j) * (double)x[j]; ref[i] = alpha * s + beta * (double)y0[i]; }
        auto cmpv = [&](const char *sub, const std::vector<S> &y) {
            for (int i = 0; i < D.m; ++i) if (!((double)y[i] == ref[i])) {
                std::vector<double> yd(y.begin(), y.end()), xd(x.begin(), x.end()), y0d(y0.begin(), y0.end());
                vf::fail(std::string(sub) + "." + T, key, vf::KS() << "alpha=" << alpha << " beta=" << beta << " x=" << showv(xd) << " y0=" << showv(y0d) << " got=" << showv(yd) << " want=" << showv(ref) << in);
                return;
            }
        };
        { std::vector<S> y = y0; auto X = backend::reinterpret_as_rhs<Block>(x); auto Y = backend::reinterpret_as_rhs<Block>(y); backend::spmv((S)alpha, B, X, (S)beta, Y); cmpv("spmv.block", y); }
        { std::vector<S> y = y0; backend::spmv((S)alpha, B, x, (S)beta, y); cmpv("spmv.mixed", y); }
        { std::vector<S> y = y0; auto X = backend::reinterpret_as_rhs<Block>(x); auto Y = backend::reinterpret_as_rhs<Block>(y); backend::spmv((S)alpha, ad, X, (S)beta, Y); cmpv("spmv.adapter", y); }
        if (alpha == 1 && beta == 0) {
            // residual r = f - A x
            for (int i = 0; i < D.m; ++i) ref[i] = (double)y0[i] - ref[i];
            { std::vector<S> r(D.m, (S)77); auto X = backend::reinterpret_as_rhs<Block>(x); auto F = backend::reinterpret_as_rhs<Block>(y0); auto R = backend::reinterpret_as_rhs<Block>(r); backend::residual(F, B, X, R); cmpv("residual.block", r); }
            { std::vector<S> r(D.m, (S)77); backend::residual(y0, B, x, r); cmpv("residual.mixed", r); }
        }
    }
    // reinterpretation of vectors
    {
        std::vector<S> x(D.n); for (int i = 0; i < D.n; ++i) x[i] = (S)(i + 1);
        auto X = backend::reinterpret_as_rhs<Block>(x);
        bool ok = ((int)X.size() == nbc) && (nbc == 0 || (const void *)&X[0] == (const void *)x.data());
        for (int k = 0; ok && k < nbc; ++k) for (int p = 0; p < b; ++p) if (!(X[k](p) == x[k * b + p])) ok = false;
        const std::vector<S> &cx = x; auto CX = backend::reinterpret_as_rhs<Block>(cx);
        if ((int)CX.size() != nbc) ok = false;
        if (!ok) vf::fail("reinterpret." + T, key, vf::KS() << "reinterpret_as_rhs of a vector of " << D.n << " scalars: size " << X.size() << ", expected " << nbc << " blocks aliasing the same memory");
    }
}

template <class Block> static void oper_all_types_one(const std::string &key, const SD &D, bool heavy) { oper_case<Block>(key, D, heavy); }
template <int b> static void oper_b(const std::string &key, const SD &D, bool heavy) {
    oper_case<static_matrix<double, b, b>>(key, D, heavy);
    oper_case<Eigen::Matrix<double, b, b>>(key, D, heavy);
    if (b == 2) oper_case<static_matrix<float, 2, 2>>(key, D, heavy);
}
static void oper_dispatch(int b, const std::string &key, const SD &D, bool heavy) {
    if (b == 2) oper_b<2>(key, D, heavy); else if (b == 3) oper_b<3>(key, D, heavy); else oper_b<4>(key, D, heavy);
}

// ---------------------------------------------------------------------------------------------
// as_scalar: transfer operators in block form == block form of the base coarsening's scalar operators
template <class Block, template <class> class C>
static void as_scalar_case(const char *cname, const std::string &key, const sg::Crs<double> &As) {
    const int b = BT<Block>::b; const std::string T = BT<Block>::name();
    typedef backend::builtin<Block> BB; typedef backend::builtin<double> SB;
    typedef backend::crs<Block, ptrdiff_t, ptrdiff_t> BCrs;
    SD D = from_crs_data(As); auto A = to_crs(D);
    BCrs B(adapter::block_matrix<Block>(*A));
    typename C<SB>::params prm; prm.aggr.block_size = b; prm.aggr.eps_strong = 0.08f;
    const std::string sub = std::string("as_scalar.transfer.") + cname + "." + T;
    std::shared_ptr<SCrs> Ps, Rs; bool empty_s = false, empty_b = false;
    try {
        C<SB> base(prm);
        auto Au = adapter::unblock_matrix(B);
        std::tie(Ps, Rs) = base.transfer_operators(*Au);
        backend::sort_rows(*Ps); backend::sort_rows(*Rs);
    } catch (const error::empty_level &) { empty_s = true; }
    std::shared_ptr<BCrs> Pb, Rb;
    try {
        typename coarsening::as_scalar<C>::template type<BB> wrap(prm);
        std::tie(Pb, Rb) = wrap.transfer_operators(B);
    } catch (const error::empty_level &) { empty_b = true; }
    catch (const std::exception &e) { vf::fail(sub, key, vf::KS() << "as_scalar threw '" << e.what() << "' A=" << sg::show(As)); return; }
    if (empty_s != empty_b) { vf::fail(sub, key, vf::KS() << "empty_level raised by " << (empty_s ? "the base coarsening only" : "as_scalar only") << " A=" << sg::show(As)); return; }
    if (empty_s) { vf::count("as_scalar.empty_level"); return; }
    vf::count("as_scalar.transfer_compared");
    if (Ps->ncols >= (size_t)b) vf::nontrivial(vf::hstr(key + T + cname));
    auto densify = [](const SCrs &M) { SD d((int)M.nrows, (int)M.ncols); for (size_t i = 0; i < M.nrows; ++i) for (ptrdiff_t j = M.ptr[i]; j < M.ptr[i + 1]; ++j) { d.st((int)i, (int)M.col[j]) = 1; d((int)i, (int)M.col[j]) = M.val[j]; } return d; };
    std::string e1 = cmp_block(*Pb, densify(*Ps)); if (!e1.empty()) vf::fail(sub, key, "P: " + e1 + " A=" + sg::show(As));
    std::string e2 = cmp_block(*Rb, densify(*Rs)); if (!e2.empty()) vf::fail(sub, key, "R: " + e2 + " A=" + sg::show(As));
}
template <int b> static void as_scalar_b(const std::string &key, const sg::Crs<double> &As) {
    as_scalar_case<static_matrix<double, b, b>, coarsening::aggregation>("aggregation", key, As);
    as_scalar_case<static_matrix<double, b, b>, coarsening::smoothed_aggregation>("smoothed_aggregation", key, As);
    as_scalar_case<Eigen::Matrix<double, b, b>, coarsening::aggregation>("aggregation", key, As);
    as_scalar_case<Eigen::Matrix<double, b, b>, coarsening::smoothed_aggregation>("smoothed_aggregation", key, As);
}

// ---------------------------------------------------------------------------------------------
// complex adapter
typedef std::complex<double> Cx;
typedef backend::crs<Cx, ptrdiff_t, ptrdiff_t> CCrs;
static void complex_case(const std::string &key, int m, int n, uint64_t mask, int salt) {
    // complex dense description
    std::vector<Cx> a((size_t)m * n, Cx()); std::vector<char> s((size_t)m * n, 0);
    for (int i = 0; i < m; ++i) for (int j = 0; j < n; ++j) if ((mask >> (i * n + j)) & 1ull) { s[i * n + j] = 1; a[i * n + j] = c13::gval(i, j, salt); if (salt == 2 && (i + j) % 2 == 0) a[i * n + j] = Cx(a[i * n + j].real(), 0); if (salt == 2 && (i + j) % 3 == 1) a[i * n + j] = Cx(0, a[i * n + j].imag()); }
    // NOTE: adapter::complex_matrix cannot wrap amgcl's own backend::crs<complex> (crs::row_iterator has no col_type typedef,
    // compile error); it is used with the CRS tuple adapter as in examples/solver_complex.cpp.  The tuple adapter describes
    // square matrices only, so rectangular shapes are embedded in the leading rows/columns of a square max(m,n) matrix.
    int N = std::max(m, n);
    std::vector<ptrdiff_t> cptr(N + 1, 0), ccol; std::vector<Cx> cval;
    for (int i = 0; i < N; ++i) { if (i < m) for (int j = 0; j < n; ++j) if (s[i * n + j]) { ccol.push_back(j); cval.push_back(a[i * n + j]); } cptr[i + 1] = (ptrdiff_t)ccol.size(); }
    auto At = std::tie(N, cptr, ccol, cval);
    if (m != n) { std::vector<Cx> a2((size_t)N * N, Cx()); std::vector<char> s2((size_t)N * N, 0); for (int i = 0; i < m; ++i) for (int j = 0; j < n; ++j) { a2[i * N + j] = a[i * n + j]; s2[i * N + j] = s[i * n + j]; } a.swap(a2); s.swap(s2); m = n = N; }
    std::ostringstream in; in << " A=" << m << "x" << n << "["; for (int i = 0; i < m; ++i) { in << (i ? ";" : ""); for (int j = 0; j < n; ++j) { in << (j ? " " : ""); if (s[i * n + j]) in << a[i * n + j]; else in << "."; } } in << "]";
    // real equivalent
    SD D(2 * m, 2 * n);
    for (int i = 0; i < m; ++i) for (int j = 0; j < n; ++j) if (s[i * n + j]) {
        double re = a[i * n + j].real(), im = a[i * n + j].imag();
        D.st(2 * i, 2 * j) = D.st(2 * i, 2 * j + 1) = D.st(2 * i + 1, 2 * j) = D.st(2 * i + 1, 2 * j + 1) = 1;
        D(2 * i, 2 * j) = re; D(2 * i, 2 * j + 1) = -im; D(2 * i + 1, 2 * j) = im; D(2 * i + 1, 2 * j + 1) = re;
    }
    auto ad = adapter::complex_matrix(At);
    size_t nz = 0; for (char c : s) nz += c;
    if ((int)backend::rows(ad) != 2 * m || (int)backend::cols(ad) != 2 * n || backend::nonzeros(ad) != 4 * nz)
        vf::fail("complex.shape", key, vf::KS() << "adapter reports " << backend::rows(ad) << "x" << backend::cols(ad) << " nnz " << backend::nonzeros(ad) << in.str());
    SCrs R(ad);
    if (nz > 1) vf::nontrivial(vf::hstr(key));
    { std::string err = cmp_scalar_dense(R, D, true);
      if (err.empty()) for (int i = 0; i < 2 * m && err.empty(); ++i) if (R.ptr[i + 1] - R.ptr[i] != 2 * (cptr[i / 2 + 1] - cptr[i / 2])) err = "row " + std::to_string(i) + " has wrong width";
      if (!err.empty()) { vf::fail("complex.entries", key, err + in.str()); return; } }
    // spmv on the adapter with complex_range vectors
    std::vector<Cx> x(n), y0(m);
    for (int i = 0; i < n; ++i) x[i] = c13::gval(i, 2 * i + 1, 3);
    for (int i = 0; i < m; ++i) y0[i] = c13::gval(2 * i, i + 1, 4);
    for (auto c : std::vector<std::pair<double, double>>{{1, 0}, {2, -1}}) {
        std::vector<Cx> ref(m);
        for (int i = 0; i < m; ++i) { Cx sum = 0; for (int j = 0; j < n; ++j) if (s[i * n + j]) sum += a[i * n + j] * x[j]; ref[i] = c.first * sum + c.second * y0[i]; }
        std::vector<Cx> y = y0;
        const std::vector<Cx> &cx = x;
        auto X = adapter::complex_range(cx); auto Y = adapter::complex_range(y);
        if ((size_t)boost::size(X) != 2 * (size_t)n || (size_t)boost::size(Y) != 2 * (size_t)m || (n && (const void *)&X[0] != (const void *)x.data()))
            vf::fail("complex.range", key, vf::KS() << "complex_range sizes " << boost::size(X) << "," << boost::size(Y));
        backend::spmv(c.first, ad, X, c.second, Y);
        for (int i = 0; i < m; ++i) if (!(y[i] == ref[i])) { vf::fail("complex.spmv", key, vf::KS() << "alpha=" << c.first << " beta=" << c.second << " row " << i << " got " << y[i] << " want " << ref[i] << in.str()); break; }
        // the same on the copied real matrix with plain double vectors
        std::vector<double> xr(2 * n), yr(2 * m);
        for (int i = 0; i < n; ++i) { xr[2 * i] = x[i].real(); xr[2 * i + 1] = x[i].imag(); }
        for (int i = 0; i < m; ++i) { yr[2 * i] = y0[i].real(); yr[2 * i + 1] = y0[i].imag(); }
        backend::spmv(c.first, R, xr, c.second, yr);
        for (int i = 0; i < m; ++i) if (!(Cx(yr[2 * i], yr[2 * i + 1]) == ref[i])) { vf::fail("complex.spmv", key, vf::KS() << "(copied real matrix) alpha=" << c.first << " row " << i << " got " << Cx(yr[2 * i], yr[2 * i + 1]) << " want " << ref[i] << in.str()); break; }
    }
    // as 2x2 real blocks
    {
        typedef static_matrix<double, 2, 2> B2;
        backend::crs<B2, ptrdiff_t, ptrdiff_t> Bb(adapter::block_matrix<B2>(ad));
        std::string err = cmp_block(Bb, D);
        if (err.empty()) for (int i = 0; i < m && err.empty(); ++i) if (Bb.ptr[i + 1] - Bb.ptr[i] != cptr[i + 1] - cptr[i]) err = "block row width differs from the complex row width";
        if (!err.empty()) vf::fail("complex.block2", key, err + in.str());
    }
}

// ---------------------------------------------------------------------------------------------
int main(int argc, char **argv) {
    vf::init(argc, argv, "C13");
    const bool T = vf::thorough();

    // (1) exhaustive scalar sparsity patterns of small block shapes: (b, block rows, block cols)
    if (vf::section("ba")) {
        struct Shape { int b, br, bc; bool quick; };
        std::vector<Shape> shapes = {{2, 1, 1, true}, {2, 2, 1, true}, {2, 1, 2, true}, {2, 2, 2, true}, {3, 1, 1, true}, {4, 1, 1, true}, {3, 2, 1, false}, {3, 1, 2, false}, {2, 3, 1, true}, {2, 1, 3, true}};
        for (auto s : shapes) {
            int m = s.b * s.br, n = s.b * s.bc; uint64_t np = 1ull << (m * n);
            // quick tier: the two 2^18 spaces (b=3, 2x1 and 1x2 blocks) are walked with stride 8 (every pattern in thorough)
            uint64_t stride = 1;
            if (!T && !vf::replaying() && !s.quick) stride = 8;
            for (uint64_t mask = 0; mask < np; mask += stride) {
                std::string key;
                if (!vf::take([&] { return std::string(vf::KS() << "ba|" << s.b << "|" << s.br << "x" << s.bc << "|" << mask); })) continue;
                key = vf::KS() << "ba|" << s.b << "|" << s.br << "x" << s.bc << "|" << mask;
                SD D = from_scalar_pattern(m, n, mask, 0, (mask % 5) == 3);
                oper_dispatch(s.b, key, D, false);
            }
            if (stride == 1) vf::space(vf::KS() << "block_matrix adapter: all " << np << " scalar sparsity patterns of a " << s.br << "x" << s.bc << " block matrix with b=" << s.b);
            else { vf::space(vf::KS() << "block_matrix adapter: every " << stride << "-th of the " << np << " scalar sparsity patterns of a " << s.br << "x" << s.bc << " block matrix with b=" << s.b); }
        }
    }
    // (2) all 3x3 node patterns (all 512, with and without diagonal blocks) x fill schemes x b
    if (vf::section("bs")) {
        for (int b = 2; b <= 4; ++b) for (uint64_t nm = 0; nm < 512; ++nm) for (int sc = 0; sc < c13::NSCHEMES; ++sc) {
            if (!vf::take([&] { return std::string(vf::KS() << "bs|" << b << "|" << nm << "|" << sc); })) continue;
            std::string key = vf::KS() << "bs|" << b << "|" << nm << "|" << sc;
            auto As = c13::block_pattern(3, c13::node_adj_mask(3, nm), b, sc, 0, (int)(nm % 3));
            oper_dispatch(b, key, from_crs_data(As), T);
        }
        vf::space("block_matrix / unblock_matrix / spmv / hybrid copy: all 512 node patterns on 3 nodes x 10 block fill schemes x b in {2,3,4} x {static_matrix, Eigen} blocks");
        // small grids
        std::vector<std::pair<int, int>> grids = {{2, 2}, {3, 2}, {3, 3}, {4, 1}};
        if (T) { grids.push_back({4, 4}); grids.push_back({5, 3}); }
        for (int b = 2; b <= 4; ++b) for (auto g : grids) for (int sc = 0; sc < c13::NSCHEMES; ++sc) {
            if (!vf::take([&] { return std::string(vf::KS() << "bs|" << b << "|g" << g.first << "x" << g.second << "|" << sc); })) continue;
            std::string key = vf::KS() << "bs|" << b << "|g" << g.first << "x" << g.second << "|" << sc;
            auto As = c13::block_pattern(g.first * g.second, c13::node_adj_grid(g.first, g.second), b, sc, 0, sc);
            oper_dispatch(b, key, from_crs_data(As), true);
        }
        vf::space("the same on 5-point grid node patterns x 10 fill schemes");
        // Kronecker products A (x) B
        for (int b = 2; b <= 4; ++b) for (int kb = 0; kb < c13::NKRON; ++kb) for (uint32_t off = 0; off < 64; ++off) {
            if (!vf::take([&] { return std::string(vf::KS() << "bs|" << b << "|k" << kb << "|" << off); })) continue;
            std::string key = vf::KS() << "bs|" << b << "|k" << kb << "|" << off;
            auto A0 = c13::block_pattern(3, c13::node_adj_mask(3, c13::node3_from_offdiag(3, off)), 1, 0, 0, 1);
            auto As = sg::kron(A0, c13::kron_block(kb, b), b);
            for (auto &v : As.val) v *= 4;                                    // quarter-valued coupling blocks -> integers
            oper_dispatch(b, key, from_crs_data(As), false);
        }
        vf::space("A (x) B: all 64 full-diagonal 3x3 node patterns x 5 coupling blocks x b in {2,3,4}");
    }
    // (3) complex adapter: all patterns of small shapes
    if (vf::section("cx")) {
        std::vector<std::pair<int, int>> shapes = {{1, 1}, {2, 2}, {3, 3}, {2, 3}, {3, 2}};
        if (T) shapes.push_back({4, 4});
        for (auto s : shapes) {
            uint64_t np = 1ull << (s.first * s.second);
            for (uint64_t mask = 0; mask < np; ++mask) for (int salt = 0; salt < 3; ++salt) {
                if (!vf::take([&] { return std::string(vf::KS() << "cx|" << s.first << "x" << s.second << "|" << mask << "|" << salt); })) continue;
                complex_case(vf::KS() << "cx|" << s.first << "x" << s.second << "|" << mask << "|" << salt, s.first, s.second, mask, salt);
            }
            vf::space(vf::KS() << "complex adapter: all " << np << " sparsity patterns " << s.first << "x" << s.second << " x 3 Gaussian-integer value rules");
        }
    }
    // (4) as_scalar transfer operators
    if (vf::section("as")) {
        for (int b = 2; b <= 4; ++b) for (int sym = 0; sym < 2; ++sym) for (uint32_t off = 0; off < 64; ++off) for (int sc = 0; sc < c13::NSCHEMES; ++sc) {
            if (!T && !vf::replaying() && (sc % 3) != (int)(off % 3)) continue;
            auto adj = c13::node_adj_mask(3, c13::node3_from_offdiag(3, off));
            if (sym && !c13::node_symmetric(3, adj)) continue;
            if (!vf::take([&] { return std::string(vf::KS() << "as|" << b << "|" << sym << "|" << off << "|" << sc); })) continue;
            std::string key = vf::KS() << "as|" << b << "|" << sym << "|" << off << "|" << sc;
            auto As = c13::block_pattern(3, adj, b, sc, sym ? 2 : 1);
            if (b == 2) as_scalar_b<2>(key, As); else if (b == 3) as_scalar_b<3>(key, As); else as_scalar_b<4>(key, As);
        }
        for (int b = 2; b <= 4; ++b) for (auto g : std::vector<std::pair<int, int>>{{3, 3}, {4, 4}, {6, 1}}) for (int sc = 0; sc < c13::NSCHEMES; ++sc) {
            if (!vf::take([&] { return std::string(vf::KS() << "as|" << b << "|g" << g.first << "x" << g.second << "|" << sc); })) continue;
            std::string key = vf::KS() << "as|" << b << "|g" << g.first << "x" << g.second << "|" << sc;
            auto As = c13::block_pattern(g.first * g.second, c13::node_adj_grid(g.first, g.second), b, sc, 2);
            if (b == 2) as_scalar_b<2>(key, As); else if (b == 3) as_scalar_b<3>(key, As); else as_scalar_b<4>(key, As);
        }
        vf::space("as_scalar transfer operators: 3-node patterns (full diagonal) x fill schemes x {nonsymmetric, SPD} values + grids, b in {2,3,4}, aggregation and smoothed_aggregation");
    }
    vf::sample_str("bs|3|325|7: 3 nodes, node pattern 325, 3x3 blocks, scheme rot-row: " + sg::show(c13::block_pattern(3, c13::node_adj_mask(3, 325), 3, 7, 0, 1)));
    return vf::finish();
}
