// C02 -- for a fixed hierarchy the AMG cycle is one fixed linear operator B; for SPD irreducibly diagonally
// dominant M-matrices and the symmetric smoothers B is SPD and rho(I - B A) < 1; B(2^k A) = 2^-k B(A) bitwise.
//
// Everything goes through the run-time interface amg<builtin<double>, runtime::coarsening::wrapper,
// runtime::relaxation::wrapper> configured by a property tree.  B is extracted column by column
// (apply(e_j)); the spectral clauses are decided through dense symmetric eigenproblems (Eigen).
#include <amgcl/backend/builtin.hpp>
#include <amgcl/value_type/static_matrix.hpp>
#include <amgcl/amg.hpp>
#include <amgcl/coarsening/runtime.hpp>
#include <amgcl/relaxation/runtime.hpp>
#include <boost/property_tree/ptree.hpp>
#include <Eigen/Dense>
#include <limits>
#include <set>
#include "vf.hpp"
#include "mk.hpp"
#include "C03_fam.hpp"

// C02_BLOCK = b > 1: the same harness on b x b block values (builtin<static_matrix<double,b,b>>); the oracles work on
// the scalar expansion.  C02_THREADS = t > 1: OpenMP teams of t fibers (parallel paths of gauss_seidel / ilu_solve).
#ifndef C02_BLOCK
#define C02_BLOCK 1
#endif
#ifndef C02_THREADS
#define C02_THREADS 1
#endif
#if C02_THREADS > 1
#include "vsched.hpp"
static inline void omp_tick() { vs::begin_execution(); }
#else
static inline void omp_tick() {}
#endif
static const int BS = C02_BLOCK;
#if C02_BLOCK == 1
typedef double Val;
typedef double Rhs;
#else
typedef amgcl::static_matrix<double, C02_BLOCK, C02_BLOCK> Val;
typedef amgcl::static_matrix<double, C02_BLOCK, 1> Rhs;
#endif
typedef amgcl::backend::builtin<Val> Backend;
typedef Backend::matrix Crs;
typedef boost::property_tree::ptree ptree;
typedef mk::Dense<double> DD;
typedef amgcl::amg<Backend, amgcl::runtime::coarsening::wrapper, amgcl::runtime::relaxation::wrapper> AMG;
typedef Eigen::MatrixXd Mat;
typedef Eigen::VectorXd Vec;

static const char *coars_names[] = {"aggregation", "smoothed_aggregation", "smoothed_aggr_emin", "ruge_stuben"};
static const char *relax_names[] = {"damped_jacobi", "spai0", "gauss_seidel", "ilu0", "iluk", "ilup", "chebyshev", "ilut", "spai1"};
static const int NSYM_RELAX = 7;       // the first seven are the property's "symmetric smoothers"

struct LvlV { const char *name; int ce_mode; unsigned ce; unsigned max_levels; bool direct; };
static const unsigned INF = std::numeric_limits<unsigned>::max();
static const LvlV lvl_variants[] = {
    {"ce1_direct",   0, 1, INF, true},     // as deep as the coarsening goes, direct solve of the last 1x1 (or stop at empty level)
    {"ce_n4_direct", 1, 0, INF, true},     // coarse_enough = max(2, n/4)
    {"ce2_smooth",   0, 2, INF, false},    // smoother on the coarsest level
    {"ml2_ce1",      0, 1, 2,   true},     // two-grid: second level is smoothed unless it has one unknown
    {"ml1",          0, 1, 1,   true},     // single level: smoother only
};

struct Cfg { int ci, ri, lv; unsigned ncycle, npre, npost, pre_cycles; bool est = false; /* coarsening.estimate_spectral_radius */ bool chs = false; /* relax.scale (Chebyshev on D^-1 A, Gershgorin bound) */ };

static ptree make_ptree(const Cfg &c, int n) {
    ptree p;
    p.put("coarsening.type", coars_names[c.ci]);
    p.put("relax.type", relax_names[c.ri]);
    const LvlV &v = lvl_variants[c.lv];
    p.put("coarse_enough", v.ce_mode == 1 ? (unsigned)std::max(2, n / 4) : v.ce);
    if (v.max_levels != INF) p.put("max_levels", v.max_levels);
    p.put("direct_coarse", v.direct);
    p.put("ncycle", c.ncycle); p.put("npre", c.npre); p.put("npost", c.npost); p.put("pre_cycles", c.pre_cycles);
    if (c.est) p.put("coarsening.estimate_spectral_radius", true);
    if (c.chs) p.put("relax.scale", true);
    return p;
}
static std::string cfg_key(const Cfg &c) {
    return vf::KS() << coars_names[c.ci] << "|" << relax_names[c.ri] << "|" << lvl_variants[c.lv].name << "|nc" << c.ncycle << "|pre" << c.npre << "|post" << c.npost << "|pc" << c.pre_cycles << (c.est ? "|est" : "") << (c.chs ? "|chebscale" : "");
}

static std::vector<double> ramp(int n) { std::vector<double> f(n); for (int i = 0; i < n; ++i) f[i] = 1 + (i * 3) % 7; return f; }
static bool bits_equal(const std::vector<double> &a, const std::vector<double> &b) { return a.size() == b.size() && (a.empty() || std::memcmp(a.data(), b.data(), a.size() * sizeof(double)) == 0); }

struct MatInfo {
    std::string id; DD d; std::shared_ptr<Crs> A;
    Mat Ad, L;            // dense A, Cholesky factor A = L L^T
    double kappa = 0, normA = 0;
    bool dd_mmatrix_spd = false;     // symmetric, off-diagonals <= 0, weakly diagonally dominant with one strict row, connected
};

// scalar dense description (N = nb*BS rows) -> matrix of the backend's value type
static std::shared_ptr<Crs> to_backend_crs(const DD &d) {
#if C02_BLOCK == 1
    return mk::to_crs<double>(d);
#else
    int nb = d.m / BS;
    mk::Dense<Val> b(nb, nb);
    for (int I = 0; I < nb; ++I) for (int J = 0; J < nb; ++J) {
        bool any = false;
        for (int i = 0; i < BS; ++i) for (int j = 0; j < BS; ++j) if (d.st(I * BS + i, J * BS + j)) any = true;
        if (!any) continue;
        b.st(I, J) = 1;
        for (int i = 0; i < BS; ++i) for (int j = 0; j < BS; ++j) b(I, J)(i, j) = d.st(I * BS + i, J * BS + j) ? d(I * BS + i, J * BS + j) : 0.0;
    }
    return mk::to_crs<Val>(b);
#endif
}
// block system from a scalar matrix G: off-diagonal block g_ij I, diagonal block g_ii I + c (1 - delta) coupling of the
// components (-c off the diagonal, +c (BS-1) on it): the scalar expansion stays a symmetric irreducibly dominant M-matrix
static DD expand_block(const DD &g) {
#if C02_BLOCK == 1
    return g;
#else
    int n = g.m;
    DD d(n * BS, n * BS);
    for (int I = 0; I < n; ++I) for (int J = 0; J < n; ++J) if (g.st(I, J)) {
        for (int i = 0; i < BS; ++i) { d.st(I * BS + i, J * BS + i) = 1; d(I * BS + i, J * BS + i) = g(I, J); }
        if (I == J) for (int i = 0; i < BS; ++i) for (int j = 0; j < BS; ++j) {
            d.st(I * BS + i, I * BS + j) = 1;
            if (i != j) d(I * BS + i, I * BS + j) = -1.0; else d(I * BS + i, I * BS + i) += BS - 1;
        }
    }
    return d;
#endif
}

// one application through the backend's vector type
static void do_apply(const AMG &a, const std::vector<double> &f, std::vector<double> &x);

// replay mode: only the matrix named in the replayed key needs to be set up
static bool wanted(const std::string &id) {
    return !vf::replaying() || vf::S().replay_key.find("|" + id + "|") != std::string::npos;
}

static MatInfo prepare(const std::string &id, const DD &d) {
    MatInfo m; m.id = id; m.d = d; m.A = to_backend_crs(d);
    int n = d.m;
    m.Ad = Mat::Zero(n, n);
    for (int i = 0; i < n; ++i) for (int j = 0; j < n; ++j) if (d.st(i, j)) m.Ad(i, j) = d(i, j);
    bool sym = fam::symmetric(d), mm = true, wdd = true, strict = false;
    for (int i = 0; i < n; ++i) {
        double off = 0;
        for (int j = 0; j < n; ++j) if (j != i && d.st(i, j)) { if (d(i, j) > 0) mm = false; off += std::fabs(d(i, j)); }
        if (d(i, i) < off) wdd = false;
        if (d(i, i) > off) strict = true;
    }
    m.dd_mmatrix_spd = sym && mm && wdd && strict && fam::connected(d);
    if (sym) {
        Eigen::SelfAdjointEigenSolver<Mat> es(m.Ad, Eigen::EigenvaluesOnly);
        double lo = es.eigenvalues()(0), hi = es.eigenvalues()(n - 1);
        m.normA = hi; m.kappa = lo > 0 ? hi / lo : std::numeric_limits<double>::infinity();
        Eigen::LLT<Mat> llt(m.Ad);
        if (llt.info() == Eigen::Success) m.L = llt.matrixL(); else m.dd_mmatrix_spd = false;
    }
    return m;
}

static void do_apply(const AMG &a, const std::vector<double> &f, std::vector<double> &x) {
    omp_tick();
#if C02_BLOCK == 1
    a.apply(f, x);
#else
    size_t nb = f.size() / BS;
    std::vector<Rhs> fb(nb), xb(nb);
    std::memcpy((void*)fb.data(), f.data(), f.size() * sizeof(double));
    a.apply(fb, xb);
    x.resize(f.size());
    std::memcpy(x.data(), (const void*)xb.data(), f.size() * sizeof(double));
#endif
}

// operation-depth count of one application (number of sequential floating point accumulations an output entry
// can depend on): used only to scale the rounding bound
static double work_depth(const AMG &a, const Cfg &c) {
    std::vector<double> wl; std::vector<bool> direct; std::vector<double> rows;
    for (const auto &l : a.levels) {
        double mr = 2;
        auto rowmax = [](const std::shared_ptr<Crs> &M) { double w = 0; if (M) for (size_t i = 0; i < M->nrows; ++i) w = std::max<double>(w, M->ptr[i + 1] - M->ptr[i]); return w; };
        double wa = rowmax(l.A) + 2, wp = rowmax(l.P) + 2, wr = rowmax(l.R) + 2;
        double relax = 4 * wa * (c.ri == 6 ? 5 : 1) * (c.ri == 2 || (c.ri >= 3 && c.ri != 6 && c.ri != 8) ? (double)l.m_rows : 1.0);   // triangular sweeps chain through the rows
        wl.push_back((c.npre + c.npost) * relax + wa + wp + wr);
        direct.push_back((bool)l.solve); rows.push_back((double)l.m_rows);
        (void)mr;
    }
    double w = 0;
    for (int k = (int)wl.size() - 1; k >= 0; --k) {
        if (k == (int)wl.size() - 1) w = direct[k] ? rows[k] * rows[k] : wl[k];
        else w = c.ncycle * (wl[k] + w);
    }
    return c.pre_cycles * w * BS * BS;
}

static Mat extract_B(const AMG &a, int n) {
    Mat B(n, n);
    std::vector<double> f(n, 0.0), x(n);
    for (int j = 0; j < n; ++j) { f[j] = 1; do_apply(a, f, x); f[j] = 0; for (int i = 0; i < n; ++i) B(i, j) = x[i]; }
    return B;
}

// per-case maxima are recorded as decade histograms (counters are summed over shards)
struct Stats { double max_add_ratio = 0, max_sym_ratio = 0, max_rho = 0; };
static void bucket(const char *what, double ratio) {
    if (!(ratio > 0)) { vf::count(std::string(what) + "_1e-inf"); return; }
    int d = (int)std::floor(std::log10(ratio));
    vf::count(std::string(what) + "_1e" + (d < -12 ? std::string("-12_or_less") : std::to_string(d)));
}

static void run_case(const std::string &key, const MatInfo &m, const Cfg &c, bool do_scaling) {
    const int n = m.d.m;
    Stats g_stats;
    std::set<std::string> failed;
    auto fail = [&](const std::string &sub, const std::string &detail) { if (failed.insert(sub).second) vf::fail(sub, key, detail); };
    const std::string rel = relax_names[c.ri];
    ptree pt = make_ptree(c, n / BS);

    std::unique_ptr<AMG> amg;
    try { omp_tick(); amg.reset(new AMG(*m.A, AMG::params(pt))); }
    catch (const std::exception &e) { vf::count(std::string("build_threw:") + coars_names[c.ci] + ":" + rel + ":" + std::string(e.what()).substr(0, 40)); return; }
    size_t nlev = amg->levels.size();
    vf::count("hierarchies");
    if (nlev >= 2) { vf::count("levels_ge_2"); vf::nontrivial(vf::hstr(key)); }
    if (nlev >= 3) vf::count("levels_ge_3");
    if (nlev >= 4) vf::count("levels_ge_4");
    vf::count(amg->levels.back().solve ? "coarsest_direct" : "coarsest_smoothed");

    // ---- history independence: the very first application on the new object is the reference ---------------
    const std::vector<double> f0 = ramp(n);
    std::vector<double> x_first(n), x(n), y(n);
    do_apply(*amg, f0, x_first);
    Mat B = extract_B(*amg, n);
    bool finite = B.allFinite();
    if (!finite) {
        vf::count(std::string("nonfinite_B:") + coars_names[c.ci] + ":" + rel);
        // B with NaN/Inf entries is certainly not the SPD operator the property promises on this matrix class
        if (m.dd_mmatrix_spd && c.ri < NSYM_RELAX)
            fail(std::string("spd.finite_operator:") + coars_names[c.ci], vf::KS() << "B = [apply(e_j)] has non-finite entries (levels " << nlev << "); A = " << (m.d.m <= 8 ? mk::show(m.d) : m.id));
    }
    do_apply(*amg, f0, x);
    if (!bits_equal(x, x_first)) fail("history.after_other_applications", "apply(ramp) after n other applications differs from the first application on the fresh hierarchy");
    {
        std::vector<double> nanv(n, std::numeric_limits<double>::quiet_NaN());
        do_apply(*amg, nanv, y);
        do_apply(*amg, f0, x);
        if (!bits_equal(x, x_first)) {
            int bad = 0; for (int i = 0; i < n; ++i) if (std::memcmp(&x[i], &x_first[i], 8)) { bad = i; break; }
            fail("history.after_nan_application", vf::KS() << "apply(ramp) after apply(NaN) differs from the first application: entry " << bad << " " << std::setprecision(17) << x[bad] << " vs " << x_first[bad]);
        }
        std::vector<double> e0(n, 0.0); e0[0] = 1; do_apply(*amg, e0, x);
        bool same = true; for (int i = 0; i < n; ++i) if (std::memcmp(&x[i], &B(i, 0), 8)) same = false;
        if (!same) fail("history.after_nan_application", "apply(e_0) after apply(NaN) differs from the column extracted before");
        vf::count("history_checks");
    }
    {   // a second, newly built hierarchy gives the same operator bit for bit (B is a function of the hierarchy, not of the object)
        omp_tick();
        AMG second(*m.A, AMG::params(pt));
        do_apply(second, f0, x);
        if (!bits_equal(x, x_first)) fail("history.second_object", "a second hierarchy built from the same input acts differently");
    }
    if (!finite) return;   // nothing below is meaningful for a non-finite operator (reported through the counter)

    // ---- exact homogeneity for powers of two -------------------------------------------------------------------
    for (double s : {2.0, -1.0, 0.5, 1024.0}) {
        std::vector<double> f = f0; for (auto &v : f) v *= s;
        do_apply(*amg, f, x);
        bool ok = true; for (int i = 0; i < n; ++i) { double w = s * x_first[i]; if (std::memcmp(&w, &x[i], 8) && !(w == 0 && x[i] == 0)) ok = false; }
        if (!ok) fail("linearity.homogeneous_power_of_two_exact", vf::KS() << "apply(" << s << " f) != " << s << " apply(f) bitwise");
    }

    // ---- rounding bound ----------------------------------------------------------------------------------------
    // First-order forward error of the cycle seen as a linear straight-line program: each of at most W sequential
    // accumulations an output entry depends on contributes u times an intermediate value.  The intermediates are the
    // iterate (<= ||B|| ||f||) and the residual f - A x (<= (1 + ||A|| ||B||) ||f||), and an error made in a residual is
    // carried to the output by the remaining correction (norm <= ||B||).  Hence
    //     |fl(B f) - B f| <= tau ||B||_F ||f||_2,   tau = 32 W u (1 + ||A||_2 ||B||_F),
    // with W counted from the level list (work_depth) and ||A||_2, ||B||_F measured.  Stated once, not tuned per case;
    // the evidence records the histogram of observed residual / bound (additivity_residual_over_bound_*, asymmetry_over_bound_*).
    const double u = std::ldexp(1.0, -53);
    const double W = work_depth(*amg, c);
    const double Bf = B.norm();
    const double normA = m.normA > 0 ? m.normA : m.Ad.norm();
    const double tau = 32 * W * u * (1 + normA * Bf);

    // ---- additivity ----------------------------------------------------------------------------------------------
    {
        const double coef[4] = {1, -1, 2, 0.5};
        auto test_pair = [&](int i, int j, double a, double b) {
            std::vector<double> f(n, 0.0); f[i] += a; f[j] += b;
            do_apply(*amg, f, x);
            double fn = std::sqrt(f[i] * f[i] + (i == j ? 0 : f[j] * f[j]));
            double dev = 0;
            for (int r = 0; r < n; ++r) dev = std::max(dev, std::fabs(x[r] - (a * B(r, i) + b * B(r, j))));
            double bound = 3 * tau * Bf * std::max(fn, 1.0);
            g_stats.max_add_ratio = std::max(g_stats.max_add_ratio, dev / bound);
            if (!(dev <= bound)) fail("linearity.additive", vf::KS() << "apply(" << a << " e_" << i << " + " << b << " e_" << j << ") deviates from the combination of columns by " << dev << " (bound " << bound << ")");
            vf::count("additivity_pairs");
        };
        if (n <= 6) { for (int i = 0; i < n; ++i) for (int j = 0; j < n; ++j) for (int q = 0; q < 4; ++q) test_pair(i, j, coef[q], coef[(q + i + j) % 4]); }
        else for (int i = 0; i < n; ++i) { int j = (i * 7 + 3) % n; test_pair(i, j, coef[i % 4], coef[(i / 4 + 1) % 4]); }
        // full right-hand side
        Vec fv(n); for (int i = 0; i < n; ++i) fv(i) = f0[i];
        Vec comb = B * fv;
        double dev = 0; for (int r = 0; r < n; ++r) dev = std::max(dev, std::fabs(x_first[r] - comb(r)));
        double bound = (n + 2) * tau * Bf * fv.norm();
        g_stats.max_add_ratio = std::max(g_stats.max_add_ratio, dev / bound);
        if (!(dev <= bound)) fail("linearity.additive_full_rhs", vf::KS() << "apply(ramp) deviates from sum_j ramp_j B e_j by " << dev << " (bound " << bound << ")");
    }

    // ---- symmetry, positive definiteness, contraction --------------------------------------------------------------
    bool sym_smoother = c.ri < NSYM_RELAX;
    if (m.dd_mmatrix_spd && sym_smoother) {
        vf::count("spectral_cases");
        // eigenvalues of L^T B L move by at most ||A||_2 ||dB||_2 <= ||A||_2 sqrt(n) tau ||B||_F
        const double eig_tol = 2 * std::sqrt((double)n) * tau * Bf * m.normA;
        if (c.npre == c.npost) {
            double asym = (B - B.transpose()).cwiseAbs().maxCoeff();
            double bound = 2 * tau * Bf;
            g_stats.max_sym_ratio = std::max(g_stats.max_sym_ratio, asym / bound);
            if (!(asym <= bound)) fail(std::string("spd.symmetric:") + rel + ":" + coars_names[c.ci], vf::KS() << "max |B - B^T| = " << asym << " (bound " << bound << ", ||B||_F = " << Bf << ")");
            Mat Bs = 0.5 * (B + B.transpose());
            Mat G = m.L.transpose() * Bs * m.L;           // similar to B A; symmetric
            G = 0.5 * (G + G.transpose().eval());
            Eigen::SelfAdjointEigenSolver<Mat> es(G, Eigen::EigenvaluesOnly);
            double lo = es.eigenvalues()(0), hi = es.eigenvalues()(n - 1);
            double rho = std::max(std::fabs(1 - lo), std::fabs(1 - hi));
            g_stats.max_rho = std::max(g_stats.max_rho, rho);
            std::string where = vf::KS() << "spectrum of A^(1/2) B A^(1/2) in [" << std::setprecision(12) << lo << ", " << hi << "], rho(I-BA) = " << rho << ", levels " << nlev << ", eigenvalue tolerance " << eig_tol;
            if (lo <= -eig_tol) fail(std::string("spd.positive_definite:") + rel + ":" + coars_names[c.ci], where);
            else if (lo <= eig_tol) vf::count("indeterminate_positive_definite");
            if (hi >= 2 + eig_tol) fail(std::string("contraction.rho_lt_1:") + rel + ":" + coars_names[c.ci], where);
            else if (hi >= 2 - eig_tol) vf::count("indeterminate_contraction");
            vf::count("symmetric_spectral_cases");
        } else {
            Mat E = Mat::Identity(n, n) - B * m.Ad;
            Eigen::EigenSolver<Mat> es(E, false);
            double rho = 0; for (int i = 0; i < n; ++i) rho = std::max(rho, std::abs(es.eigenvalues()(i)));
            g_stats.max_rho = std::max(g_stats.max_rho, rho);
            // non-normal eigenproblem: decide only outside a band of relative width sqrt(eig_tol) (Bauer-Fike with unknown
            // eigenvector conditioning would be needed for more)
            double band = std::sqrt(std::max(eig_tol, 1e-16));
            if (rho >= 1 + band) fail(std::string("contraction.rho_lt_1_npre_ne_npost:") + rel + ":" + coars_names[c.ci], vf::KS() << "rho(I - B A) = " << std::setprecision(12) << rho << ", levels " << nlev);
            else if (rho >= 1 - band) vf::count("indeterminate_contraction");
            vf::count("nonsymmetric_cycle_spectral_cases");
        }
    }

    bucket("additivity_residual_over_bound", g_stats.max_add_ratio);
    if (m.dd_mmatrix_spd && sym_smoother && c.npre == c.npost) bucket("asymmetry_over_bound", g_stats.max_sym_ratio);
    if (m.dd_mmatrix_spd && sym_smoother) vf::count(vf::KS() << "rho_bucket_" << (g_stats.max_rho < 0.5 ? "lt0.5" : g_stats.max_rho < 0.9 ? "lt0.9" : g_stats.max_rho < 0.99 ? "lt0.99" : g_stats.max_rho < 1 ? "lt1" : "ge1"));

    // ---- power-of-two scaling of the matrix ----------------------------------------------------------------------------
    if (do_scaling && rel != "ilut") {
        for (int k : {-3, 1, 4}) {
            DD ds = m.d; for (auto &v : ds.a) v = std::ldexp(v, k);
            auto As = to_backend_crs(ds);
            std::unique_ptr<AMG> as;
            try { omp_tick(); as.reset(new AMG(*As, AMG::params(pt))); }
            catch (const std::exception &e) { fail("scaling.build_threw", vf::KS() << "2^" << k << " A: " << e.what()); continue; }
            if (as->levels.size() != nlev) { fail("scaling.levels", vf::KS() << "2^" << k << " A gives " << as->levels.size() << " levels instead of " << nlev); continue; }
            bool ok = true; int bj = -1, bi = -1; double got = 0, want = 0;
            std::vector<double> f(n, 0.0);
            for (int j = -1; j < n && ok; ++j) {
                if (n > 16 && !(j == -1 || j == 0 || j == n / 2 || j == n - 1)) continue;
                if (j < 0) { do_apply(*as, f0, x); for (int i = 0; i < n; ++i) y[i] = std::ldexp(x_first[i], -k); }
                else { f[j] = 1; do_apply(*as, f, x); f[j] = 0; for (int i = 0; i < n; ++i) y[i] = std::ldexp(B(i, j), -k); }
                for (int i = 0; i < n; ++i) if (std::memcmp(&x[i], &y[i], 8) && !(x[i] == 0 && y[i] == 0)) { ok = false; bj = j; bi = i; got = x[i]; want = y[i]; break; }
            }
            if (!ok) fail(std::string("scaling.bitwise:") + rel + ":" + coars_names[c.ci], vf::KS() << "B(2^" << k << " A) != 2^" << -k << " B(A): probe " << bj << " entry " << bi << " " << std::setprecision(17) << got << " vs " << want);
            vf::count("scaling_checks");
        }
    }
}

// ---------------------------------------------------------------------------------------------
static std::vector<MatInfo> grid_matrices() {
    std::vector<MatInfo> v;
    auto add = [&](const std::string &id, const DD &d) { if (wanted(id)) v.push_back(prepare(id, expand_block(d))); else v.push_back(MatInfo()); };
    // quick: n <= 36
    add("g8x1s0", fam::grid(8, 1, 0, 9));
    add("g12x1s56", fam::grid(12, 1, 56, 9));
    add("g4x4s0", fam::grid(4, 4, 0, 9));
    add("g5x5s6", fam::grid(5, 5, 6, 9));
    add("g6x6s7", fam::grid(6, 6, 7, 9));
    add("g6x6s0a", fam::grid(6, 6, 0, 9, 0.125));
    add("g4x6s5sh", fam::grid(4, 6, 5, 9, 1.0, 1.0));
    if (vf::thorough()) {
        add("g32x1s0", fam::grid(32, 1, 0, 9));
        add("g64x1sff00", fam::grid(64, 1, 0xff00ff00ull, 9));
        add("g128x1s0", fam::grid(128, 1, 0, 9));
        add("g8x8s0", fam::grid(8, 8, 0, 9));
        add("g8x8s60", fam::grid(8, 8, 60, 99));
        add("g8x8s0a", fam::grid(8, 8, 0, 9, 0.125));
        add("g10x10s341", fam::grid(10, 10, 341, 9));
        add("g11x11s0", fam::grid(11, 11, 0, 9));
        add("g11x11s992a", fam::grid(11, 11, 992, 9, 0.125));
        add("g16x8s255", fam::grid(16, 8, 255, 9));
        add("g8x16s15", fam::grid(8, 16, 15, 99));
        add("g7x9s42sh", fam::grid(7, 9, 42, 9, 1.0, 0.5));
    }
    return v;
}

// reduced spaces of the variant units
//   block unit   : the 7 quick grids (thorough: plus 8x8), graphs n <= 4, 1-D stripes n <= 6
//   threads unit : relaxations with a parallel code path (gauss_seidel, ilu0, iluk, ilup, ilut) + spai0, the 7 quick grids,
//                  level settings {ce1_direct, ce2_smooth}, npre,npost in {1,2} (thorough {1,2,3}), pre_cycles 1
static bool variant_unit() { return C02_BLOCK > 1 || C02_THREADS > 1; }
static bool keep_cfg(const Cfg &c) {
#if C02_THREADS > 1
    if (!(c.ri == 1 || c.ri == 2 || c.ri == 3 || c.ri == 4 || c.ri == 5 || c.ri == 7)) return false;
    if (!(c.lv == 0 || c.lv == 2)) return false;
    if (c.pre_cycles != 1) return false;
    if (vf::quick() && (c.npre > 2 || c.npost > 2)) return false;
#endif
    return true;
}

static void run_grids() {
    auto mats = grid_matrices();
    size_t idx = 0;
    for (auto &m : mats) {
        int n = m.d.m;
        size_t my = idx++;
        if (m.id.empty()) continue;      // replay mode: not the replayed matrix
        if (C02_BLOCK > 1 && my >= 7 && m.id != "g8x8s0") continue;
        if (C02_THREADS > 1 && my >= 7) continue;
        for (int ci = 0; ci < 4; ++ci) for (int ri = 0; ri < 9; ++ri) for (int lv = 0; lv < 5; ++lv)
        for (unsigned nc = 1; nc <= 2; ++nc) for (unsigned pre = 1; pre <= 3; ++pre) for (unsigned post = 1; post <= 3; ++post) for (unsigned pc = 1; pc <= 2; ++pc) {
            Cfg c{ci, ri, lv, nc, pre, post, pc};
            if (!keep_cfg(c)) continue;
            auto keyf = [&]{ return std::string(vf::KS() << "grid|" << m.id << "|" << cfg_key(c)); };
            if (!vf::take(keyf)) continue;
            // scaling needs three more hierarchies: every configuration in thorough for n <= 64, in quick for pc == 1
            bool do_scaling = vf::thorough() ? (n <= 64 || (pre == post && pc == 1)) : (pc == 1);
            run_case(keyf(), m, c, do_scaling);
        }
        vf::space(vf::KS() << "grid " << m.id << " (n=" << n << "): 4 coarsenings x 9 relaxations x 5 level settings x ncycle{1,2} x npre{1,2,3} x npost{1,2,3} x pre_cycles{1,2}");
        // one-sided smoothing (npre = 0 or npost = 0 are valid parameter values): the cycle is still one fixed linear operator and,
        // on these matrices, still a contraction; with a second pass (ncycle = 2 / pre_cycles = 2) every pass has to start from
        // the residual of the current iterate
        if (!variant_unit() && my < 7) {
            static const unsigned PP[4][2] = {{0, 1}, {0, 2}, {1, 0}, {2, 0}};
            for (int ci = 0; ci < 4; ++ci) for (int ri = 0; ri < 3; ++ri) for (int lv : {0, 2})
            for (unsigned nc = 1; nc <= 2; ++nc) for (auto &pp : PP) for (unsigned pc = 1; pc <= 2; ++pc) {
                Cfg c{ci, ri, lv, nc, pp[0], pp[1], pc};
                auto keyf = [&]{ return std::string(vf::KS() << "grid|" << m.id << "|" << cfg_key(c)); };
                if (!vf::take(keyf)) continue;
                run_case(keyf(), m, c, false);
            }
            // smoothed aggregation with the damping taken from the estimated spectral radius of D^-1 A (non-default): all oracles,
            // in particular invariance of B under scaling of A by powers of two
            for (int ri : {0, 1, 2}) for (int lv : {0, 2}) for (unsigned q = 1; q <= 2; ++q) {
                Cfg c{1, ri, lv, q, q, q, 1}; c.est = true;
                auto keyf = [&]{ return std::string(vf::KS() << "grid|" << m.id << "|" << cfg_key(c)); };
                if (!vf::take(keyf)) continue;
                run_case(keyf(), m, c, true);
            }
            // Chebyshev relaxation of the diagonally scaled matrix (relax.scale = true, non-default; the bound is the Gershgorin
            // bound of D^-1 A, an upper bound of its spectrum, so the polynomial is a contraction on these matrices)
            for (int ci = 0; ci < 4; ++ci) for (int lv : {0, 2, 4}) for (unsigned q = 1; q <= 2; ++q) {
                Cfg c{ci, 6, lv, q, q, q, 1}; c.chs = true;
                auto keyf = [&]{ return std::string(vf::KS() << "grid|" << m.id << "|" << cfg_key(c)); };
                if (!vf::take(keyf)) continue;
                run_case(keyf(), m, c, true);
            }
            vf::space(vf::KS() << "grid " << m.id << ": one-sided smoothing (npre,npost) in {(0,1),(0,2),(1,0),(2,0)} x 4 coarsenings x {damped_jacobi, spai0, gauss_seidel} x {ce1_direct, ce2_smooth} x ncycle{1,2} x pre_cycles{1,2}");
        }
    }
}

// small matrices: configuration "star" in quick (cycle-shape parameters varied one at a time around (1,1,1,1) and
// (2,2,2,1)), full product in thorough
static void small_matrix_cases(const char *tag, const MatInfo &m) {
    for (int ci = 0; ci < 4; ++ci) for (int ri = 0; ri < 9; ++ri) for (int lv = 0; lv < 5; ++lv)
    for (unsigned nc = 1; nc <= 2; ++nc) for (unsigned pre = 1; pre <= 3; ++pre) for (unsigned post = 1; post <= 3; ++post) for (unsigned pc = 1; pc <= 2; ++pc) {
        if (vf::quick()) {
            int dev = (nc != 1) + (pre != 1) + (post != 1) + (pc != 1);
            bool base2 = (nc == 2 && pre == 2 && post == 2 && pc == 1);
            if (dev > 1 && !base2) continue;
            if (lv == 1) continue;     // n/4 < 2 here: same hierarchy as ce2 with a direct solve; kept for thorough
        }
        Cfg c{ci, ri, lv, nc, pre, post, pc};
        if (!keep_cfg(c)) continue;
        auto keyf = [&]{ return std::string(vf::KS() << tag << "|" << m.id << "|" << cfg_key(c)); };
        if (!vf::take_in_group(keyf)) continue;
        run_case(keyf(), m, c, pc == 1 && (vf::thorough() || (pre == post)));
    }
}

// every connected graph on 3..5 nodes: weighted graph Laplacian with a unit shift on node 0 (irreducibly
// diagonally dominant M-matrix)
static void run_graphs() {
    for (int n = 3; n <= (variant_unit() ? 4 : 5); ++n) {
        for (uint64_t mask = 0; mask < (1ull << fam::npairs(n)); ++mask) {
            if (!vf::take_group()) continue;
            std::string id = vf::KS() << "lap" << n << "m" << mask;
            if (!wanted(id)) continue;
            DD d = fam::sym_pattern(n, mask, 0);
            if (!fam::connected(d)) continue;
            for (int i = 1; i < n; ++i) d(i, i) -= 1;        // only node 0 keeps the strict dominance
            small_matrix_cases("graph", prepare(id, expand_block(d)));
        }
        vf::space(vf::KS() << "graph Laplacians: every connected graph on " << n << " nodes x configuration " << (vf::quick() ? "star around (1,1,1,1) and (2,2,2,1)" : "full product"));
    }
}

// weak-link clusters: every connected graph on 3 and 4 nodes with edge weights from {1, 100} (all assignments), unit
// shift on node 0: strongly coupled clusters attached by weak edges (nearly singular diagonal blocks)
static void run_weaklinks() {
    for (int n = 3; n <= 4; ++n) {
        int np = fam::npairs(n);
        uint64_t total = 1; for (int k = 0; k < np; ++k) total *= 3;
        for (uint64_t code = 0; code < total; ++code) {
            if (!vf::take_group()) continue;
            DD d(n, n); uint64_t c = code; int k = 0;
            for (int i = 0; i < n; ++i) for (int j = i + 1; j < n; ++j, ++k) {
                int w = c % 3; c /= 3;
                if (w) { d.st(i, j) = d.st(j, i) = 1; d(i, j) = d(j, i) = (w == 1 ? -1.0 : -100.0); }
            }
            for (int i = 0; i < n; ++i) { double sum = (i == 0 ? 1 : 0); for (int j = 0; j < n; ++j) if (j != i && d.st(i, j)) sum -= d(i, j); d.st(i, i) = 1; d(i, i) = sum; }
            if (!fam::connected(d)) continue;
            std::string id = vf::KS() << "wl" << n << "c" << code;
            if (wanted(id)) small_matrix_cases("wl", prepare(id, expand_block(d)));
        }
        vf::space(vf::KS() << "weak-link graph Laplacians: every connected graph on " << n << " nodes x every edge weight assignment from {1,100} x configuration " << (vf::quick() ? "star" : "full product"));
    }
}

// 1-D diffusion with every coefficient stripe mask, contrast 9 and 99 (nearly decoupled / nearly singular blocks),
// n = 3..8 (thorough ..9); 2-D 3x3 .. 4x4 with every stripe mask in thorough
static void run_stripes() {
    int nmax = variant_unit() ? 6 : (vf::thorough() ? 9 : 8);
    for (int nx = 3; nx <= nmax; ++nx) for (double contrast : {9.0, 99.0}) {
        for (uint64_t st = 0; st < (1ull << nx); ++st) {
            if (!vf::take_group()) continue;
            if (st == 0 && contrast > 9) continue;
            std::string id = vf::KS() << "g" << nx << "x1s" << st << "c" << (int)contrast;
            if (wanted(id)) small_matrix_cases("g1d", prepare(id, expand_block(fam::grid(nx, 1, st, contrast))));
        }
        vf::space(vf::KS() << "1-D diffusion n=" << nx << ", every stripe mask, contrast " << contrast << " x configuration " << (vf::quick() ? "star" : "full product"));
    }
    if (vf::thorough() && !variant_unit()) {
        for (int nx = 3; nx <= 4; ++nx) for (int ny = 3; ny <= 4; ++ny) for (double contrast : {9.0, 99.0}) for (int an = 0; an < 2; ++an) {
            for (uint64_t st = 0; st < (1ull << nx); ++st) {
                if (!vf::take_group()) continue;
                if (st == 0 && contrast > 9) continue;
                std::string id = vf::KS() << "g" << nx << "x" << ny << "s" << st << "c" << (int)contrast << "a" << an;
                if (wanted(id)) small_matrix_cases("g2d", prepare(id, expand_block(fam::grid(nx, ny, st, contrast, an ? 0.125 : 1.0))));
            }
        }
        vf::space("2-D diffusion 3x3..4x4, every stripe mask, contrast 9 and 99, anisotropy {1, 1/8} x full configuration product");
    }
}

int main(int argc, char **argv) {
    vf::init(argc, argv, "C02");
#if C02_THREADS > 1
    vs::cfg().max_threads = C02_THREADS;
    vs::cfg().prefix.clear();
    vs::begin_execution();
#endif
    vf::sample_str("grid case: 5x5 diffusion, coefficient 9 in the x-stripes {1,2}: smoothed_aggregation + gauss_seidel, coarse_enough=1, ncycle=2, npre=npost=2, pre_cycles=1");
    vf::sample_str("graph case: A = " + mk::show(fam::sym_pattern(4, 0x2d, 0)) + " (minus 1 on the diagonal of nodes 1..3)");
    if (vf::section("grid")) run_grids();
    if (C02_THREADS == 1) {     // the fiber teams make every parallel region ~50x slower: grids only in the threads unit
        if (vf::section("graph")) run_graphs();
        if (vf::section("g1d") || vf::section("g2d")) run_stripes();
        if (vf::section("wl")) run_weaklinks();
    }
    return vf::finish();
}
