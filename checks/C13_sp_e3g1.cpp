// C13 unit "solve": path TU for Eigen::Matrix blocks, b=3, path group 1 (see C13_solve_paths.cpp)
#define C13_B 3
#define C13_EIGEN 1
#define C13_GROUP 1
#include "C13_solve_paths.cpp"
