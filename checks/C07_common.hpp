// C07_common.hpp -- shared by the C07 harness units.
//
// Reference model: every vector / matrix element (scalar, complex, N x M block) is mapped to a
// tiny dense matrix RM of std::complex<long double> (1x1 for scalars).  The defining formulas of
// the primitives are evaluated on RM with plain loops.  All inputs are small integers / dyadic
// rationals, so the formulas are evaluated without any rounding in every precision involved
// (float included) and the oracle is ==.
#ifndef VERIF_C07_COMMON_HPP
#define VERIF_C07_COMMON_HPP

#include <complex>
#include <array>
#include <vector>
#include <string>
#include <sstream>
#include <limits>
#include <type_traits>
#include <cstring>
#include <amgcl/backend/builtin.hpp>
#include <amgcl/value_type/static_matrix.hpp>
#include <amgcl/value_type/complex.hpp>
#include "vf.hpp"

namespace c07 {

typedef long double LD;
typedef std::complex<LD> CLD;

// ---------------------------------------------------------------------------------------------
// reference element
struct RM {
    int r = 1, c = 1;
    CLD a[16];
    RM() { for (auto &x : a) x = CLD(0, 0); }
    RM(int r, int c) : r(r), c(c) { for (auto &x : a) x = CLD(0, 0); }
    CLD& operator()(int i, int j) { return a[i * c + j]; }
    const CLD& operator()(int i, int j) const { return a[i * c + j]; }
    bool scalar() const { return r == 1 && c == 1; }
};
// complex product written out (no library NaN recovery paths, plain formula)
inline CLD cmul(const CLD &x, const CLD &y) {
    return CLD(x.real() * y.real() - x.imag() * y.imag(), x.real() * y.imag() + x.imag() * y.real());
}
inline RM operator+(const RM &x, const RM &y) {
    if (x.r != y.r || x.c != y.c) { std::cerr << "C07 reference: shape mismatch in +\n"; std::abort(); }
    RM z(x.r, x.c);
    for (int i = 0; i < x.r * x.c; ++i) z.a[i] = x.a[i] + y.a[i];
    return z;
}
inline RM operator-(const RM &x, const RM &y) {
    if (x.r != y.r || x.c != y.c) { std::cerr << "C07 reference: shape mismatch in -\n"; std::abort(); }
    RM z(x.r, x.c);
    for (int i = 0; i < x.r * x.c; ++i) z.a[i] = x.a[i] - y.a[i];
    return z;
}
inline RM operator*(const RM &x, const RM &y) {
    if (x.scalar()) { RM z(y.r, y.c); for (int i = 0; i < y.r * y.c; ++i) z.a[i] = cmul(x.a[0], y.a[i]); return z; }
    if (y.scalar()) { RM z(x.r, x.c); for (int i = 0; i < x.r * x.c; ++i) z.a[i] = cmul(x.a[i], y.a[0]); return z; }
    if (x.c != y.r) { std::cerr << "C07 reference: shape mismatch in *\n"; std::abort(); }
    RM z(x.r, y.c);
    for (int i = 0; i < x.r; ++i) for (int j = 0; j < y.c; ++j) {
        CLD s(0, 0);
        for (int k = 0; k < x.c; ++k) s += cmul(x(i, k), y(k, j));
        z(i, j) = s;
    }
    return z;
}
inline RM radj(const RM &x) {
    RM z(x.c, x.r);
    for (int i = 0; i < x.r; ++i) for (int j = 0; j < x.c; ++j) z(j, i) = std::conj(x(i, j));
    return z;
}
// sum of all entries of the entry-wise product x .* conj(y)  (Frobenius inner product, conjugate-linear in y)
inline CLD rdot(const RM &x, const RM &y) {
    CLD s(0, 0);
    for (int i = 0; i < x.r * x.c; ++i) s += cmul(x.a[i], std::conj(y.a[i]));
    return s;
}
inline bool req(const RM &x, const RM &y) {
    if (x.r != y.r || x.c != y.c) return false;
    for (int i = 0; i < x.r * x.c; ++i)
        if (!(x.a[i].real() == y.a[i].real() && x.a[i].imag() == y.a[i].imag())) return false;
    return true;
}
inline std::string rshow(const RM &x) {
    std::ostringstream o;
    o << "[";
    for (int i = 0; i < x.r; ++i) {
        if (i) o << ";";
        for (int j = 0; j < x.c; ++j) {
            if (j) o << " ";
            o << (double)x(i, j).real();
            if (x(i, j).imag() != 0 || x(i, j).imag() != x(i, j).imag()) o << (x(i, j).imag() < 0 ? "" : "+") << (double)x(i, j).imag() << "i";
        }
    }
    o << "]";
    return o.str();
}

// ---------------------------------------------------------------------------------------------
// conversions  amgcl element -> RM
template <class T> inline typename std::enable_if<std::is_arithmetic<T>::value, RM>::type
to_ref(const T &x) { RM z; z.a[0] = CLD((LD)x, 0); return z; }
template <class T> inline RM to_ref(const std::complex<T> &x) { RM z; z.a[0] = CLD((LD)x.real(), (LD)x.imag()); return z; }
template <class T, int N, int M> inline RM to_ref(const amgcl::static_matrix<T, N, M> &x) {
    RM z(N, M);
    for (int i = 0; i < N; ++i) for (int j = 0; j < M; ++j) z(i, j) = to_ref(x(i, j)).a[0];
    return z;
}

// ---------------------------------------------------------------------------------------------
// deterministic small-integer content.  sv(k) in {-3..3}, never all-equal over consecutive k.
inline int sv(int k) { int v = ((k * 5 + 2) % 7 + 7) % 7 - 3; return v; }

enum Special { FINITE = 0, QNAN = 1, PINF = 2, NINF = 3, MIXED = 4 };
inline const char *special_name(int s) { static const char *n[] = {"finite", "NaN", "+Inf", "-Inf", "mixed NaN/Inf/-Inf"}; return n[s]; }

template <class T, class E = void> struct gen;
template <class T> struct gen<T, typename std::enable_if<std::is_arithmetic<T>::value>::type> {
    static T make(int k) { return (T)sv(k); }
    static T special(int s, int i) {
        if (s == MIXED) s = 1 + (i % 3);
        if (s == QNAN) return std::numeric_limits<T>::quiet_NaN();
        if (s == PINF) return std::numeric_limits<T>::infinity();
        return -std::numeric_limits<T>::infinity();
    }
};
template <class T> struct gen<std::complex<T>> {
    static std::complex<T> make(int k) { return std::complex<T>((T)sv(k), (T)sv(3 * k + 1)); }
    static std::complex<T> special(int s, int i) { return std::complex<T>(gen<T>::special(s, i), gen<T>::special(s, i + 1)); }
};
template <class T, int N, int M> struct gen<amgcl::static_matrix<T, N, M>> {
    typedef amgcl::static_matrix<T, N, M> B;
    static B make(int k) { B b; for (int i = 0; i < N; ++i) for (int j = 0; j < M; ++j) b(i, j) = gen<T>::make(k * 4 + i * 3 + j * 5 + 1); return b; }
    static B special(int s, int q) { B b; for (int i = 0; i < N * M; ++i) b(i) = gen<T>::special(s, q + i); return b; }
};

// coefficient type used with element type T
template <class T> struct coef_of { typedef T type; };
template <class T, int N, int M> struct coef_of<amgcl::static_matrix<T, N, M>> { typedef T type; };

template <class C> struct coefs {
    static int n() { return 5; }
    static C get(int i) { static const double v[5] = {0, 1, -1, 2, 0.5}; return (C)v[i]; }
};
template <class T> struct coefs<std::complex<T>> {
    static int n() { return 7; }
    static std::complex<T> get(int i) {
        static const double re[7] = {0, 1, -1, 2, 0.5, 0, 0.5}, im[7] = {0, 0, 0, 0, 0, 1, -1};
        return std::complex<T>((T)re[i], (T)im[i]);
    }
};
template <class C> inline bool czero(const C &c) { return to_ref(c).a[0] == CLD(0, 0); }


template <class T> struct tname;
#define C07_TNAME(T, s) template <> struct tname<T> { static const char *get() { return s; } }
C07_TNAME(float, "float"); C07_TNAME(double, "double"); C07_TNAME(long double, "longdouble");
C07_TNAME(std::complex<float>, "cfloat"); C07_TNAME(std::complex<double>, "cdouble");
typedef amgcl::static_matrix<double, 2, 1> R2;
typedef amgcl::static_matrix<double, 3, 1> R3;
typedef amgcl::static_matrix<double, 4, 1> R4;
typedef amgcl::static_matrix<double, 2, 2> B2;
typedef amgcl::static_matrix<double, 3, 3> B3;
typedef amgcl::static_matrix<double, 4, 4> B4;
typedef amgcl::static_matrix<float, 2, 2> B2f;
typedef amgcl::static_matrix<float, 2, 1> R2f;
typedef amgcl::static_matrix<std::complex<double>, 2, 1> RC2;
typedef amgcl::static_matrix<std::complex<double>, 2, 2> BC2;
C07_TNAME(R2, "rhs2"); C07_TNAME(R3, "rhs3"); C07_TNAME(R4, "rhs4"); C07_TNAME(B2, "block2"); C07_TNAME(B3, "block3"); C07_TNAME(B4, "block4");
C07_TNAME(B2f, "block2f"); C07_TNAME(R2f, "rhs2f");
C07_TNAME(RC2, "crhs2"); C07_TNAME(BC2, "cblock2");

#ifdef C07_WITH_EIGEN
template <class T, int N, int M> inline RM to_ref(const Eigen::Matrix<T, N, M> &x) {
    RM z(N, M);
    for (int i = 0; i < N; ++i) for (int j = 0; j < M; ++j) z(i, j) = to_ref(x(i, j)).a[0];
    return z;
}
template <class T, int N, int M> struct gen<Eigen::Matrix<T, N, M>> {
    typedef Eigen::Matrix<T, N, M> B;
    static B make(int k) { B b; for (int i = 0; i < N; ++i) for (int j = 0; j < M; ++j) b(i, j) = gen<T>::make(k * 4 + i * 3 + j * 5 + 1); return b; }
    static B special(int s, int q) { B b; for (int i = 0; i < N; ++i) for (int j = 0; j < M; ++j) b(i, j) = gen<T>::special(s, q + i * M + j); return b; }
};
template <class T, int N, int M> struct coef_of<Eigen::Matrix<T, N, M>> { typedef T type; };
typedef Eigen::Matrix<double, 2, 2> EB2;
typedef Eigen::Matrix<double, 2, 1> ER2;
typedef Eigen::Matrix<double, 3, 3> EB3;
typedef Eigen::Matrix<double, 3, 1> ER3;
typedef Eigen::Matrix<std::complex<double>, 2, 2> EBC2;
typedef Eigen::Matrix<std::complex<double>, 2, 1> ERC2;
C07_TNAME(EB2, "eigenblock2"); C07_TNAME(ER2, "eigenrhs2"); C07_TNAME(EB3, "eigenblock3"); C07_TNAME(ER3, "eigenrhs3");
C07_TNAME(EBC2, "eigencblock2"); C07_TNAME(ERC2, "eigencrhs2");
#endif

template <class T> inline bool eq(const T &got, const RM &want) { return req(to_ref(got), want); }
template <class T> inline std::string show(const T &x) { return rshow(to_ref(x)); }

// ---------------------------------------------------------------------------------------------
// vector holders: K = 0 std::vector, 1 numa_vector, 2 iterator_range over separately owned storage
template <class T, int K> struct Holder;
template <class T> struct Holder<T, 0> {
    std::vector<T> v;
    explicit Holder(size_t n) : v(n) {}
    std::vector<T>& vec() { return v; }
    T& operator[](size_t i) { return v[i]; }
    size_t size() const { return v.size(); }
    static const char *kind() { return "std"; }
};
template <class T> struct Holder<T, 1> {
    amgcl::backend::numa_vector<T> v;
    explicit Holder(size_t n) : v(n, false) {}
    amgcl::backend::numa_vector<T>& vec() { return v; }
    T& operator[](size_t i) { return v[i]; }
    size_t size() const { return v.size(); }
    static const char *kind() { return "numa"; }
};
template <class T> struct Holder<T, 2> {
    std::vector<T> s;
    amgcl::iterator_range<T*> v;
    explicit Holder(size_t n) : s(n), v(s.data(), s.data() + n) {}
    amgcl::iterator_range<T*>& vec() { return v; }
    T& operator[](size_t i) { return s[i]; }
    size_t size() const { return s.size(); }
    static const char *kind() { return "range"; }
};

// fill helper: h[i] = make(salt + stride*i)
template <class H> inline void fill(H &h, int salt, int stride = 1) {
    typedef typename std::decay<decltype(h[0])>::type T;
    for (size_t i = 0; i < h.size(); ++i) h[i] = gen<T>::make(salt + stride * (int)i);
}
template <class H> inline void fill_special(H &h, int s) {
    typedef typename std::decay<decltype(h[0])>::type T;
    for (size_t i = 0; i < h.size(); ++i) h[i] = gen<T>::special(s, (int)i);
}
template <class H> inline void prefill(H &h, int s, int salt) { if (s == FINITE) fill(h, salt); else fill_special(h, s); }

#ifdef VERIF_VSCHED_HPP
template <class F> static auto with_threads(int nt, F &&f) -> decltype(f()) {
    int old = vs::cfg().max_threads;
    vs::cfg().max_threads = nt;
    vs::cfg().prefix.clear();
    vs::begin_execution();
    struct R { int o; ~R() { vs::cfg().max_threads = o; } } r{old};
    return f();
}
#endif

// ---------------------------------------------------------------------------------------------
// pattern families for shapes that are too large for all 2^(mn) masks:
//  (a) circulant: row i = template rotated by i, all 2^n templates
//  (b) all rows equal to the template
//  (c) exactly one non-empty row r with the template, all r
// returns the list of masks (bit i*n+j), duplicates removed, ascending.
inline std::vector<uint64_t> family_masks(int m, int n) {
    std::vector<uint64_t> out;
    if (m == 0 || n == 0) { out.push_back(0); return out; }
    for (uint64_t t = 0; t < (1ull << n); ++t) {
        uint64_t circ = 0, same = 0;
        for (int i = 0; i < m; ++i) for (int j = 0; j < n; ++j) {
            if ((t >> ((j + i) % n)) & 1) circ |= 1ull << (i * n + j);
            if ((t >> j) & 1) same |= 1ull << (i * n + j);
        }
        out.push_back(circ); out.push_back(same);
        for (int r = 0; r < m; ++r) out.push_back(t << (r * n));
    }
    std::sort(out.begin(), out.end());
    out.erase(std::unique(out.begin(), out.end()), out.end());
    return out;
}

} // namespace c07
#endif
