// C13_common.hpp -- generators and oracles shared by the C13 units (block / complex / mixed-precision
// formulations solve the same system).  Plain data only (sg::Crs from C01_common.hpp); no amgcl headers.
//
//   c13::fill_mask(scheme,b,I,J)       b x b bit mask of the scalar entries stored in block (I,J)  (bit p*b+q)
//   c13::block_pattern(...)            scalar CRS of a block matrix: node pattern x fill scheme x value rule
//   c13::node_grid(nx,ny)              node pattern of the 5-point grid
//   c13::kron_blocks(b)                the coupling blocks used for A (x) B
//   c13::ival / c13::gval              position-coded small integers / Gaussian integers (exact arithmetic, oracle ==)
//   c13::truth(A,f,x)                  ||f - A x||_2 / ||f||_2 in long double from the scalar arrays
//   c13::bound(...)                    DESIGN C01/FA bound
#ifndef VERIF_C13_COMMON_HPP
#define VERIF_C13_COMMON_HPP

#include <vector>
#include <string>
#include <sstream>
#include <complex>
#include <cstdint>
#include <cmath>
#include "C01_common.hpp"

namespace c13 {

typedef long double ld;
typedef std::complex<double> cplx;
static const double U = 1.1102230246251565e-16;

// ------------------------------------------------------------------------------------------
// position-coded integer values, never zero
inline double ival(int i, int j, int salt) {
    int v = 1 + (3 * i + 5 * j + salt) % 4;
    return ((i + 2 * j + salt) & 1) ? -v : v;
}
inline cplx gval(int i, int j, int salt) { return cplx(ival(i, j, salt), ival(j, i + 1, salt + 1)); }

// ------------------------------------------------------------------------------------------
// block fill masks (bit p*b+q <=> scalar entry (p,q) of the block is stored)
inline uint32_t m_full(int b)  { return (b * b >= 32) ? 0xffffffffu : ((1u << (b * b)) - 1); }
inline uint32_t m_diag(int b)  { uint32_t m = 0; for (int p = 0; p < b; ++p) m |= 1u << (p * b + p); return m; }
inline uint32_t m_upper(int b) { uint32_t m = 0; for (int p = 0; p < b; ++p) for (int q = p; q < b; ++q) m |= 1u << (p * b + q); return m; }
inline uint32_t m_lower(int b) { uint32_t m = 0; for (int p = 0; p < b; ++p) for (int q = 0; q <= p; ++q) m |= 1u << (p * b + q); return m; }
inline uint32_t m_one(int b, int p, int q) { return 1u << (p * b + q); }
inline uint32_t m_row(int b, int p) { uint32_t m = 0; for (int q = 0; q < b; ++q) m |= 1u << (p * b + q); return m; }
inline uint32_t m_col(int b, int q) { uint32_t m = 0; for (int p = 0; p < b; ++p) m |= 1u << (p * b + q); return m; }
inline uint32_t m_anti(int b)  { uint32_t m = 0; for (int p = 0; p < b; ++p) m |= 1u << (p * b + (b - 1 - p)); return m; }
inline uint32_t m_transpose(int b, uint32_t m) { uint32_t t = 0; for (int p = 0; p < b; ++p) for (int q = 0; q < b; ++q) if ((m >> (p * b + q)) & 1u) t |= 1u << (q * b + p); return t; }

// The "small set of block fill masks": a scheme gives the mask of block (I,J).
//  0 full            every block complete (the structurally complete baseline)
//  1 offdiag=diag    diagonal blocks complete, off-diagonal blocks store their diagonal only (A (x) I like)
//  2 upper           every block upper triangular
//  3 lower/upper     blocks below the node diagonal lower triangular, above upper triangular, diagonal blocks tridiagonal
//  4 last-row-first  off-diagonal blocks store the single entry (b-1,0): only the last scalar row of a block row
//                    reaches into that block column, and it does so in the first scalar column
//  5 first-row-last  off-diagonal blocks store the single entry (0,b-1)
//  6 diag-only-diag  diagonal blocks store only their diagonal, off-diagonal blocks complete
//  7 rotating row    off-diagonal block (I,J) stores scalar row (I+J) mod b only; diagonal blocks: diagonal + first column
//  8 rotating col    off-diagonal block (I,J) stores scalar column (I+2J) mod b only; diagonal blocks: diagonal + last row
//  9 anti            off-diagonal blocks anti-diagonal, diagonal blocks diagonal + anti-diagonal
enum { NSCHEMES = 10 };
inline const char *scheme_name(int s) {
    static const char *nm[NSCHEMES] = {"full", "offdiag=diag", "upper", "lower/upper", "single(b-1,0)", "single(0,b-1)", "diagblocks=diag", "rot-row", "rot-col", "anti"};
    return nm[s];
}
inline uint32_t fill_mask(int s, int b, int I, int J) {
    bool d = (I == J);
    switch (s) {
        case 0: return m_full(b);
        case 1: return d ? m_full(b) : m_diag(b);
        case 2: return m_upper(b);
        case 3: { if (d) { uint32_t m = m_diag(b); for (int p = 0; p + 1 < b; ++p) m |= m_one(b, p, p + 1) | m_one(b, p + 1, p); return m; } return I > J ? m_lower(b) : m_upper(b); }
        case 4: return d ? m_full(b) : m_one(b, b - 1, 0);
        case 5: return d ? m_full(b) : m_one(b, 0, b - 1);
        case 6: return d ? m_diag(b) : m_full(b);
        case 7: return d ? (m_diag(b) | m_col(b, 0)) : m_row(b, (I + J) % b);
        case 8: return d ? (m_diag(b) | m_row(b, b - 1)) : m_col(b, (I + 2 * J) % b);
        default: return d ? (m_diag(b) | m_anti(b)) : m_anti(b);
    }
}

// node pattern: bit (I*nn+J) of nodemask <=> block (I,J) present.
inline uint64_t node_grid(int nx, int ny) {           // 5-point grid, nn = nx*ny <= 8 fits a 64 bit mask; larger grids use node_adj()
    uint64_t m = 0; int nn = nx * ny;
    for (int j = 0; j < ny; ++j) for (int i = 0; i < nx; ++i) {
        int p = j * nx + i; m |= 1ull << (p * nn + p);
        if (i + 1 < nx) { m |= 1ull << (p * nn + p + 1); m |= 1ull << ((p + 1) * nn + p); }
        if (j + 1 < ny) { m |= 1ull << (p * nn + p + nx); m |= 1ull << ((p + nx) * nn + p); }
    }
    return m;
}
// adjacency (incl. diagonal) as a vector<char> nn*nn
inline std::vector<char> node_adj_mask(int nn, uint64_t nodemask) { std::vector<char> a((size_t)nn * nn, 0); for (int k = 0; k < nn * nn; ++k) a[k] = (nodemask >> k) & 1u; return a; }
inline std::vector<char> node_adj_grid(int nx, int ny) {
    int nn = nx * ny; std::vector<char> a((size_t)nn * nn, 0);
    for (int j = 0; j < ny; ++j) for (int i = 0; i < nx; ++i) {
        int p = j * nx + i; a[p * nn + p] = 1;
        if (i + 1 < nx) a[p * nn + p + 1] = a[(p + 1) * nn + p] = 1;
        if (j + 1 < ny) a[p * nn + p + nx] = a[(p + nx) * nn + p] = 1;
    }
    return a;
}
// full-diagonal 3x3 node pattern from the 6 off-diagonal bits (row-major over i != j)
inline uint64_t node3_from_offdiag(int nn, uint32_t off) {
    uint64_t m = 0; int k = 0;
    for (int i = 0; i < nn; ++i) for (int j = 0; j < nn; ++j) { if (i == j) m |= 1ull << (i * nn + j); else { if ((off >> k) & 1u) m |= 1ull << (i * nn + j); ++k; } }
    return m;
}
inline bool node_symmetric(int nn, const std::vector<char> &a) { for (int i = 0; i < nn; ++i) for (int j = 0; j < nn; ++j) if (a[i * nn + j] != a[j * nn + i]) return false; return true; }

// ------------------------------------------------------------------------------------------
// Scalar CRS of a block matrix with structurally incomplete blocks.
//   valrule 0 : integer values ival(i,j,salt) everywhere (operator checks; not meant to be solved)
//   valrule 1 : nonsymmetric, strictly diagonally dominant by rows: off-diagonal scalar entries position coded dyadic
//               values, scalar diagonal (always stored) = sum |off| + dyadic margin  (=> every diagonal block is
//               strictly diagonally dominant, all point/block Jacobi, Gauss-Seidel and ILU variants are well defined)
//   valrule 2 : symmetric positive definite: masks symmetrised (block (J,I) mask = transpose of block (I,J) mask for I<J,
//               diagonal block masks m | m^T), values symmetric, negative off-diagonals (M-matrix) where sgn rule says so
// The scalar diagonal is stored for valrule 1,2 whatever the mask says (amgcl relaxations need a diagonal).
inline sg::Crs<double> block_pattern(int nn, const std::vector<char> &adj, int b, int scheme, int valrule, int salt = 0) {
    int n = nn * b;
    std::vector<char> st((size_t)n * n, 0);
    for (int I = 0; I < nn; ++I) for (int J = 0; J < nn; ++J) {
        if (!adj[I * nn + J]) continue;
        uint32_t m;
        if (valrule == 2) {
            if (I == J) { uint32_t a = fill_mask(scheme, b, I, I); m = a | m_transpose(b, a); }
            else if (I < J) m = fill_mask(scheme, b, I, J);
            else m = m_transpose(b, fill_mask(scheme, b, J, I));
        } else m = fill_mask(scheme, b, I, J);
        for (int p = 0; p < b; ++p) for (int q = 0; q < b; ++q) if ((m >> (p * b + q)) & 1u) st[(size_t)(I * b + p) * n + (J * b + q)] = 1;
    }
    std::vector<double> D((size_t)n * n, 0.0);
    if (valrule == 0) {
        for (int i = 0; i < n; ++i) for (int j = 0; j < n; ++j) if (st[(size_t)i * n + j]) D[(size_t)i * n + j] = ival(i, j, salt);
    } else {
        static const double NS[6] = {-1, 0.5, -2, 1.5, -0.5, 1};
        static const double WT[4] = {1, 0.5, 2, 1.5};
        static const double DD[5] = {1, 2, 0.5, 1.5, 0.75};
        std::vector<double> rs(n, 0.0);
        for (int i = 0; i < n; ++i) st[(size_t)i * n + i] = 1;
        for (int i = 0; i < n; ++i) for (int j = 0; j < n; ++j) if (i != j && st[(size_t)i * n + j]) {
            double v;
            if (valrule == 1) v = NS[(3 * i + 5 * j + salt) % 6];
            else { int lo = std::min(i, j), hi = std::max(i, j); v = WT[(lo + 2 * hi + salt) % 4] * (((lo * hi + lo + hi) % 3 == 0) ? 1 : -1); }
            D[(size_t)i * n + j] = v; rs[i] += std::fabs(v);
        }
        for (int i = 0; i < n; ++i) D[(size_t)i * n + i] = rs[i] + DD[(i + salt) % 5];
    }
    sg::Builder<double> B(n);
    for (int i = 0; i < n; ++i) for (int j = 0; j < n; ++j) if (st[(size_t)i * n + j]) B.add(i, j, D[(size_t)i * n + j]);
    return B.finish();
}

// coupling blocks for A (x) B (row major b x b).  kind: 0 identity, 1 SPD dense (2 on the diagonal, -1/4 elsewhere),
// 2 SPD tridiagonal (structurally incomplete for b >= 3), 3 upper bidiagonal (nonsymmetric, incomplete),
// 4 diagonal with distinct entries (1,2,4,..; incomplete)
enum { NKRON = 5 };
inline const char *kron_name(int k) { static const char *nm[NKRON] = {"I", "spd_dense", "spd_tridiag", "upper_bidiag", "diag_scaled"}; return nm[k]; }
inline bool kron_symmetric(int k) { return k != 3; }
inline std::vector<double> kron_block(int kind, int b) {
    std::vector<double> B((size_t)b * b, 0.0);
    for (int p = 0; p < b; ++p) for (int q = 0; q < b; ++q) {
        double v = 0;
        switch (kind) {
            case 0: v = (p == q); break;
            case 1: v = (p == q) ? 2 : -0.25; break;
            case 2: v = (p == q) ? 2 : (std::abs(p - q) == 1 ? -0.5 : 0); break;
            case 3: v = (p == q) ? 2 : (q == p + 1 ? -1 : 0); break;
            default: v = (p == q) ? (double)(1 << p) : 0; break;
        }
        B[(size_t)p * b + q] = v;
    }
    return B;
}

// ------------------------------------------------------------------------------------------
// oracle pieces
template <class V> inline ld truth(const sg::Crs<V> &A, const std::vector<V> &f, const std::vector<V> &x) {
    ld fn = sg::norm2_ld(f);
    return fn > 0 ? sg::true_residual(A, f, x) / fn : sg::true_residual(A, f, x);
}
template <class V> inline bool all_finite(const std::vector<V> &x) { for (auto &v : x) if (!std::isfinite(sg::realpart(v)) || !std::isfinite(sg::imagpart(v))) return false; return true; }

// DESIGN C01/FA:  32 u (iters+2) sqrt(n) kappa2(A) (1 + ||A||2 max(||x0||,||x||)/||f||) + 1e-12 reported
inline ld bound(size_t iters, int n, const sg::SvdInfo &sv, ld x0n, ld xn, ld fn, double reported) {
    return 32 * (ld)U * (ld)(iters + 2) * sqrtl((ld)n) * (ld)sv.kappa * (1 + (ld)sv.smax * std::max(x0n, xn) / fn) + 1e-12L * (ld)reported;
}

// general right-hand side: position coded, not an eigenvector of anything in sight
template <class V> inline std::vector<V> gen_rhs(int n) { return sg::pattern_rhs<V>(n, 0); }

inline bool symmetric(const sg::Crs<double> &A) {
    auto D = sg::dense(A);
    for (int i = 0; i < A.n; ++i) for (int j = 0; j < i; ++j) if (D(i, j) != D(j, i)) return false;
    return true;
}

} // namespace c13
#endif
