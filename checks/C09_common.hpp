// shared by C09_threads.cpp / C09_hier.cpp
#ifndef C09_COMMON_HPP
#define C09_COMMON_HPP
#include <string>
#include <vector>
#include <cstring>
#include <cmath>
#include <algorithm>
#include <omp.h>
#include "vf.hpp"

void set_threads(int nt, int policy);
extern const int NPOL;
#ifdef C09_TSAN
static const int NTS[] = {1, 4, 7, 17};          // the sanitizer pass looks for races, not for count coverage
#else
static const int NTS[] = {1, 2, 3, 4, 5, 8, 16, 17, 24, 32};
#endif

// outputs of a phase: integer structure + floating point values; `cross` = how many leading
// values take part in the comparison ACROSS the 16-thread SpGEMM switch (-1: all)
struct Blob {
    std::string ints; std::vector<double> vals; long cross = -1; std::string exc;
    bool operator==(const Blob &o) const {
        return exc == o.exc && ints == o.ints && vals.size() == o.vals.size() &&
               (vals.empty() || std::memcmp(vals.data(), o.vals.data(), vals.size() * sizeof(double)) == 0);
    }
    void puti(const void *p, size_t n) { ints.append((const char*)p, n); }
    void putv(const double *p, size_t n) { vals.insert(vals.end(), p, p + n); }
};
template <class M> inline void ser(Blob &b, const M &A) {
    size_t d[3] = {A.nrows, A.ncols, A.nnz}; b.puti(d, sizeof d);
    if (A.nrows) { b.puti(A.ptr, (A.nrows + 1) * sizeof(*A.ptr)); b.puti(A.col, A.nnz * sizeof(*A.col)); if (A.val) b.putv(A.val, A.nnz); }
}
template <class V> inline void serd(Blob &b, const V &v) { size_t n = v.size(); b.puti(&n, sizeof n); if (n) b.putv(&v[0], n); }
template <class V> inline void seri(Blob &b, const V &v) { size_t n = v.size(); b.puti(&n, sizeof n); if (n) b.puti(&v[0], n * sizeof(v[0])); }

// The caller's own code may already be inside an active parallel region: with nesting disabled (libgomp's default, and what
// engine/gomp_fiber models) every region the library opens then has a team of ONE while omp_get_max_threads() still answers nt.
// f() is run by member 0 of an outer team of two.
template <class F>
Blob run_inside_region(F &&f) {
    Blob out;
#pragma omp parallel num_threads(2)
    {
        if (omp_get_thread_num() == 0) {
            try { out = f(); } catch (const std::exception &e) { out.exc = std::string("EXC:") + e.what(); }
        }
    }
    return out;
}
static const int NTS_INSIDE[] = {4, 8};      // at and above the 4-thread switch to the level-scheduled algorithms, below the 16-thread SpGEMM switch

// Runs f() for every thread count / schedule.
//  * nt <= 16 (marker SpGEMM, like nt = 1): byte-identical to nt = 1
//  * nt >= 17 (row-merge SpGEMM): byte-identical among themselves
//  * across the switch: if uses_product, structure identical and values equal to rounding
//    (reported under the separate sub-check threads.spgemm_switch.* -- see known finding F14);
//    otherwise byte-identical as well.
template <class F>
void bitwise_phase(const std::string &phase, const std::string &key, bool uses_product, F &&f) {
    if (!vf::take([&]{ return key; })) return;
    set_threads(1, 0);
    Blob ref = f();
    Blob refH; bool haveH = false;
    vf::nontrivial(vf::hstr(key));
    bool done_lo = false, done_hi = false, done_x = false;
    for (int nt : NTS) for (int pol = 0; pol < NPOL; ++pol) {
        if (nt == 1 && pol == 0) continue;
        bool high = nt > 16;
        if (high ? done_hi : done_lo) continue;
        set_threads(nt, pol);
        Blob got;
        try { got = f(); } catch (const std::exception &e) { got.exc = std::string("EXC:") + e.what(); }
        vf::count("runs");
        if (!high || !uses_product) {
            if (!(got == ref)) {
                vf::fail("threads.bitwise." + phase, key, vf::KS() << "nt=" << nt << " schedule-policy=" << pol << " output differs from nt=1 (" << (got.exc.empty() ? "values/structure" : got.exc) << ")");
                (high ? done_hi : done_lo) = true;
            } else vf::S().traces_validated += 1;
            continue;
        }
        if (!haveH) {
            refH = got; haveH = true;
            if (!(got == ref) && !done_x) {
                done_x = true;
                // across the algorithm switch
                if (got.exc != ref.exc || got.ints != ref.ints || got.vals.size() != ref.vals.size()) {
                    vf::fail("threads.spgemm_switch_structure." + phase, key, vf::KS() << "nt=" << nt << ": structure differs from nt=1 across the SpGEMM algorithm switch");
                } else {
                    size_t lim = ref.cross < 0 ? ref.vals.size() : (size_t)ref.cross;
                    double mx = 0; for (size_t i = 0; i < lim; ++i) mx = std::max(mx, std::abs(ref.vals[i]));
                    double worst = 0; for (size_t i = 0; i < lim; ++i) worst = std::max(worst, std::abs(ref.vals[i] - got.vals[i]));
                    // each value is a sum of <= ~8 products of <= 3 factors; two association orders differ by <= k^2 eps max|term|
                    double bound = 64 * 2.2204460492503131e-16 * mx;
                    if (worst > bound)
                        vf::fail("threads.spgemm_switch_beyond_rounding." + phase, key, vf::KS() << "nt=" << nt << ": values differ from nt=1 by " << worst << " > " << bound);
                    else
                        vf::fail("threads.spgemm_switch." + phase, key, vf::KS() << "nt=" << nt << ": not bitwise identical to nt=1 across the 16-thread SpGEMM switch (max abs difference " << worst << ", rounding bound " << bound << ")");
                }
            } else if (got == ref) vf::S().traces_validated += 1;
        } else {
            if (!(got == refH)) { vf::fail("threads.bitwise." + phase, key, vf::KS() << "nt=" << nt << " schedule-policy=" << pol << " differs from nt=17 inside the >16-thread class"); done_hi = true; }
            else vf::S().traces_validated += 1;
        }
    }
    // called from inside an active region: same answer as with one thread (sub-check threads.inside_region.*)
    for (int nt : NTS_INSIDE) {
        set_threads(nt, 0);
        Blob got = run_inside_region(f);
        vf::count("runs_inside_region");
        if (!(got == ref)) { vf::fail("threads.inside_region." + phase, key, vf::KS() << "max_threads=" << nt << ", called by a member of an outer parallel region (inner teams of one): output differs from nt=1 (" << (got.exc.empty() ? "values/structure" : got.exc) << ")"); break; }
        else vf::S().traces_validated += 1;
    }
    set_threads(1, 0);
}
#endif
