// C14_probe.cpp -- compiled AT RUN TIME by C14_params (one compiler invocation per parameter
// structure): does `params::get()` / `get_params()` compile, and -- when built into an executable
// (only needed for structures whose get() the main harness cannot call because it does not
// compile on the unchanged tree) -- the full import/export round trip of C14_roundtrip.hpp.
//
//   g++ -fsyntax-only -DC14_PROBE_T=C14_T_<id> -DC14_PROBE_ID='"<id>"' [-DC14_PROBE_CLASS='...'] C14_probe.cpp
//
// Output protocol of the executable: lines  FAIL<TAB>sub<TAB>detail  /  COUNT<TAB>name<TAB>n  /  DONE
#include "C14_roundtrip.hpp"
#include <cstdio>

struct PR : c14::Report {
    void fail(const std::string &sub, const std::string &detail) override {
        std::string d = detail; for (char &c : d) if (c == '\n' || c == '\t') c = ' ';
        std::printf("FAIL\t%s\t%s\n", sub.c_str(), d.c_str());
    }
    void count(const std::string &name, long long n) override { std::printf("COUNT\t%s\t%lld\n", name.c_str(), n); }
};

int main(int argc, char **argv) {
    PR r;
    bool extra = argc > 1 && std::string(argv[1]) == "thorough";
    // params(ptree) and params::get() are instantiated here
    c14::roundtrip_struct<C14_PROBE_T, true>(r, C14_PROBE_ID, extra);
#ifdef C14_PROBE_CLASS
    {   // taking the address instantiates the member function
        typedef C14_PROBE_CLASS K;
        void (K::*f)(boost::property_tree::ptree &) const = &K::get_params;
        if (!f) std::printf("FAIL\tprobe\tnull member pointer\n");
    }
#endif
    std::printf("DONE\n");
    return 0;
}
