// C17 (adapters) -- every way of handing a matrix to amgcl describes the same operator.
// Exhaustive over small sparsity patterns with small-integer values (all comparisons exact):
// tuple-of-ranges adapter (5 index types x 4 range flavours x 3 size types), zero_copy /
// zero_copy_direct (pointer identity, allocation ledger), Eigen, uBlas, crs_builder,
// block_matrix / unblock_matrix, reorder and scale_diagonal views, shared crs.
#include <complex>
#include <deque>
#include <new>
#include <cstdlib>
#include <boost/numeric/ublas/matrix_sparse.hpp>
#include <amgcl/backend/builtin.hpp>
#include <amgcl/value_type/static_matrix.hpp>
#include <amgcl/value_type/complex.hpp>
#include <amgcl/adapter/crs_tuple.hpp>
#include <amgcl/adapter/zero_copy.hpp>
#include <amgcl/adapter/eigen.hpp>
#include <amgcl/adapter/ublas.hpp>
#include <amgcl/adapter/crs_builder.hpp>
#include <amgcl/adapter/block_matrix.hpp>
#include <amgcl/adapter/reorder.hpp>
#include <amgcl/adapter/scaled_problem.hpp>
#include <amgcl/relaxation/as_preconditioner.hpp>
#include <amgcl/relaxation/spai0.hpp>
#include <amgcl/relaxation/damped_jacobi.hpp>
#include <amgcl/coarsening/aggregation.hpp>
#include <amgcl/amg.hpp>
#include "vf.hpp"
#include "mk.hpp"

using namespace amgcl;

// ---- allocation ledger ------------------------------------------------------------------------------
static size_t g_alloc_bytes = 0, g_alloc_calls = 0;
static const void *g_watch[8]; static int g_nwatch = 0; static int g_watched_frees = 0;
void* operator new(size_t n) { g_alloc_bytes += n; ++g_alloc_calls; void *p = std::malloc(n ? n : 1); if (!p) throw std::bad_alloc(); return p; }
void* operator new[](size_t n) { return operator new(n); }
static void ledger_free(void *p) { for (int i = 0; i < g_nwatch; ++i) if (p && p == g_watch[i]) { ++g_watched_frees; return; } std::free(p); }
void operator delete(void *p) noexcept { ledger_free(p); }
void operator delete[](void *p) noexcept { ledger_free(p); }
void operator delete(void *p, size_t) noexcept { ledger_free(p); }
void operator delete[](void *p, size_t) noexcept { ledger_free(p); }
struct Watch { Watch(const void *a, const void *b, const void *c) { g_watch[0] = a; g_watch[1] = b; g_watch[2] = c; g_nwatch = 3; g_watched_frees = 0; } ~Watch() { g_nwatch = 0; } };

// ---- values, expected rows ------------------------------------------------------------------------------
static inline double ival(int i, int j, int salt = 0) { int v = 1 + (3 * i + 5 * j + salt) % 4; return ((i + 2 * j + salt) & 1) ? -v : v; }
typedef std::complex<double> Cx;
template <class V> V mkval(int i, int j);
template <> double mkval<double>(int i, int j) { return ival(i, j); }
template <> float  mkval<float>(int i, int j)  { return (float)ival(i, j); }
template <> Cx     mkval<Cx>(int i, int j)     { return Cx(ival(i, j), ival(j, i, 1)); }

// A source matrix: CRS arrays with ptrdiff_t indices, rows possibly in permuted order
template <class V> struct Src {
    int m = 0, n = 0;
    std::vector<ptrdiff_t> ptr, col; std::vector<V> val;
    mk::Dense<V> D;
};
template <class V> static Src<V> make_src(int m, int n, uint64_t mask) {
    Src<V> s; s.m = m; s.n = n; s.D = mk::from_mask<V>(m, n, mask, [](int i, int j) { return mkval<V>(i, j); });
    s.ptr.push_back(0);
    for (int i = 0; i < m; ++i) { for (int j = 0; j < n; ++j) if (s.D.st(i, j)) { s.col.push_back(j); s.val.push_back(s.D(i, j)); } s.ptr.push_back((ptrdiff_t)s.col.size()); }
    return s;
}
template <class V> static void permute_row(Src<V> &s, int row, const std::vector<int> &order) {
    ptrdiff_t b = s.ptr[row]; int w = (int)(s.ptr[row + 1] - b);
    std::vector<ptrdiff_t> c(w); std::vector<V> v(w);
    for (int k = 0; k < w; ++k) { c[k] = s.col[b + order[k]]; v[k] = s.val[b + order[k]]; }
    for (int k = 0; k < w; ++k) { s.col[b + k] = c[k]; s.val[b + k] = v[k]; }
}
template <class V> static std::string show(const Src<V> &s) {
    vf::KS o; o << s.m << "x" << s.n << " rows:";
    for (int i = 0; i < s.m; ++i) { o << " ["; for (ptrdiff_t j = s.ptr[i]; j < s.ptr[i + 1]; ++j) o << (j > s.ptr[i] ? " " : "") << s.col[j] << ":" << s.val[j]; o << "]"; }
    return o;
}
template <class V> static bool veq(const V &a, const V &b) { return std::memcmp(&a, &b, sizeof(V)) == 0 || a == b; }

static std::string g_key;     // key of the case being evaluated (all fail() calls use it)

// Check that adapter A presents exactly the rows of s (same order of entries), and that the crs the library
// builds from it, and spmv through it, give the dense operator.
template <class V, class X>
static void check_adapter(const std::string &what, const X &A, const Src<V> &s, bool direct_spmv, bool exact_nnz = true) {
    auto bad = [&](const std::string &sub, const std::string &d) { vf::fail("adapter." + what + "." + sub, g_key, d + " | source " + show(s)); };
    if ((int)backend::rows(A) != s.m) { bad("rows", vf::KS() << "rows()=" << backend::rows(A)); return; }
    if ((int)backend::cols(A) != s.n) { bad("cols", vf::KS() << "cols()=" << backend::cols(A)); return; }
    if (exact_nnz && backend::nonzeros(A) != s.col.size()) bad("nonzeros", vf::KS() << "nonzeros()=" << backend::nonzeros(A) << " expected " << s.col.size());
    for (int i = 0; i < s.m; ++i) {
        ptrdiff_t j = s.ptr[i];
        for (auto a = backend::row_begin(A, i); a; ++a, ++j) {
            if (j >= s.ptr[i + 1]) { bad("row_iterator", vf::KS() << "row " << i << " has too many entries"); return; }
            if ((long long)a.col() != (long long)s.col[j] || !veq<V>(a.value(), s.val[j])) { bad("row_iterator", vf::KS() << "row " << i << " entry " << j - s.ptr[i] << " is (" << (long long)a.col() << ") expected col " << s.col[j]); return; }
        }
        if (j != s.ptr[i + 1]) { bad("row_iterator", vf::KS() << "row " << i << " has too few entries"); return; }
    }
    // the library's own ingestion
    backend::crs<V, ptrdiff_t, ptrdiff_t> C(A);
    mk::Dense<V> got; std::string why;
    std::string err = mk::from_crs(C, got, false);
    if (!err.empty()) { bad("crs_copy.wellformed", err); return; }
    if (!mk::same(got, s.D, why)) { bad("crs_copy.value", why); return; }
    // spmv with x_j = 2^j  (exact)
    std::vector<V> x(s.n), y(s.m, math::zero<V>()), ref(s.m, math::zero<V>());
    for (int j = 0; j < s.n; ++j) x[j] = V((double)(1 << j));
    for (int i = 0; i < s.m; ++i) for (int j = 0; j < s.n; ++j) if (s.D.st(i, j)) ref[i] += s.D(i, j) * x[j];
    backend::spmv(1.0, C, x, 0.0, y);
    for (int i = 0; i < s.m; ++i) if (!veq(y[i], ref[i])) { bad("crs_copy.spmv", vf::KS() << "row " << i); return; }
    (void)direct_spmv;
}
template <class V, class X>
static void check_direct_spmv(const std::string &what, const X &A, const Src<V> &s) {
    std::vector<V> x(s.n), y(s.m, V(7.0)), ref(s.m, math::zero<V>());
    for (int j = 0; j < s.n; ++j) x[j] = V((double)(1 << j));
    for (int i = 0; i < s.m; ++i) { for (int j = 0; j < s.n; ++j) if (s.D.st(i, j)) ref[i] += s.D(i, j) * x[j]; ref[i] = V(2.0) * ref[i] + V(-1.0) * V(7.0); }
    backend::spmv(2.0, A, x, -1.0, y);
    for (int i = 0; i < s.m; ++i) if (!veq(y[i], ref[i])) { vf::fail("adapter." + what + ".spmv", g_key, vf::KS() << "row " << i << " | source " << show(s)); return; }
    std::vector<V> r(s.m), f(s.m, V(3.0));
    backend::residual(f, A, x, r);
    for (int i = 0; i < s.m; ++i) { V e = math::zero<V>(); for (int j = 0; j < s.n; ++j) if (s.D.st(i, j)) e += s.D(i, j) * x[j]; if (!veq(r[i], V(3.0) - e)) { vf::fail("adapter." + what + ".residual", g_key, vf::KS() << "row " << i << " | source " << show(s)); return; } }
}

// ---- tuple adapter ---------------------------------------------------------------------------------------------
template <class I> struct IN;
template <> struct IN<int> { static const char *n() { return "int"; } };
template <> struct IN<long> { static const char *n() { return "long"; } };
template <> struct IN<unsigned> { static const char *n() { return "unsigned"; } };
template <> struct IN<unsigned long> { static const char *n() { return "size_t"; } };
template <> struct IN<long long> { static const char *n() { return "llong"; } };
template <> struct IN<unsigned long long> { static const char *n() { return "ullong"; } };

template <class V, class P, class C, class N>
static void tuple_flavours(const Src<V> &s, const char *vt) {
    std::vector<P> ptr(s.ptr.begin(), s.ptr.end()); std::vector<C> col(s.col.begin(), s.col.end()); std::vector<V> val = s.val;
    N n = (N)s.m;
    std::string t = std::string("tuple.") + vt + "." + IN<P>::n() + "_" + IN<C>::n();
    { auto A = std::tie(n, ptr, col, val); check_adapter<V>(t + ".vector_ref", A, s, true); check_direct_spmv<V>(t + ".vector_ref", A, s); }
    { auto A = std::make_tuple(n, ptr, col, val); check_adapter<V>(t + ".vector_value", A, s, true); check_direct_spmv<V>(t + ".vector_value", A, s); }
    {   // raw pointers (vectors get one spare element so that data() is never null)
        std::vector<C> c2 = col; c2.push_back(0); std::vector<V> v2 = val; v2.push_back(V());
        const P *pp = ptr.data(); const C *cp = c2.data(); const V *vp = v2.data();
        auto A = std::make_tuple(n, make_iterator_range(pp, pp + s.m + 1), make_iterator_range(cp, cp + col.size()), make_iterator_range(vp, vp + val.size()));
        check_adapter<V>(t + ".pointer_range", A, s, true); check_direct_spmv<V>(t + ".pointer_range", A, s);
        if (backend::ptr_data(A) != pp || backend::col_data(A) != cp || backend::val_data(A) != vp) vf::fail("adapter." + t + ".pointer_range.data_pointers", g_key, "ptr_data/col_data/val_data do not return the user pointers");
    }
    {   // iterator ranges over a different container (deque: random access, not contiguous)
        std::deque<P> dp(ptr.begin(), ptr.end()); std::deque<C> dc(col.begin(), col.end()); std::deque<V> dv(val.begin(), val.end());
        auto A = std::make_tuple(n, make_iterator_range(dp.begin(), dp.end()), make_iterator_range(dc.begin(), dc.end()), make_iterator_range(dv.begin(), dv.end()));
        check_adapter<V>(t + ".deque_iterator_range", A, s, true);
    }
}
template <class V> static void tuple_all_index_types(const Src<V> &s, const char *vt) {
    tuple_flavours<V, int, int, size_t>(s, vt);
    tuple_flavours<V, long, long, int>(s, vt);
    tuple_flavours<V, unsigned, unsigned, size_t>(s, vt);
    tuple_flavours<V, unsigned long, unsigned long, long>(s, vt);
    tuple_flavours<V, long long, long long, unsigned>(s, vt);
    tuple_flavours<V, long, int, size_t>(s, vt);            // mixed: ptr wider than col
}

// iterate over all permutations inside every row of s (rows <= 3 entries here), calling f(permuted)
template <class V, class F> static long for_all_row_perms(const Src<V> &s0, F &&f) {
    std::vector<std::vector<int>> perm(s0.m);
    for (int r = 0; r < s0.m; ++r) { int w = (int)(s0.ptr[r + 1] - s0.ptr[r]); perm[r].resize(w); for (int q = 0; q < w; ++q) perm[r][q] = q; }
    long cnt = 0;
    while (true) {
        Src<V> s = s0; for (int r = 0; r < s0.m; ++r) permute_row(s, r, perm[r]);
        f(s); ++cnt;
        int r = 0; while (r < s0.m && !std::next_permutation(perm[r].begin(), perm[r].end())) ++r;
        if (r == s0.m) break;
    }
    return cnt;
}

static void run_tuple() {
    for (int n = 0; n <= 3; ++n) {
        for (uint64_t mask = 0; mask < (1ull << (n * n)); ++mask) {
            g_key = vf::KS() << "tup|" << n << "|" << mask;
            if (!vf::take([&] { return g_key; })) continue;
            auto s = make_src<double>(n, n, mask);
            if (s.col.size() > 1) vf::nontrivial(vf::hstr(g_key));
            long np = for_all_row_perms(s, [&](const Src<double> &p) { tuple_all_index_types<double>(p, "double"); });
            vf::count("tuple.row_permutations", np);
            tuple_all_index_types<Cx>(make_src<Cx>(n, n, mask), "complex");
            tuple_all_index_types<float>(make_src<float>(n, n, mask), "float");
        }
        vf::space(vf::KS() << "tuple adapter: all " << (1ull << (n * n)) << " patterns " << n << "x" << n << " x all in-row permutations x 6 index-type pairs x 4 range flavours (double), sorted rows for complex/float");
    }
    for (uint64_t mask = 0; mask < 65536; ++mask) {
        g_key = vf::KS() << "tup|4|" << mask;
        if (!vf::take([&] { return g_key; })) continue;
        vf::nontrivial(vf::hstr(g_key));
        auto s = make_src<double>(4, 4, mask);
        // reverse every row
        for (int r = 0; r < 4; ++r) { int w = (int)(s.ptr[r + 1] - s.ptr[r]); std::vector<int> o(w); for (int q = 0; q < w; ++q) o[q] = w - 1 - q; permute_row(s, r, o); }
        tuple_flavours<double, long, long, size_t>(s, "double");
        tuple_flavours<double, int, int, int>(s, "double");
    }
    vf::space("tuple adapter: all 65536 patterns 4x4 with every row reversed, index types long and int");
}

// ---- zero copy ------------------------------------------------------------------------------------------------------
template <class P, class C>
static void zero_copy_case(const Src<double> &s) {
    std::vector<P> ptr(s.ptr.begin(), s.ptr.end()); std::vector<C> col(s.col.begin(), s.col.end()); std::vector<double> val = s.val;
    col.push_back(0); val.push_back(0);      // data() never null
    std::vector<P> ptr0 = ptr; std::vector<C> col0 = col; std::vector<double> val0 = val;
    std::string t = std::string("zero_copy.") + IN<P>::n() + "_" + IN<C>::n();
    Watch w(ptr.data(), col.data(), val.data());
    size_t b0 = g_alloc_bytes;
    auto A = s.m == s.n ? adapter::zero_copy((size_t)s.m, ptr.data(), col.data(), val.data()) : adapter::zero_copy((size_t)s.m, (size_t)s.n, ptr.data(), col.data(), val.data());
    size_t used = g_alloc_bytes - b0;
    if (used > 256) vf::fail("adapter." + t + ".copies_data", g_key, vf::KS() << used << " bytes allocated by zero_copy()");
    if ((void*)A->ptr != (void*)ptr.data() || (void*)A->col != (void*)col.data() || (void*)A->val != (void*)val.data()) vf::fail("adapter." + t + ".pointer_identity", g_key, "crs does not alias the user arrays");
    if (A->own_data) vf::fail("adapter." + t + ".own_data", g_key, "own_data is set");
    check_adapter<double>(t, *A, s, true);
    check_direct_spmv<double>(t, *A, s);
    { auto B = A; A.reset(); B.reset(); }
    if (g_watched_frees) vf::fail("adapter." + t + ".frees_user_memory", g_key, "operator delete was called on a user array");
    if (ptr != ptr0 || col != col0 || val != val0) vf::fail("adapter." + t + ".modifies_user_memory", g_key, "user arrays changed");
}
template <class P, class C>
static void zero_copy_direct_case(const Src<double> &s) {
    std::vector<P> ptr(s.ptr.begin(), s.ptr.end()); std::vector<C> col(s.col.begin(), s.col.end()); std::vector<double> val = s.val;
    col.push_back(0); val.push_back(0);
    std::vector<P> ptr0 = ptr; std::vector<C> col0 = col; std::vector<double> val0 = val;
    std::string t = std::string("zero_copy_direct.") + IN<P>::n() + "_" + IN<C>::n();
    Watch w(ptr.data(), col.data(), val.data());
    size_t b0 = g_alloc_bytes;
    auto A = s.m == s.n ? adapter::zero_copy_direct((size_t)s.m, ptr.data(), col.data(), val.data()) : adapter::zero_copy_direct((size_t)s.m, (size_t)s.n, ptr.data(), col.data(), val.data());
    size_t used = g_alloc_bytes - b0;
    if (used > 256) vf::fail("adapter." + t + ".copies_data", g_key, vf::KS() << used << " bytes allocated by zero_copy_direct()");
    if (A->ptr != ptr.data() || A->col != col.data() || A->val != val.data()) vf::fail("adapter." + t + ".pointer_identity", g_key, "crs does not alias the user arrays");
    if (A->own_data) vf::fail("adapter." + t + ".own_data", g_key, "own_data is set");
    check_adapter<double>(t, *A, s, true);
    check_direct_spmv<double>(t, *A, s);
    A.reset();
    if (g_watched_frees) vf::fail("adapter." + t + ".frees_user_memory", g_key, "operator delete was called on a user array");
    if (ptr != ptr0 || col != col0 || val != val0) vf::fail("adapter." + t + ".modifies_user_memory", g_key, "user arrays changed");
}
static void zero_copy_all(const Src<double> &s) {
    zero_copy_case<long, long>(s); zero_copy_case<unsigned long, unsigned long>(s); zero_copy_case<long long, long long>(s);
    zero_copy_case<unsigned long long, long>(s); zero_copy_case<long, unsigned long long>(s);
    zero_copy_direct_case<int, int>(s); zero_copy_direct_case<long, long>(s); zero_copy_direct_case<unsigned, unsigned>(s);
    zero_copy_direct_case<unsigned long, unsigned long>(s); zero_copy_direct_case<long long, long long>(s); zero_copy_direct_case<long, int>(s);
}
static void run_zero_copy() {
    for (int m = 0; m <= 3; ++m) for (int n = 0; n <= 3; ++n) {
        for (uint64_t mask = 0; mask < (1ull << (m * n)); ++mask) {
            g_key = vf::KS() << "zc|" << m << "x" << n << "|" << mask;
            if (!vf::take([&] { return g_key; })) continue;
            auto s = make_src<double>(m, n, mask);
            if (s.col.size() > 1) vf::nontrivial(vf::hstr(g_key));
            long np = for_all_row_perms(s, [&](const Src<double> &p) { zero_copy_all(p); });
            vf::count("zero_copy.row_permutations", np);
        }
        vf::space(vf::KS() << "zero_copy / zero_copy_direct: all patterns " << m << "x" << n << " x all in-row permutations x 5 + 6 index-type pairs");
    }
    for (uint64_t mask = 0; mask < 65536; ++mask) {
        g_key = vf::KS() << "zc|4x4|" << mask;
        if (!vf::take([&] { return g_key; })) continue;
        vf::nontrivial(vf::hstr(g_key));
        auto s = make_src<double>(4, 4, mask);
        zero_copy_case<long, long>(s); zero_copy_direct_case<int, int>(s); zero_copy_direct_case<unsigned long, unsigned long>(s);
    }
    vf::space("zero_copy / zero_copy_direct: all 65536 patterns 4x4, sorted rows");
}

// ---- Eigen ------------------------------------------------------------------------------------------------------------
template <class SI> static void eigen_case(const Src<double> &s, const Src<double> &shuffled) {
    typedef Eigen::SparseMatrix<double, Eigen::RowMajor, SI> SM;
    std::string t = std::string("eigen.") + IN<SI>::n();
    {   // compressed, from triplets
        std::vector<Eigen::Triplet<double, SI>> tr;
        for (int i = 0; i < s.m; ++i) for (ptrdiff_t j = s.ptr[i]; j < s.ptr[i + 1]; ++j) tr.emplace_back((SI)i, (SI)s.col[j], s.val[j]);
        SM A(s.m, s.n); A.setFromTriplets(tr.begin(), tr.end()); A.makeCompressed();
        check_adapter<double>(t + ".compressed", A, s, false);
    }
    {   // uncompressed (reserve + insert)
        SM A(s.m, s.n); A.reserve(Eigen::VectorXi::Constant(s.m, 4));
        for (int i = 0; i < s.m; ++i) for (ptrdiff_t j = s.ptr[i]; j < s.ptr[i + 1]; ++j) A.insert(i, (SI)s.col[j]) = s.val[j];
        check_adapter<double>(t + ".uncompressed", A, s, false);
    }
    {   // Map over user CSR arrays, rows in arbitrary order
        std::vector<SI> ptr(shuffled.ptr.begin(), shuffled.ptr.end()), col(shuffled.col.begin(), shuffled.col.end()); std::vector<double> val = shuffled.val;
        col.push_back(0); val.push_back(0);
        Eigen::Map<SM> A(s.m, s.n, (SI)shuffled.col.size(), ptr.data(), col.data(), val.data());
        check_adapter<double>(t + ".map", A, shuffled, false);
    }
}
static void run_eigen() {
    for (int m = 0; m <= 3; ++m) for (int n = 0; n <= 3; ++n) {
        if ((m == 0) != (n == 0)) continue;          // Eigen asserts on 0 x n maps
        for (uint64_t mask = 0; mask < (1ull << (m * n)); ++mask) {
            g_key = vf::KS() << "eig|" << m << "x" << n << "|" << mask;
            if (!vf::take([&] { return g_key; })) continue;
            auto s = make_src<double>(m, n, mask);
            if (s.col.size() > 1) vf::nontrivial(vf::hstr(g_key));
            for_all_row_perms(s, [&](const Src<double> &p) { eigen_case<int>(s, p); eigen_case<long>(s, p); });
        }
        vf::space(vf::KS() << "Eigen RowMajor SparseMatrix (compressed / uncompressed) and Map (all in-row permutations): all patterns " << m << "x" << n << ", storage index int and long");
    }
}

// ---- uBlas -----------------------------------------------------------------------------------------------------------------
static void run_ublas() {
    namespace ub = boost::numeric::ublas;
    for (int n = 1; n <= 3; ++n) {
        for (uint64_t mask = 0; mask < (1ull << (n * n)); ++mask) for (int how = 0; how < 2; ++how) {
            g_key = vf::KS() << "ubl|" << n << "|" << mask << "|" << how;
            if (!vf::take([&] { return g_key; })) continue;
            auto s = make_src<double>(n, n, mask);
            if (s.col.size() > 1) vf::nontrivial(vf::hstr(g_key));
            ub::compressed_matrix<double, ub::row_major> A(n, n, s.col.size());
            if (how == 0) { for (int i = 0; i < n; ++i) for (ptrdiff_t j = s.ptr[i]; j < s.ptr[i + 1]; ++j) A.push_back(i, s.col[j], s.val[j]); }
            else          { for (int i = n - 1; i >= 0; --i) for (ptrdiff_t j = s.ptr[i + 1] - 1; j >= s.ptr[i]; --j) A(i, s.col[j]) = s.val[j]; }   // random-order insertion
            // what uBlas itself says the matrix is
            for (int i = 0; i < n; ++i) for (int j = 0; j < n; ++j) { double v = A(i, j); if (v != (s.D.st(i, j) ? s.D(i, j) : 0.0)) vf::fail("harness.ublas_fill", g_key, "uBlas matrix not filled as intended"); }
            check_adapter<double>(std::string("ublas.") + (how ? "inserted" : "push_back"), backend::map(A), s, true);
        }
        vf::space(vf::KS() << "uBlas compressed_matrix (row_major): all patterns " << n << "x" << n << " filled by push_back and by reverse-order insertion, via backend::map()");
    }
}

// ---- crs_builder -------------------------------------------------------------------------------------------------------------
struct RowBuilder {
    typedef double val_type; typedef long col_type;
    const Src<double> *s;
    size_t rows() const { return s->m; }
    size_t nonzeros() const { return s->col.size(); }
    void operator()(size_t row, std::vector<col_type> &col, std::vector<val_type> &val) const {
        for (ptrdiff_t j = s->ptr[row]; j < s->ptr[row + 1]; ++j) { col.push_back(s->col[j]); val.push_back(s->val[j]); }
    }
};
static void run_builder() {
    for (int n = 0; n <= 3; ++n) {
        for (uint64_t mask = 0; mask < (1ull << (n * n)); ++mask) {
            g_key = vf::KS() << "bld|" << n << "|" << mask;
            if (!vf::take([&] { return g_key; })) continue;
            auto s = make_src<double>(n, n, mask);
            if (s.col.size() > 1) vf::nontrivial(vf::hstr(g_key));
            for_all_row_perms(s, [&](const Src<double> &p) { RowBuilder rb{&p}; auto A = adapter::make_matrix(rb); check_adapter<double>("crs_builder", A, p, true); check_direct_spmv<double>("crs_builder", A, p); });
        }
        vf::space(vf::KS() << "crs_builder: all patterns " << n << "x" << n << " x all in-row permutations");
    }
    for (uint64_t mask = 0; mask < 65536; ++mask) {
        g_key = vf::KS() << "bld|4|" << mask;
        if (!vf::take([&] { return g_key; })) continue;
        vf::nontrivial(vf::hstr(g_key));
        auto s = make_src<double>(4, 4, mask); RowBuilder rb{&s}; check_adapter<double>("crs_builder", adapter::make_matrix(rb), s, true);
    }
    vf::space("crs_builder: all 65536 patterns 4x4");
}

static void run_perm4() {
    if (vf::thorough()) {
        for (uint64_t mask = 0; mask < 65536; ++mask) {
            g_key = vf::KS() << "tup4p|4|" << mask;
            if (!vf::take([&] { return g_key; })) continue;
            auto s0 = make_src<double>(4, 4, mask);
            for (int r = 0; r < 4; ++r) {
                int w = (int)(s0.ptr[r + 1] - s0.ptr[r]); std::vector<int> p(w); for (int q = 0; q < w; ++q) p[q] = q;
                while (std::next_permutation(p.begin(), p.end())) {
                    auto s = s0; permute_row(s, r, p); vf::nontrivial(vf::hstr(g_key));
                    tuple_flavours<double, long, long, size_t>(s, "double"); tuple_flavours<double, unsigned, unsigned, int>(s, "double");
                    zero_copy_case<long, long>(s); zero_copy_direct_case<int, int>(s);
                    RowBuilder rb{&s}; check_adapter<double>("crs_builder", adapter::make_matrix(rb), s, true);
                }
            }
        }
        vf::space("tuple / zero_copy / zero_copy_direct / crs_builder: all 65536 patterns 4x4 x every permutation of one row at a time");
    }
}

// ---- block_matrix / unblock_matrix ------------------------------------------------------------------------------------------------
template <int B, class X>
static void block_check(const std::string &what, const X &A, const Src<double> &s) {
    typedef static_matrix<double, B, B> BT;
    int mb = s.m / B, nb = s.n / B;
    mk::Dense<BT> ref(mb, nb);
    for (int i = 0; i < s.m; ++i) for (int j = 0; j < s.n; ++j) if (s.D.st(i, j)) { ref.st(i / B, j / B) = 1; ref(i / B, j / B)(i % B, j % B) = s.D(i, j); }
    auto bad = [&](const std::string &sub, const std::string &d) { vf::fail("adapter." + what + "." + sub, g_key, d + " | source " + show(s)); };
    auto BA = adapter::block_matrix<BT>(A);
    if ((int)backend::rows(BA) != mb || (int)backend::cols(BA) != nb) { bad("shape", "rows/cols"); return; }
    backend::crs<BT, ptrdiff_t, ptrdiff_t> C(BA);
    mk::Dense<BT> got; std::string why;
    std::string err = mk::from_crs(C, got, true);
    if (!err.empty()) { bad("wellformed", err); return; }
    if (!mk::same(got, ref, why)) { bad("value", why); return; }
    if ((int)C.nnz != ref.nnz()) bad("nonzeros", "block count");
    if (backend::nonzeros(BA) != s.col.size() / (B * B)) bad("nonzeros_estimate_formula", "nonzeros() is not nnz/B^2");
    // back to scalars: same operator, absent entries of stored blocks are explicit zeros
    auto U = adapter::unblock_matrix(C);
    mk::Dense<double> ug; err = mk::from_crs(*U, ug, true);
    if (!err.empty()) { bad("unblock.wellformed", err); return; }
    if (ug.m != s.m || ug.n != s.n) { bad("unblock.shape", "shape"); return; }
    for (int i = 0; i < s.m; ++i) for (int j = 0; j < s.n; ++j) {
        bool blk = ref.st(i / B, j / B);
        if ((bool)ug.st(i, j) != blk) { bad("unblock.pattern", vf::KS() << "(" << i << "," << j << ")"); return; }
        if (blk && ug(i, j) != (s.D.st(i, j) ? s.D(i, j) : 0.0)) { bad("unblock.value", vf::KS() << "(" << i << "," << j << ")"); return; }
    }
}
static void run_block() {
    for (uint64_t mask = 0; mask < 65536; ++mask) {
        g_key = vf::KS() << "blk|4x4|2|" << mask;
        if (!vf::take([&] { return g_key; })) continue;
        auto s = make_src<double>(4, 4, mask);
        if (s.col.size() > 1) vf::nontrivial(vf::hstr(g_key));
        { size_t n = 4; auto A = std::tie(n, s.ptr, s.col, s.val); block_check<2>("block_matrix.tuple_source", A, s); }
        { backend::crs<double> A(std::make_tuple((size_t)4, s.ptr, s.col, s.val)); block_check<2>("block_matrix.crs_source", A, s); }
    }
    vf::space("block_matrix<2x2> + unblock_matrix: all 65536 patterns 4x4, sorted rows, tuple and crs source");
    for (uint64_t mask = 0; mask < 256; ++mask) for (int sh = 0; sh < 2; ++sh) {
        int m = sh ? 4 : 2, n = sh ? 2 : 4;
        g_key = vf::KS() << "blk|" << m << "x" << n << "|2|" << mask;
        if (!vf::take([&] { return g_key; })) continue;
        auto s = make_src<double>(m, n, mask);
        backend::crs<double> A(m, n, s.ptr, s.col, s.val); block_check<2>("block_matrix.crs_source", A, s);
    }
    vf::space("block_matrix<2x2>: all patterns 2x4 and 4x2 (crs source)");
    for (uint64_t mask = 0; mask < 512; ++mask) {
        g_key = vf::KS() << "blk|3x3|3|" << mask;
        if (!vf::take([&] { return g_key; })) continue;
        auto s = make_src<double>(3, 3, mask);
        size_t n = 3; auto A = std::tie(n, s.ptr, s.col, s.val); block_check<3>("block_matrix3.tuple_source", A, s);
    }
    for (uint64_t mask = 0; mask < (1ull << 18); ++mask) {          // 6x6, block 3: the first three rows free, the last three rows mirror them
        g_key = vf::KS() << "blk|6x6|3|" << mask;
        if (!vf::take([&] { return g_key; })) continue;
        vf::nontrivial(vf::hstr(g_key));
        uint64_t full = mask | (((mask * 2654435761ull) & 0x3ffff) << 18);
        auto s = make_src<double>(6, 6, full);
        size_t n = 6; auto A = std::tie(n, s.ptr, s.col, s.val); block_check<3>("block_matrix3.tuple_source", A, s);
    }
    vf::space("block_matrix<3x3>: all patterns 3x3; 6x6 with all 2^18 patterns of the first three rows (rows 3..5 derived)");
    // rows of the scalar source in arbitrary order (one row permuted at a time)
    for (uint64_t mask = 0; mask < 65536; ++mask) {
        g_key = vf::KS() << "blku|4x4|2|" << mask;
        if (!vf::take([&] { return g_key; })) continue;
        auto s0 = make_src<double>(4, 4, mask);
        bool any = false;
        for (int r = 0; r < 4; ++r) {
            int w = (int)(s0.ptr[r + 1] - s0.ptr[r]); std::vector<int> p(w); for (int q = 0; q < w; ++q) p[q] = q;
            while (std::next_permutation(p.begin(), p.end())) {
                auto s = s0; permute_row(s, r, p); any = true;
                size_t n = 4; auto A = std::tie(n, s.ptr, s.col, s.val); block_check<2>("block_matrix.unsorted_source", A, s);
            }
        }
        if (any) vf::nontrivial(vf::hstr(g_key));
    }
    vf::space("block_matrix<2x2> over a source with unsorted rows: all 65536 patterns 4x4 x every permutation of one row at a time");
}

// ---- reorder (exact view identities) -----------------------------------------------------------------------------------------------
// an "ordering" that returns whatever permutation the harness wants (the adapter accepts any ordering class)
struct given_order {
    static std::vector<int>& P() { static std::vector<int> p; return p; }
    template <class Matrix, class Vector> static void get(const Matrix&, Vector &perm) { for (size_t i = 0; i < P().size(); ++i) perm[i] = P()[i]; }
};
template <class Ordering> static void reorder_case(const Src<double> &s, const char *nm) {
    int n = s.m;
    std::string t = std::string("reorder.") + nm;
    size_t nn = n; auto A = std::tie(nn, s.ptr, s.col, s.val);
    adapter::reorder<Ordering> perm(A);
    // recover perm through the vector view
    std::vector<double> id(n); for (int i = 0; i < n; ++i) id[i] = i;
    auto pv = perm(id);
    std::vector<int> p(n), ip(n, -1);
    for (int i = 0; i < n; ++i) { p[i] = (int)pv[i]; if (p[i] < 0 || p[i] >= n || ip[p[i]] != -1) { vf::fail(t + ".permutation_not_bijective", g_key, vf::KS() << "perm[" << i << "]=" << p[i] << " | " << show(s)); return; } ip[p[i]] = i; }
    if ((int)pv.size() != n) vf::fail(t + ".vector_view.size", g_key, "size");
    auto B = perm(A);
    // expected rows of the reordered matrix: row i = row perm[i] of A with columns mapped through iperm, same entry order
    Src<double> e; e.m = e.n = n; e.D = mk::Dense<double>(n, n); e.ptr.push_back(0);
    for (int i = 0; i < n; ++i) { for (ptrdiff_t j = s.ptr[p[i]]; j < s.ptr[p[i] + 1]; ++j) { e.col.push_back(ip[s.col[j]]); e.val.push_back(s.val[j]); e.D.st(i, ip[s.col[j]]) = 1; e.D(i, ip[s.col[j]]) = s.val[j]; } e.ptr.push_back((ptrdiff_t)e.col.size()); }
    check_adapter<double>(std::string("reordered_matrix.") + nm, B, e, true);
    check_direct_spmv<double>(std::string("reordered_matrix.") + nm, B, e);
    // B * perm(x) == perm(A x) for x = powers of 3 (exact), forward / inverse round trip
    std::vector<double> x(n), Ax(n, 0.0), y(n), z(n), Bpx(n, 0.0);
    for (int i = 0; i < n; ++i) x[i] = std::pow(3.0, i);
    for (int i = 0; i < n; ++i) for (int j = 0; j < n; ++j) if (s.D.st(i, j)) Ax[i] += s.D(i, j) * x[j];
    perm.forward(x, y);
    for (int i = 0; i < n; ++i) if (y[i] != x[p[i]]) { vf::fail(t + ".forward", g_key, "forward(x)[i] != x[perm[i]]"); return; }
    perm.inverse(y, z);
    if (z != x) vf::fail(t + ".inverse", g_key, "inverse(forward(x)) != x");
    backend::crs<double> C(B);
    backend::spmv(1.0, C, y, 0.0, Bpx);
    auto pAx = perm(Ax);
    for (int i = 0; i < n; ++i) if (Bpx[i] != pAx[i]) { vf::fail(t + ".permuted_system", g_key, vf::KS() << "(P A P^T)(P x) != P (A x) at " << i << " | " << show(s)); return; }
    // writing through the view writes the original vector
    std::vector<double> w(n, 0.0); auto wv = perm(w); for (int i = 0; i < n; ++i) wv[i] = i + 1;
    for (int i = 0; i < n; ++i) if (w[p[i]] != i + 1) { vf::fail(t + ".vector_view.write", g_key, "write through view"); return; }
}
static void run_reorder() {
    for (int n = 1; n <= 4; ++n) {
        for (uint64_t mask = 0; mask < (1ull << (n * n)); ++mask) {
            g_key = vf::KS() << "reo|" << n << "|" << mask;
            if (!vf::take([&] { return g_key; })) continue;
            auto s = make_src<double>(n, n, mask);
            if (s.col.size() > 1) vf::nontrivial(vf::hstr(g_key));
            reorder_case<reorder::cuthill_mckee<false>>(s, "cuthill_mckee"); reorder_case<reorder::cuthill_mckee<true>>(s, "reverse_cuthill_mckee");
            // Cuthill-McKee only ever produces 2 of the 24 permutations for n = 4 (both involutions): drive the adapter with every permutation
            std::vector<int> &P = given_order::P(); P.resize(n); for (int i = 0; i < n; ++i) P[i] = i;
            long np = 0;
            do { reorder_case<given_order>(s, "given_permutation"); ++np; } while (std::next_permutation(P.begin(), P.end()));
            vf::count("reorder.given_permutations", np);
        }
        vf::space(vf::KS() << "reorder adapter (Cuthill-McKee, reverse CM, and every one of the n! permutations as a given ordering): all patterns " << n << "x" << n << ": permutation bijective, reordered rows, (PAP^T)(Px) == P(Ax)");
    }
}

// ---- scale_diagonal (exact with power-of-four diagonals) -----------------------------------------------------------------------------
static void run_scale() {
    typedef backend::builtin<double> Backend;
    const double dia[4] = {4.0, 0.25, 16.0, 1.0};
    for (int n = 1; n <= 4; ++n) {
        int off = n * n - n;
        for (uint64_t om = 0; om < (1ull << off); ++om) for (int rot = 0; rot < 2; ++rot) {
            g_key = vf::KS() << "scl|" << n << "|" << om << "|" << rot;
            if (!vf::take([&] { return g_key; })) continue;
            uint64_t mask = 0; int b = 0;
            for (int i = 0; i < n; ++i) for (int j = 0; j < n; ++j) { if (i == j) mask |= 1ull << (i * n + j); else { if ((om >> b) & 1) mask |= 1ull << (i * n + j); ++b; } }
            auto s = make_src<double>(n, n, mask);
            for (int i = 0; i < n; ++i) for (ptrdiff_t j = s.ptr[i]; j < s.ptr[i + 1]; ++j) if (s.col[j] == i) { s.val[j] = (i & 1 ? -1 : 1) * dia[(i + rot) % 4]; s.D(i, i) = s.val[j]; }
            if (rot) for (int r = 0; r < n; ++r) { int w = (int)(s.ptr[r + 1] - s.ptr[r]); std::vector<int> o(w); for (int q = 0; q < w; ++q) o[q] = w - 1 - q; permute_row(s, r, o); }   // rows reversed
            if (om) vf::nontrivial(vf::hstr(g_key));
            size_t nn = n; auto A = std::tie(nn, s.ptr, s.col, s.val);
            auto scale = adapter::scale_diagonal<Backend>(A);
            std::vector<double> sc(n); for (int i = 0; i < n; ++i) sc[i] = 1.0 / std::sqrt(std::abs(s.D(i, i)));
            Src<double> e = s; for (int i = 0; i < n; ++i) for (ptrdiff_t j = e.ptr[i]; j < e.ptr[i + 1]; ++j) { e.val[j] = sc[i] * s.val[j] * sc[s.col[j]]; e.D(i, (int)s.col[j]) = e.val[j]; }
            auto As = scale.matrix(A);
            check_adapter<double>("scaled_matrix", As, e, true);
            // rhs(): scaled copy, original untouched ; operator(): in place
            std::vector<double> f(n), f0; for (int i = 0; i < n; ++i) f[i] = 3 + 2 * i; f0 = f;
            auto fs = scale.rhs(f);
            if (f != f0) vf::fail("scaled_problem.rhs_modifies_input", g_key, "rhs() changed its argument");
            for (int i = 0; i < n; ++i) if ((*fs)[i] != sc[i] * f0[i]) { vf::fail("scaled_problem.rhs", g_key, "rhs() != S f"); break; }
            std::vector<double> g = f0; scale(g);
            for (int i = 0; i < n; ++i) if (g[i] != sc[i] * f0[i]) { vf::fail("scaled_problem.scale_in_place", g_key, "operator() != S x"); break; }
            // A (S y) == S^-1 (As y) for integer y: the post-scaled solution of the scaled system solves the original one
            std::vector<double> y(n), Sy(n), Asy(n, 0.0), ASy(n, 0.0);
            for (int i = 0; i < n; ++i) { y[i] = 1 + 2 * i; Sy[i] = y[i]; }
            scale(Sy);
            backend::crs<double> C(As); backend::spmv(1.0, C, y, 0.0, Asy);
            for (int i = 0; i < n; ++i) for (int j = 0; j < n; ++j) if (s.D.st(i, j)) ASy[i] += s.D(i, j) * Sy[j];
            for (int i = 0; i < n; ++i) if (ASy[i] != Asy[i] / sc[i]) { vf::fail("scaled_problem.back_transformed_solution", g_key, vf::KS() << "A (S y) != S^-1 (SAS y) at row " << i << " | " << show(s)); break; }
        }
        vf::space(vf::KS() << "scale_diagonal: all off-diagonal patterns " << n << "x" << n << " with full diagonal from {4, 1/4, 16, 1} (+-), sorted and reversed rows: SAS entries, rhs(), operator(), A(Sy) == S^-1(SAS y)");
    }
}

// ---- shared crs handed to preconditioners ----------------------------------------------------------------------------------------------
static void run_shared() {
    typedef backend::builtin<double> Backend;
    typedef relaxation::as_preconditioner<Backend, relaxation::spai0> RP;
    typedef amg<Backend, coarsening::aggregation, relaxation::damped_jacobi> AMG;
    for (int n = 2; n <= 6; ++n) for (int kind = 0; kind < 3; ++kind) {
        g_key = vf::KS() << "shr|" << n << "|" << kind;
        if (!vf::take([&] { return g_key; })) continue;
        vf::nontrivial(vf::hstr(g_key));
        // tridiagonal / upwind / full-first-row, diagonal 4
        mk::Dense<double> D(n, n);
        for (int i = 0; i < n; ++i) { D.st(i, i) = 1; D(i, i) = 4; if (i > 0) { D.st(i, i - 1) = 1; D(i, i - 1) = -1; } if (i + 1 < n && kind != 1) { D.st(i, i + 1) = 1; D(i, i + 1) = -1; } if (kind == 2 && i > 1) { D.st(0, i) = 1; D(0, i) = -1; } }
        Src<double> s; s.m = s.n = n; s.D = D; s.ptr.push_back(0);
        for (int i = 0; i < n; ++i) { for (int j = 0; j < n; ++j) if (D.st(i, j)) { s.col.push_back(j); s.val.push_back(D(i, j)); } s.ptr.push_back((ptrdiff_t)s.col.size()); }
        std::vector<ptrdiff_t> ptr = s.ptr, col = s.col; std::vector<double> val = s.val;
        auto ptr0 = ptr; auto col0 = col; auto val0 = val;
        std::vector<double> f(n), x1(n), x2(n);
        for (int i = 0; i < n; ++i) f[i] = 1 + i;
        {
            Watch w(ptr.data(), col.data(), val.data());
            auto Z = adapter::zero_copy((size_t)n, ptr.data(), col.data(), val.data());
            {
                RP p_shared(Z), p_tuple(std::tie(s.m, s.ptr, s.col, s.val));
                if (p_shared.system_matrix_ptr().get() != Z.get()) vf::fail("shared_crs.as_preconditioner.copied", g_key, "system matrix is not the shared crs");
                p_shared.apply(f, x1); p_tuple.apply(f, x2);
                if (x1 != x2) vf::fail("shared_crs.as_preconditioner.action", g_key, "differs from the tuple-built preconditioner");
            }
            {
                AMG::params prm; prm.coarse_enough = 2;
                AMG a_shared(Z, prm), a_tuple(std::tie(s.m, s.ptr, s.col, s.val), prm);
                if (a_shared.system_matrix_ptr().get() != Z.get()) vf::fail("shared_crs.amg.copied", g_key, "system matrix is not the shared crs");
                a_shared.apply(f, x1); a_tuple.apply(f, x2);
                if (x1 != x2) vf::fail("shared_crs.amg.action", g_key, "differs from the tuple-built hierarchy");
                if (a_shared.system_matrix_ptr().get() == Z.get()) vf::count("shared_crs_not_copied");
            }
            Z.reset();
            if (g_watched_frees) vf::fail("shared_crs.frees_user_memory", g_key, "operator delete on a user array");
        }
        if (ptr != ptr0 || col != col0 || val != val0) vf::fail("shared_crs.modifies_user_memory", g_key, "user arrays changed");
    }
    vf::space("shared crs (zero_copy) handed to as_preconditioner<spai0> and amg<aggregation,damped_jacobi>: n=2..6 x 3 matrix kinds: not copied, not freed, same action as tuple input");
}

int main(int argc, char **argv) {
    vf::init(argc, argv, "C17");
    vf::sample_str("adapter case: " + show(make_src<double>(3, 3, 0x1ab)) + " handed over as tuple / zero_copy / Eigen / uBlas / builder; expected dense operator " + mk::show(make_src<double>(3, 3, 0x1ab).D));
    if (vf::section("tup")) run_tuple();
    if (vf::section("zc")) run_zero_copy();
    if (vf::section("eig")) run_eigen();
    if (vf::section("ubl")) run_ublas();
    if (vf::section("bld")) run_builder();
    if (vf::section("tup4p")) run_perm4();
    if (vf::section("blk") || vf::section("blku")) run_block();
    if (vf::section("reo")) run_reorder();
    if (vf::section("scl")) run_scale();
    if (vf::section("shr")) run_shared();
    return vf::finish();
}
