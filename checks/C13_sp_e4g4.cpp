// C13 unit "solve": path TU for Eigen::Matrix blocks, b=4, path group 4 (see C13_solve_paths.cpp)
#define C13_B 4
#define C13_EIGEN 1
#define C13_GROUP 4
#include "C13_solve_paths.cpp"
