// C11_body.hpp -- the rank body shared by the model-checking unit (ranks = fibers under the mini-MPI)
// and by the conformance binary that runs the SAME code under real OpenMPI (C11_REAL_MPI).
#ifndef C11_BODY_HPP
#define C11_BODY_HPP
#include <mpi.h>
#include <amgcl/backend/builtin.hpp>
#include <amgcl/adapter/crs_tuple.hpp>
#include <amgcl/mpi/util.hpp>
#include <amgcl/mpi/distributed_matrix.hpp>
#include <amgcl/mpi/inner_product.hpp>
#include <amgcl/value_type/complex.hpp>
#include <cstring>
#include <complex>
#include "vf.hpp"
#include "mk.hpp"
#ifndef C11_REAL_MPI
#include "vsched.hpp"
#endif

using namespace amgcl;
typedef backend::builtin<double> B;
typedef backend::crs<double> Crs;
typedef mpi::distributed_matrix<B> DM;

static inline double ival(int i, int j, int salt) { int v = 1 + (3 * i + 5 * j + salt) % 4; return ((i + 2 * j + salt) & 1) ? -v : v; }

struct Part { std::vector<int> b; int k() const { return (int)b.size() - 1; } };   // b[0]=0 .. b[k]=n
static void compositions(int n, int k, std::vector<Part> &out) {
    std::vector<int> cut(k + 1, 0); cut[k] = n;
    std::function<void(int)> rec = [&](int i) {
        if (i == k) { Part p; p.b = cut; out.push_back(p); return; }
        for (int c = cut[i - 1]; c <= n; ++c) { cut[i] = c; rec(i + 1); }
    };
    if (k == 1) { Part p; p.b = {0, n}; out.push_back(p); return; }
    rec(1);
}
static std::string pshow(const Part &p) { vf::KS k; for (size_t i = 0; i < p.b.size(); ++i) k << (i ? "," : "") << p.b[i]; return k; }

// results written by the ranks, read by the harness after the run
struct Out {
    mk::Dense<double> T, AAt, AtA, S, Cp;      // assembled global results
    mk::Dense<double> K, T2;                    // kept source after move_to_backend(keep_src) and its transpose
    std::vector<std::string> err;               // structural errors seen by ranks
    std::vector<double> y, r;                   // spmv / residual (by global row)
    std::vector<double> y0;                     // product with a first vector, made immediately before the one above on the same object
    std::vector<double> ip, gersh, power;       // per rank scalars
    std::vector<std::complex<double>> ipc;      // complex inner product per rank
    std::vector<long> grows, gcols, gnnz;
    std::vector<std::string> rr;                // remote_rows verdict per rank
    std::vector<std::string> exc;
};

static void assemble(const DM &D, int rbeg, mk::Dense<double> &G, std::vector<std::string> &err, const char *what) {
    const Crs &L = *D.local(); const Crs &R = *D.remote();
    ptrdiff_t shift = D.loc_col_shift();
    for (size_t i = 0; i < L.nrows; ++i) {
        for (auto j = L.ptr[i]; j < L.ptr[i+1]; ++j) {
            long c = L.col[j] + shift;
            if (c < 0 || c >= G.n || rbeg + (int)i >= G.m) { err.push_back(std::string(what) + ": local column/row out of range"); continue; }
            if (G.st(rbeg + i, c)) err.push_back(std::string(what) + ": duplicate entry");
            G.st(rbeg + i, c) = 1; G(rbeg + i, c) = L.val[j];
        }
        for (auto j = R.ptr[i]; j < R.ptr[i+1]; ++j) {
            long c = R.col[j];
            if (c < 0 || c >= G.n) { err.push_back(std::string(what) + ": remote column out of range"); continue; }
            if (c >= shift && c < shift + (long)L.ncols) err.push_back(std::string(what) + ": remote part holds a locally owned column");
            if (G.st(rbeg + i, c)) err.push_back(std::string(what) + ": duplicate entry");
            G.st(rbeg + i, c) = 1; G(rbeg + i, c) = R.val[j];
        }
    }
}

struct Case { int m, n; uint64_t mask; Part rp, cp; mk::Dense<double> G; bool square_diag; int ops = 31; };
// ops bits: 1 transpose+remote_rows, 2 products, 4 scale/sort/backend copy, 8 spectral radius, 16 spmv/residual/inner product

static void rank_body(int rank, const Case &cs, Out &o) {
    try {
        mpi::communicator comm(MPI_COMM_WORLD);
        int rb = cs.rp.b[rank], re = cs.rp.b[rank + 1], cb = cs.cp.b[rank], ce = cs.cp.b[rank + 1];
        // local strip with global column numbers
        mk::Dense<double> strip(re - rb, cs.n);
        for (int i = rb; i < re; ++i) for (int j = 0; j < cs.n; ++j) if (cs.G.st(i, j)) { strip.st(i - rb, j) = 1; strip(i - rb, j) = cs.G(i, j); }
        auto Sm = mk::to_crs<double>(strip);
        auto A = std::make_shared<DM>(comm, *Sm, (ptrdiff_t)(ce - cb));
        o.grows[rank] = A->glob_rows(); o.gcols[rank] = A->glob_cols(); o.gnnz[rank] = A->glob_nonzeros();
        // transpose: rows of A^T are distributed like the columns of A
        std::shared_ptr<DM> At;
        if (cs.ops & 3) { At = mpi::transpose(*A); assemble(*At, cb, o.T, o.err, "transpose"); }
        // products
        if (cs.ops & 2) {
            auto P1 = mpi::product(*A, *At);  assemble(*P1, rb, o.AAt, o.err, "A*At");
            auto P2 = mpi::product(*At, *A);  assemble(*P2, cb, o.AtA, o.err, "At*A");
        }
        // scale + sort_rows on a copy built from the same strip
        if (cs.ops & 4) {
            auto A2 = std::make_shared<DM>(comm, *Sm, (ptrdiff_t)(ce - cb));
            mpi::scale(*A2, 2.0); mpi::sort_rows(*A2);
            assemble(*A2, rb, o.S, o.err, "scale");
            for (auto M : {A2->local().get(), A2->remote().get()})
                for (size_t i = 0; i < M->nrows; ++i) for (auto j = M->ptr[i] + 1; j < M->ptr[i+1]; ++j) if (M->col[j-1] >= M->col[j]) o.err.push_back("sort_rows: row not sorted");
        }
        // copy between backends (other index types)
        if (cs.ops & 4) {
            typedef backend::builtin<double, int, int> B2;
            mpi::distributed_matrix<B2> A3(*A);
            if (A3.glob_rows() != A->glob_rows() || A3.glob_cols() != A->glob_cols() || A3.glob_nonzeros() != A->glob_nonzeros() || A3.loc_rows() != A->loc_rows()) o.err.push_back("backend copy: sizes differ");
            const auto &L3 = *A3.local(); const Crs &L = *A->local();
            if (L3.nnz != L.nnz) o.err.push_back("backend copy: local nnz differs");
            else for (size_t j = 0; j < L.nnz; ++j) if (L3.col[j] != L.col[j] || L3.val[j] != L.val[j]) { o.err.push_back("backend copy: local entries differ"); break; }
            const auto &R3 = *A3.remote(); const Crs &R = *A->remote();
            if (R3.nnz != R.nnz) o.err.push_back("backend copy: remote nnz differs");
            else for (size_t j = 0; j < R.nnz; ++j) if (R3.col[j] != R.col[j] || R3.val[j] != R.val[j]) { o.err.push_back("backend copy: remote entries differ"); break; }
            for (size_t i = 0; i < L.nrows; ++i) for (auto j = L3.ptr[i]; j < L3.ptr[i+1]; ++j) {
                long c = L3.col[j] + A3.loc_col_shift();
                if (o.Cp.st(rb + i, c)) o.err.push_back("backend copy: duplicate");
                o.Cp.st(rb + i, c) = 1; o.Cp(rb + i, c) = L3.val[j];
            }
            for (size_t i = 0; i < R.nrows; ++i) for (auto j = R3.ptr[i]; j < R3.ptr[i+1]; ++j) { o.Cp.st(rb + i, R3.col[j]) = 1; o.Cp(rb + i, R3.col[j]) = R3.val[j]; }
        }
        // remote_rows: rows of At that correspond to the remote columns of A
        if (cs.ops & 1) {
            auto Rr = mpi::remote_rows(A->cpat(), *At);
            std::vector<ptrdiff_t> need(A->remote()->col, A->remote()->col + A->remote()->nnz);
            std::sort(need.begin(), need.end()); need.erase(std::unique(need.begin(), need.end()), need.end());
            std::string v = "ok";
            if (Rr->nrows != need.size()) v = "row count";
            else for (size_t i = 0; i < need.size() && v == "ok"; ++i) {
                // row need[i] of A^T = column need[i] of A
                std::vector<std::pair<long,double>> want, got;
                for (int q = 0; q < cs.m; ++q) if (cs.G.st(q, need[i])) want.push_back({q, cs.G(q, need[i])});
                for (auto j = Rr->ptr[i]; j < Rr->ptr[i+1]; ++j) got.push_back({Rr->col[j], Rr->val[j]});
                std::sort(got.begin(), got.end());
                if (want != got) v = "row content";
            }
            o.rr[rank] = v;
        }
        // spectral radius
        if ((cs.ops & 8) && cs.square_diag && cs.rp.b == cs.cp.b) {
            o.gersh[rank] = backend::spectral_radius<true>(*A, 0);
            o.power[rank] = backend::spectral_radius<true>(*A, 3);
        }
        // spmv / residual / inner product on the backend copy
        if (!(cs.ops & 16)) return;
        A->move_to_backend(B::params(), true);
        int nr = re - rb, nc = ce - cb;
        backend::numa_vector<double> x(nc), y(nr), f(nr), r(nr);
        // two products in a row on one object, the vector overwritten in place in between and nothing collective in between:
        // a ghost-value message of the first product that is still in flight must not see the second vector
        { backend::numa_vector<double> y0(nr);
          for (int j = 0; j < nc; ++j) x[j] = 2 - ((cb + j) % 4);
          backend::spmv(1.0, *A, x, 0.0, y0);
          for (int j = 0; j < nc; ++j) x[j] = 1 + ((cb + j) * 3) % 5;
          for (int i = 0; i < nr; ++i) y[i] = 2 - ((rb + i) % 3);
          backend::spmv(2.0, *A, x, -1.0, y);
          for (int i = 0; i < nr; ++i) o.y0[rb + i] = y0[i]; }
        for (int i = 0; i < nr; ++i) { f[i] = 7 + (rb + i); }
        backend::residual(f, *A, x, r);
        for (int i = 0; i < nr; ++i) { o.y[rb + i] = y[i]; o.r[rb + i] = r[i]; }
        // beta = 0 must ignore previous content
        { backend::numa_vector<double> z(nr); for (int i = 0; i < nr; ++i) z[i] = std::numeric_limits<double>::quiet_NaN(); backend::spmv(1.0, *A, x, 0.0, z);
          for (int i = 0; i < nr; ++i) if (!(z[i] == (o.y[rb + i] + (2 - ((rb + i) % 3))) / 2.0)) { o.err.push_back("spmv beta=0 depends on previous output content"); break; } }
        // the source kept by move_to_backend(keep_src = true) must still describe the same matrix and be usable
        assemble(*A, rb, o.K, o.err, "kept source after move_to_backend");
        { auto At2 = mpi::transpose(*A); assemble(*At2, cb, o.T2, o.err, "transpose of kept source"); }
        if (cs.m == cs.n) {
            // inner product of two vectors distributed like the rows (needs equal lengths)
            backend::numa_vector<double> u(nr), w(nr);
            for (int i = 0; i < nr; ++i) { u[i] = 1 + (rb + i) % 4; w[i] = 3 - (rb + i) % 5; }
            mpi::inner_product ip(comm);
            o.ip[rank] = ip(u, w);
            // complex vectors (Gaussian integers): conjugate-linear in the second argument, like the serial inner product
            backend::numa_vector<std::complex<double>> uc(nr), wc(nr);
            for (int i = 0; i < nr; ++i) { uc[i] = std::complex<double>(1 + (rb + i) % 4, 2 - (rb + i) % 3); wc[i] = std::complex<double>(3 - (rb + i) % 5, 1 + (rb + i) % 2); }
            o.ipc[rank] = ip(uc, wc);
        }
#ifndef C11_REAL_MPI
    } catch (const vs::Deadlock &) { throw; }
#else
    }
#endif
    catch (const std::exception &e) { o.exc[rank] = e.what(); }
}

static Out fresh_out(const Case &cs) {
    int k = cs.rp.k();
    Out o; o.K = mk::Dense<double>(cs.m, cs.n); o.T2 = mk::Dense<double>(cs.n, cs.m); o.T = mk::Dense<double>(cs.n, cs.m); o.AAt = mk::Dense<double>(cs.m, cs.m); o.AtA = mk::Dense<double>(cs.n, cs.n); o.S = mk::Dense<double>(cs.m, cs.n); o.Cp = mk::Dense<double>(cs.m, cs.n);
    o.y.assign(cs.m, 0); o.r.assign(cs.m, 0); o.y0.assign(cs.m, 0); o.ip.assign(k, 0); o.ipc.assign(k, std::complex<double>(0, 0)); o.gersh.assign(k, 0); o.power.assign(k, 0);
    o.grows.assign(k, -1); o.gcols.assign(k, -1); o.gnnz.assign(k, -1); o.rr.assign(k, "not run"); o.exc.assign(k, "");
    return o;
}


// Per-rank digest of everything rank `rank` observed (its own rows of every result, its scalars).
// Identical under the mini-MPI and under a real MPI runtime if the model is faithful.  The power-method
// estimate is left out (reduction order is runtime specific => last-bit differences are legitimate).
static uint64_t rank_digest(int rank, const Case &cs, const Out &o) {
    int rb = cs.rp.b[rank], re = cs.rp.b[rank + 1], cb = cs.cp.b[rank], ce = cs.cp.b[rank + 1];
    uint64_t h = 1469598103934665603ULL;
    auto rows = [&](const mk::Dense<double> &D, int b, int e) {
        for (int i = b; i < e && i < D.m; ++i) for (int j = 0; j < D.n; ++j) { h = vf::hmix(h, (uint64_t)D.st(i, j)); if (D.st(i, j)) { uint64_t bits; std::memcpy(&bits, &D(i, j), 8); h = vf::hmix(h, bits); } }
    };
    rows(o.K, rb, re); rows(o.T2, cb, ce); rows(o.T, cb, ce); rows(o.AAt, rb, re); rows(o.AtA, cb, ce); rows(o.S, rb, re); rows(o.Cp, rb, re);
    for (int i = rb; i < re; ++i) { uint64_t b1, b2, b3; std::memcpy(&b1, &o.y[i], 8); std::memcpy(&b2, &o.r[i], 8); std::memcpy(&b3, &o.y0[i], 8); h = vf::hmix(h, b1); h = vf::hmix(h, b2); h = vf::hmix(h, b3); }
    { uint64_t b; double re = o.ipc[rank].real(), im = o.ipc[rank].imag(); std::memcpy(&b, &re, 8); h = vf::hmix(h, b); std::memcpy(&b, &im, 8); h = vf::hmix(h, b); }
    { uint64_t b; std::memcpy(&b, &o.ip[rank], 8); h = vf::hmix(h, b); std::memcpy(&b, &o.gersh[rank], 8); h = vf::hmix(h, b); }
    h = vf::hmix(h, (uint64_t)o.grows[rank]); h = vf::hmix(h, (uint64_t)o.gcols[rank]); h = vf::hmix(h, (uint64_t)o.gnnz[rank]);
    h = vf::hmix(h, vf::hstr(o.rr[rank])); h = vf::hmix(h, vf::hstr(o.exc[rank])); h = vf::hmix(h, (uint64_t)o.err.empty());
    return h;
}

// the conformance subset: deterministic, the same list in the model run and in the real-MPI run
struct ConfCase { Case cs; std::string key; };
static std::vector<ConfCase> conformance_cases(int k, int stride) {
    std::vector<ConfCase> out;
    long long idx = 0;
    for (int m = 1; m <= 3; ++m) for (int n = 1; n <= 3; ++n) {
        std::vector<Part> rps, cps; compositions(m, k, rps); compositions(n, k, cps);
        for (uint64_t mask = 0; mask < (1ull << (m * n)); ++mask) for (auto &rp : rps) for (auto &cp : cps) {
            if ((idx++ % stride) != 0) continue;
            ConfCase c; c.cs.m = m; c.cs.n = n; c.cs.mask = mask; c.cs.rp = rp; c.cs.cp = cp;
            c.cs.G = mk::from_mask<double>(m, n, mask, [](int i, int j) { return ival(i, j, 0); });
            c.cs.square_diag = m == n; for (int i = 0; i < m && c.cs.square_diag; ++i) c.cs.square_diag = c.cs.G.st(i, i);
            c.key = vf::KS() << "conf|" << m << "x" << n << "|" << mask << "|" << k << "|" << pshow(rp) << "|" << pshow(cp);
            out.push_back(c);
        }
    }
    return out;
}
#endif
