// C19 (round trips) -- write with amgcl, read back with amgcl, compare bitwise; the written file is
// also parsed by a small independent parser and hand-written files are read by amgcl, so that a
// symmetric writer/reader mistake cannot hide.  Row-range reads == slices; symmetric files expand.
// All amgcl calls run in forked ASan+UBSan children (C19_batch.hpp), many cases per fork.
#include "C19_common.hpp"
#include <algorithm>
#include <cerrno>
#include <array>

static bt::Runner *RUN = nullptr;
static std::string P(const char *n = "f") { return RUN->path(n); }

template <class V> struct Src { int m = 0, n = 0; std::vector<ptrdiff_t> ptr, col; std::vector<V> val; };

template <class V> static Src<V> make_src(int m, int n, uint64_t mask, int salt) {
    Src<V> s; s.m = m; s.n = n; s.ptr.push_back(0);
    int k = 0;
    for (int i = 0; i < m; ++i) {
        for (int j = 0; j < n; ++j) if ((mask >> (i * n + j)) & 1) { s.col.push_back(j); s.val.push_back(sval<V>(k++, salt)); }
        s.ptr.push_back((ptrdiff_t)s.col.size());
    }
    return s;
}

// ---- independent parser for files written by mm_write -------------------------------------------------
template <class T> struct Parse;
template <> struct Parse<double>    { static bool get(const char *&p, double &v)    { char *e; v = std::strtod(p, &e); bool ok = e != p; p = e; return ok; } };
template <> struct Parse<float>     { static bool get(const char *&p, float &v)     { char *e; v = std::strtof(p, &e); bool ok = e != p; p = e; return ok; } };
template <> struct Parse<int>       { static bool get(const char *&p, int &v)       { char *e; long long x = std::strtoll(p, &e, 10); v = (int)x; bool ok = e != p && x == (long long)v; p = e; return ok; } };
template <> struct Parse<long long> { static bool get(const char *&p, long long &v) { char *e; errno = 0; v = std::strtoll(p, &e, 10); bool ok = e != p && errno == 0; p = e; return ok; } };
template <> struct Parse<char>      { static bool get(const char *&p, char &v)      { char *e; long long x = std::strtoll(p, &e, 10); v = (char)x; bool ok = e != p && x >= -128 && x <= 127; p = e; return ok; } };
template <class R> struct Parse<std::complex<R>> { static bool get(const char *&p, std::complex<R> &v) { R a, b; if (!Parse<R>::get(p, a) || !Parse<R>::get(p, b)) return false; v = std::complex<R>(a, b); return true; } };

static bool eat_line(const std::string &t, size_t &pos, std::string &line) {
    if (pos >= t.size()) return false;
    size_t e = t.find('\n', pos);
    if (e == std::string::npos) return false;          // every line written by amgcl ends with '\n'
    line = t.substr(pos, e - pos); pos = e + 1; return true;
}
static bool only_space(const char *p) { while (*p == ' ') ++p; return *p == 0; }

// "" if the text is exactly the coordinate file describing s (entries in row order)
template <class V> static std::string ref_check_sparse(const std::string &t, const Src<V> &s) {
    size_t pos = 0; std::string line;
    if (!eat_line(t, pos, line) || line != std::string("%%MatrixMarket matrix coordinate ") + TN<V>::kind() + " general") return "banner is '" + line + "'";
    if (!eat_line(t, pos, line)) return "no size line";
    { const char *p = line.c_str(); long long a, b, c; if (!Parse<long long>::get(p, a) || !Parse<long long>::get(p, b) || !Parse<long long>::get(p, c) || !only_space(p) || a != s.m || b != s.n || c != (long long)s.col.size()) return "size line '" + line + "'"; }
    for (int i = 0; i < s.m; ++i) for (ptrdiff_t j = s.ptr[i]; j < s.ptr[i + 1]; ++j) {
        if (!eat_line(t, pos, line)) return "missing entry line";
        const char *p = line.c_str(); long long a, b; V v;
        if (!Parse<long long>::get(p, a) || !Parse<long long>::get(p, b) || !Parse<V>::get(p, v) || !only_space(p)) return "cannot parse entry line '" + printable(line) + "'";
        if (a != i + 1 || b != s.col[j] + 1 || std::memcmp(&v, &s.val[j], sizeof(V)) != 0) return "entry line '" + printable(line) + "' is not entry (" + std::to_string(i + 1) + "," + std::to_string(s.col[j] + 1) + ") with the stored value";
    }
    if (pos != t.size()) return "trailing text";
    return "";
}
template <class V> static std::string ref_check_dense(const std::string &t, const std::vector<V> &d, int n, int m) {
    size_t pos = 0; std::string line;
    if (!eat_line(t, pos, line) || line != std::string("%%MatrixMarket matrix array ") + TN<V>::kind() + " general") return "banner is '" + line + "'";
    if (!eat_line(t, pos, line)) return "no size line";
    { const char *p = line.c_str(); long long a, b; if (!Parse<long long>::get(p, a) || !Parse<long long>::get(p, b) || !only_space(p) || a != n || b != m) return "size line '" + line + "'"; }
    for (int j = 0; j < m; ++j) for (int i = 0; i < n; ++i) {
        if (!eat_line(t, pos, line)) return "missing data line";
        const char *p = line.c_str(); V v;
        if (!Parse<V>::get(p, v) || !only_space(p)) return "cannot parse data line '" + printable(line) + "' (value index " + std::to_string(i * m + j) + ")";
        if (std::memcmp(&v, &d[(size_t)i * m + j], sizeof(V)) != 0) return "data line '" + printable(line) + "' differs from value (" + std::to_string(i) + "," + std::to_string(j) + ")";
    }
    if (pos != t.size()) return "trailing text";
    return "";
}

// result convention of an item: "" = all fine, otherwise "<subcheck>::<detail>"
#define FAIL(sub, detail) return std::string(sub) + "." + TN<V>::name() + "::" + std::string(vf::KS() << detail)

template <class V> static std::string show_src(const Src<V> &s) {
    vf::KS o; o << s.m << "x" << s.n << " ptr=["; for (auto p : s.ptr) o << p << " "; o << "] col=["; for (auto c : s.col) o << c << " "; o << "]"; return o;
}

// slice comparison
template <class I, class V> static bool is_slice(const Src<V> &s, int b, int e, const std::vector<I> &ptr, const std::vector<I> &col, const std::vector<V> &val) {
    if ((int)ptr.size() != e - b + 1) return false;
    for (int k = 0; k <= e - b; ++k) if ((ptrdiff_t)ptr[k] != s.ptr[b + k] - s.ptr[b]) return false;
    size_t from = (size_t)s.ptr[b], cnt = (size_t)(s.ptr[e] - s.ptr[b]);
    if (col.size() != cnt) return false;
    for (size_t k = 0; k < cnt; ++k) if ((ptrdiff_t)col[k] != s.col[from + k]) return false;
    return bits_eq_range(val, s.val, from, cnt);
}

// ---- sparse MatrixMarket -------------------------------------------------------------------------------
template <class I, class V> static std::string rt_mm_sparse(const Src<V> &s, bool all_ranges, bool minimal = false) {
    amgcl::backend::crs<V, ptrdiff_t, ptrdiff_t> A(s.m, s.n, s.ptr, s.col, s.val);
    ::unlink(P().c_str());
    amgcl::io::mm_write(P(), A);
    std::string text = bt::Runner::slurp(P());
    std::string e = ref_check_sparse(text, s);
    if (!e.empty()) FAIL("roundtrip.mm_sparse.written_file", e << " | matrix " << show_src(s) << " | file \"" << printable(text, 300) << "\"");
    {
        amgcl::io::mm_reader r(P());
        if (!r.is_sparse() || r.is_symmetric() || r.is_complex() != amgcl::is_complex<V>::value || r.is_integer() != std::is_integral<V>::value || (int)r.rows() != s.m || (int)r.cols() != s.n)
            FAIL("roundtrip.mm_sparse.header", "header accessors wrong for " << show_src(s));
        std::vector<I> ptr, col; std::vector<V> val; size_t rows, cols;
        std::tie(rows, cols) = r(ptr, col, val);
        if ((int)rows != s.m || (int)cols != s.n || !is_slice(s, 0, s.m, ptr, col, val)) FAIL("roundtrip.mm_sparse.full_read", "read back differs for " << show_src(s) << " file \"" << printable(text, 300) << "\"");
    }
    for (int b = 0; b <= s.m; ++b) for (int en = b; en <= s.m; ++en) {
        if (!all_ranges && !(b == 0 && en == s.m) && !(b == 1 && en == s.m - 1) && !(b == en)) continue;
        if (minimal && !(b == 1 && en == s.m - 1)) continue;
        amgcl::io::mm_reader r(P());
        std::vector<I> ptr, col; std::vector<V> val; size_t rows, cols;
        std::tie(rows, cols) = r(ptr, col, val, b, en);
        if ((int)rows != en - b || (int)cols != s.n || !is_slice(s, b, en, ptr, col, val)) FAIL("rowrange.mm_sparse", "rows [" << b << "," << en << ") differ from the slice of " << show_src(s));
    }
    if (!minimal) {
        // the same ranges read into ONE set of output vectors reused from call to call (they start out holding junk): their previous
        // content is not an input of the reader
        std::vector<I> ptr(s.m + 5, I(3)), col(7, I(1)); std::vector<V> val(7, V(2));
        for (int b = 0; b <= s.m; ++b) for (int en = b; en <= s.m; ++en) {
            if (!all_ranges && !(b == 0 && en == s.m) && !(b == 1 && en == s.m - 1) && !(b == en)) continue;
            amgcl::io::mm_reader r(P());
            size_t rows, cols; std::tie(rows, cols) = r(ptr, col, val, b, en);
            if ((int)rows != en - b || (int)cols != s.n || !is_slice(s, b, en, ptr, col, val)) FAIL("rowrange.mm_sparse.reused_output", "rows [" << b << "," << en << ") read into reused vectors differ from the slice of " << show_src(s));
        }
    }
    if (s.m >= 1 && !minimal) {   // defaults: (b,-1) and (-1,e)
        { amgcl::io::mm_reader r(P()); std::vector<I> ptr, col; std::vector<V> val; r(ptr, col, val, 1, -1); if (!is_slice(s, 1, s.m, ptr, col, val)) FAIL("rowrange.mm_sparse", "rows [1,default) differ for " << show_src(s)); }
        { amgcl::io::mm_reader r(P()); std::vector<I> ptr, col; std::vector<V> val; r(ptr, col, val, -1, s.m - 1); if (!is_slice(s, 0, s.m - 1, ptr, col, val)) FAIL("rowrange.mm_sparse", "rows [default,m-1) differ for " << show_src(s)); }
    }
    return "";
}

// ---- sparse binary ----------------------------------------------------------------------------------------
template <class SizeT, class I, class V> static std::string rt_bin_sparse(const Src<V> &s, bool all_ranges, bool reversed_rows, bool minimal = false) {
    std::vector<I> ptr(s.ptr.begin(), s.ptr.end()), col(s.col.begin(), s.col.end()); std::vector<V> val = s.val;
    if (reversed_rows) for (int i = 0; i < s.m; ++i) { std::reverse(col.begin() + s.ptr[i], col.begin() + s.ptr[i + 1]); std::reverse(val.begin() + s.ptr[i], val.begin() + s.ptr[i + 1]); }
    ::unlink(P().c_str());
    {
        std::ofstream f(P(), std::ios::binary);
        bool ok = amgcl::io::write(f, (SizeT)s.m) && amgcl::io::write(f, ptr) && amgcl::io::write(f, col) && amgcl::io::write(f, val);
        if (!ok) FAIL("roundtrip.bin_sparse.write", "io::write failed");
    }
    std::string bytes = bt::Runner::slurp(P()), want;
    app(want, (SizeT)s.m); appv(want, ptr); appv(want, col); appv(want, val);
    if (bytes != want) FAIL("roundtrip.bin_sparse.written_file", "file bytes differ from n|ptr|col|val for " << show_src(s));
    if ((long long)amgcl::io::crs_size<SizeT>(P()) != s.m) FAIL("roundtrip.bin_sparse.crs_size", "crs_size wrong");
    {
        SizeT n = 0; std::vector<I> p2, c2; std::vector<V> v2;
        amgcl::io::read_crs(P(), n, p2, c2, v2);
        if ((long long)n != s.m || !is_slice(s, 0, s.m, p2, c2, v2)) FAIL(reversed_rows ? "roundtrip.bin_sparse.unsorted_rows" : "roundtrip.bin_sparse.full_read", "read back differs for " << show_src(s));
    }
    for (int b = 0; b <= s.m; ++b) for (int en = b; en <= s.m; ++en) {
        if (!all_ranges && !(b == 0 && en == s.m) && !(b == 1 && en == s.m - 1) && !(b == en)) continue;
        if (minimal && !(b == 1 && en == s.m - 1)) continue;
        SizeT n = 0; std::vector<I> p2, c2; std::vector<V> v2;
        amgcl::io::read_crs(P(), n, p2, c2, v2, b, en);
        if ((long long)n != s.m || !is_slice(s, b, en, p2, c2, v2)) FAIL("rowrange.bin_sparse", "rows [" << b << "," << en << ") differ from the slice of " << show_src(s));
    }
    if (!minimal) {
        // reused output vectors that start out holding junk
        std::vector<I> p2(s.m + 5, I(3)), c2(7, I(1)); std::vector<V> v2(7, V(2));
        for (int b = 0; b <= s.m; ++b) for (int en = b; en <= s.m; ++en) {
            if (!all_ranges && !(b == 0 && en == s.m) && !(b == 1 && en == s.m - 1) && !(b == en)) continue;
            SizeT n = 0;
            amgcl::io::read_crs(P(), n, p2, c2, v2, b, en);
            if ((long long)n != s.m || !is_slice(s, b, en, p2, c2, v2)) FAIL("rowrange.bin_sparse.reused_output", "rows [" << b << "," << en << ") read into reused vectors differ from the slice of " << show_src(s));
        }
    }
    return "";
}

// ---- dense ---------------------------------------------------------------------------------------------------
template <class V> static std::string rt_dense(const std::vector<V> &d, int n, int m, bool all_ranges) {
    ::unlink(P().c_str());
    amgcl::io::mm_write(P(), d.data(), (size_t)n, (size_t)m);
    std::string text = bt::Runner::slurp(P());
    std::string e = ref_check_dense(text, d, n, m);
    if (!e.empty()) FAIL("roundtrip.mm_dense.written_file", e << " | " << n << "x" << m << " array");
    {
        amgcl::io::mm_reader r(P());
        if (r.is_sparse() || r.is_complex() != amgcl::is_complex<V>::value || r.is_integer() != std::is_integral<V>::value || (int)r.rows() != n || (int)r.cols() != m) FAIL("roundtrip.mm_dense.header", "header accessors wrong");
        std::vector<V> v; size_t rows, cols; std::tie(rows, cols) = r(v);
        if ((int)rows != n || (int)cols != m) FAIL("roundtrip.mm_dense.full_read", "shape " << rows << "x" << cols << " instead of " << n << "x" << m);
        if (!bits_eq(v, d)) { size_t k = 0; while (k < v.size() && k < d.size() && std::memcmp(&v[k], &d[k], sizeof(V)) == 0) ++k; FAIL("roundtrip.mm_dense.full_read", "value " << k << " of " << n << "x" << m << " array differs after the round trip"); }
    }
    std::vector<std::pair<int,int>> rg;
    for (int b = 0; b <= n; ++b) for (int en = b; en <= n; ++en) if (all_ranges || (b == 0 && en == n) || (b == 1 && en == n - 1) || (b == n / 2 && en == n / 2 + 1) || (b == en && (b == 0 || b == n))) rg.push_back({b, en});
    for (auto q : rg) {
        amgcl::io::mm_reader r(P());
        std::vector<V> v; size_t rows, cols; std::tie(rows, cols) = r(v, q.first, q.second);
        if ((int)rows != q.second - q.first || (int)cols != m || !bits_eq_range(v, d, (size_t)q.first * m, (size_t)(q.second - q.first) * m)) FAIL("rowrange.mm_dense", "rows [" << q.first << "," << q.second << ") of " << n << "x" << m << " differ from the slice");
    }
    // binary
    ::unlink(P("g").c_str());
    {
        std::ofstream f(P("g"), std::ios::binary);
        bool ok = amgcl::io::write(f, (size_t)n) && amgcl::io::write(f, (size_t)m) && amgcl::io::write(f, d);
        if (!ok) FAIL("roundtrip.bin_dense.write", "io::write failed");
    }
    { size_t a = 77, b = 77; amgcl::io::dense_size(P("g"), a, b); if ((int)a != n || (int)b != m) FAIL("roundtrip.bin_dense.dense_size", "dense_size wrong"); }
    for (auto q : rg) {
        size_t a = 0, b = 0; std::vector<V> v;
        amgcl::io::read_dense(P("g"), a, b, v, q.first, q.second);
        if ((int)a != n || (int)b != m || !bits_eq_range(v, d, (size_t)q.first * m, (size_t)(q.second - q.first) * m)) FAIL((q.first == 0 && q.second == n) ? "roundtrip.bin_dense.full_read" : "rowrange.bin_dense", "rows [" << q.first << "," << q.second << ") of " << n << "x" << m << " differ");
    }
    { size_t a = 0, b = 0; std::vector<V> v; amgcl::io::read_dense(P("g"), a, b, v); if (!bits_eq(v, d)) FAIL("roundtrip.bin_dense.full_read", "default range read differs"); }
    // the same ranges read into ONE output vector that is reused from call to call (and starts out holding junk): what the vector
    // held before is not an input -- after every call it is exactly the requested slice, the empty slice included
    {
        std::vector<V> vr((size_t)n * m + 3, V(7));
        for (auto q : rg) {
            size_t a = 0, b = 0;
            amgcl::io::read_dense(P("g"), a, b, vr, q.first, q.second);
            if ((int)a != n || (int)b != m || !bits_eq_range(vr, d, (size_t)q.first * m, (size_t)(q.second - q.first) * m))
                FAIL("rowrange.bin_dense.reused_output", "rows [" << q.first << "," << q.second << ") of " << n << "x" << m << " read into a reused vector: " << vr.size() << " values returned, expected " << (size_t)(q.second - q.first) * m << " (or they differ from the slice)");
        }
        std::vector<V> vm((size_t)n * m + 3, V(7));
        for (auto q : rg) {
            amgcl::io::mm_reader r(P());
            size_t rows, cols; std::tie(rows, cols) = r(vm, q.first, q.second);
            if ((int)rows != q.second - q.first || (int)cols != m || !bits_eq_range(vm, d, (size_t)q.first * m, (size_t)(q.second - q.first) * m))
                FAIL("rowrange.mm_dense.reused_output", "rows [" << q.first << "," << q.second << ") of " << n << "x" << m << " read into a reused vector differ from the slice");
        }
    }
    return "";
}

// ---- generic handler -------------------------------------------------------------------------------------------
static void handle(const std::string &prefix, const std::string &key, const bt::Outcome &o, const std::string &input) {
    if (report_san(prefix, key, o, input)) return;
    if (o.kind == bt::Outcome::EXC) { vf::fail(prefix + ".exception", key, "valid input, but: " + o.text + " | " + input); return; }
    if (!o.text.empty()) { size_t c = o.text.find("::"); vf::fail(o.text.substr(0, c), key, o.text.substr(c == std::string::npos ? 0 : c + 2)); }
}

static std::string skey(const char *tag, int m, int n, uint64_t mask) { return vf::KS() << tag << "|" << m << "x" << n << "|" << mask; }

#ifdef RT_SPARSE
static void run_sparse() {
    std::vector<std::array<int,2>> shapes;
    for (int m = 0; m <= 3; ++m) for (int n = 0; n <= 3; ++n) shapes.push_back({m, n});
    shapes.push_back({3, 4}); shapes.push_back({4, 3}); shapes.push_back({0, 4}); shapes.push_back({4, 0}); shapes.push_back({1, 4}); shapes.push_back({4, 1}); shapes.push_back({2, 4}); shapes.push_back({4, 2});
    if (vf::thorough()) { shapes.push_back({4, 4}); shapes.push_back({4, 5}); }
    for (auto sh : shapes) {
        int m = sh[0], n = sh[1];
        uint64_t np = 1ull << (m * n);
        bool small = m * n <= 9, big = m * n > 16;      // 4x5: full read and rows [1,m-1) only
        for (uint64_t g = 0; g < np; g += 64) {
            if (!vf::take_group()) continue;
            Batch b(*RUN);
            for (uint64_t mask = g; mask < std::min(np, g + 64); ++mask) {
                std::string key = skey("rts", m, n, mask);
                int salt = (int)(mask % 7);
                // char values get their own key: the writer treats char as a character
                if (small) {
                    std::string kc = skey("rtsc", m, n, mask);
                    if (vf::take_in_group([&] { return kc; })) {
                        if (mask) vf::nontrivial(vf::hstr(kc));
                        b.add(kc, [=] { return rt_mm_sparse<ptrdiff_t, char>(make_src<char>(m, n, mask, salt), false); },
                            [=](const bt::Outcome &o) { handle("roundtrip.sparse_char", kc, o, vf::KS() << m << "x" << n << " pattern mask " << mask << ", char values"); });
                    }
                }
                if (!vf::take_in_group([&] { return key; })) continue;
                if (mask) vf::nontrivial(vf::hstr(key));
                b.add(key, [=] {
                    std::string r;
                    auto sd = make_src<double>(m, n, mask, salt);
                    if (!(r = rt_mm_sparse<ptrdiff_t, double>(sd, !big, big)).empty()) return r;
                    if (!(r = rt_bin_sparse<size_t, ptrdiff_t, double>(sd, !big, false, big)).empty()) return r;
                    if (!big && !(r = rt_bin_sparse<ptrdiff_t, ptrdiff_t, double>(sd, false, true)).empty()) return r;
                    if (small) {
                        if (!(r = rt_mm_sparse<int, double>(sd, false)).empty()) return r;
                        auto sc = make_src<cd>(m, n, mask, salt);
                        if (!(r = rt_mm_sparse<ptrdiff_t, cd>(sc, true)).empty()) return r;
                        if (!(r = rt_bin_sparse<size_t, ptrdiff_t, cd>(sc, false, false)).empty()) return r;
                        auto sf = make_src<float>(m, n, mask, salt);
                        if (!(r = rt_mm_sparse<int, float>(sf, false)).empty()) return r;
                        if (!(r = rt_bin_sparse<int, int, float>(sf, true, true)).empty()) return r;
                        auto scf = make_src<cf>(m, n, mask, salt);
                        if (!(r = rt_mm_sparse<ptrdiff_t, cf>(scf, false)).empty()) return r;
                        auto si = make_src<int>(m, n, mask, salt);
                        if (!(r = rt_mm_sparse<ptrdiff_t, int>(si, true)).empty()) return r;
                        auto sl = make_src<long long>(m, n, mask, salt);
                        if (!(r = rt_mm_sparse<ptrdiff_t, long long>(sl, false)).empty()) return r;
                    }
                    return r;
                }, [=](const bt::Outcome &o) { handle("roundtrip.sparse", key, o, vf::KS() << m << "x" << n << " pattern mask " << mask); });
            }
        }
        vf::space(vf::KS() << "sparse round trip: all " << np << " patterns " << m << "x" << n << (big ? " x {full read, rows [1,m-1)}" : " x all row ranges") << "; MatrixMarket + binary (double"
                  << (small ? ", complex<double>, float, complex<float>, int, long long, char; index types ptrdiff_t and int" : "") << ")");
    }
}

#endif
#ifdef RT_OTHER
template <class V> static void dense_family(Batch &b, const char *fam, const std::vector<V> &d, int n, int m, bool all_ranges) {
    std::string key = vf::KS() << "rtd|" << fam << "|" << TN<V>::name() << "|" << n << "x" << m;
    if (!vf::take([&] { return key; })) return;
    if (n * m > 0) vf::nontrivial(vf::hstr(key));
    vf::count(std::string("values_round_tripped.") + TN<V>::name(), (long long)d.size());
    b.add(key, [=] { return rt_dense<V>(d, n, m, all_ranges); }, [=](const bt::Outcome &o) { handle(std::string("roundtrip.dense.") + TN<V>::name(), key, o, vf::KS() << fam << " " << n << "x" << m << " " << TN<V>::name()); });
}
template <class V> static void dense_shapes(Batch &b) {
    for (int n = 0; n <= 4; ++n) for (int m = 0; m <= 4; ++m) {
        std::vector<V> d; for (int k = 0; k < n * m; ++k) d.push_back(sval<V>(k, n + 3 * m));
        dense_family<V>(b, "shape", d, n, m, true);
    }
    auto s = specials<V>();
    dense_family<V>(b, "specials", s, (int)s.size(), 1, true);
    if (s.size() % 2 == 0) dense_family<V>(b, "specials2", s, (int)s.size() / 2, 2, true);
}

static void run_dense() {
    Batch b(*RUN);
    dense_shapes<double>(b); dense_shapes<float>(b); dense_shapes<cd>(b); dense_shapes<cf>(b); dense_shapes<int>(b); dense_shapes<long long>(b);
    vf::space("dense round trip: shapes 0..4 x 0..4 and the list of extreme values, all row ranges, MatrixMarket + binary, types double/float/complex<double>/complex<float>/int/long long");
    { auto d = binades_double(); dense_family<double>(b, "binades", d, (int)d.size(), 1, false);
      std::vector<cd> c; for (size_t k = 0; k + 1 < d.size(); k += 2) c.push_back(cd(d[k], d[d.size() - 1 - k])); dense_family<cd>(b, "binades", c, (int)c.size(), 1, false); }
    { auto d = binades_float(); dense_family<float>(b, "binades", d, (int)d.size(), 1, false);
      std::vector<cf> c; for (size_t k = 0; k + 1 < d.size(); k += 2) c.push_back(cf(d[k], d[d.size() - 1 - k])); dense_family<cf>(b, "binades", c, (int)c.size(), 1, false); }
    vf::space("dense round trip: every binade of double (2047 exponents incl. denormals) and float (255) x 5 mantissa patterns x sign, plus every single-bit denormal");
    { std::vector<int> d; for (int s = 0; s < 31; ++s) { d.push_back(1 << s); d.push_back(-(1 << s)); d.push_back((1 << s) - 1); } d.push_back(INT_MIN); d.push_back(INT_MAX); dense_family<int>(b, "powers", d, (int)d.size(), 1, false); }
    { std::vector<long long> d; for (int s = 0; s < 63; ++s) { d.push_back(1LL << s); d.push_back(-(1LL << s)); d.push_back((1LL << s) - 1); } d.push_back(LLONG_MIN); d.push_back(LLONG_MAX); dense_family<long long>(b, "powers", d, (int)d.size(), 1, false); }
    vf::space("dense round trip: +-2^s and 2^s-1 for every s, int and long long");
    // char: every value, one key per value so that the smallest failing value is visible
    for (int c = -128; c <= 127; ++c) {
        std::string key = vf::KS() << "rtdc|char|" << c;
        if (!vf::take([&] { return key; })) continue;
        vf::nontrivial(vf::hstr(key));
        std::vector<char> d(1, (char)c);
        b.add(key, [=] { return rt_dense<char>(d, 1, 1, true); }, [=](const bt::Outcome &o) { handle("roundtrip.dense.char", key, o, vf::KS() << "1x1 char array with value " << c); });
    }
    vf::space("dense round trip: every char value -128..127 as a 1x1 integer array");
}

// ---- symmetric coordinate files (hand-written, the writer never produces them) ---------------------------------
template <class V> static const char *vtext(int k);
template <> const char *vtext<double>(int k) { static const char *t[] = {"2", "-1", "0.5", "1e-300", "-2.5e2", "3.33333333333333314830e-01", "4.94065645841246544177e-324", "-0", "1.79769313486231570815e+308", "7"}; return t[k % 10]; }
template <> const char *vtext<cd>(int k) { static const char *t[] = {"2 1", "-1 0", "0.5 -0.5", "1e-300 1e300", "0 -2.5e2", "3.33333333333333314830e-01 1", "-0 -0", "7 7", "1 2", "3 4"}; return t[k % 10]; }

template <class V> static std::string sym_case(int n, uint64_t mask, int order) {
    // lower-triangular pattern: bit index over (i,j), j <= i
    struct E { int i, j; V v; std::string t; };
    std::vector<E> ents; int k = 0, bitn = 0;
    for (int i = 0; i < n; ++i) for (int j = 0; j <= i; ++j, ++bitn) if ((mask >> bitn) & 1) {
        const char *t = vtext<V>(k++); const char *p = t; V v; Parse<V>::get(p, v); ents.push_back({i, j, v, t});
    }
    std::vector<E> lines = ents;
    if (order == 1) std::reverse(lines.begin(), lines.end());
    if (order == 2) std::stable_sort(lines.begin(), lines.end(), [](const E &a, const E &b) { return a.j < b.j; });   // column-major
    std::string text = std::string("%%MatrixMarket matrix coordinate ") + TN<V>::kind() + " symmetric\n% comment\n%\n" + std::to_string(n) + " " + std::to_string(n) + " " + std::to_string(ents.size()) + "\n";
    for (auto &e : lines) text += std::to_string(e.i + 1) + " " + std::to_string(e.j + 1) + " " + e.t + "\n";
    put_file(P(), text);
    // reference expansion
    Src<V> s; s.m = s.n = n; s.ptr.push_back(0);
    for (int i = 0; i < n; ++i) {
        for (int j = 0; j < n; ++j) for (auto &e : ents) if ((e.i == i && e.j == j) || (e.i == j && e.j == i)) { s.col.push_back(j); s.val.push_back(e.v); break; }
        s.ptr.push_back((ptrdiff_t)s.col.size());
    }
    for (int b = 0; b <= n; ++b) for (int en = b; en <= n; ++en) {
        amgcl::io::mm_reader r(P());
        if (!r.is_symmetric() || !r.is_sparse()) FAIL("symmetric.header", "is_symmetric() false");
        std::vector<ptrdiff_t> ptr, col; std::vector<V> val; size_t rows, cols;
        std::tie(rows, cols) = r(ptr, col, val, b, en);
        if ((int)rows != en - b || (int)cols != n || !is_slice(s, b, en, ptr, col, val))
            FAIL((b == 0 && en == n) ? "symmetric.expansion" : "symmetric.rowrange", "rows [" << b << "," << en << ") of the expanded matrix wrong; file \"" << printable(text, 400) << "\" expected " << show_src(s));
    }
    return "";
}

static void run_sym() {
    for (int n = 0; n <= 4; ++n) {
        int bits = n * (n + 1) / 2;
        for (uint64_t g = 0; g < (1ull << bits); g += 32) {
            if (!vf::take_group()) continue;
            Batch b(*RUN);
            for (uint64_t mask = g; mask < std::min<uint64_t>(1ull << bits, g + 32); ++mask) for (int order = 0; order < 3; ++order) {
                std::string key = vf::KS() << "sym|" << n << "|" << mask << "|" << order;
                if (!vf::take_in_group([&] { return key; })) continue;
                if (mask) vf::nontrivial(vf::hstr(key));
                b.add(key, [=] { std::string r = sym_case<double>(n, mask, order); if (r.empty()) r = sym_case<cd>(n, mask, order); return r; },
                    [=](const bt::Outcome &o) { handle("symmetric", key, o, vf::KS() << "symmetric " << n << "x" << n << " lower-triangle mask " << mask << " line order " << order); });
            }
        }
        vf::space(vf::KS() << "symmetric coordinate files: all " << (1ull << bits) << " lower-triangular patterns " << n << "x" << n << " x 3 line orders x all row ranges, real and complex");
    }
    // symmetric *array* files store the lower triangle column by column: either expanded correctly or rejected
    for (int n = 1; n <= 3; ++n) {
        std::string key = vf::KS() << "sym|array|" << n << "|0";
        if (!vf::take([&] { return key; })) continue;
        Batch b(*RUN);
        b.add(key, [=] {
            std::string text = "%%MatrixMarket matrix array real symmetric\n" + std::to_string(n) + " " + std::to_string(n) + "\n";
            std::vector<double> full((size_t)n * n); int k = 1;
            for (int j = 0; j < n; ++j) for (int i = j; i < n; ++i) { text += std::to_string(k) + "\n"; full[i * n + j] = full[j * n + i] = k; ++k; }
            put_file(P(), text);
            try {
                amgcl::io::mm_reader r(P()); std::vector<double> v; size_t rows, cols; std::tie(rows, cols) = r(v);
                if ((int)rows != n || (int)cols != n || !bits_eq(v, full)) return std::string("symmetric.array_silently_wrong::symmetric array file \"") + printable(text) + "\" read without error but not as the symmetric matrix";
            } catch (const std::exception &) { return std::string("REJECTED"); }
            return std::string();
        }, [=](const bt::Outcome &o) {
            if (o.kind == bt::Outcome::OK && o.text == "REJECTED") { vf::count("symmetric_array_files_rejected_with_exception"); return; }
            handle("symmetric", key, o, "symmetric array file");
        });
    }
    vf::space("symmetric array files n=1..3: must be expanded correctly or rejected");
}

// ---- entry lines in every order; comments / blank-free variants -----------------------------------------------------
static void run_perm() {
    // 3x3 with 6 entries: all 720 orders of the entry lines give the same (sorted) matrix
    const int ei[6] = {0, 0, 1, 2, 2, 2}, ej[6] = {0, 2, 1, 0, 1, 2};
    std::vector<int> p = {0, 1, 2, 3, 4, 5};
    int idx = 0;
    Batch b(*RUN);
    do {
        std::vector<int> q = p; int id = idx++;
        std::string key = vf::KS() << "perm|" << id;
        if (!vf::take([&] { return key; })) continue;
        if (id) vf::nontrivial(vf::hstr(key));
        b.add(key, [=] {
            typedef double V;
            Src<double> s = make_src<double>(3, 3, 0b111010101, 0);
            std::string text = "%%MatrixMarket matrix coordinate real general\n3 3 6\n";
            for (int k : q) { char buf[80]; std::snprintf(buf, sizeof buf, "%d %d %.20e\n", ei[k] + 1, ej[k] + 1, s.val[k]); text += buf; }
            put_file(P(), text);
            amgcl::io::mm_reader r(P()); std::vector<ptrdiff_t> ptr, col; std::vector<double> val; r(ptr, col, val);
            if (!is_slice(s, 0, 3, ptr, col, val)) FAIL("line_order.mm_sparse", "file \"" << printable(text, 400) << "\" not read as the sorted matrix");
            // the same order inside the rows of a binary file
            std::vector<ptrdiff_t> c2; std::vector<double> v2; std::vector<ptrdiff_t> p2 = s.ptr;
            for (int i = 0; i < 3; ++i) for (int k : q) if (ei[k] == i) { c2.push_back(ej[k]); v2.push_back(s.val[k]); }
            std::string bytes; app(bytes, (size_t)3); appv(bytes, p2); appv(bytes, c2); appv(bytes, v2); put_file(P(), bytes);
            size_t n; std::vector<ptrdiff_t> p3, c3; std::vector<double> v3; amgcl::io::read_crs(P(), n, p3, c3, v3);
            if (!is_slice(s, 0, 3, p3, c3, v3)) FAIL("line_order.bin_sparse", "binary file with unsorted rows not read as the sorted matrix");
            return std::string();
        }, [=](const bt::Outcome &o) { handle("line_order", key, o, vf::KS() << "entry order #" << id); });
    } while (std::next_permutation(p.begin(), p.end()));
    vf::space("entry order: all 720 orders of the 6 entry lines of a 3x3 coordinate file (and the induced in-row orders of a binary file)");
}

// ---- ios_saver ------------------------------------------------------------------------------------------------------------
static void run_ios() {
    const std::ios_base::fmtflags fl[] = {std::ios_base::fmtflags(0), std::ios_base::scientific, std::ios_base::fixed, std::ios_base::hex | std::ios_base::showbase, std::ios_base::left | std::ios_base::showpos};
    for (int a = 0; a < 5; ++a) for (int c = 0; c < 5; ++c) for (int pa : {0, 6, 20}) for (int pc : {1, 17}) {
        std::string key = vf::KS() << "ios|" << a << "|" << c << "|" << pa << "|" << pc;
        if (!vf::take([&] { return key; })) continue;
        vf::nontrivial(vf::hstr(key));
        std::ostringstream s; s.flags(fl[a]); s.precision(pa);
        { amgcl::ios_saver sv(s); s.flags(fl[c]); s.precision(pc); s << std::scientific << std::setprecision(20) << 1.5; }
        if (s.flags() != fl[a] || s.precision() != pa) vf::fail("ios_saver.restore", key, "flags/precision not restored");
    }
    vf::space("ios_saver: 5 initial flag sets x 5 changed flag sets x precisions {0,6,20} x {1,17}");
}

#endif
int main(int argc, char **argv) {
    vf::init(argc, argv, "C19");
    bt::Runner runner("/tmp/C19");
    RUN = &runner;
    { auto s = make_src<double>(3, 4, 0xb5d, 2); vf::sample_str("sparse round-trip case: " + show_src(s) + " values from the extreme list, e.g. 4.94e-324, -0.0, 1.7976931348623157e308"); }
#ifdef RT_OTHER
    if (vf::section("ios")) run_ios();
    if (vf::section("rtd") || vf::section("rtdc")) run_dense();
    if (vf::section("perm")) run_perm();
    if (vf::section("sym")) run_sym();
#endif
#ifdef RT_SPARSE
    if (vf::section("rts") || vf::section("rtsc")) run_sparse();
#endif
    vf::count("forks", runner.forks);
    vf::count("child_deaths", runner.crashes);
    return vf::finish();
}
