// C03_fam.hpp -- deterministic matrix families shared by the C03 and C02 harnesses.
// No RNG: every matrix is a function of (family, size, mask, value rule).
#ifndef VERIF_C03_FAM_HPP
#define VERIF_C03_FAM_HPP

#include <vector>
#include <string>
#include <sstream>
#include <cstdint>
#include <cmath>
#include "mk.hpp"

namespace fam {

typedef mk::Dense<double> D;

// ------------------------------------------------------------------------------------------
// pattern families: n x n, full stored diagonal, off-diagonal pattern from a bit mask.
//   sym   : bit k <-> unordered pair number k (i<j, row major); a_ij = a_ji
//   nonsym: bit k <-> ordered off-diagonal position number k (row major, diagonal skipped)
// value rules (all values are small integers => every sum/product below is exact in double):
//   0 "M"     : off-diagonals  -(1 + (i+j)%3)                     (M-matrix, strictly diag. dominant)
//   1 "mixed" : sign of the off-diagonal alternates with (i+j)     (SPD, not an M-matrix)
//   2 "nsval" : nonsymmetric values  -(1 + (2i+j)%3)               (only for nonsym patterns / symmetric patterns with nonsymmetric values)
// diagonal = 1 + sum_j |a_ij|  (row-wise strictly diagonally dominant; symmetric => SPD)
// ------------------------------------------------------------------------------------------
inline int npairs(int n) { return n * (n - 1) / 2; }
inline int noffd(int n) { return n * (n - 1); }

inline double offval(int rule, int i, int j) {
    int lo = i < j ? i : j, hi = i < j ? j : i;
    switch (rule) {
        case 0: return -(1.0 + (lo + hi) % 3);
        case 1: return ((lo + hi) & 1) ? (1.0 + (lo + 2 * hi) % 2) : -(1.0 + (lo + hi) % 3);
        default: return -(1.0 + (2 * i + j) % 3);
    }
}

inline void fix_diag(D &A) {
    for (int i = 0; i < A.m; ++i) {
        double s = 1;
        for (int j = 0; j < A.n; ++j) if (j != i && A.st(i, j)) s += std::fabs(A(i, j));
        A.st(i, i) = 1; A(i, i) = s;
    }
}

inline D sym_pattern(int n, uint64_t mask, int rule) {
    D A(n, n);
    int k = 0;
    for (int i = 0; i < n; ++i) for (int j = i + 1; j < n; ++j, ++k)
        if (mk::bit(mask, k)) { A.st(i, j) = A.st(j, i) = 1; A(i, j) = offval(rule, i, j); A(j, i) = offval(rule, j, i); }
    fix_diag(A);
    return A;
}

inline D nonsym_pattern(int n, uint64_t mask, int rule) {
    D A(n, n);
    int k = 0;
    for (int i = 0; i < n; ++i) for (int j = 0; j < n; ++j) {
        if (i == j) continue;
        if (mk::bit(mask, k)) { A.st(i, j) = 1; A(i, j) = offval(rule, i, j); }
        ++k;
    }
    fix_diag(A);
    return A;
}

// ------------------------------------------------------------------------------------------
// grid family: nx x ny 5-point (ny == 1: 3-point) diffusion operator, Dirichlet boundary,
// cell coefficient k(x) in {1, contrast} chosen per x-stripe by bit x of `stripes`,
// face coefficient = (k_a + k_b)/2 (integers for odd contrast), anisotropy: y-faces scaled by ay.
// Result: symmetric irreducibly diagonally dominant M-matrix (SPD).  `shift` adds to the diagonal.
// ------------------------------------------------------------------------------------------
inline D grid(int nx, int ny, uint64_t stripes, double contrast, double ay = 1.0, double shift = 0.0) {
    int n = nx * ny;
    D A(n, n);
    auto kc = [&](int x) { return mk::bit(stripes, x) ? contrast : 1.0; };
    for (int y = 0; y < ny; ++y) for (int x = 0; x < nx; ++x) {
        int i = y * nx + x;
        double d = shift;
        // x faces
        for (int dx = -1; dx <= 1; dx += 2) {
            int xx = x + dx;
            double kf = (xx < 0 || xx >= nx) ? kc(x) : (kc(x) + kc(xx)) / 2;
            d += kf;
            if (xx >= 0 && xx < nx) { int j = y * nx + xx; A.st(i, j) = 1; A(i, j) = -kf; }
        }
        if (ny > 1) for (int dy = -1; dy <= 1; dy += 2) {
            int yy = y + dy;
            double kf = ay * kc(x);
            d += kf;
            if (yy >= 0 && yy < ny) { int j = yy * nx + x; A.st(i, j) = 1; A(i, j) = -kf; }
        }
        A.st(i, i) = 1; A(i, i) = d;
    }
    return A;
}

// upwind convection-diffusion on a 1-D / 2-D grid (nonsymmetric M-matrix, integer values)
inline D convdiff(int nx, int ny, int peclet) {
    int n = nx * ny;
    D A(n, n);
    for (int y = 0; y < ny; ++y) for (int x = 0; x < nx; ++x) {
        int i = y * nx + x;
        double d = 0;
        auto put = [&](int xx, int yy, double v) {
            d += v;
            if (xx >= 0 && xx < nx && yy >= 0 && yy < ny) { int j = yy * nx + xx; A.st(i, j) = 1; A(i, j) = -v; }
        };
        put(x - 1, y, 1.0 + peclet);   // upwind: flow in +x
        put(x + 1, y, 1.0);
        if (ny > 1) { put(x, y - 1, 1.0); put(x, y + 1, 1.0); }
        A.st(i, i) = 1; A(i, i) = d;
    }
    return A;
}

// ------------------------------------------------------------------------------------------
// replacement alphabet for rebuild(): same shape as M0
//   0: M0      1: 2*M0     2: M0 + diag(1 + i%3)
//   3: same pattern, new values (off-diagonals scaled by 1 + (i+j)%2 (symmetric in i,j), diagonal re-derived)
//   4: sub-pattern (symmetric removal of the off-diagonal pairs with (7*lo+3*hi)%5 == 0; if that removes nothing, the last stored pair)
//   5: super-pattern (adds the pairs (i,i+2) with value -1, diagonal re-derived)
// ------------------------------------------------------------------------------------------
inline D alphabet(const D &M0, int which) {
    D A = M0;
    int n = M0.m;
    switch (which) {
        case 0: break;
        case 1: for (auto &v : A.a) v *= 2; break;
        case 2: for (int i = 0; i < n; ++i) A(i, i) += 1 + i % 3; break;
        case 3:
            for (int i = 0; i < n; ++i) for (int j = 0; j < n; ++j) if (i != j && A.st(i, j)) A(i, j) *= 1 + (i + j) % 2;
            for (int i = 0; i < n; ++i) { double s = 0; for (int j = 0; j < n; ++j) if (j != i && A.st(i, j)) s += std::fabs(A(i, j)) - std::fabs(M0(i, j)); A(i, i) += s; }
            break;
        case 4: {
            int removed = 0, li = -1, lj = -1;
            for (int i = 0; i < n; ++i) for (int j = i + 1; j < n; ++j) {
                if (!(A.st(i, j) || A.st(j, i))) continue;
                li = i; lj = j;
                if ((7 * i + 3 * j) % 5 == 0) { A.st(i, j) = A.st(j, i) = 0; A(i, j) = A(j, i) = 0; ++removed; }
            }
            if (!removed && li >= 0) { A.st(li, lj) = A.st(lj, li) = 0; A(li, lj) = A(lj, li) = 0; }
            break; }
        case 5:
            for (int i = 0; i + 2 < n; ++i) {
                int j = i + 2;
                if (!A.st(i, j)) { A.st(i, j) = 1; A(i, j) = -1; A(i, i) += 1; }
                if (!A.st(j, i)) { A.st(j, i) = 1; A(j, i) = -1; A(j, j) += 1; }
            }
            break;
    }
    return A;
}

inline bool symmetric(const D &A) {
    for (int i = 0; i < A.m; ++i) for (int j = 0; j < A.n; ++j)
        if (A.st(i, j) != A.st(j, i) || A(i, j) != A(j, i)) return false;
    return true;
}
inline bool every_row_has_negative_offdiag(const D &A) {
    for (int i = 0; i < A.m; ++i) { bool ok = false; for (int j = 0; j < A.n; ++j) if (j != i && A.st(i, j) && A(i, j) < 0) ok = true; if (!ok) return false; }
    return true;
}
inline bool connected(const D &A) {
    int n = A.m; if (n == 0) return true;
    std::vector<char> seen(n, 0); std::vector<int> st{0}; seen[0] = 1; int c = 1;
    while (!st.empty()) { int i = st.back(); st.pop_back(); for (int j = 0; j < n; ++j) if (!seen[j] && (A.st(i, j) || A.st(j, i)) && j != i) { seen[j] = 1; ++c; st.push_back(j); } }
    return c == n;
}

} // namespace fam
#endif
