// deterministic structured inputs for the thread-count enumeration (no RNG)
#ifndef C09_INPUTS_HPP
#define C09_INPUTS_HPP
#include <vector>
#include <string>
#include <map>
#include <cstddef>
namespace c09 {
struct Sys { std::string name; size_t n; std::vector<ptrdiff_t> ptr, col; std::vector<double> val; bool spd; };

inline Sys from_rows(const std::string &name, const std::vector< std::map<ptrdiff_t,double> > &rows, bool spd) {
    Sys s; s.name = name; s.n = rows.size(); s.spd = spd; s.ptr.push_back(0);
    for (auto &r : rows) { for (auto &kv : r) { s.col.push_back(kv.first); s.val.push_back(kv.second); } s.ptr.push_back((ptrdiff_t)s.col.size()); }
    return s;
}
// 5-point diffusion with coefficient stripes k(i,j) in {1,10}; Dirichlet boundary kept in the diagonal
inline Sys diffusion2d(int nx, int ny, double contrast) {
    std::vector< std::map<ptrdiff_t,double> > R(nx * ny);
    auto k = [&](int i, int j) { return ((i / 2) % 2) ? contrast : 1.0; };
    for (int j = 0; j < ny; ++j) for (int i = 0; i < nx; ++i) {
        int c = j * nx + i; double d = 0;
        int di[4] = {-1, 1, 0, 0}, dj[4] = {0, 0, -1, 1};
        for (int q = 0; q < 4; ++q) {
            int ii = i + di[q], jj = j + dj[q];
            double w = (ii < 0 || ii >= nx || jj < 0 || jj >= ny) ? k(i, j) : 2.0 / (1.0 / k(i, j) + 1.0 / k(ii, jj));
            d += w;
            if (!(ii < 0 || ii >= nx || jj < 0 || jj >= ny)) R[c][jj * nx + ii] = -w;
        }
        R[c][c] = d;
    }
    return from_rows("diffusion2d_" + std::to_string(nx) + "x" + std::to_string(ny) + "_c" + std::to_string((int)contrast), R, true);
}
// upwind convection-diffusion (structurally symmetric, numerically non-symmetric) + a structurally non-symmetric variant
inline Sys convdiff2d(int nx, int ny, double pe, bool drop) {
    std::vector< std::map<ptrdiff_t,double> > R(nx * ny);
    for (int j = 0; j < ny; ++j) for (int i = 0; i < nx; ++i) {
        int c = j * nx + i;
        R[c][c] = 4 + pe;
        if (i > 0) R[c][c - 1] = -1 - pe;
        if (i + 1 < nx && !(drop && (i + j) % 3 == 0)) R[c][c + 1] = -1;
        if (j > 0) R[c][c - nx] = -1;
        if (j + 1 < ny && !(drop && (i + 2 * j) % 4 == 1)) R[c][c + nx] = -1;
    }
    return from_rows(std::string(drop ? "convdiff2d_nonsymstruct_" : "convdiff2d_") + std::to_string(nx) + "x" + std::to_string(ny), R, false);
}
inline Sys poisson3d(int nx, int ny, int nz) {
    std::vector< std::map<ptrdiff_t,double> > R(nx * ny * nz);
    for (int k = 0; k < nz; ++k) for (int j = 0; j < ny; ++j) for (int i = 0; i < nx; ++i) {
        int c = (k * ny + j) * nx + i;
        R[c][c] = 6;
        if (i > 0) R[c][c - 1] = -1; if (i + 1 < nx) R[c][c + 1] = -1;
        if (j > 0) R[c][c - nx] = -1; if (j + 1 < ny) R[c][c + nx] = -1;
        if (k > 0) R[c][c - nx * ny] = -1; if (k + 1 < nz) R[c][c + nx * ny] = -1;
    }
    return from_rows("poisson3d_" + std::to_string(nx) + "x" + std::to_string(ny) + "x" + std::to_string(nz), R, true);
}
// very uneven row lengths: dense first row/column + tridiagonal
inline Sys arrow(int n) {
    std::vector< std::map<ptrdiff_t,double> > R(n);
    for (int i = 0; i < n; ++i) {
        R[i][i] = 4.0 + n * (i == 0);
        if (i > 0) { R[i][i - 1] = -1; R[i][0] = -1 + (i == 1 ? -1 : 0); R[0][i] = -1 + (i == 1 ? -1 : 0); }
        if (i + 1 < n) R[i][i + 1] = -1 + ((i == 0) ? -1 : 0);
    }
    R[0][1] = -2; R[1][0] = -2;
    return from_rows("arrow_" + std::to_string(n), R, true);
}
// 1D Poisson (x) 2x2 coupling block: block structure for block_size 2
inline Sys block1d(int m) {
    std::vector< std::map<ptrdiff_t,double> > R(2 * m);
    for (int i = 0; i < m; ++i) for (int a = 0; a < 2; ++a) {
        int r = 2 * i + a;
        R[r][r] = 4; R[r][2 * i + (1 - a)] = -0.5;
        if (i > 0) { R[r][2 * (i - 1) + a] = -1; R[r][2 * (i - 1) + (1 - a)] = -0.25; }
        if (i + 1 < m) { R[r][2 * (i + 1) + a] = -1; R[r][2 * (i + 1) + (1 - a)] = -0.25; }
    }
    return from_rows("block1d_" + std::to_string(m) + "x2", R, true);
}
// 1-D Poisson with Dirichlet rows kept as single diagonal entries (value 2) and one empty row pattern neighbour
inline Sys dirichlet1d(int n) {
    std::vector< std::map<ptrdiff_t,double> > R(n);
    for (int i = 0; i < n; ++i) {
        if (i % 7 == 0) { R[i][i] = 2; continue; }
        R[i][i] = 2; if (i > 0) R[i][i - 1] = -1; if (i + 1 < n) R[i][i + 1] = -1;
    }
    return from_rows("dirichlet1d_" + std::to_string(n), R, false);
}
inline std::vector<Sys> systems() {
    return { diffusion2d(7, 7, 10), convdiff2d(6, 6, 2.0, false), convdiff2d(6, 7, 1.0, true), poisson3d(4, 4, 3), arrow(40), block1d(22), dirichlet1d(44) };
}
}
#endif
