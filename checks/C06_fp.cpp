// C06 unit "fp" -- the relaxations in floating point (double, std::complex<double>, 2x2 blocks):
// sweeps against the dense definition evaluated exactly (rationals) on the real-equivalent form, with
// first-order rounding bounds computed from measured quantities (|T^-1|, |A|, |x| ...).
//
// Real-equivalent form: a value of block size bs (1 real, 2 complex a+bi -> [[a,-b],[b,a]], 2 for
// static_matrix<double,2,2>) is a bs x bs real block, so complex and block smoothers are block smoothers
// of a real N x N matrix, N = n * bs.
#include "C06_common.hpp"
#include <complex>
#include <amgcl/value_type/complex.hpp>
#include <amgcl/value_type/static_matrix.hpp>
#include <amgcl/relaxation/damped_jacobi.hpp>
#include <amgcl/relaxation/gauss_seidel.hpp>
#include <amgcl/relaxation/spai0.hpp>
#include <amgcl/relaxation/spai1.hpp>
#include <amgcl/relaxation/chebyshev.hpp>
#include <amgcl/relaxation/ilu0.hpp>
#include <amgcl/relaxation/iluk.hpp>
#include <amgcl/relaxation/ilup.hpp>
#include <amgcl/relaxation/ilut.hpp>

using namespace c06;
using namespace amgcl;
typedef std::complex<double> Cx;
typedef static_matrix<double, 2, 2> B2;
typedef static_matrix<double, 2, 1> R2;

template <class V> struct VT;
template <> struct VT<double> {
    static const int bs = 1; typedef double rhs; static const char *name() { return "double"; }
    static void embed(const double &v, Q *o) { o[0] = Q(v); }
    static rhs mk(const Q *v) { return dq(v[0]); }
    static void rd(const rhs &r, Q *o) { o[0] = Q(r); }
    static double off(int i, int j, int v) { return v; }
    static double dia(int i, int sabs, int noff, int rule) { return sabs + 1 + (rule == 2 ? (i & 1) : 0); }
};
template <> struct VT<Cx> {
    static const int bs = 2; typedef Cx rhs; static const char *name() { return "complex"; }
    static void embed(const Cx &v, Q *o) { o[0] = Q(v.real()); o[1] = Q(-v.imag()); o[2] = Q(v.imag()); o[3] = Q(v.real()); }
    static rhs mk(const Q *v) { return Cx(dq(v[0]), dq(v[1])); }
    static void rd(const rhs &r, Q *o) { o[0] = Q(r.real()); o[1] = Q(r.imag()); }
    static Cx off(int i, int j, int v) { return Cx(v, (i + 2 * j) % 3 - 1); }
    static Cx dia(int i, int sabs, int noff, int rule) { return Cx(sabs + noff + 1, (i & 1) ? -2 : 1); }       // non-real, strictly dominant
};
template <> struct VT<B2> {
    static const int bs = 2; typedef R2 rhs; static const char *name() { return "block2"; }
    static void embed(const B2 &v, Q *o) { for (int k = 0; k < 4; ++k) o[k] = Q(v(k)); }
    static rhs mk(const Q *v) { R2 r; r(0) = dq(v[0]); r(1) = dq(v[1]); return r; }
    static void rd(const rhs &r, Q *o) { o[0] = Q(r(0)); o[1] = Q(r(1)); }
    static B2 off(int i, int j, int v) { B2 b; b(0, 0) = v; b(0, 1) = (i + j) % 2; b(1, 0) = -((i + 2 * j) % 2); b(1, 1) = v + (i % 2); return b; }
    static B2 dia(int i, int sabs, int noff, int rule) { B2 b; double d = sabs + 2 * noff + 2; b(0, 0) = d; b(0, 1) = 1; b(1, 0) = -1; b(1, 1) = d + (i & 1); return b; }
};

template <class V> struct Case {
    typedef backend::builtin<V> Bk;
    typedef typename Bk::matrix Mx;
    typedef typename VT<V>::rhs rhs;
    static const int bs = VT<V>::bs;
    std::string key; int n, N, rule; IMat A;
    std::shared_ptr<Mx> Ac; QM Aq, Aabs;
    std::vector<std::pair<QV, QV>> tests;
    Case(const std::string &key, int n, int rule, const IMat &A) : key(key), n(n), N(n * bs), rule(rule), A(A) {}
    std::string at() const { return vf::KS() << "value_type=" << VT<V>::name() << " rule=" << rule << " A(real-equivalent)=" << show(Aq); }
};

static long double K(int N) { return 8.0L * (N + 4) * U; }      // gamma for one dot-product / substitution row with < 2N+8 terms, with a factor 4 for complex/block kernels and second-order terms

template <class V> static void build(Case<V> &c) {
    typedef typename Case<V>::Mx Mx;
    const int n = c.n, bs = Case<V>::bs;
    c.Ac = std::make_shared<Mx>();
    c.Ac->set_size(n, n, true);
    for (int i = 0; i < n; ++i) { int w = 0; for (int j = 0; j < n; ++j) w += c.A.st(i, j); c.Ac->ptr[i + 1] = w; }
    c.Ac->set_nonzeros(c.Ac->scan_row_sizes());
    for (int i = 0; i < n; ++i) {
        int sabs = 0, noff = 0; for (int j = 0; j < n; ++j) if (j != i && c.A.st(i, j)) { sabs += std::abs(c.A(i, j)); ++noff; }
        auto h = c.Ac->ptr[i];
        for (int j = 0; j < n; ++j) if (c.A.st(i, j)) { c.Ac->col[h] = j; c.Ac->val[h] = (i == j) ? VT<V>::dia(i, sabs, noff, c.rule) : VT<V>::off(i, j, c.A(i, j)); ++h; }
    }
    c.Aq = QM(c.N, c.N);
    for (int i = 0; i < n; ++i) for (auto j = c.Ac->ptr[i]; j < c.Ac->ptr[i + 1]; ++j) {
        Q b[4]; VT<V>::embed(c.Ac->val[j], b);
        for (int k = 0; k < bs; ++k) for (int l = 0; l < bs; ++l) c.Aq(i * bs + k, (int)c.Ac->col[j] * bs + l) = b[k * bs + l];
    }
    c.Aabs = absm(c.Aq);
    const int N = c.N;
    QV z(N, Q(0));
    c.tests.push_back({z, z});
    for (int j = 0; j < N; ++j) { QV e = z; e[j] = 1; c.tests.push_back({e, z}); c.tests.push_back({z, e}); }
    QV g(N), h(N), xs(N);
    for (int i = 0; i < N; ++i) { g[i] = (i & 1) ? -(i + 2) : (i + 1); h[i] = Q(3 - 2 * i, 4); xs[i] = (i & 1) ? 2 : -(i + 1); }
    c.tests.push_back({g, h});
    c.tests.push_back({c.Aq * xs, xs});
}

template <class V, class R> static QV run_sweep(const Case<V> &c, const R &r, const QV &f, const QV &x, int mode) {
    typedef typename Case<V>::rhs rhs; const int bs = Case<V>::bs;
    backend::numa_vector<rhs> F(c.n), X(c.n), T(c.n);
    for (int i = 0; i < c.n; ++i) { F[i] = VT<V>::mk(&f[i * bs]); X[i] = VT<V>::mk(&x[i * bs]); Q s[2] = {Q(7), Q(-3)}; T[i] = VT<V>::mk(s); }
    if (mode == 0) r.apply_pre(*c.Ac, F, X, T); else if (mode == 1) r.apply_post(*c.Ac, F, X, T); else r.apply(*c.Ac, F, X);
    QV out(c.N); for (int i = 0; i < c.n; ++i) VT<V>::rd(X[i], &out[i * bs]);
    return out;
}

// Sweep against x + W (f - A x).  Wabs: matrix with  |computed - exact|  <=  K u ( Wabs (|f| + |A||x|) + |x| + |x'| )  to first order:
// explicit W:  Wabs = |W|;   triangular W = T^-1:  Wabs = |T^-1| |T| |T^-1|  (Higham, Accuracy and Stability, Thm 8.5).
template <class V, class R> static bool check_sweeps(const Case<V> &c, const std::string &sub, const std::string &variant, const R &r,
        const QM &Wpre, const QM &WabsPre, const QM &Wpost, const QM &WabsPost, bool full, long double kfac = 1) {
    const size_t nt = c.tests.size();
    for (int mode = 0; mode < 2; ++mode) {
        const QM &W = mode ? Wpost : Wpre; const QM &Wa = mode ? WabsPost : WabsPre;
        for (size_t t = 0; t < nt; ++t) {
            bool unit_f = (t >= 1 && t + 2 < nt && (t & 1)), generic = (t + 2 == nt), last = (t + 1 == nt);
            if (!full && !(mode == 0 ? (unit_f || generic || last) : generic)) continue;
            auto &fx = c.tests[t];
            QV got = run_sweep(c, r, fx.first, fx.second, mode);
            QV want = fx.second + W * (fx.first - c.Aq * fx.second);
            QV mag = Wa * (absv(fx.first) + c.Aabs * absv(fx.second)) + absv(fx.second) + absv(want);
            for (int i = 0; i < c.N; ++i) {
                long double err = fabsl(ldq(got[i] - want[i])), tol = kfac * K(c.N) * ldq(mag[i]);
                if (!(err <= tol)) {
                    std::string what = last ? ".fixed_point" : (mode ? ".post" : ".pre");
                    vf::fail(sub + what + "." + VT<V>::name(), c.key, vf::KS() << variant << " f=" << show(fx.first) << " x=" << show(fx.second) << " component " << i << ": sweep gives " << dq(got[i])
                        << " definition gives " << dq(want[i]) << " (|diff| " << (double)err << " > bound " << (double)tol << ") " << c.at());
                    return false;
                }
            }
        }
    }
    return true;
}

// block lower / upper triangular part including the diagonal blocks
static QM tri_part(const QM &A, int bs, bool upper) {
    QM T(A.n, A.n);
    for (int i = 0; i < A.n; ++i) for (int j = 0; j < A.n; ++j) { int I = i / bs, J = j / bs; if (I == J || (upper ? J > I : J < I)) T(i, j) = A(i, j); }
    return T;
}
static QM tri_abs(const QM &T) { QM Ti; inverse(T, Ti); QM a = absm(Ti); return a * absm(T) * a; }

// minimiser of || E - M R ||_F over M in span(G_k) (R: bs x N rows of A, E: the corresponding rows of I)
template <class V> static QM ls_block(const Case<V> &c, int i) {
    const int bs = Case<V>::bs, N = c.N;
    std::vector<QM> G;
    if (std::is_same<V, Cx>::value) { QM I2 = QM::eye(2), J2(2, 2); J2(0, 1) = -1; J2(1, 0) = 1; G = {I2, J2}; }
    else for (int k = 0; k < bs * bs; ++k) { QM g(bs, bs); g.a[k] = 1; G.push_back(g); }
    QM R(bs, N), E(bs, N);
    for (int k = 0; k < bs; ++k) { for (int j = 0; j < N; ++j) R(k, j) = c.Aq(i * bs + k, j); E(k, i * bs + k) = 1; }
    int p = (int)G.size();
    std::vector<QM> GR; for (auto &g : G) GR.push_back(g * R);
    auto dot = [](const QM &a, const QM &b) { Q s = 0; for (size_t t = 0; t < a.a.size(); ++t) s += a.a[t] * b.a[t]; return s; };
    QM Nm(p, p); QV rhs(p);
    for (int k = 0; k < p; ++k) { rhs[k] = dot(GR[k], E); for (int l = 0; l < p; ++l) Nm(k, l) = dot(GR[k], GR[l]); }
    QM Ni; inverse(Nm, Ni);
    QV th = Ni * rhs;
    QM M(bs, bs); for (int k = 0; k < p; ++k) M = M + scaled(G[k], th[k]);
    return M;
}

template <class V> static QM embed_val(const V &v) { const int bs = VT<V>::bs; Q b[4]; VT<V>::embed(v, b); QM M(bs, bs); for (int k = 0; k < bs * bs; ++k) M.a[k] = b[k]; return M; }
static void put(QM &W, int I, int J, const QM &b) { for (int k = 0; k < b.m; ++k) for (int l = 0; l < b.n; ++l) W(I * b.m + k, J * b.n + l) = b(k, l); }

template <class V> static void check_simple(const Case<V> &c) {
    typedef typename Case<V>::Bk Bk; const int n = c.n, bs = Case<V>::bs, N = c.N;
    // Jacobi
    {
        QM Dinv(N, N);
        for (int i = 0; i < n; ++i) { QM d(bs, bs); for (int k = 0; k < bs; ++k) for (int l = 0; l < bs; ++l) d(k, l) = c.Aq(i * bs + k, i * bs + l); QM di; inverse(d, di); put(Dinv, i, i, di); }
        for (double w : {0.72, 1.0}) {
            typename relaxation::damped_jacobi<Bk>::params p; p.damping = w;
            relaxation::damped_jacobi<Bk> r(*c.Ac, p, typename Bk::params());
            QM W = scaled(Dinv, Q(w));
            check_sweeps(c, "jacobi", vf::KS() << "damping=" << w, r, W, absm(W), W, absm(W), true);
        }
    }
    // Gauss-Seidel, serial and level-scheduled
    {
        QM Tf = tri_part(c.Aq, bs, false), Tb = tri_part(c.Aq, bs, true), Wf, Wb;
        inverse(Tf, Wf); inverse(Tb, Wb);
        QM Af = tri_abs(Tf), Ab = tri_abs(Tb);
        for (int nt : {1, 4, 5, 8}) with_threads(nt, [&] {
            relaxation::gauss_seidel<Bk> r(*c.Ac, typename relaxation::gauss_seidel<Bk>::params(), typename Bk::params());
            check_sweeps(c, nt == 1 ? "gauss_seidel.serial" : "gauss_seidel.parallel", vf::KS() << "threads=" << nt, r, Wf, Af, Wb, Ab, nt == 1 || nt == 5);
            if (nt > 1) { if (vs::trace().teams > 0) vf::count("gs_parallel_path_runs"); else vf::fail("gauss_seidel.parallel.path_not_taken", c.key, "no team was created"); }
            return 0;
        });
    }
    // SPAI-0: block-diagonal M minimising ||I - M A||_F
    {
        relaxation::spai0<Bk> r(*c.Ac, typename relaxation::spai0<Bk>::params(), typename Bk::params());
        QM W(N, N); bool ok = true;
        for (int i = 0; i < n && ok; ++i) {
            QM ref = ls_block(c, i), got = embed_val<V>((*r.M)[i]);
            long double mx = 0; for (auto &q : ref.a) mx = std::max(mx, fabsl(ldq(q)));
            for (size_t t = 0; t < ref.a.size(); ++t) if (fabsl(ldq(got.a[t] - ref.a[t])) > K(N) * mx) {
                vf::fail(std::string("spai0.least_squares.") + VT<V>::name(), c.key, vf::KS() << "M_" << i << " = " << show(got) << " but the least-squares minimiser of ||I - M A||_F is " << show(ref) << " " << c.at());
                ok = false; break; }
        }
        for (int i = 0; i < n; ++i) put(W, i, i, embed_val<V>((*r.M)[i]));
        if (ok) vf::count(std::string("spai0_minimiser_ok_") + VT<V>::name());
        check_sweeps(c, "spai0.sweep_uses_M", "", r, W, absm(W), W, absm(W), true);    // the sweep itself, with the M the object holds
    }
}

// SPAI-1 (scalar and complex): pattern of A, every row a least-squares minimiser
template <class V> static void check_spai1(const Case<V> &c) {
    typedef typename Case<V>::Bk Bk; const int n = c.n, bs = Case<V>::bs, N = c.N;
    relaxation::spai1<Bk> r(*c.Ac, typename relaxation::spai1<Bk>::params(), typename Bk::params());
    auto &M = *r.M;
    std::string sfx = std::string(".") + VT<V>::name();
    if (M.nrows != (size_t)n || M.nnz != c.Ac->nnz) { vf::fail("spai1.pattern" + sfx, c.key, c.at()); return; }
    for (int i = 0; i <= n; ++i) if (M.ptr[i] != c.Ac->ptr[i]) { vf::fail("spai1.pattern" + sfx, c.key, c.at()); return; }
    for (size_t j = 0; j < M.nnz; ++j) if (M.col[j] != c.Ac->col[j]) { vf::fail("spai1.pattern" + sfx, c.key, c.at()); return; }
    QM W(N, N);
    for (int i = 0; i < n; ++i) for (auto j = M.ptr[i]; j < M.ptr[i + 1]; ++j) put(W, i, (int)M.col[j], embed_val<V>(M.val[j]));
    std::vector<QM> G;
    if (std::is_same<V, Cx>::value) { QM I2 = QM::eye(2), J2(2, 2); J2(0, 1) = -1; J2(1, 0) = 1; G = {I2, J2}; } else { QM g(1, 1); g(0, 0) = 1; G = {g}; }
    QM Res = QM::eye(N) - W * c.Aq;
    for (int i = 0; i < n; ++i) {
        // gradient of ||E_i - M_i A||_F^2 in every admissible direction (position c in the row pattern, basis G_k) must vanish.
        // QR least squares is backward stable: |grad| <= gamma ||B||_F (||B||_F ||m||_F + ||res||_F), gamma = 100 rows cols u.
        long double nB = 0, nm = 0, nr = 0; int rows = 0, cols = 0;
        std::vector<char> inJ(N, 0);
        for (auto j = M.ptr[i]; j < M.ptr[i + 1]; ++j) { int cc = (int)M.col[j]; cols += bs;
            for (int k = 0; k < bs; ++k) for (int l = 0; l < N; ++l) { long double v = ldq(c.Aq(cc * bs + k, l)); nB += v * v; if (v != 0) inJ[l] = 1; }
            for (int k = 0; k < bs; ++k) for (int l = 0; l < bs; ++l) { long double v = ldq(W(i * bs + k, cc * bs + l)); nm += v * v; } }
        for (int l = 0; l < N; ++l) rows += inJ[l];
        for (int k = 0; k < bs; ++k) for (int l = 0; l < N; ++l) { long double v = ldq(Res(i * bs + k, l)); nr += v * v; }
        nB = sqrtl(nB); nm = sqrtl(nm); nr = sqrtl(nr);
        long double tol = 100.0L * rows * cols * U * nB * (nB * nm + nr);
        for (auto j = M.ptr[i]; j < M.ptr[i + 1]; ++j) { int cc = (int)M.col[j];
            for (auto &g : G) {
                Q s = 0;
                for (int k = 0; k < bs; ++k) for (int k2 = 0; k2 < bs; ++k2) { if (g(k, k2) == 0) continue; for (int l = 0; l < N; ++l) s += Res(i * bs + k, l) * g(k, k2) * c.Aq(cc * bs + k2, l); }
                if (fabsl(ldq(s)) > tol) { vf::fail("spai1.least_squares" + sfx, c.key, vf::KS() << "row " << i << ": gradient " << dq(s) << " in direction of entry (" << i << "," << cc << ") exceeds " << (double)tol << "; M=" << show(W) << " " << c.at()); return; }
            }
        }
    }
    vf::count(std::string("spai1_minimiser_ok_") + VT<V>::name());
    check_sweeps(c, "spai1.sweep_uses_M", "", r, W, absm(W), W, absm(W), true);
}

// ---- ILU in floating point --------------------------------------------------------------------------------
template <class V> struct Fac { QM Lt, Ut, LtI, UtI; Pat pat; bool ok = false; std::string err; long double kappa = 1; };

template <class V, class ILU> static Fac<V> read_factors(const Case<V> &c, const ILU &r) {
    const int n = c.n, bs = Case<V>::bs, N = c.N;
    Fac<V> F; F.Lt = QM::eye(N); F.Ut = QM(N, N); F.pat.assign(n * n, 0);
    auto &s = *r.ilu;
    if (!s.L || !s.U || !s.D) { F.err = "serial factors not available"; return F; }
    for (int i = 0; i < n; ++i) {
        for (auto j = s.L->ptr[i]; j < s.L->ptr[i + 1]; ++j) { int cj = (int)s.L->col[j]; if (cj >= i || cj < 0 || F.pat[i * n + cj]) { F.err = "L malformed"; return F; } F.pat[i * n + cj] = 1; put(F.Lt, i, cj, embed_val<V>(s.L->val[j])); }
        for (auto j = s.U->ptr[i]; j < s.U->ptr[i + 1]; ++j) { int cj = (int)s.U->col[j]; if (cj <= i || cj >= n || F.pat[i * n + cj]) { F.err = "U malformed"; return F; } F.pat[i * n + cj] = 1; put(F.Ut, i, cj, embed_val<V>(s.U->val[j])); }
        QM d = embed_val<V>((*s.D)[i]), di;
        if (!inverse(d, di)) { F.err = "stored inverse pivot is singular"; return F; }
        long double nd = 0, ndi = 0; for (auto &q : d.a) nd = std::max(nd, fabsl(ldq(q))); for (auto &q : di.a) ndi = std::max(ndi, fabsl(ldq(q)));
        F.kappa = std::max(F.kappa, (long double)bs * bs * nd * ndi);
        F.pat[i * n + i] = 1; put(F.Ut, i, i, di);
    }
    if (!inverse(F.Lt, F.LtI) || !inverse(F.Ut, F.UtI)) { F.err = "factors singular"; return F; }
    F.ok = true; return F;
}

// identity on the admitted pattern: |(LU)_ij - a_ij| <= gamma (|L||U| + |A|)_ij  (backward error of the elimination recurrence)
template <class V, class ILU>
static void check_ilu(const Case<V> &c, const std::string &name, typename ILU::params prm, const Pat *admitted, const std::string &variant, bool expect_complete) {
    const int n = c.n, bs = Case<V>::bs, N = c.N;
    std::string sfx = std::string(".") + VT<V>::name(), at = variant + " " + c.at();
    Fac<V> F; QM W, Wa;
    bool ok = with_threads(1, [&] {
        prm.solve.serial = true;
        try {
            ILU r(*c.Ac, prm, typename backend::builtin<V>::params());
            F = read_factors<V>(c, r);
            if (!F.ok) { vf::fail(name + ".factors_malformed" + sfx, c.key, F.err + " " + at); return false; }
            QM LU = F.Lt * F.Ut, LUa = absm(F.Lt) * absm(F.Ut);
            long double g = K(N) * F.kappa;
            for (int i = 0; i < N; ++i) for (int j = 0; j < N; ++j) {
                int I = i / bs, J = j / bs;
                bool in = admitted ? (*admitted)[I * n + J] : false;     // no admitted pattern (ILUT): identity only claimed when nothing is dropped
                if (admitted && F.pat[I * n + J] && !in) { vf::fail(name + ".entry_outside_admitted_pattern" + sfx, c.key, at); return false; }
                if (!(in || expect_complete)) continue;
                long double err = fabsl(ldq(LU(i, j) - c.Aq(i, j))), tol = g * ldq(LUa(i, j) + c.Aabs(i, j));
                if (!(err <= tol)) { vf::fail(name + (in ? ".identity_on_pattern" : ".exact_when_no_fill_dropped") + sfx, c.key, vf::KS() << "(LU)(" << i << "," << j << ") = " << dq(LU(i, j)) << " a = " << dq(c.Aq(i, j)) << " bound " << (double)tol << " " << at); return false; }
            }
            vf::count("ilu_identity_checked" + sfx);
            // sweep: x + damping U^-1 L^-1 (f - A x); error of the two substitutions: |U^-1|(|U||z| + |L^-1||L||y|) <= Wabs (|r|)
            QM LUinv = F.UtI * F.LtI;
            W = scaled(LUinv, Q(prm.damping));
            Wa = absm(F.UtI) * (absm(F.Ut) * absm(LUinv) + absm(F.LtI) * absm(F.Lt) * absm(F.LtI));
            if (!check_sweeps(c, name + ".serial", variant, r, W, Wa, W, Wa, false, F.kappa)) return false;
        } catch (const std::exception &e) { vf::fail(name + ".unexpected_exception" + sfx, c.key, std::string(e.what()) + " " + at); return false; }
        return true;
    });
    if (!ok) return;
    for (int nt : {4, 5, 8}) with_threads(nt, [&] {
        prm.solve.serial = false;
        try {
            ILU r(*c.Ac, prm, typename backend::builtin<V>::params());
            if (!check_sweeps(c, name + ".parallel", vf::KS() << variant << " threads=" << nt, r, W, Wa, W, Wa, false, F.kappa)) return 0;
            if (vs::trace().teams > 0) vf::count("ilu_parallel_path_runs"); else vf::fail(name + ".parallel.path_not_taken", c.key, "no team");
        } catch (const std::exception &e) { vf::fail(name + ".parallel.unexpected_exception" + sfx, c.key, std::string(e.what()) + " " + at); }
        return 0;
    });
}

template <class V> static void check_ilus(const Case<V> &c) {
    typedef typename Case<V>::Bk Bk; const int n = c.n;
    Pat P0 = pattern_of(c.A), fill = full_fill(P0, n);
    bool nofill = (fill == P0);
    {
        typename relaxation::ilu0<Bk>::params p; p.damping = 1;
        check_ilu<V, relaxation::ilu0<Bk>>(c, "ilu0", p, &P0, "damping=1", nofill);
        if (nofill) vf::count("ilu0_exact_cases");
    }
}

static void check_ilus_double(const Case<double> &c) {
    typedef backend::builtin<double> Bk; const int n = c.n;
    Pat P0 = pattern_of(c.A), fill = full_fill(P0, n);
    { relaxation::iluk<Bk>::params p; p.k = 1; p.damping = 0.5; Pat P1 = iluk_pattern(P0, n, 1); check_ilu<double, relaxation::iluk<Bk>>(c, "iluk", p, &P1, "k=1 damping=0.5", subset(fill, P1)); }
    {
        struct Adaptor : relaxation::ilup<Bk> {
            std::shared_ptr< relaxation::detail::ilu_solve<Bk> > ilu;
            Adaptor(const Bk::matrix &A, const relaxation::ilup<Bk>::params &p, const Bk::params &bp) : relaxation::ilup<Bk>(A, p, bp) { ilu = this->base->ilu; }
        };
        relaxation::ilup<Bk>::params p; p.k = 1; Pat P1 = ilup_pattern(P0, n, 1);
        check_ilu<double, Adaptor>(c, "ilup", p, &P1, "k=1", subset(fill, P1));
    }
    {   // ILUT(2, 0.01): the factors it holds define the sweep; complete (exact inverse up to rounding) when elimination creates no
        // fill and no entry of the exact factors is anywhere near the dropping threshold (margin: 0.05 * 1-norm of the row, which is
        // above both the documented tau * ||a_i||_2 and the implemented tau * ||a_i||_1 / nnz).
        bool complete = (fill == P0);
        if (complete) {
            QM Lx = QM::eye(n), Ux = c.Aq;      // exact Doolittle factors
            for (int t = 0; t < n; ++t) for (int i = t + 1; i < n; ++i) if (!(Ux(i, t) == 0)) { Q m = Ux(i, t) / Ux(t, t); Lx(i, t) = m; for (int j = t; j < n; ++j) Ux(i, j) -= m * Ux(t, j); }
            for (int i = 0; i < n && complete; ++i) {
                long double n1 = 0; for (int j = 0; j < n; ++j) n1 += fabsl(ldq(c.Aq(i, j)));
                for (int j = 0; j < n; ++j) { Q v = j < i ? Lx(i, j) : Ux(i, j); if (j != i && !(v == 0) && fabsl(ldq(v)) < 0.05L * n1) complete = false; }
            }
        }
        relaxation::ilut<Bk>::params p;
        check_ilu<double, relaxation::ilut<Bk>>(c, "ilut", p, nullptr, vf::KS() << "p=2 tau=0.01" << (complete ? " (no fill, nothing near threshold)" : ""), complete);
        if (complete) vf::count("ilut_complete_cases");
    }
    // Chebyshev: the interval the polynomial is built for.  hi = spectral radius bound the library computes (Gershgorin or
    // power iteration), lo = hi * lower, hi *= higher, d = (hi+lo)/2, c = (hi-lo)/2  -- three roundings each.
    for (int scale = 0; scale < 2; ++scale) for (int iters : {0, 3}) {
        relaxation::chebyshev<Bk>::params p; p.scale = scale; p.power_iters = iters; p.degree = 3; p.higher = 1.25f;
        relaxation::chebyshev<Bk> r(*c.Ac, p, Bk::params());
        double hi = scale ? backend::spectral_radius<true>(*c.Ac, iters) : backend::spectral_radius<false>(*c.Ac, iters);
        long double lo = (long double)hi * p.lower, h2 = (long double)hi * p.higher;
        long double d = (h2 + lo) / 2, cc = (h2 - lo) / 2;
        if (fabsl(r.d - d) > 4 * U * fabsl(d) || fabsl(r.c - cc) > 4 * U * (fabsl(h2) + fabsl(lo)))
            vf::fail("chebyshev.interval", c.key, vf::KS() << "scale=" << scale << " power_iters=" << iters << " d=" << r.d << " c=" << r.c << " expected " << (double)d << " " << (double)cc << " " << c.at());
        if (iters == 0) {   // Gershgorin value itself
            long double g = 0; for (int i = 0; i < n; ++i) { long double s = 0; for (int j = 0; j < n; ++j) s += fabsl(ldq(c.Aq(i, j))); if (scale) s /= fabsl(ldq(c.Aq(i, i))); g = std::max(g, s); }
            if (fabsl(hi - g) > 4 * U * g) vf::fail("chebyshev.gershgorin", c.key, vf::KS() << "hi=" << hi << " expected " << (double)g << " " << c.at());
        }
        vf::count("chebyshev_interval_checks");
    }
}

template <class V> static void run_type(const std::string &key, int n, uint64_t mask) {
    for (int rule = 0; rule < 3; ++rule) {
        Case<V> c(key, n, rule, make_imat(n, mask, rule));
        build(c);
        check_simple(c);
        check_ilus(c);
        if (mask) vf::nontrivial(vf::hstr(vf::KS() << key << "|" << rule << "|" << VT<V>::name()));
        vf::count(std::string("matrices_") + VT<V>::name());
    }
}

static void run_case(const std::string &key, int n, uint64_t mask, bool all_types) {
    run_type<double>(key, n, mask);
    for (int rule = 0; rule < 3; ++rule) {
        Case<double> c(key, n, rule, make_imat(n, mask, rule));
        build(c);
        check_spai1(c);
        check_ilus_double(c);
    }
    if (all_types) {
        run_type<Cx>(key, n, mask);
        run_type<B2>(key, n, mask);
        for (int rule = 0; rule < 3; ++rule) { Case<Cx> c(key, n, rule, make_imat(n, mask, rule)); build(c); check_spai1(c); }
    }
}

int main(int argc, char **argv) {
    vf::init(argc, argv, "C06");
    if (vf::section("fp")) {
        for (int n = 1; n <= 4; ++n) {
            bool all_types = n <= 3 || vf::thorough();
            for (uint64_t mask = 0; mask < (1ull << (n * (n - 1))); ++mask) {
                std::string key;
                if (!vf::take([&]{ return key = (vf::KS() << "fp|" << n << "|" << mask).str(); })) continue;
                if (key.empty()) key = vf::KS() << "fp|" << n << "|" << mask;
                run_case(key, n, mask, all_types);
            }
            vf::space(vf::KS() << "floating point: all 2^" << n * (n - 1) << " off-diagonal patterns with full diagonal, n=" << n << ", x 3 value rules, value types double" << (all_types ? ", complex (Gaussian integers, non-real diagonal), 2x2 integer blocks" : "")
                << " x {jacobi; gauss_seidel serial + parallel(4,5,8); spai0; spai1; ilu0 serial + parallel; double also iluk(1), ilup(1), ilut(2,0.01), chebyshev interval}");
        }
        if (vf::thorough()) {
            const int n = 5, maxoff = 6;
            for (uint64_t mask = 0; mask < (1ull << 20); ++mask) {
                if (popc(mask) > maxoff) continue;
                std::string key;
                if (!vf::take([&]{ return key = (vf::KS() << "fp|" << n << "|" << mask).str(); })) continue;
                if (key.empty()) key = vf::KS() << "fp|" << n << "|" << mask;
                run_case(key, n, mask, false);
            }
            vf::space(vf::KS() << "floating point (double): all n=5 patterns with at most " << maxoff << " off-diagonal entries x 3 value rules");
        }
    }
    return vf::finish();
}
