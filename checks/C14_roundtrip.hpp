// C14_roundtrip.hpp -- import -> field has the value -> export -> equals input, for one parameter
// structure S and every value field reachable from it (own fields and fields of nested
// children, addressed by their dotted path).  Used by C14_params.cpp and by the run-time
// compiled probe program C14_probe.cpp.
#ifndef VERIF_C14_ROUNDTRIP_HPP
#define VERIF_C14_ROUNDTRIP_HPP
#include "C14_common.hpp"
#include <functional>

namespace c14 {

struct Report {
    virtual void fail(const std::string &sub, const std::string &detail) = 0;
    virtual void count(const std::string &name, long long n = 1) = 0;
    virtual ~Report() {}
};

// keys without which the property-tree constructor of a structure refuses to run
inline ptree base_tree(const std::string &sid) {
    ptree p;
    if (sid == "preconditioner_schur_pressure_correction" || sid == "mpi_schur_pressure_correction") {
        p.put("pmask_size", 4);
        p.put("pmask_pattern", "%1:2");
    }
#ifdef C14_WITH_MPI
    if (sid == "mpi_subdomain_deflation") {
        // the constructor demands the deflation-vector callback; the default constructor leaves num_def_vec unset
        static std::function<double(ptrdiff_t, unsigned)> fn = [](ptrdiff_t i, unsigned j) { return 1.0 + i + 100.0 * j; };
        p.put("def_vec", (void*)&fn);
        p.put("num_def_vec", 1);
    }
#endif
    return p;
}

template <class S, bool DoExport = true>
struct RoundTrip {
    Report &R;
    std::string sid;
    ptree base;
    bool extra = false;       // boundary values as well
    // DoExport == false: S::get() is never instantiated (it is known not to compile on the tree as first
    // measured; the run-time compiled probe program covers it instead)
    std::vector<std::string> irregular;     // "name kind" rows the generic scheme does not handle
    std::vector<std::string> ignored_keys;  // keys accepted by check_params that are neither members nor imported
    std::vector<std::string> levels;        // prefixes of all nesting levels ("" = the structure itself)
    long long leaves = 0;

    RoundTrip(Report &R, const std::string &sid) : R(R), sid(sid), base(base_tree(sid)) {}

    template <class Acc, class T>
    void value_case(const std::string &path, Acc acc, const Meta &m, const T &v) {
        std::string tag = sid + ":" + path + "=" + show(v);
        ptree p = base;
        p.put(path, v);
        std::string text_in = p.get<std::string>(path);
        unknown_log().clear();
        try {
            S s(p);
            R.count("import_cases");
            const T &got = acc(s);
            if (!same_bits(got, v)) {
                R.fail("import.field_value", tag + ": after params(ptree) the member holds " + show(got)
                        + (m.imported() ? "" : " (the member is in no import list)"));
                return;
            }
            if (!unknown_log().empty())
                R.fail("unknown.false_report", tag + ": key was imported but also reported as unknown: " + unknown_log()[0]);
            if constexpr (DoExport) {
            ptree e;
            s.get(e, "");
            R.count("export_cases");
            auto o = e.get_optional<std::string>(path);
            if (!o) { R.fail("export.missing", tag + ": exported tree has no such key; exported " + dump(e)); return; }
            if (*o != text_in) R.fail("export.equals_input", tag + ": exported text '" + *o + "' != imported text '" + text_in + "'");
            auto t = e.get_optional<T>(path);
            if (!t || !same_bits(*t, v)) R.fail("export.equals_input", tag + ": exported value does not read back as the input");
            // every other exported leaf equals the leaf exported by the structure built from the base tree
            ptree e0; { S s0(base); s0.get(e0, ""); }
            std::vector<std::pair<std::string, std::string>> l1, l0;
            c14::leaves(e, "", l1); c14::leaves(e0, "", l0);
            if (l1.size() != l0.size()) R.fail("export.other_keys_changed", tag + ": number of exported leaves changed: " + dump(e0) + " -> " + dump(e));
            else for (size_t i = 0; i < l1.size(); ++i) {
                if (l1[i].first != l0[i].first || (l1[i].first != path && l1[i].second != l0[i].second)) {
                    R.fail("export.other_keys_changed", tag + ": leaf " + l0[i].first + "=" + l0[i].second + " became " + l1[i].first + "=" + l1[i].second);
                    break;
                }
            }
            // export -> import is the identity too (keys the exporter never writes are taken from the base tree)
            ptree e2 = e;
            for (auto &kv : base) if (!e2.count(kv.first)) e2.add_child(kv.first, kv.second);
            unknown_log().clear();
            S s2(e2);
            if (!same_bits(acc(s2), v)) R.fail("export.reimport", tag + ": re-importing the exported tree gives " + show(acc(s2)));
            if (!unknown_log().empty()) R.fail("unknown.false_report", tag + ": re-importing the exported tree reports unknown key " + unknown_log()[0]);
            }
        } catch (const std::exception &ex) {
            R.fail("import.exception", tag + ": " + ex.what());
        }
    }

    void invalid_enum_case(const std::string &path) {
        ptree p = base;
        p.put(path, "c14_bogus");
        try { S s(p); R.fail("enum.invalid_accepted", sid + ":" + path + "=c14_bogus was accepted by params(ptree)"); }
        catch (const std::exception &) { R.count("invalid_enum_in_struct_cases"); }
    }

    template <class Acc>
    struct Level {
        RoundTrip &rt; Acc acc; std::string prefix;
        template <class FA> void value(FA fa, const Meta &m) {
            auto full = [a = acc, fa](S &s) -> decltype(auto) { return fa(a(s)); };
            typedef typename std::decay<decltype(full(std::declval<S&>()))>::type T;
            std::string path = prefix + m.name;
            // nullspace.cols cannot be set without B (constructor precondition): part of the hand-written pointer cases
            if (std::string(m.sid) == "coarsening_tentative_prolongation_nullspace_params") { rt.irregular.push_back(path + " VALUE " + m.sid); return; }
            T d;
            try { S s0(rt.base); d = full(s0); }
            catch (const std::exception &ex) { rt.R.fail("import.exception", rt.sid + ": base tree rejected: " + ex.what()); return; }
            ++rt.leaves;
            auto vals = Values<T>::get(d, m.name, rt.extra);
            if (vals.empty()) rt.R.fail("harness.no_values", rt.sid + ":" + path);
            for (const T &v : vals) rt.value_case(path, full, m, v);
            if constexpr (std::is_enum<T>::value) rt.invalid_enum_case(path);
        }
        template <class FA> void child(FA fa, const Meta &m) {
            typedef typename std::decay<decltype(fa(acc(std::declval<S&>())))>::type CT;
            auto a2 = [a = acc, fa](S &s) -> CT& { return fa(a(s)); };
            Level<decltype(a2)> sub{rt, a2, prefix + m.name + "."};
            rt.levels.push_back(sub.prefix);
            CT tmp;
            c14_fields(tmp, sub);
        }
        template <class FA> void pointer(FA, const Meta &m) { rt.irregular.push_back(prefix + m.name + " POINTER " + m.sid); }
        template <class FA> void vector(FA, const Meta &m)  { rt.irregular.push_back(prefix + m.name + " VECTOR " + m.sid); }
        void key(const Meta &m) {
            if (m.imp_is("none")) rt.ignored_keys.push_back(prefix + m.name);
            else rt.irregular.push_back(prefix + m.name + " KEY " + m.sid);
        }
        void unparsed(const char *id, const char *text) { rt.R.fail("table.unparsed_member", std::string(id) + ": " + text); }
    };

    // unknown key at every nesting level of typed structures
    void unknown_keys() {
        for (const std::string &pre : levels) {
            ptree p = base;
            p.put(pre + "c14_no_such_key", 1);
            unknown_log().clear();
            try {
                S s(p);
                R.count("unknown_key_cases");
                // levels that are property trees (run-time wrappers) only see their keys when the component is
                // constructed; those are exercised by the component-level unknown-key check
                // a derived structure may report the key once per check_params call (base and derived): >= 1 report,
                // and nothing but this key
                bool only_this = !unknown_log().empty();
                for (auto &u : unknown_log()) only_this &= (u == "c14_no_such_key");
                if (only_this) continue;
                if (unknown_log().empty() && is_ptree_level(pre)) { R.count("unknown_key_at_ptree_level_deferred"); continue; }
                R.fail("unknown.not_reported", sid + ": key '" + pre + "c14_no_such_key' -> hook saw [" + join(unknown_log()) + "]");
            } catch (const std::exception &ex) {
                R.fail("import.exception", sid + ": unknown key " + pre + ": " + ex.what());
            }
        }
    }
    std::set<std::string> ptree_levels;
    bool is_ptree_level(const std::string &pre) const {
        for (auto &q : ptree_levels) if (pre.compare(0, q.size(), q) == 0) return true;
        return false;
    }
    static std::string join(const std::vector<std::string> &v) { std::string s; for (auto &x : v) s += (s.empty() ? "" : ",") + x; return s; }

    void run() {
        auto id = [](S &s) -> S& { return s; };
        Level<decltype(id)> top{*this, id, ""};
        levels.push_back("");
        S tmp;
        c14_fields(tmp, top);
    }
};

// marks children whose C++ type is a property tree
template <class S>
struct PtreeLevels {
    std::set<std::string> out;
    template <class Acc> struct Level {
        PtreeLevels &pl; Acc acc; std::string prefix;
        template <class FA> void value(FA, const Meta &) {}
        template <class FA> void pointer(FA, const Meta &) {}
        template <class FA> void vector(FA, const Meta &) {}
        void key(const Meta &) {}
        void unparsed(const char *, const char *) {}
        template <class FA> void child(FA fa, const Meta &m) {
            typedef typename std::decay<decltype(fa(acc(std::declval<S&>())))>::type CT;
            auto a2 = [a = acc, fa](S &s) -> CT& { return fa(a(s)); };
            if (std::is_same<CT, ptree>::value) { pl.out.insert(prefix + m.name + "."); return; }
            Level<decltype(a2)> sub{pl, a2, prefix + m.name + "."};
            CT tmp; c14_fields(tmp, sub);
        }
    };
    void run() { auto id = [](S &s) -> S& { return s; }; Level<decltype(id)> top{*this, id, ""}; S tmp; c14_fields(tmp, top); }
};

template <class S, bool DoExport = true>
inline void roundtrip_struct(Report &R, const std::string &sid, bool extra,
        std::vector<std::string> *irregular = nullptr, std::vector<std::string> *ignored = nullptr)
{
    RoundTrip<S, DoExport> rt(R, sid);
    rt.extra = extra;
    PtreeLevels<S> pl; pl.run(); rt.ptree_levels = pl.out;
    rt.run();
    rt.unknown_keys();
    R.count("value_leaves", rt.leaves);
    R.count("nesting_levels", (long long)rt.levels.size());
    if (irregular) *irregular = rt.irregular;
    if (ignored) *ignored = rt.ignored_keys;
    // default export -> import is silent and reproduces the export
    if constexpr (DoExport) {
        try {
            S s0(rt.base); ptree e; s0.get(e, "");
            for (auto &kv : rt.base) if (!e.count(kv.first)) e.add_child(kv.first, kv.second);
            unknown_log().clear();
            S s1(e); ptree e1; s1.get(e1, "");
            for (auto &kv : rt.base) if (!e1.count(kv.first)) e1.add_child(kv.first, kv.second);
            if (!unknown_log().empty()) R.fail("unknown.false_report", sid + ": importing the default export reports unknown key " + unknown_log()[0]);
            if (dump(e) != dump(e1)) R.fail("export.reimport", sid + ": export(import(export(default))) differs: " + dump(e) + " vs " + dump(e1));
        } catch (const std::exception &ex) {
            R.fail("import.exception", sid + ": default export could not be imported: " + ex.what());
        }
    }
}

} // namespace c14
#endif
